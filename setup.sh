#!/usr/bin/env bash
# Run once after a fresh restore, offline: warm the go build cache for every harness binary.
set -u
cd "$(dirname "$0")"
export GOFLAGS=-mod=mod GOPROXY=off
mkdir -p .build evidence replays
python3 tools/overlay.py .build/overlay.setup.json || exit 1
rc=0
for p in github.com/scigolib/hdf5 github.com/scigolib/hdf5/internal/core github.com/scigolib/hdf5/internal/structures github.com/scigolib/hdf5/internal/writer github.com/scigolib/hdf5/internal/rebalancing; do
  (cd /repo && go test -c -tags verif -overlay /verif/.build/overlay.setup.json -vet=off -o /verif/.build/setup.test "$p") || { echo "setup: build of $p failed"; rc=1; }
done
# C18: instrumented sources (scheduler build), plain and -race
if VERIF_SCHED=1 python3 tools/overlay.py .build/overlay.setup.json 2>/dev/null; then
  for p in github.com/scigolib/hdf5 github.com/scigolib/hdf5/internal/structures github.com/scigolib/hdf5/internal/rebalancing; do
    for flag in "" "-race"; do
      (cd /repo && go test -c $flag -tags verif -overlay /verif/.build/overlay.setup.json -vet=off -o /verif/.build/setup.test "$p") || { echo "setup: scheduler build of $p ($flag) failed"; rc=1; }
    done
  done
else
  echo "setup: scheduler overlay generation failed"; rc=1
fi
rm -f .build/setup.test .build/overlay.setup.json
exit $rc
