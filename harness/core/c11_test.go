//go:build verif

package core

import (
	"bytes"
	"encoding/binary"
	"fmt"
	"io"
	"regexp"
	"strings"
	"testing"

	"github.com/scigolib/hdf5/internal/verif/vkit"
)

// C11 — every metadata encoder is inverted by its decoder.
//
// For every encoder/decoder pair of internal/core the explicit grids of DESIGN.md §5 C11 are
// enumerated completely. Oracle per value v:
//   (a) Decode(Encode(v)) equals v on every field both sides define,
//   (b) Encode(v) twice gives identical bytes,
//   (c) Encode(Decode(Encode(v))) == Encode(v).
// A value the encoder rejects with an error is outside "well-formed": counted as skipped.
// Every case runs under r.Guard: a panic is a failing case, not a crashed process.
//
// Metadata is little-endian (the library never writes anything else); Superblock.Endianness
// is binary.LittleEndian in every grid.

const vfC11Undef = ^uint64(0)

var vfC11Addr = []uint64{0, 48, 96, 1 << 32, 1<<63 - 1}

// vfC11Mem is an in-memory io.WriterAt/io.ReaderAt with os.File semantics (gaps are
// zero-filled, short reads return io.EOF).
type vfC11Mem struct{ b []byte }

func (m *vfC11Mem) WriteAt(p []byte, off int64) (int, error) {
	if off < 0 {
		return 0, fmt.Errorf("negative offset")
	}
	end := int(off) + len(p)
	if end > len(m.b) {
		m.b = append(m.b, make([]byte, end-len(m.b))...)
	}
	copy(m.b[off:], p)
	return len(p), nil
}

func (m *vfC11Mem) ReadAt(p []byte, off int64) (int, error) {
	if off < 0 || off >= int64(len(m.b)) {
		return 0, io.EOF
	}
	n := copy(p, m.b[off:])
	if n < len(p) {
		return n, io.EOF
	}
	return n, nil
}

var vfC11reNum = regexp.MustCompile(`[0-9]+`)

func vfC11Norm(err error) string {
	s := vfC11reNum.ReplaceAllString(err.Error(), "N")
	if len(s) > 90 {
		s = s[:90]
	}
	return s
}

// vfC11Ctx carries the run plus per-pair counters.
type vfC11Ctx struct {
	r       *vkit.Run
	pair    string
	full    int // tuples/vectors are enumerated completely up to this length (+tier)
	total   int64
	nontriv int64
	cases   map[string]int64
	skipped map[string]int64
	failed  map[string]int64
}

func (c *vfC11Ctx) begin(pair string) { c.pair = pair }

// one runs one case of the current pair under Guard. f returns skip=true when the encoder
// rejected the value.
func (c *vfC11Ctx) one(key string, detail any, f func() (skip bool)) {
	// every case of a grid is a distinct input by construction (nested loops over listed
	// values), so cases are counted in bulk instead of keeping millions of key strings
	_ = key
	c.cases[c.pair]++
	c.total++
	skip := false
	c.r.Guard(c.pair+"/", detail, func() { skip = f() })
	if skip {
		c.skipped[c.pair]++
		return
	}
	c.nontriv++
}

func (c *vfC11Ctx) fail(what string, detail any) {
	c.failed[c.pair]++
	c.r.Outcome(c.pair + "/" + what)
	c.r.Fail(c.pair+"/"+what, detail)
}

func vfC11SB(version, off, length uint8) *Superblock {
	return &Superblock{Version: version, OffsetSize: off, LengthSize: length, Endianness: binary.LittleEndian}
}

func vfC11EqU64s(a, b []uint64) bool {
	if len(a) != len(b) {
		return false
	}
	for i := range a {
		if a[i] != b[i] {
			return false
		}
	}
	return true
}

func vfC11Name(n int) string {
	b := make([]byte, n)
	for i := range b {
		b[i] = 'a' + byte(i%26)
	}
	return string(b)
}

// ---------------------------------------------------------------- superblock

func vfC11Superblock(c *vfC11Ctx) {
	for _, ver := range []uint8{0, 1, 2, 3, 4} {
		c.begin(fmt.Sprintf("superblock-v%d", ver))
		for _, sizes := range [][2]uint8{{8, 8}, {4, 4}, {8, 4}} {
			for _, root := range vfC11Addr {
				for _, eof := range vfC11Addr {
					for _, base := range vfC11Addr {
						type extra struct{ a, b uint64 }
						var extras []extra
						if ver == 0 {
							extras = []extra{{0, 0}, {136, 680}, {1 << 32, 1<<63 - 1}}
						} else {
							extras = []extra{{0, 0}, {48, 0}, {vfC11Undef, 0}}
						}
						for _, ex := range extras {
							sb := &Superblock{Version: ver, OffsetSize: sizes[0], LengthSize: sizes[1], BaseAddress: base,
								RootGroup: root, Endianness: binary.LittleEndian}
							if ver == 0 {
								sb.RootBTreeAddr, sb.RootHeapAddr = ex.a, ex.b
							} else {
								sb.SuperExtension = ex.a
							}
							det := map[string]any{"version": ver, "offset_size": sizes[0], "length_size": sizes[1], "root": root, "eof": eof, "base": base, "extra": []uint64{ex.a, ex.b}}
							key := fmt.Sprint(sizes, root, eof, base, ex)
							c.one(key, det, func() bool {
								m := &vfC11Mem{}
								if err := sb.WriteTo(m, eof); err != nil {
									return true
								}
								m2 := &vfC11Mem{}
								_ = sb.WriteTo(m2, eof)
								if !bytes.Equal(m.b, m2.b) {
									c.fail("encode-not-deterministic", det)
								}
								got, err := ReadSuperblock(m)
								if err != nil {
									c.fail("read-error/"+vfC11Norm(err), det)
									return false
								}
								var diff []string
								if got.Version != sb.Version {
									diff = append(diff, "Version")
								}
								if got.OffsetSize != sb.OffsetSize {
									diff = append(diff, "OffsetSize")
								}
								if got.LengthSize != sb.LengthSize {
									diff = append(diff, "LengthSize")
								}
								if got.RootGroup != sb.RootGroup {
									diff = append(diff, "RootGroup")
								}
								if got.BaseAddress != sb.BaseAddress {
									diff = append(diff, "BaseAddress")
								}
								if got.Endianness != binary.LittleEndian {
									diff = append(diff, "Endianness")
								}
								if ver == 0 {
									if got.RootBTreeAddr != sb.RootBTreeAddr {
										diff = append(diff, "RootBTreeAddr")
									}
									if got.RootHeapAddr != sb.RootHeapAddr {
										diff = append(diff, "RootHeapAddr")
									}
								} else {
									// 0 and UNDEF both mean "no extension" (writer maps 0 to UNDEF)
									n := func(x uint64) uint64 {
										if x == 0 {
											return vfC11Undef
										}
										return x
									}
									if n(got.SuperExtension) != n(sb.SuperExtension) {
										diff = append(diff, "SuperExtension")
									}
								}
								for _, d := range diff {
									c.fail(d+"-differs", det)
								}
								m3 := &vfC11Mem{}
								if err := got.WriteTo(m3, eof); err != nil {
									c.fail("re-encode-error/"+vfC11Norm(err), det)
								} else if !bytes.Equal(m3.b, m.b) && len(diff) == 0 {
									c.fail("re-encode-differs", det)
								}
								return false
							})
						}
					}
				}
			}
		}
	}
}

// ---------------------------------------------------------------- object headers

// vfC11SizeTuples enumerates message-size tuples: all tuples over alphabet for n <= full,
// above that the constant tuples and every tuple that differs from a constant one in one place.
func vfC11SizeTuples(n int, alphabet []int, full int) [][]int {
	var out [][]int
	if n <= full {
		var rec func(cur []int)
		rec = func(cur []int) {
			if len(cur) == n {
				out = append(out, append([]int(nil), cur...))
				return
			}
			for _, a := range alphabet {
				rec(append(cur, a))
			}
		}
		rec(nil)
		return out
	}
	for _, a := range alphabet {
		base := make([]int, n)
		for i := range base {
			base[i] = a
		}
		out = append(out, append([]int(nil), base...))
		for pos := 0; pos < n; pos++ {
			for _, b := range alphabet {
				if b == a {
					continue
				}
				t := append([]int(nil), base...)
				t[pos] = b
				out = append(out, t)
			}
		}
	}
	return out
}

var vfC11MsgTypes = []MessageType{MsgDataspace, MsgDatatype, MsgDataLayout, MsgFillValue, MsgSymbolTable, MsgFilterPipeline}

func vfC11Msgs(sizes []int) []MessageWriter {
	ms := make([]MessageWriter, len(sizes))
	for i, s := range sizes {
		d := make([]byte, s)
		for j := range d {
			d[j] = byte(0x40 + i*16 + j%13)
		}
		ms[i] = MessageWriter{Type: vfC11MsgTypes[i%len(vfC11MsgTypes)], Data: d}
	}
	return ms
}

// vfC11CmpMsgs classifies the difference between written and read messages.
func vfC11CmpMsgs(want []MessageWriter, got []*HeaderMessage) string {
	same := func(w []MessageWriter) string {
		if len(w) != len(got) {
			return "count"
		}
		for i := range w {
			if got[i].Type != w[i].Type {
				return "message-type-differs"
			}
			if !bytes.Equal(got[i].Data, w[i].Data) {
				return "message-data-differs"
			}
		}
		return ""
	}
	d := same(want)
	if d != "count" {
		return d
	}
	var nz []MessageWriter
	for _, w := range want {
		if len(w.Data) > 0 {
			nz = append(nz, w)
		}
	}
	if len(nz) != len(want) && same(nz) == "" {
		return "zero-size-messages-dropped"
	}
	if len(got) < len(want) {
		// prefix?
		if same(want[:len(got)]) == "" {
			return "trailing-messages-dropped"
		}
		return "messages-dropped"
	}
	return "extra-messages"
}

func vfC11ObjectHeaderV2(c *vfC11Ctx) {
	sb := vfC11SB(2, 8, 8)
	const addr = 64
	c.begin("ohdr-v2")
	for _, flags := range []uint8{0x00, 0x01, 0x02, 0x03, 0x04, 0x08, 0x10, 0x20} {
		// flag bits that change the layout of the header; the writer stores them but always
		// writes the flags==0 layout
		fclass := ""
		switch {
		case flags&0x03 != 0:
			fclass = "layout-flag-chunk0-size-bits/"
		case flags&0x04 != 0:
			fclass = "layout-flag-attr-creation-order-tracked/"
		case flags&0x10 != 0:
			fclass = "layout-flag-attr-phase-change/"
		case flags&0x20 != 0:
			fclass = "layout-flag-times/"
		}
		for n := 0; n <= 6; n++ {
			tuples := vfC11SizeTuples(n, []int{0, 1, 7, 8, 9, -1}, 4+c.full)
			if n >= 1 && n <= 2 {
				// around the limit of the one-byte chunk size: chunks of exactly 253, 254, 256 and
				// 257 bytes (-1 above fills to 255); the encoder must refuse what it cannot describe
				for _, marker := range []int{-2, -3, -4, -5} {
					tuples = append(tuples, vfC11SizeTuples(n, []int{0, 8, marker}, 4+c.full)...)
				}
			}
			for _, tuple := range tuples {
				// negative = "fill the chunk to exactly N bytes": -1 -> 255 (the limit), -2 -> 256,
				// -3 -> 254, -4 -> 257, -5 -> 253
				sizes := append([]int(nil), tuple...)
				used := 0
				fills := 0
				limit := 255
				for _, s := range sizes {
					if s >= 0 {
						used += 4 + s
					} else {
						fills++
						limit = map[int]int{-1: 255, -2: 256, -3: 254, -4: 257, -5: 253}[s]
					}
				}
				if fills > 0 {
					room := limit - used - 4*fills
					if room < 0 {
						room = 0
					}
					left := fills
					for i := range sizes {
						if sizes[i] >= 0 {
							continue
						}
						left--
						if left == 0 {
							sizes[i] = room // the last filler takes what is left: the chunk has exactly the wanted size
						} else {
							sizes[i] = room / fills
							room -= sizes[i]
						}
					}
				}
				det := map[string]any{"flags": flags, "message_sizes": sizes}
				c.one(fmt.Sprint(sizes), det, func() bool {
					ohw := &ObjectHeaderWriter{Version: 2, Flags: flags, Messages: vfC11Msgs(sizes)}
					m := &vfC11Mem{}
					n1, err := ohw.WriteTo(m, addr)
					if err != nil {
						return true
					}
					if n1 != ohw.Size() || int(n1) != len(m.b)-addr {
						c.fail("size-differs-from-bytes-written", det)
					}
					m2 := &vfC11Mem{}
					_, _ = ohw.WriteTo(m2, addr)
					if !bytes.Equal(m.b, m2.b) {
						c.fail("encode-not-deterministic", det)
					}
					enc := append([]byte(nil), m.b...)
					m.b = append(m.b, make([]byte, 64)...) // the file continues after the header
					oh, err := ReadObjectHeader(m, addr, sb)
					if err != nil {
						if fclass != "" {
							c.fail(fclass+"read-error", map[string]any{"case": det, "error": err.Error()})
						} else {
							c.fail("read-error/"+vfC11Norm(err), det)
						}
						return false
					}
					ok := true
					if oh.Version != 2 {
						c.fail("Version-differs", det)
						ok = false
					}
					if oh.Flags != flags {
						c.fail("Flags-differs", det)
						ok = false
					}
					if d := vfC11CmpMsgs(ohw.Messages, oh.Messages); d != "" {
						if fclass != "" && d != "zero-size-messages-dropped" {
							d = fclass + "messages-differ"
						}
						c.fail(d, det)
						ok = false
					}
					if ok {
						m3 := &vfC11Mem{}
						if err := WriteObjectHeader(m3, addr, oh, sb); err != nil {
							c.fail("re-encode-error/"+vfC11Norm(err), det)
						} else if !bytes.Equal(m3.b, enc) {
							c.fail("re-encode-differs", det)
						}
					}
					return false
				})
			}
		}
	}
}

func vfC11ObjectHeaderV1(c *vfC11Ctx) {
	sb := vfC11SB(0, 8, 8)
	const addr = 96
	c.begin("ohdr-v1")
	for _, ref := range []uint32{0, 1, 2, 1<<32 - 1} {
		for n := 0; n <= 6; n++ {
			for _, sizes := range vfC11SizeTuples(n, []int{0, 1, 7, 8, 9, 16, 24, 255}, 3+c.full) {
				det := map[string]any{"refcount": ref, "message_sizes": sizes}
				c.one(fmt.Sprint(ref, sizes), det, func() bool {
					ohw := &ObjectHeaderWriter{Version: 1, RefCount: ref, Messages: vfC11Msgs(sizes)}
					m := &vfC11Mem{}
					n1, err := ohw.WriteTo(m, addr)
					if err != nil {
						return true
					}
					if n1 != ohw.Size() || int(n1) != len(m.b)-addr {
						c.fail("size-differs-from-bytes-written", det)
					}
					m2 := &vfC11Mem{}
					_, _ = ohw.WriteTo(m2, addr)
					if !bytes.Equal(m.b, m2.b) {
						c.fail("encode-not-deterministic", det)
					}
					enc := append([]byte(nil), m.b...)
					m.b = append(m.b, make([]byte, 64)...)
					oh, err := ReadObjectHeader(m, addr, sb)
					if err != nil {
						c.fail("read-error/"+vfC11Norm(err), det)
						return false
					}
					ok := true
					if oh.Version != 1 {
						c.fail("Version-differs", det)
						ok = false
					}
					if oh.ReferenceCount != ref {
						c.fail("ReferenceCount-differs", det)
						ok = false
					}
					if d := vfC11CmpMsgs(ohw.Messages, oh.Messages); d != "" {
						// shape: is the header's own "Object Header Size" field smaller than the
						// message bytes that follow the 16-byte prefix? (read from the encoded bytes)
						if d == "trailing-messages-dropped" || d == "messages-dropped" || d == "zero-size-messages-dropped" {
							sizeField := int(binary.LittleEndian.Uint32(enc[addr+8:]))
							if sizeField < len(enc)-addr-16 {
								d += "/message-bytes-exceed-size-field"
							}
						}
						c.fail(d, det)
						ok = false
					}
					if ok {
						re := &ObjectHeaderWriter{Version: oh.Version, RefCount: oh.ReferenceCount}
						for _, hm := range oh.Messages {
							re.Messages = append(re.Messages, MessageWriter{Type: hm.Type, Data: hm.Data})
						}
						m3 := &vfC11Mem{}
						if _, err := re.WriteTo(m3, addr); err != nil {
							c.fail("re-encode-error/"+vfC11Norm(err), det)
						} else if !bytes.Equal(m3.b, enc) {
							c.fail("re-encode-differs", det)
						}
					}
					return false
				})
			}
		}
	}
}

// vfC11MessageTypeSweep: every message type code of the format (0x00..0x18; the continuation
// message 0x10 is left out: its body is an instruction to the reader, not content) is carried
// through a version 1 and a version 2 header between two other messages, with bodies of 8 and
// 16 bytes; the decoder must hand back what was written whatever the type code says.
func vfC11MessageTypeSweep(c *vfC11Ctx) {
	c.begin("ohdr-message-types")
	for _, ver := range []uint8{1, 2} {
		sb, addr := vfC11SB(2, 8, 8), 64
		if ver == 1 {
			sb, addr = vfC11SB(0, 8, 8), 96
		}
		for t := 0; t <= 0x18; t++ {
			if t == 0x10 {
				continue
			}
			for _, pos := range []int{0, 1, 2} {
				for _, size := range []int{8, 16} {
					det := map[string]any{"header_version": ver, "message_type": fmt.Sprintf("%#02x", t), "position": pos, "body_bytes": size}
					c.one(fmt.Sprint(ver, t, pos, size), det, func() bool {
						body := make([]byte, size)
						for j := range body {
							body[j] = byte(0x21 + j)
						}
						msgs := []MessageWriter{{Type: MsgDataspace, Data: []byte{2, 0, 0, 0, 0, 0, 0, 0}}, {Type: MsgDatatype, Data: []byte{0x10, 8, 0, 0, 4, 0, 0, 0}}}
						x := MessageWriter{Type: MessageType(t), Data: body}
						msgs = append(msgs[:pos], append([]MessageWriter{x}, msgs[pos:]...)...)
						ohw := &ObjectHeaderWriter{Version: ver, RefCount: 1, Messages: msgs}
						m := &vfC11Mem{}
						if _, err := ohw.WriteTo(m, uint64(addr)); err != nil {
							return true
						}
						m.b = append(m.b, make([]byte, 64)...)
						oh, err := ReadObjectHeader(m, uint64(addr), sb)
						if err != nil {
							c.fail("read-error/"+vfC11Norm(err), det)
							return false
						}
						if d := vfC11CmpMsgs(msgs, oh.Messages); d != "" {
							c.fail(d, det)
						}
						return false
					})
				}
			}
		}
	}
}

// ---------------------------------------------------------------- dataspace

func vfC11DimVectors(rank int, vals []uint64, full int) [][]uint64 {
	var out [][]uint64
	if rank == 0 {
		return [][]uint64{{}}
	}
	if rank <= full {
		var rec func(cur []uint64)
		rec = func(cur []uint64) {
			if len(cur) == rank {
				out = append(out, append([]uint64(nil), cur...))
				return
			}
			for _, v := range vals {
				rec(append(cur, v))
			}
		}
		rec(nil)
		return out
	}
	for _, a := range vals {
		base := make([]uint64, rank)
		for i := range base {
			base[i] = a
		}
		out = append(out, append([]uint64(nil), base...))
		for pos := 0; pos < rank; pos++ {
			for _, b := range vals {
				if b == a {
					continue
				}
				t := append([]uint64(nil), base...)
				t[pos] = b
				out = append(out, t)
			}
		}
	}
	return out
}

func vfC11MaxDims(dims []uint64, mode int) []uint64 {
	switch mode {
	case 0:
		return nil
	case 1:
		return append([]uint64(nil), dims...)
	case 2:
		m := make([]uint64, len(dims))
		for i, d := range dims {
			m[i] = d + 1
			if d == 1<<63 {
				m[i] = 1<<64 - 2
			}
		}
		return m
	default:
		m := make([]uint64, len(dims))
		for i := range m {
			m[i] = vfC11Undef // H5S_UNLIMITED
		}
		return m
	}
}

func vfC11Dataspace(c *vfC11Ctx) {
	c.begin("dataspace")
	vals := []uint64{1, 2, 1<<32 - 1, 1 << 32, 1 << 63}
	for rank := 0; rank <= 32; rank++ {
		for _, dims := range vfC11DimVectors(rank, vals, 3+c.full) {
			for mode := 0; mode < 4; mode++ {
				maxd := vfC11MaxDims(dims, mode)
				det := map[string]any{"rank": rank, "dims": fmt.Sprint(dims), "maxdims_mode": []string{"absent", "equal", "larger", "unlimited"}[mode]}
				c.one(fmt.Sprint(dims, mode), det, func() bool {
					enc, err := EncodeDataspaceMessage(dims, maxd)
					if err != nil {
						return true
					}
					enc2, _ := EncodeDataspaceMessage(dims, maxd)
					if !bytes.Equal(enc, enc2) {
						c.fail("encode-not-deterministic", det)
					}
					ds, err := ParseDataspaceMessage(enc)
					if err != nil {
						c.fail("parse-error/"+vfC11Norm(err), det)
						return false
					}
					ok := true
					if !vfC11EqU64s(ds.Dimensions, dims) {
						c.fail("Dimensions-differ", det)
						ok = false
					}
					if !vfC11EqU64s(ds.MaxDims, maxd) {
						c.fail("MaxDims-differ", det)
						ok = false
					}
					if ds.Type != DataspaceSimple {
						c.fail("Type-not-simple", det)
						ok = false
					}
					if ok {
						re, err := EncodeDataspaceMessage(ds.Dimensions, ds.MaxDims)
						if err != nil {
							c.fail("re-encode-error/"+vfC11Norm(err), det)
						} else if !bytes.Equal(re, enc) {
							c.fail("re-encode-differs", det)
						}
					}
					return false
				})
			}
		}
	}
	// mismatching maxDims length: must be rejected or round-trip
	c.one("maxdims-length-mismatch", nil, func() bool {
		_, err := EncodeDataspaceMessage([]uint64{2, 3}, []uint64{2})
		if err == nil {
			c.fail("maxdims-length-mismatch-accepted", nil)
			return false
		}
		return true
	})
}

// ---------------------------------------------------------------- data layout

func vfC11Fits(v uint64, size uint8) bool {
	if size >= 8 {
		return true
	}
	return v < 1<<(8*uint(size))
}

func vfC11Layout(c *vfC11Ctx) {
	for _, sbv := range []uint8{0, 2, 3} {
		for _, sz := range [][2]uint8{{8, 8}, {4, 4}, {2, 2}, {8, 4}} {
			sb := vfC11SB(sbv, sz[0], sz[1])
			c.begin("layout-contiguous")
			for _, addr := range append(append([]uint64(nil), vfC11Addr...), vfC11Undef) {
				for _, size := range append(append([]uint64(nil), vfC11Addr...), 1<<32-1) {
					if !(vfC11Fits(addr, sz[0]) || addr == vfC11Undef) || !vfC11Fits(size, sz[1]) {
						continue // a value that does not fit the file's field width is not well-formed
					}
					det := map[string]any{"sb_version": sbv, "offset_size": sz[0], "length_size": sz[1], "address": addr, "size": size}
					c.one(fmt.Sprint(sbv, sz, addr, size), det, func() bool {
						enc, err := EncodeLayoutMessage(LayoutContiguous, size, addr, sb, nil)
						if err != nil {
							return true
						}
						enc2, _ := EncodeLayoutMessage(LayoutContiguous, size, addr, sb, nil)
						if !bytes.Equal(enc, enc2) {
							c.fail("encode-not-deterministic", det)
						}
						lm, err := ParseDataLayoutMessage(enc, sb)
						if err != nil {
							c.fail("parse-error/"+vfC11Norm(err), det)
							return false
						}
						wantAddr := addr
						if addr == vfC11Undef && sz[0] < 8 {
							wantAddr = 1<<(8*uint(sz[0])) - 1
						}
						ok := true
						if lm.Class != LayoutContiguous || lm.Version != 3 {
							c.fail("Class-or-Version-differs", det)
							ok = false
						}
						if lm.DataAddress != wantAddr {
							c.fail("DataAddress-differs", det)
							ok = false
						}
						if lm.DataSize != size {
							c.fail("DataSize-differs", det)
							ok = false
						}
						if ok {
							re, err := EncodeLayoutMessage(lm.Class, lm.DataSize, lm.DataAddress, sb, lm.ChunkSize)
							if err != nil {
								c.fail("re-encode-error/"+vfC11Norm(err), det)
							} else if !bytes.Equal(re, enc) {
								c.fail("re-encode-differs", det)
							}
						}
						return false
					})
				}
			}
			c.begin("layout-chunked")
			cvals := []uint64{1, 2, 1 << 16, 1<<32 - 1, 1 << 32}
			for rank := 0; rank <= 5; rank++ {
				for _, cd := range vfC11DimVectors(rank, cvals, 3+c.full) {
					for _, addr := range []uint64{0, 1 << 32, vfC11Undef} {
						if !(vfC11Fits(addr, sz[0]) || addr == vfC11Undef) {
							continue
						}
						det := map[string]any{"sb_version": sbv, "offset_size": sz[0], "chunk_dims": fmt.Sprint(cd), "btree_address": addr}
						c.one(fmt.Sprint(sbv, sz, cd, addr), det, func() bool {
							enc, err := EncodeLayoutMessage(LayoutChunked, 0, addr, sb, cd)
							if err != nil {
								return true
							}
							enc2, _ := EncodeLayoutMessage(LayoutChunked, 0, addr, sb, cd)
							if !bytes.Equal(enc, enc2) {
								c.fail("encode-not-deterministic", det)
							}
							lm, err := ParseDataLayoutMessage(enc, sb)
							if err != nil {
								c.fail("parse-error/"+vfC11Norm(err), det)
								return false
							}
							wantAddr := addr
							if addr == vfC11Undef && sz[0] < 8 {
								wantAddr = 1<<(8*uint(sz[0])) - 1
							}
							ok := true
							if lm.Class != LayoutChunked || lm.Version != 3 {
								c.fail("Class-or-Version-differs", det)
								ok = false
							}
							if lm.DataAddress != wantAddr {
								c.fail("DataAddress-differs", det)
								ok = false
							}
							if !vfC11EqU64s(lm.ChunkSize, cd) {
								c.fail("ChunkSize-differs", det)
								ok = false
							}
							if ok {
								re, err := EncodeLayoutMessage(lm.Class, lm.DataSize, lm.DataAddress, sb, lm.ChunkSize)
								if err != nil {
									c.fail("re-encode-error/"+vfC11Norm(err), det)
								} else if !bytes.Equal(re, enc) {
									c.fail("re-encode-differs", det)
								}
							}
							return false
						})
					}
				}
			}
		}
	}
	c.begin("layout-compact")
	c.one("compact", nil, func() bool {
		_, err := EncodeLayoutMessage(LayoutCompact, 4, 0, vfC11SB(2, 8, 8), nil)
		return err != nil // no compact encoder: outside the pair list
	})
}

// ---------------------------------------------------------------- datatypes

// vfC11SpecProps returns the class properties as the HDF5 format (and the reference
// library) lays them out for the standard numeric types.
func vfC11SpecProps(class DatatypeClass, size uint32) []byte {
	switch class {
	case DatatypeFixed:
		p := make([]byte, 4)
		binary.LittleEndian.PutUint16(p[0:], 0)
		binary.LittleEndian.PutUint16(p[2:], uint16(size*8))
		return p
	case DatatypeFloat:
		p := make([]byte, 12)
		binary.LittleEndian.PutUint16(p[0:], 0)
		binary.LittleEndian.PutUint16(p[2:], uint16(size*8))
		switch size {
		case 4:
			p[4], p[5], p[6], p[7] = 23, 8, 0, 23
			binary.LittleEndian.PutUint32(p[8:], 127)
		case 8:
			p[4], p[5], p[6], p[7] = 52, 11, 0, 52
			binary.LittleEndian.PutUint32(p[8:], 1023)
		default:
			return nil
		}
		return p
	}
	return nil
}

func vfC11DtString(dt *DatatypeMessage) string {
	return fmt.Sprintf("class=%d ver=%d size=%d bits=%#x props=%x", dt.Class, dt.Version, dt.Size, dt.ClassBitField, dt.Properties)
}

// vfC11DatatypeRT runs the three oracles on one DatatypeMessage through
// EncodeDatatypeMessage/ParseDatatypeMessage. cmpProps: compare Properties too (the value
// carried explicit properties); trimNul: compare Properties modulo trailing NULs (opaque tag).
// Returns "" (ok), "skip" (encoder rejected) or the first difference.
func vfC11DatatypeRT(c *vfC11Ctx, dt *DatatypeMessage, cmpVersion, cmpBits, cmpProps, trimNul bool, det any, report bool) string {
	fail := func(what string) string {
		if report {
			c.fail(what, det)
		}
		return what
	}
	enc, err := EncodeDatatypeMessage(dt)
	if err != nil {
		return "skip"
	}
	enc2, _ := EncodeDatatypeMessage(dt)
	if !bytes.Equal(enc, enc2) {
		return fail("encode-not-deterministic")
	}
	got, err := ParseDatatypeMessage(enc)
	if err != nil {
		return fail("parse-error/" + vfC11Norm(err))
	}
	// only the first differing field is reported per case (Class, Size, Version, bit field,
	// properties): one root cause, one key
	first := ""
	switch {
	case got.Class != dt.Class:
		first = fmt.Sprintf("Class-differs(decoded-class=%d)", got.Class)
	case got.Size != dt.Size:
		first = "Size-differs"
	case cmpVersion && got.Version != dt.Version:
		first = "Version-differs"
	case cmpBits && got.ClassBitField != dt.ClassBitField:
		first = "ClassBitField-differs"
	case cmpProps:
		a, b := got.Properties, dt.Properties
		if trimNul {
			a, b = bytes.TrimRight(a, "\x00"), bytes.TrimRight(b, "\x00")
		}
		if !bytes.Equal(a, b) {
			first = "Properties-differ"
		}
	}
	if first != "" {
		return fail(first)
	}
	re, err := EncodeDatatypeMessage(got)
	if err != nil {
		return fail("re-encode-error/" + vfC11Norm(err))
	}
	if !bytes.Equal(re, enc) {
		return fail("re-encode-differs")
	}
	return ""
}

func vfC11Datatypes(c *vfC11Ctx) {
	run := func(key string, dt *DatatypeMessage, cmpVersion, cmpBits, cmpProps, trimNul bool) {
		det := map[string]any{"datatype": vfC11DtString(dt)}
		c.one(key, det, func() bool {
			return vfC11DatatypeRT(c, dt, cmpVersion, cmpBits, cmpProps, trimNul, det, true) == "skip"
		})
	}
	// fixed-point: all sizes x order/pad/sign bits x {no properties, standard properties}
	c.begin("datatype-fixed")
	for _, size := range []uint32{0, 1, 2, 3, 4, 8, 16} {
		for bits := uint32(0); bits < 16; bits++ {
			run(fmt.Sprint(size, bits, "noprops"), &DatatypeMessage{Class: DatatypeFixed, Version: 1, Size: size, ClassBitField: bits}, true, true, false, false)
			if p := vfC11SpecProps(DatatypeFixed, size); p != nil && size > 0 {
				run(fmt.Sprint(size, bits, "specprops"), &DatatypeMessage{Class: DatatypeFixed, Version: 1, Size: size, ClassBitField: bits, Properties: p}, true, true, true, false)
			}
		}
	}
	c.begin("datatype-float")
	for _, size := range []uint32{1, 2, 4, 8, 16} {
		for _, bits := range []uint32{0x00, 0x01, 0x20, 0x21, 0x1F20, 0x1F21, 0x3F20, 0x3F21, 0x0E, 0x1F2F} {
			run(fmt.Sprint(size, bits, "noprops"), &DatatypeMessage{Class: DatatypeFloat, Version: 1, Size: size, ClassBitField: bits}, true, true, false, false)
			if p := vfC11SpecProps(DatatypeFloat, size); p != nil {
				run(fmt.Sprint(size, bits, "specprops"), &DatatypeMessage{Class: DatatypeFloat, Version: 1, Size: size, ClassBitField: bits, Properties: p}, true, true, true, false)
			}
		}
	}
	c.begin("datatype-string")
	for _, size := range []uint32{0, 1, 2, 5, 8, 255, 65536} {
		for pad := uint32(0); pad < 3; pad++ {
			for cs := uint32(0); cs < 2; cs++ {
				run(fmt.Sprint(size, pad, cs), &DatatypeMessage{Class: DatatypeString, Version: 1, Size: size, ClassBitField: pad | cs<<4}, true, true, false, false)
			}
		}
	}
	c.begin("datatype-reference")
	for _, size := range []uint32{4, 8, 12, 16} {
		for bits := uint32(0); bits < 2; bits++ {
			run(fmt.Sprint(size, bits), &DatatypeMessage{Class: DatatypeReference, Version: 1, Size: size, ClassBitField: bits}, true, true, false, false)
		}
	}
	c.begin("datatype-opaque")
	for _, size := range []uint32{0, 1, 16} {
		for _, tl := range []int{0, 1, 7, 8, 9, 255, 256} {
			tag := []byte(vfC11Name(tl))
			padded := uint32((tl + 7) / 8 * 8)
			run(fmt.Sprint(size, tl, "bits0"), &DatatypeMessage{Class: DatatypeOpaque, Version: 1, Size: size, Properties: tag}, true, false, true, true)
			run(fmt.Sprint(size, tl, "bits=paddedlen"), &DatatypeMessage{Class: DatatypeOpaque, Version: 1, Size: size, ClassBitField: padded, Properties: tag}, true, true, true, true)
		}
	}
	// classes without an encoder in EncodeDatatypeMessage: must be rejected (skipped)
	c.begin("datatype-unencodable-classes")
	for _, cl := range []DatatypeClass{DatatypeTime, DatatypeBitfield, DatatypeArray, DatatypeEnum, DatatypeComplex, 12, 15} {
		run(fmt.Sprint(cl), &DatatypeMessage{Class: cl, Version: 1, Size: 4}, true, true, false, false)
	}
	// variable length x 7 base types x {sequence, string} x padding/charset
	c.begin("datatype-vlen")
	bases := []*DatatypeMessage{
		{Class: DatatypeString, Version: 1, Size: 1},
		{Class: DatatypeFixed, Version: 1, Size: 1, ClassBitField: 0x08},
		{Class: DatatypeFixed, Version: 1, Size: 2, ClassBitField: 0x08},
		{Class: DatatypeFixed, Version: 1, Size: 4, ClassBitField: 0x08},
		{Class: DatatypeFixed, Version: 1, Size: 8, ClassBitField: 0x08},
		{Class: DatatypeFloat, Version: 1, Size: 4, ClassBitField: 0x1F20},
		{Class: DatatypeFloat, Version: 1, Size: 8, ClassBitField: 0x3F20},
	}
	for bi, b := range bases {
		benc, err := EncodeDatatypeMessage(b)
		if err != nil {
			continue
		}
		for _, bits := range []uint32{0x000, 0x001, 0x011, 0x101, 0x111} {
			for _, size := range []uint32{16, 8} {
				// the encoder fixes the version itself (as the numeric encoders do): Version is
				// not a field the encoder defines from its input, so it is enumerated (0 = what
				// dataset_write.go passes, 1) but not compared
				for _, ver := range []uint8{0, 1} {
					run(fmt.Sprint(bi, bits, size, ver), &DatatypeMessage{Class: DatatypeVarLen, Version: ver, Size: size, ClassBitField: bits, Properties: benc}, false, true, true, false)
				}
			}
		}
	}
}

func vfC11ArrayEnum(c *vfC11Ctx) {
	type base struct {
		name string
		dt   *DatatypeMessage
	}
	var bases []base
	for _, b := range []base{
		{"int32", &DatatypeMessage{Class: DatatypeFixed, Version: 1, Size: 4, ClassBitField: 0x08}},
		{"float64", &DatatypeMessage{Class: DatatypeFloat, Version: 1, Size: 8, ClassBitField: 0x3F20}},
		{"string5", &DatatypeMessage{Class: DatatypeString, Version: 1, Size: 5}},
	} {
		bases = append(bases, b)
	}
	c.begin("datatype-array")
	for _, b := range bases {
		benc, err := EncodeDatatypeMessage(b.dt)
		if err != nil {
			continue
		}
		for rank := 0; rank <= 3; rank++ {
			for _, dims := range vfC11DimVectors(rank, []uint64{1, 2, 3, 1<<32 - 1, 1 << 32}, 3) {
				size := b.dt.Size
				for _, d := range dims {
					size *= uint32(d)
				}
				det := map[string]any{"base": b.name, "dims": fmt.Sprint(dims), "size": size}
				c.one(fmt.Sprint(b.name, dims), det, func() bool {
					enc, err := EncodeArrayDatatypeMessage(benc, dims, size)
					if err != nil {
						return true
					}
					enc2, _ := EncodeArrayDatatypeMessage(benc, dims, size)
					if !bytes.Equal(enc, enc2) {
						c.fail("encode-not-deterministic", det)
					}
					got, err := ParseDatatypeMessage(enc)
					if err != nil {
						c.fail("parse-error/"+vfC11Norm(err), det)
						return false
					}
					if got.Class != DatatypeArray {
						c.fail("Class-differs", det)
					}
					if got.Size != size {
						c.fail("Size-differs", det)
					}
					// properties as documented by the encoder: ndims, dims (uint32 each), base type
					p := got.Properties
					if len(p) < 1+4*len(dims) || int(p[0]) != len(dims) {
						c.fail("dimensionality-differs", det)
						return false
					}
					for i, d := range dims {
						if uint64(binary.LittleEndian.Uint32(p[1+4*i:])) != d {
							c.fail("dims-differ", det)
							return false
						}
					}
					bgot, err := ParseDatatypeMessage(p[1+4*len(dims):])
					if err != nil {
						c.fail("base-parse-error/"+vfC11Norm(err), det)
						return false
					}
					if bgot.Class != b.dt.Class || bgot.Size != b.dt.Size || bgot.ClassBitField != b.dt.ClassBitField {
						c.fail("base-type-differs", det)
						return false
					}
					re, err := EncodeArrayDatatypeMessage(p[1+4*len(dims):], dims, got.Size)
					if err != nil || !bytes.Equal(re, enc) {
						c.fail("re-encode-differs", det)
					}
					return false
				})
			}
		}
	}
	c.begin("datatype-enum")
	for _, bsize := range []uint32{1, 2, 4, 8} {
		bdt := &DatatypeMessage{Class: DatatypeFixed, Version: 1, Size: bsize, ClassBitField: 0x08}
		benc, err := EncodeDatatypeMessage(bdt)
		if err != nil {
			continue
		}
		for nm := 0; nm <= 3; nm++ {
			for _, lens := range vfC11SizeTuples(nm, []int{1, 7, 8}, 3) {
				names := make([]string, nm)
				vals := make([]byte, nm*int(bsize))
				for i, l := range lens {
					names[i] = strings.ToUpper(vfC11Name(l))[:l-1] + string(rune('0'+i))
					vals[i*int(bsize)] = byte(i + 1)
					vals[(i+1)*int(bsize)-1] |= 0x80 >> uint(i)
				}
				det := map[string]any{"base_size": bsize, "name_lengths": lens}
				c.one(fmt.Sprint(bsize, lens), det, func() bool {
					enc, err := EncodeEnumDatatypeMessage(benc, names, vals, bsize)
					if err != nil {
						return true
					}
					enc2, _ := EncodeEnumDatatypeMessage(benc, names, vals, bsize)
					if !bytes.Equal(enc, enc2) {
						c.fail("encode-not-deterministic", det)
					}
					got, err := ParseDatatypeMessage(enc)
					if err != nil {
						c.fail("parse-error/"+vfC11Norm(err), det)
						return false
					}
					if got.Class != DatatypeEnum || got.Size != bsize || int(got.ClassBitField&0xFFFF) != nm {
						c.fail("header-differs", det)
						return false
					}
					// properties as documented by the encoder: base type, then per member the
					// NUL-terminated name padded to a multiple of 8 followed by the value
					p := got.Properties
					bgot, err := ParseDatatypeMessage(p)
					if err != nil || bgot.Class != DatatypeFixed || bgot.Size != bsize {
						c.fail("base-type-differs", det)
						return false
					}
					off := len(benc)
					var rnames []string
					var rvals []byte
					for i := 0; i < nm; i++ {
						e := off
						for e < len(p) && p[e] != 0 {
							e++
						}
						if e >= len(p) {
							c.fail("member-name-not-terminated", det)
							return false
						}
						rnames = append(rnames, string(p[off:e]))
						off += (e - off + 1 + 7) / 8 * 8
						if off+int(bsize) > len(p) {
							c.fail("member-value-truncated", det)
							return false
						}
						rvals = append(rvals, p[off:off+int(bsize)]...)
						off += int(bsize)
					}
					if fmt.Sprint(rnames) != fmt.Sprint(names) {
						c.fail("member-names-differ", det)
					}
					if !bytes.Equal(rvals, vals) {
						c.fail("member-values-differ", det)
					}
					if off != len(p) {
						c.fail("trailing-bytes", det)
					}
					re, err := EncodeEnumDatatypeMessage(p[:len(benc)], rnames, rvals, got.Size)
					if err != nil || !bytes.Equal(re, enc) {
						c.fail("re-encode-differs", det)
					}
					return false
				})
			}
		}
	}
}

// ---------------------------------------------------------------- compound

type vfC11Member struct {
	name     string
	dt       *DatatypeMessage
	varProps bool // the class has no fixed property length for inline parsing
}

func vfC11MemberTypes(c *vfC11Ctx) []vfC11Member {
	mk := func(class DatatypeClass, size uint32, bits uint32) *DatatypeMessage {
		enc, err := EncodeDatatypeMessage(&DatatypeMessage{Class: class, Version: 1, Size: size, ClassBitField: bits})
		if err != nil {
			panic(err)
		}
		dt, err := ParseDatatypeMessage(enc)
		if err != nil {
			panic(err)
		}
		return &DatatypeMessage{Class: dt.Class, Version: dt.Version, Size: dt.Size, ClassBitField: dt.ClassBitField, Properties: append([]byte(nil), dt.Properties...)}
	}
	ms := []vfC11Member{
		{"int8", mk(DatatypeFixed, 1, 0x08), false},
		{"uint32be", mk(DatatypeFixed, 4, 0x01), false},
		{"int64", mk(DatatypeFixed, 8, 0x08), false},
		{"float32", mk(DatatypeFloat, 4, 0x1F20), false},
		{"float64", mk(DatatypeFloat, 8, 0x3F20), false},
		{"string8", mk(DatatypeString, 8, 0x00), true},
		{"ref8", mk(DatatypeReference, 8, 0x00), true},
	}
	// nested compound {int32 a; float64 b}
	inner, err := EncodeCompoundDatatypeV3(12, []CompoundFieldDef{
		{Name: "a", Offset: 0, Type: mk(DatatypeFixed, 4, 0x08)},
		{Name: "b", Offset: 4, Type: mk(DatatypeFloat, 8, 0x3F20)},
	})
	if err == nil {
		if dt, err := ParseDatatypeMessage(inner); err == nil {
			ms = append(ms, vfC11Member{"nested-compound-v3", &DatatypeMessage{Class: dt.Class, Version: dt.Version, Size: dt.Size, ClassBitField: dt.ClassBitField, Properties: append([]byte(nil), dt.Properties...)}, false})
		}
	}
	return ms
}

func vfC11Compound(c *vfC11Ctx) {
	members := vfC11MemberTypes(c)
	nameLens := []int{1, 7, 8, 9}
	for _, ver := range []int{3, 1} {
		c.begin(fmt.Sprintf("compound-v%d", ver))
		encode := EncodeCompoundDatatypeV3
		if ver == 1 {
			encode = EncodeCompoundDatatypeV1
		}
		for k := 0; k <= 3+c.full/2; k++ {
			// all member-type tuples x all name-length tuples
			var tuples [][]int
			var rec func(cur []int)
			rec = func(cur []int) {
				if len(cur) == k {
					tuples = append(tuples, append([]int(nil), cur...))
					return
				}
				for i := range members {
					rec(append(cur, i))
				}
			}
			rec(nil)
			for _, tup := range tuples {
				for _, lens := range vfC11SizeTuples(k, nameLens, 4) {
					for _, gap := range []uint32{0, 3} {
						var fields []CompoundFieldDef
						var desc []string
						off := uint32(0)
						// position of the first member whose class has variable-length
						// properties and that is not the last member
						varBeforeLast := false
						for i, mi := range tup {
							m := members[mi]
							nm := vfC11Name(lens[i])[:lens[i]-1] + string(rune('0'+i))
							fields = append(fields, CompoundFieldDef{Name: nm, Offset: off, Type: m.dt})
							desc = append(desc, fmt.Sprintf("%s:%s@%d", nm, m.name, off))
							off += m.dt.Size + gap
							if m.varProps && i < len(tup)-1 {
								varBeforeLast = true
							}
						}
						total := off
						det := map[string]any{"version": ver, "members": desc, "size": total}
						c.one(fmt.Sprint(tup, lens, gap), det, func() bool {
							enc, err := encode(total, fields)
							if err != nil {
								return true
							}
							enc2, _ := encode(total, fields)
							if !bytes.Equal(enc, enc2) {
								c.fail("encode-not-deterministic", det)
							}
							dt, err := ParseDatatypeMessage(enc)
							if err != nil {
								c.fail("parse-error/"+vfC11Norm(err), det)
								return false
							}
							if dt.Class != DatatypeCompound || int(dt.Version) != ver || dt.Size != total {
								c.fail("header-differs", det)
								return false
							}
							if ver == 1 && int(dt.ClassBitField&0xFFFF) != len(fields) {
								c.fail("member-count-differs", det)
							}
							if len(dt.Properties) != len(enc)-8 {
								c.fail("top-level-properties-truncated", det)
							}
							suffix := ""
							if varBeforeLast {
								suffix = "/string-or-reference-member-before-last"
							}
							ct, err := ParseCompoundType(dt)
							if err != nil {
								c.fail("member-parse-error"+suffix, map[string]any{"case": det, "error": err.Error()})
								return false
							}
							if len(ct.Members) != len(fields) {
								c.fail("member-count-differs"+suffix, det)
								return false
							}
							ok := true
							for i, f := range fields {
								g := ct.Members[i]
								var what string
								switch {
								case g.Name != f.Name:
									what = "member-Name-differs"
								case g.Offset != f.Offset:
									what = "member-Offset-differs"
								case g.Type == nil || g.Type.Class != f.Type.Class || g.Type.Version != f.Type.Version || g.Type.Size != f.Type.Size || g.Type.ClassBitField != f.Type.ClassBitField:
									what = "member-Type-header-differs"
								case !bytes.Equal(g.Type.Properties, f.Type.Properties):
									what = "member-Type-Properties-differ"
								}
								if what != "" {
									c.fail(what+suffix, det)
									ok = false
									break
								}
							}
							if ct.Size != total {
								c.fail("Size-differs", det)
								ok = false
							}
							if ok {
								var rf []CompoundFieldDef
								for _, g := range ct.Members {
									rf = append(rf, CompoundFieldDef{Name: g.Name, Offset: g.Offset, Type: g.Type})
								}
								re, err := encode(ct.Size, rf)
								if err != nil || !bytes.Equal(re, enc) {
									c.fail("re-encode-differs", det)
								}
								re2, err := EncodeDatatypeMessage(dt)
								if err != nil || !bytes.Equal(re2, enc) {
									c.fail("re-encode-via-EncodeDatatypeMessage-differs", det)
								}
							}
							return false
						})
					}
				}
			}
		}
	}
	// offsets at the edge of uint32
	c.begin("compound-v3")
	for _, off := range []uint32{0, 1, 1<<31 - 1, 1 << 31, 1<<32 - 1} {
		det := map[string]any{"offset": off}
		c.one(fmt.Sprint("edge-offset", off), det, func() bool {
			f := []CompoundFieldDef{{Name: "x", Offset: off, Type: members[0].dt}}
			enc, err := EncodeCompoundDatatypeV3(1<<32-1, f)
			if err != nil {
				return true
			}
			dt, err := ParseDatatypeMessage(enc)
			if err != nil {
				c.fail("parse-error/"+vfC11Norm(err), det)
				return false
			}
			ct, err := ParseCompoundType(dt)
			if err != nil || len(ct.Members) != 1 || ct.Members[0].Offset != off || ct.Size != 1<<32-1 {
				c.fail("edge-offset-differs", det)
			}
			return false
		})
	}
}

// ---------------------------------------------------------------- attribute

func vfC11Attribute(c *vfC11Ctx) {
	c.begin("attribute")
	sb := vfC11SB(2, 8, 8)
	type dtc struct {
		name string
		dt   *DatatypeMessage
	}
	cands := []dtc{
		{"int32", &DatatypeMessage{Class: DatatypeFixed, Version: 1, Size: 4, ClassBitField: 0x08}},
		{"uint8be", &DatatypeMessage{Class: DatatypeFixed, Version: 1, Size: 1, ClassBitField: 0x01}},
		{"float64", &DatatypeMessage{Class: DatatypeFloat, Version: 1, Size: 8, ClassBitField: 0x3F20}},
		{"string5", &DatatypeMessage{Class: DatatypeString, Version: 1, Size: 5, ClassBitField: 0x01}},
		{"ref8", &DatatypeMessage{Class: DatatypeReference, Version: 1, Size: 8}},
		{"opaque4", &DatatypeMessage{Class: DatatypeOpaque, Version: 1, Size: 4, ClassBitField: 8, Properties: []byte("tag")}},
	}
	if benc, err := EncodeDatatypeMessage(&DatatypeMessage{Class: DatatypeString, Version: 1, Size: 1}); err == nil {
		cands = append(cands, dtc{"vlen-string", &DatatypeMessage{Class: DatatypeVarLen, Version: 0, Size: 16, ClassBitField: 1, Properties: benc}})
	}
	if cenc, err := EncodeCompoundDatatypeV3(12, []CompoundFieldDef{
		{Name: "a", Offset: 0, Type: &DatatypeMessage{Class: DatatypeFixed, Version: 1, Size: 4, ClassBitField: 8, Properties: []byte{0, 32, 0, 0}}},
		{Name: "b", Offset: 4, Type: &DatatypeMessage{Class: DatatypeFloat, Version: 1, Size: 8, ClassBitField: 0x3F20, Properties: make([]byte, 12)}},
	}); err == nil {
		if dt, err := ParseDatatypeMessage(cenc); err == nil {
			cands = append(cands, dtc{"compound", dt})
		}
	}
	// a datatype that does not survive its own round trip is reported by the datatype pairs;
	// attributes are enumerated over the datatypes that do (the rest are counted as masked)
	var dts []dtc
	for _, cd := range cands {
		trim := cd.dt.Class == DatatypeOpaque
		if w := vfC11DatatypeRT(c, cd.dt, cd.dt.Class != DatatypeVarLen, true, len(cd.dt.Properties) > 0, trim, nil, false); w == "" {
			dts = append(dts, cd)
		} else {
			c.r.Add("attribute_datatypes_masked_by_datatype_findings", 1)
		}
	}
	type dsc struct {
		name string
		ds   *DataspaceMessage
	}
	dss := []dsc{
		{"scalar", &DataspaceMessage{Version: 1, Type: DataspaceScalar, Dimensions: []uint64{1}}},
		{"simple[1]", &DataspaceMessage{Version: 1, Type: DataspaceSimple, Dimensions: []uint64{1}}},
		{"simple[3]", &DataspaceMessage{Version: 1, Type: DataspaceSimple, Dimensions: []uint64{3}}},
		{"simple[2,3]max-equal", &DataspaceMessage{Version: 1, Type: DataspaceSimple, Dimensions: []uint64{2, 3}, MaxDims: []uint64{2, 3}}},
		{"simple[2]max-unlimited", &DataspaceMessage{Version: 1, Type: DataspaceSimple, Dimensions: []uint64{2}, MaxDims: []uint64{vfC11Undef}}},
		{"simple[0]", &DataspaceMessage{Version: 1, Type: DataspaceSimple, Dimensions: []uint64{0}}},
		{"null", &DataspaceMessage{Version: 2, Type: DataspaceNull}},
	}
	for _, nl := range []int{0, 1, 7, 8, 9, 255, 256, 65534, 65535} {
		name := vfC11Name(nl)
		for _, d := range dts {
			for _, s := range dss {
				n := uint64(1)
				for _, x := range s.ds.Dimensions {
					n *= x
				}
				for _, dm := range []string{"exact", "empty"} {
					if dm == "empty" && n*uint64(d.dt.Size) == 0 {
						continue // same value as "exact"
					}
					var data []byte
					if dm == "exact" {
						data = make([]byte, n*uint64(d.dt.Size))
						for i := range data {
							data[i] = byte(0xA0 + i)
						}
					}
					det := map[string]any{"name_length": nl, "datatype": d.name, "dataspace": s.name, "data": dm}
					c.one(fmt.Sprint(nl, d.name, s.name, dm), det, func() bool {
						attr := &Attribute{Name: name, Datatype: d.dt, Dataspace: s.ds, Data: data}
						enc, err := EncodeAttributeFromStruct(attr, sb)
						if err != nil {
							return true
						}
						enc2, err2 := EncodeAttributeMessage(name, d.dt, s.ds, data)
						if err2 != nil || !bytes.Equal(enc, enc2) {
							c.fail("EncodeAttributeFromStruct-and-EncodeAttributeMessage-differ", det)
						}
						got, err := ParseAttributeMessage(enc, binary.LittleEndian)
						if err != nil {
							what := "parse-error/" + vfC11Norm(err)
							if nl == 65535 {
								what = "name-length-65535/size-field-wraps/parse-error"
							}
							c.fail(what, map[string]any{"case": det, "error": err.Error()})
							return false
						}
						ok := true
						pfx := ""
						if nl == 65535 {
							pfx = "name-length-65535/size-field-wraps/"
						}
						if got.Name != name {
							c.fail(pfx+"Name-differs", det)
							ok = false
						}
						if got.Datatype == nil || got.Datatype.Class != d.dt.Class || got.Datatype.Size != d.dt.Size || got.Datatype.ClassBitField != d.dt.ClassBitField {
							c.fail(pfx+"Datatype-differs", det)
							ok = false
						}
						if got.Dataspace == nil || !vfC11EqU64s(got.Dataspace.Dimensions, s.ds.Dimensions) || !vfC11EqU64s(got.Dataspace.MaxDims, s.ds.MaxDims) {
							c.fail(pfx+"Dataspace-dims-differ", det)
							ok = false
						} else if got.Dataspace.Type != s.ds.Type {
							c.fail(fmt.Sprintf("%sDataspace-Type-differs(%d-decodes-as-%d)", pfx, s.ds.Type, got.Dataspace.Type), det)
							ok = false
						}
						if !bytes.Equal(got.Data, data) {
							c.fail(pfx+"Data-differs", det)
							ok = false
						}
						if ok {
							re, err := EncodeAttributeFromStruct(got, sb)
							if err != nil {
								c.fail("re-encode-error/"+vfC11Norm(err), det)
							} else if !bytes.Equal(re, enc) {
								c.fail("re-encode-differs", det)
							}
						}
						return false
					})
				}
			}
		}
	}
}

func vfC11AttributeInfo(c *vfC11Ctx) {
	c.begin("attribute-info")
	addrs := append(append([]uint64(nil), vfC11Addr...), vfC11Undef)
	for _, osz := range []uint8{8, 4, 2} {
		sb := vfC11SB(2, osz, osz)
		for flags := uint8(0); flags < 4; flags++ {
			for _, mci := range []uint64{0, 1, 65535} {
				for _, fh := range addrs {
					for _, bt := range addrs {
						for _, bo := range []uint64{0, 96, vfC11Undef} {
							fit := func(a uint64) (uint64, bool) {
								if a == vfC11Undef && osz < 8 {
									return 1<<(8*uint(osz)) - 1, true
								}
								return a, vfC11Fits(a, osz)
							}
							fh2, ok1 := fit(fh)
							bt2, ok2 := fit(bt)
							bo2, ok3 := fit(bo)
							if !ok1 || !ok2 || !ok3 {
								continue
							}
							v := &AttributeInfoMessage{Version: 0, Flags: flags, FractalHeapAddr: fh2, BTreeNameIndexAddr: bt2}
							if flags&1 != 0 {
								v.MaxCreationIndex = mci
							} else if mci != 0 {
								continue
							}
							if flags&2 != 0 {
								v.BTreeOrderIndexAddr = bo2
							} else if bo != 0 {
								continue
							}
							det := map[string]any{"offset_size": osz, "value": fmt.Sprintf("%+v", *v)}
							c.one(fmt.Sprint(osz, *v), det, func() bool {
								enc, err := EncodeAttributeInfoMessage(v, sb)
								if err != nil {
									return true
								}
								enc2, _ := EncodeAttributeInfoMessage(v, sb)
								if !bytes.Equal(enc, enc2) {
									c.fail("encode-not-deterministic", det)
								}
								got, err := ParseAttributeInfoMessage(enc, sb)
								if err != nil {
									c.fail("parse-error/"+vfC11Norm(err), det)
									return false
								}
								if *got != *v {
									for _, f := range []struct {
										n    string
										a, b uint64
									}{{"Version", uint64(got.Version), uint64(v.Version)}, {"Flags", uint64(got.Flags), uint64(v.Flags)},
										{"FractalHeapAddr", got.FractalHeapAddr, v.FractalHeapAddr}, {"BTreeNameIndexAddr", got.BTreeNameIndexAddr, v.BTreeNameIndexAddr},
										{"MaxCreationIndex", got.MaxCreationIndex, v.MaxCreationIndex}, {"BTreeOrderIndexAddr", got.BTreeOrderIndexAddr, v.BTreeOrderIndexAddr}} {
										if f.a != f.b {
											c.fail(f.n+"-differs", det)
										}
									}
									return false
								}
								re, err := EncodeAttributeInfoMessage(got, sb)
								if err != nil || !bytes.Equal(re, enc) {
									c.fail("re-encode-differs", det)
								}
								return false
							})
						}
					}
				}
			}
		}
	}
}

// ---------------------------------------------------------------- links

func vfC11Link(c *vfC11Ctx) {
	sb := vfC11SB(2, 8, 8)
	hardVal := func(a uint64) []byte {
		b := make([]byte, 8)
		binary.LittleEndian.PutUint64(b, a)
		return b
	}
	softVal := func(n int) []byte {
		b := make([]byte, 2+n)
		binary.LittleEndian.PutUint16(b, uint16(n))
		copy(b[2:], "/"+vfC11Name(n))
		return b[:2+n]
	}
	extVal := func(fn, pn int) []byte {
		b := make([]byte, 0, 4+fn+pn)
		b = binary.LittleEndian.AppendUint16(b, uint16(fn))
		b = append(b, vfC11Name(fn)...)
		b = binary.LittleEndian.AppendUint16(b, uint16(pn))
		b = append(b, vfC11Name(pn)...)
		return b
	}
	type lv struct {
		name string
		t    LinkType
		v    []byte
	}
	vals := []lv{
		{"hard@96", LinkTypeHard, hardVal(96)}, {"hard@2^63-1", LinkTypeHard, hardVal(1<<63 - 1)}, {"hard@UNDEF", LinkTypeHard, hardVal(vfC11Undef)},
		{"soft/1", LinkTypeSoft, softVal(1)}, {"soft/255", LinkTypeSoft, softVal(255)}, {"soft/65535", LinkTypeSoft, softVal(65535)},
		{"ext/1,1", LinkTypeExternal, extVal(1, 1)}, {"ext/0,0", LinkTypeExternal, extVal(0, 0)}, {"ext/255,256", LinkTypeExternal, extVal(255, 256)},
	}
	for _, val := range vals {
		c.begin("link-" + val.t.String())
		for sizeBits := uint8(0); sizeBits < 4; sizeBits++ {
			for _, co := range []bool{false, true} {
				for _, cs := range []bool{false, true} {
					for _, tf := range []bool{false, true} {
						if !tf && val.t != LinkTypeHard {
							continue // without the type field the message can only describe a hard link
						}
						flags := sizeBits
						if co {
							flags |= LinkFlagCreationOrderBit
						}
						if cs {
							flags |= LinkFlagCharSetBit
						}
						if tf {
							flags |= LinkFlagLinkTypeFieldBit
						}
						orders := []uint64{0}
						if co {
							orders = []uint64{0, 1, 1 << 63}
						}
						charsets := []uint8{0}
						if cs {
							charsets = []uint8{0, 1}
						}
						for _, order := range orders {
							for _, charset := range charsets {
								for _, nl := range []int{0, 1, 255, 256, 65535, 65536} {
									v := &LinkMessage{Version: 1, Flags: flags, Type: val.t, CreationOrder: order, CharSet: charset, Name: vfC11Name(nl), LinkValue: val.v}
									det := map[string]any{"flags": fmt.Sprintf("%#02x", flags), "type": val.t.String(), "value": val.name, "name_length": nl, "creation_order": order, "charset": charset}
									c.one(fmt.Sprint(val.name, flags, order, charset, nl), det, func() bool {
										enc, err := EncodeLinkMessage(v, sb)
										if err != nil {
											return true
										}
										enc2, _ := EncodeLinkMessage(v, sb)
										if !bytes.Equal(enc, enc2) {
											c.fail("encode-not-deterministic", det)
										}
										got, err := ParseLinkMessage(enc, sb)
										if err != nil {
											c.fail("parse-error/"+vfC11Norm(err), det)
											return false
										}
										ok := true
										chk := func(cond bool, what string) {
											if !cond {
												c.fail(what, det)
												ok = false
											}
										}
										chk(got.Version == v.Version, "Version-differs")
										chk(got.Flags == v.Flags, "Flags-differs")
										chk(got.Type == v.Type, "Type-differs")
										chk(got.CreationOrder == v.CreationOrder, "CreationOrder-differs")
										chk(got.CharSet == v.CharSet, "CharSet-differs")
										chk(got.Name == v.Name, "Name-differs")
										if !bytes.Equal(got.LinkValue, v.LinkValue) {
											what := "LinkValue-differs"
											if len(v.LinkValue) >= 2 && bytes.Equal(got.LinkValue, v.LinkValue[2:]) {
												what = "LinkValue-length-prefix-stripped"
											}
											chk(false, what)
										}
										if ok {
											re, err := EncodeLinkMessage(got, sb)
											if err != nil || !bytes.Equal(re, enc) {
												c.fail("re-encode-differs", det)
											}
										}
										return false
									})
								}
							}
						}
					}
				}
			}
		}
	}
	c.begin("link-version")
	for _, ver := range []uint8{0, 2} {
		c.one(fmt.Sprint(ver), nil, func() bool {
			_, err := EncodeLinkMessage(&LinkMessage{Version: ver, Name: "x", LinkValue: hardVal(96)}, sb)
			return err != nil
		})
	}
}

func vfC11LinkInfo(c *vfC11Ctx) {
	c.begin("link-info")
	addrs := append(append([]uint64(nil), vfC11Addr...), vfC11Undef)
	for _, osz := range []uint8{8, 4, 2} {
		sb := vfC11SB(2, osz, osz)
		for flags := uint8(0); flags < 4; flags++ {
			for _, mco := range []int64{0, 1, 1 << 62} {
				for _, fh := range addrs {
					for _, bt := range addrs {
						for _, bo := range []uint64{0, 96, vfC11Undef} {
							fit := func(a uint64) (uint64, bool) {
								if a == vfC11Undef && osz < 8 {
									return 1<<(8*uint(osz)) - 1, true
								}
								return a, vfC11Fits(a, osz)
							}
							fh2, ok1 := fit(fh)
							bt2, ok2 := fit(bt)
							bo2, ok3 := fit(bo)
							if !ok1 || !ok2 || !ok3 {
								continue
							}
							v := &LinkInfoMessage{Version: 0, Flags: flags, FractalHeapAddress: fh2, NameBTreeAddress: bt2}
							if flags&1 != 0 {
								v.MaxCreationOrder = mco
							} else if mco != 0 {
								continue
							}
							if flags&2 != 0 {
								v.CreationOrderBTreeAddress = bo2
							} else if bo != 0 {
								continue
							}
							det := map[string]any{"offset_size": osz, "value": fmt.Sprintf("%+v", *v)}
							c.one(fmt.Sprint(osz, *v), det, func() bool {
								enc, err := EncodeLinkInfoMessage(v, sb)
								if err != nil {
									return true
								}
								enc2, _ := EncodeLinkInfoMessage(v, sb)
								if !bytes.Equal(enc, enc2) {
									c.fail("encode-not-deterministic", det)
								}
								got, err := ParseLinkInfoMessage(enc, sb)
								if err != nil {
									c.fail("parse-error/"+vfC11Norm(err), det)
									return false
								}
								if *got != *v {
									switch {
									case got.Version != v.Version || got.Flags != v.Flags:
										c.fail("Version-or-Flags-differs", det)
									case got.MaxCreationOrder != v.MaxCreationOrder:
										c.fail("MaxCreationOrder-differs", det)
									case got.FractalHeapAddress != v.FractalHeapAddress:
										c.fail("FractalHeapAddress-differs", det)
									case got.NameBTreeAddress != v.NameBTreeAddress:
										c.fail("NameBTreeAddress-differs", det)
									default:
										c.fail("CreationOrderBTreeAddress-differs", det)
									}
									return false
								}
								re, err := EncodeLinkInfoMessage(got, sb)
								if err != nil || !bytes.Equal(re, enc) {
									c.fail("re-encode-differs", det)
								}
								return false
							})
						}
					}
				}
			}
		}
	}
	c.begin("link-info-version")
	c.one("version1", nil, func() bool {
		_, err := EncodeLinkInfoMessage(&LinkInfoMessage{Version: 1}, vfC11SB(2, 8, 8))
		return err != nil
	})
}

func vfC11SymbolTable(c *vfC11Ctx) {
	// The reader of this message is inline in the root package (group.go: two 8-byte
	// addresses read with sb.Endianness, message ignored unless it has >= 16 bytes); the same
	// decoding is applied here.
	c.begin("symbol-table-message")
	sb := vfC11SB(0, 8, 8)
	addrs := append(append([]uint64(nil), vfC11Addr...), vfC11Undef, 136, 680)
	for _, bt := range addrs {
		for _, hp := range addrs {
			det := map[string]any{"btree": bt, "heap": hp}
			c.one(fmt.Sprint(bt, hp), det, func() bool {
				enc := EncodeSymbolTableMessage(bt, hp, int(sb.OffsetSize), int(sb.LengthSize))
				enc2 := EncodeSymbolTableMessage(bt, hp, int(sb.OffsetSize), int(sb.LengthSize))
				if !bytes.Equal(enc, enc2) {
					c.fail("encode-not-deterministic", det)
				}
				if len(enc) < 16 {
					c.fail("shorter-than-the-reader-requires", det)
					return false
				}
				gb, gh := sb.Endianness.Uint64(enc[0:8]), sb.Endianness.Uint64(enc[8:16])
				if gb != bt {
					c.fail("BTreeAddress-differs", det)
				}
				if gh != hp {
					c.fail("HeapAddress-differs", det)
				}
				if re := EncodeSymbolTableMessage(gb, gh, 8, 8); !bytes.Equal(re, enc) {
					c.fail("re-encode-differs", det)
				}
				return false
			})
		}
	}
}

func TestVerif_C11(t *testing.T) {
	r := vkit.Start(t, "C11", "exploration")
	defer r.Finish()
	c := &vfC11Ctx{r: r, cases: map[string]int64{}, skipped: map[string]int64{}, failed: map[string]int64{}}
	r.Assume("metadata is little-endian: Superblock.Endianness is binary.LittleEndian in every grid (the library never writes big-endian metadata)")
	r.Assume("a value that does not fit the field width the file declares (address >= 2^(8*offsetSize)) is not well-formed and not enumerated; UNDEF is enumerated as the all-ones value of the width")
	r.Assume("superblock: SuperExtension 0 and UNDEF both mean 'none'; the end-of-file address is not a field of the decoded value")
	r.Assume("opaque tag: Properties are compared modulo trailing NUL padding")
	r.Assume("array/enum datatypes have no property decoder in the library: header fields come from ParseDatatypeMessage, the properties are read back by the layout the encoder documents")
	r.Assume("the symbol-table message has no decoder function in internal/core; the inline decoding of group.go (two 8-byte addresses) is replicated")
	r.Assume("internal/structures link message is not reachable from package core (structures imports core); it is not part of this check")
	r.Assume("filter pipeline message: covered by C08")

	if r.Thorough() {
		c.full = 2
	}
	vfC11Superblock(c)
	vfC11ObjectHeaderV2(c)
	vfC11ObjectHeaderV1(c)
	vfC11MessageTypeSweep(c)
	vfC11Dataspace(c)
	vfC11Layout(c)
	vfC11Datatypes(c)
	vfC11ArrayEnum(c)
	vfC11Compound(c)
	vfC11Attribute(c)
	vfC11AttributeInfo(c)
	vfC11Link(c)
	vfC11LinkInfo(c)
	vfC11SymbolTable(c)

	r.Cases(c.total)
	r.Distinct("grid values accepted by the encoder", c.nontriv)
	r.Set("cases_per_pair", c.cases)
	r.Set("skipped_encoder_rejects_per_pair", c.skipped)
	r.Set("failing_checks_per_pair", c.failed)
	r.Sample(map[string]any{"pair": "dataspace", "dims": "[4294967296 1 9223372036854775808]", "maxdims": "unlimited", "checked": "Parse(Encode(v)) == v; Encode twice identical; Encode(Parse(Encode(v))) == Encode(v)"})
	r.Sample(map[string]any{"pair": "compound-v3", "members": "a:int8@0 bbbbbbb:string8@1 c:nested-compound@9", "checked": "ParseCompoundType(ParseDatatypeMessage(Encode)) member names/offsets/types equal"})
	r.Sample(map[string]any{"pair": "link-Soft", "flags": "0x1d", "name_length": 256, "checked": "every field of LinkMessage equal after ParseLinkMessage(EncodeLinkMessage(v))"})
	r.Rule("every value of the explicit per-pair grids (superblock v0/2/3 x addresses {0,48,96,2^32,2^63-1}^3 x extras x size pairs; object header v1/v2 x 0..6 messages x size tuples (all tuples up to 4 [v1: 3] messages (thorough: 6 [5]), above that constant tuples and all one-place deviations) x flags/refcount; dataspace rank 0..32 x dims {1,2,2^32-1,2^32,2^63} (all vectors up to rank 3 [thorough: 5], above constant and one-place deviations) x maxdims {absent,equal,larger,unlimited}; layout contiguous/chunked rank 0..5; datatype classes x sizes x bit fields x {no, standard} properties; array/enum with 0..3 dims/members, compound v1+v3 with 0..3 (thorough: 0..4) members from 8 member types x name lengths {1,7,8,9} x packed/gapped offsets; attribute name lengths {0,1,7,8,9,255,256,65534,65535} x datatypes x dataspaces x data; attribute-info/link-info flags 0..3 x addresses x offset sizes {8,4,2}; link type x all flag combinations x name lengths {0,1,255,256,65535,65536}; symbol-table message); a case is non-trivial when the encoder accepts the value")
}
