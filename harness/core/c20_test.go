//go:build verif

package core

import (
	"fmt"
	"math"
	"sort"
	"sync"
	"testing"

	"github.com/scigolib/hdf5/internal/verif/vkit"
)

// C20 — FP8 / bfloat16 conversions. The domains are finite: enumerate them.
//
// Reference: the representable set of a format is defined by the library's own decoder on
// the finite codes; the expected result of encoding x is the member nearest to x in exact
// arithmetic (float64 holds every value and midpoint exactly), ties to the even code;
// above the largest finite value both "saturate to max" and "overflow to infinity" are
// accepted (the documentation names both), a NaN result is not.

type vfFmt struct {
	name string
	enc  func(float32) uint32
	dec  func(uint32) float32
	n    uint32 // number of codes
	// derived
	vals  []float64 // positive finite values, ascending (including 0)
	codes []uint32  // code for vals[i] (positive sign)
	sign  uint32    // sign bit mask

	minNormalCode uint32
}

func vfFormats() []*vfFmt {
	fs := []*vfFmt{
		{name: "e4m3", n: 256, sign: 0x80, minNormalCode: 0x08,
			enc: func(f float32) uint32 { return uint32(Float32ToFP8E4M3(f)) },
			dec: func(c uint32) float32 { return FP8E4M3(c).ToFloat32() }},
		{name: "e5m2", n: 256, sign: 0x80, minNormalCode: 0x04,
			enc: func(f float32) uint32 { return uint32(Float32ToFP8E5M2(f)) },
			dec: func(c uint32) float32 { return FP8E5M2(c).ToFloat32() }},
		{name: "bf16", n: 65536, sign: 0x8000, minNormalCode: 0x0080,
			enc: func(f float32) uint32 { return uint32(Float32ToBFloat16(f)) },
			dec: func(c uint32) float32 { return BFloat16(c).ToFloat32() }},
	}
	for _, f := range fs {
		type vc struct {
			v float64
			c uint32
		}
		var l []vc
		for c := uint32(0); c < f.n; c++ {
			if c&f.sign != 0 {
				continue
			}
			v := float64(f.dec(c))
			if math.IsNaN(v) || math.IsInf(v, 0) {
				continue
			}
			l = append(l, vc{v, c})
		}
		sort.Slice(l, func(i, j int) bool { return l[i].v < l[j].v })
		for _, e := range l {
			f.vals = append(f.vals, e.v)
			f.codes = append(f.codes, e.c)
		}
	}
	return fs
}

func (f *vfFmt) isNaNCode(c uint32) bool { v := f.dec(c); return v != v }

// region names the magnitude class of x for finding keys.
func (f *vfFmt) region(ax float64) string {
	minNormal := float64(f.dec(f.minNormalCode))
	max := f.vals[len(f.vals)-1]
	switch {
	case ax > max:
		return "above-max"
	case ax < f.vals[1]:
		return "below-min-subnormal"
	case ax < minNormal:
		return "subnormal"
	case ax >= max/2:
		return "top-binade"
	default:
		return "normal"
	}
}

// checkEncode evaluates one float32 input; returns "" or a finding key.
func (f *vfFmt) checkEncode(bits uint32) string {
	x := math.Float32frombits(bits)
	c := f.enc(x)
	if c >= f.n {
		return f.name + "/code-out-of-range"
	}
	y := f.dec(c)
	if x != x {
		if y == y {
			what := "number"
			if math.IsInf(float64(y), 0) {
				what = "inf"
			}
			pay := "quiet"
			if bits&0x00400000 == 0 {
				pay = "signalling"
			}
			return fmt.Sprintf("%s/nan-to-%s/%s", f.name, what, pay)
		}
		return ""
	}
	if y != y {
		return fmt.Sprintf("%s/number-to-nan/%s", f.name, f.region(math.Abs(float64(x))))
	}
	ax := math.Abs(float64(x))
	neg := math.Signbit(float64(x))
	if y != 0 && math.Signbit(float64(y)) != neg {
		return f.name + "/sign-flipped"
	}
	ay := math.Abs(float64(y))
	max := f.vals[len(f.vals)-1]
	if math.IsInf(ax, 0) {
		if !math.IsInf(ay, 0) {
			return f.name + "/inf-to-finite"
		}
		return ""
	}
	if ax > max {
		if math.IsInf(ay, 0) || ay == max {
			return ""
		}
		return f.name + "/above-max-neither-max-nor-inf"
	}
	// nearest member
	i := sort.SearchFloat64s(f.vals, ax) // first vals[i] >= ax
	var want float64
	var tie bool
	if f.vals[i] == ax {
		want = ax
	} else {
		lo, hi := f.vals[i-1], f.vals[i]
		dl, dh := ax-lo, hi-ax // exact in float64 for these formats
		switch {
		case dl < dh:
			want = lo
		case dh < dl:
			want = hi
		default:
			tie = true
			if f.codes[i-1]&1 == 0 {
				want = lo
			} else {
				want = hi
			}
		}
	}
	if ay == want {
		return ""
	}
	reg := f.region(ax)
	if math.IsInf(ay, 0) {
		return fmt.Sprintf("%s/finite-to-inf/%s", f.name, reg)
	}
	dir := "low"
	if ay > want {
		dir = "high"
	}
	if tie {
		return fmt.Sprintf("%s/tie-not-to-even/%s/%s", f.name, reg, dir)
	}
	// distance in steps
	j := sort.SearchFloat64s(f.vals, ay)
	k := sort.SearchFloat64s(f.vals, want)
	d := j - k
	if d < 0 {
		d = -d
	}
	ds := "1step"
	if d > 1 {
		ds = "far"
	}
	return fmt.Sprintf("%s/not-nearest/%s/%s/%s", f.name, reg, dir, ds)
}

func TestVerif_C20(t *testing.T) {
	r := vkit.Start(t, "C20", "exploration")
	defer r.Finish()
	fs := vfFormats()
	r.Assume("the representable set of each format is defined by the library's decoder on its finite codes")
	r.Assume("above the largest finite value both saturation and overflow to infinity are accepted")

	// (1) all codes: code -> float32 -> code
	for _, f := range fs {
		for c := uint32(0); c < f.n; c++ {
			v := f.dec(c)
			c2 := f.enc(v)
			key := fmt.Sprintf("%s/code/%#x", f.name, c)
			r.Case(key)
			if v != v {
				if !f.isNaNCode(c2) {
					r.Fail(fmt.Sprintf("%s/code-roundtrip/nan-code-to-non-nan", f.name), map[string]any{"format": f.name, "code": c, "back": c2})
				}
				continue
			}
			if c2 != c {
				cls := "finite"
				if math.IsInf(float64(v), 0) {
					cls = "inf"
				} else if v == 0 {
					cls = "zero"
				}
				r.Fail(fmt.Sprintf("%s/code-roundtrip/%s-code-changed", f.name, cls), map[string]any{"format": f.name, "code": c, "value": v, "back": c2})
			}
		}
		r.Sample(map[string]any{"format": f.name, "codes": f.n, "finite_positive_values": len(f.vals), "max_finite": f.vals[len(f.vals)-1]})
	}
	// (5) byte encoding round trip, all bfloat16 codes
	for c := uint32(0); c < 65536; c++ {
		b := BFloat16(c).Encode()
		r.Case("")
		if len(b) != 2 || uint32(DecodeBFloat16(b)) != c || b[0] != byte(c) || b[1] != byte(c>>8) {
			r.Fail("bf16/byte-encoding-roundtrip", map[string]any{"code": c, "bytes": b})
		}
	}

	// (2)(4) float32 -> code -> float32 nearest; (3) monotone.
	// Enumeration: thorough = all 2^32 patterns; quick = all patterns whose low 12 mantissa
	// bits are in {000,001,7FF,800,801,FFF} (every exponent, every kept-mantissa value, both
	// sides of every tie; the bf16 ties 0x..8000 and their neighbours 0x..7FFF/0x..8001 are in the set).
	low12 := []uint32{0x000, 0x001, 0x002, 0x3FF, 0x400, 0x401, 0x7FE, 0x7FF, 0x800, 0x801, 0x802, 0xBFF, 0xC00, 0xC01, 0xFFE, 0xFFF}
	const shards = 4096 // upper-12-bit prefixes: sign+exponent+3 mantissa bits
	var mu sync.Mutex
	total := int64(0)
	for _, f := range fs {
		f := f
		vkit.ParallelFor(shards, func(s int) {
			if r.Expired() {
				r.Cap("time budget")
				return
			}
			base := uint32(s) << 20
			var n int64
			prev := float32(0)
			havePrev := false
			neg := base&0x80000000 != 0
			visit := func(bits uint32) {
				n++
				if k := f.checkEncode(bits); k != "" {
					r.Fail(k, map[string]any{"format": f.name, "float32_bits": fmt.Sprintf("%#08x", bits), "value": fmt.Sprint(math.Float32frombits(bits)),
						"code": f.enc(math.Float32frombits(bits)), "decoded": fmt.Sprint(f.dec(f.enc(math.Float32frombits(bits))))})
				}
				x := math.Float32frombits(bits)
				if x != x {
					havePrev = false
					return
				}
				y := f.dec(f.enc(x))
				if y != y {
					havePrev = false
					return
				}
				if havePrev {
					// bits ascending: magnitude ascending; for negatives value descending
					bad := (!neg && y < prev) || (neg && y > prev)
					if bad {
						r.Fail(fmt.Sprintf("%s/non-monotone/%s", f.name, f.region(math.Abs(float64(x)))), map[string]any{"format": f.name, "float32_bits": fmt.Sprintf("%#08x", bits), "decoded": fmt.Sprint(y), "previous_decoded": fmt.Sprint(prev)})
					}
				}
				prev, havePrev = y, true
			}
			if r.Thorough() {
				for lo := uint32(0); lo < 1<<20; lo++ {
					visit(base | lo)
				}
			} else {
				// ascending order within the shard: mid 8 bits × low-12 set, plus low-16 set
				for mid := uint32(0); mid < 1<<8; mid++ {
					for _, l := range low12 {
						visit(base | mid<<12 | l)
					}
				}
			}
			mu.Lock()
			total += n
			mu.Unlock()
		})
		// shard boundaries: monotonicity across adjacent shards
		for s := 1; s < shards; s++ {
			if s == shards/2 {
				continue // sign change
			}
			a := math.Float32frombits(uint32(s)<<20 - 1)
			b := math.Float32frombits(uint32(s) << 20)
			if a != a || b != b {
				continue
			}
			ya, yb := f.dec(f.enc(a)), f.dec(f.enc(b))
			if ya != ya || yb != yb {
				continue
			}
			neg := s > shards/2
			if (!neg && yb < ya) || (neg && yb > ya) {
				r.Fail(fmt.Sprintf("%s/non-monotone/%s", f.name, f.region(math.Abs(float64(b)))), map[string]any{"format": f.name, "at": uint32(s) << 20})
			}
		}
	}
	r.Cases(total)
	r.Distinct("float32 patterns", total)
	// midpoints and neighbours of every representable value (exact ties), both signs
	for _, f := range fs {
		if f.n > 256 {
			continue // bf16 ties are the low16==0x8000 patterns above
		}
		for i := 0; i+1 < len(f.vals); i++ {
			mid := (f.vals[i] + f.vals[i+1]) / 2
			m32 := float32(mid)
			if float64(m32) != mid {
				continue
			}
			for _, sgn := range []uint32{0, 0x80000000} {
				b := math.Float32bits(m32) | sgn
				for _, d := range []int32{-1, 0, 1} {
					bits := uint32(int32(b) + d)
					r.Case(fmt.Sprintf("%s/mid/%#x", f.name, bits))
					if k := f.checkEncode(bits); k != "" {
						r.Fail(k, map[string]any{"format": f.name, "float32_bits": fmt.Sprintf("%#08x", bits), "value": fmt.Sprint(math.Float32frombits(bits)), "code": f.enc(math.Float32frombits(bits))})
					}
				}
			}
		}
	}
	if r.Thorough() {
		r.Rule("all codes of each format; all 2^32 float32 bit patterns per format (3 formats), each compared with the exact nearest-even reference and checked for monotonicity in bit order; every input pattern is distinct")
	} else {
		r.Rule("all codes of each format; every float32 pattern whose low 12 bits are one of the 16 values {000,001,002,3FF,400,401,7FE,7FF,800,801,802,BFF,C00,C01,FFE,FFF} (16 x 2^20 patterns per format: every sign, exponent and upper-11-bit mantissa, both sides of every FP8 and bfloat16 tie); all exact midpoints of adjacent FP8 values ±1ulp; every input pattern is distinct")
	}
	r.Sample(map[string]any{"format": "e4m3", "input_bits": "0x3fc80000 (1.5625, tie between 1.5 and 1.625)", "code": fs[0].enc(1.5625)})
	r.Sample(map[string]any{"format": "bf16", "input_bits": "0x7f800001 (signalling NaN)", "code": fs[2].enc(math.Float32frombits(0x7f800001))})
}
