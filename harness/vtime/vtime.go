//go:build verif

// Package vtime replaces "time" in the instrumented copies of the code under test (C18).
// Types and constants are the real ones (aliases), the clock is virtual: Now() is a fixed
// epoch plus an offset that only the explorer advances (by a ticker's interval when it lets
// that ticker fire). A virtual ticker never fires by itself.
package vtime

import (
	"reflect"
	"time"

	"github.com/scigolib/hdf5/internal/verif/vsched"
)

type (
	Duration = time.Duration
	Time     = time.Time
	Month    = time.Month
	Weekday  = time.Weekday
	Location = time.Location
)

const (
	Nanosecond  = time.Nanosecond
	Microsecond = time.Microsecond
	Millisecond = time.Millisecond
	Second      = time.Second
	Minute      = time.Minute
	Hour        = time.Hour

	RFC3339     = time.RFC3339
	RFC3339Nano = time.RFC3339Nano
)

var (
	UTC   = time.UTC
	Local = time.Local
)

var epoch = time.Date(2025, 1, 1, 0, 0, 0, 0, time.UTC)

func Now() Time                                { return epoch.Add(Duration(vsched.Clock())) }
func Since(t Time) Duration                    { return Now().Sub(t) }
func Until(t Time) Duration                    { return t.Sub(Now()) }
func Unix(s, ns int64) Time                    { return time.Unix(s, ns) }
func UnixMilli(ms int64) Time                  { return time.UnixMilli(ms) }
func ParseDuration(s string) (Duration, error) { return time.ParseDuration(s) }
func Date(y int, m Month, d, h, mi, s, ns int, loc *Location) Time {
	return time.Date(y, m, d, h, mi, s, ns, loc)
}

// Ticker is a virtual ticker: a tick is an environment transition chosen by the explorer.
type Ticker struct {
	C <-chan Time
	c chan Time
}

func NewTicker(d Duration) *Ticker {
	if d <= 0 {
		panic("non-positive interval for NewTicker")
	}
	c := make(chan Time, 1)
	t := &Ticker{C: c, c: c}
	vsched.RegisterTicker(t.C, chanKey(c), int64(d), t.fire)
	return t
}

// fire is run by the receiving thread itself right before its receive.
func (t *Ticker) fire() {
	select {
	case t.c <- Now():
	default:
	}
}

func (t *Ticker) Stop() { vsched.OpKey(vsched.KTickerStop, t.C, chanKey(t.c)) }

func (t *Ticker) Reset(d Duration) { panic("vtime: Ticker.Reset is not modelled") }

func chanKey(c chan Time) uintptr { return reflect.ValueOf(c).Pointer() }
