//go:build verif

package hdf5

import (
	"bytes"
	"crypto/sha256"
	"encoding/binary"
	"fmt"
	"hash/crc32"
	"os"
	"path/filepath"
	"sort"
	"strings"
	"sync"
	"sync/atomic"
	"testing"

	"github.com/scigolib/hdf5/internal/verif/h5ref"
	"github.com/scigolib/hdf5/internal/verif/vkit"
)

// C10 — reopening a file for modification preserves everything not modified.

type vfSOp struct {
	Op    string `json:"op"` // attr delattr write mkds mkgroup
	Path  string `json:"path"`
	Name  string `json:"name,omitempty"`
	Value string `json:"value,omitempty"`
	Pat   int    `json:"pat,omitempty"`
}

func (o vfSOp) String() string {
	switch o.Op {
	case "attr":
		return fmt.Sprintf("attr(%s,%s,%s)", o.Path, o.Name, o.Value)
	case "delattr":
		return fmt.Sprintf("delattr(%s,%s)", o.Path, o.Name)
	case "write":
		return fmt.Sprintf("write(%s,p%d)", o.Path, o.Pat)
	}
	return fmt.Sprintf("%s(%s)", o.Op, o.Path)
}

type vfSession []vfSOp

func vfSessionsString(ss []vfSession) string {
	var parts []string
	for _, s := range ss {
		var p []string
		for _, o := range s {
			p = append(p, o.String())
		}
		parts = append(parts, "{"+strings.Join(p, "; ")+"}")
	}
	return strings.Join(parts, " ")
}

type vfSResult struct {
	OpenErr  error
	Errs     []error
	Panics   []bool
	CloseErr error
}

// vfRunSession applies one session to the file in place.
func vfRunSession(path string, s vfSession, dsTypes map[string]string, dsDims map[string]int) (res vfSResult) {
	defer func() {
		if p := recover(); p != nil {
			res.OpenErr = fmt.Errorf("PANIC in session: %v", p)
		}
	}()
	fw, err := OpenForWrite(path, OpenReadWrite)
	if err != nil {
		res.OpenErr = err
		return
	}
	handles := map[string]*DatasetWriter{}
	for _, o := range s {
		var e error
		pan := false
		func() {
			defer func() {
				if p := recover(); p != nil {
					e = fmt.Errorf("PANIC: %v", p)
					pan = true
				}
			}()
			switch o.Op {
			case "attr", "delattr", "write":
				ds := handles[o.Path]
				if ds == nil {
					ds, e = fw.OpenDataset(o.Path)
					if e != nil {
						return
					}
					handles[o.Path] = ds
				}
				switch o.Op {
				case "attr":
					e = ds.WriteAttribute(o.Name, vfAttrValue(o.Value))
				case "delattr":
					e = ds.DeleteAttribute(o.Name)
				case "write":
					t := vfTypes[dsTypes[o.Path]]
					if t == nil {
						e = fmt.Errorf("harness: unknown element type for %s", o.Path)
						return
					}
					e = ds.Write(t.Make(dsDims[o.Path], o.Pat))
				}
			case "mkds":
				_, e = fw.CreateDataset(o.Path, Int32, []uint64{2})
			case "mkgroup":
				_, e = fw.CreateGroup(o.Path)
			}
		}()
		res.Errs = append(res.Errs, e)
		res.Panics = append(res.Panics, pan)
	}
	func() {
		defer func() {
			if p := recover(); p != nil {
				res.CloseErr = fmt.Errorf("PANIC: %v", p)
			}
		}()
		res.CloseErr = fw.Close()
	}()
	return
}

type vfBase struct {
	name   string
	build  func(path string) error // writes the file
	ds     []string                // dataset paths usable as targets
	types  map[string]string
	nelems map[string]int
}

var vfC10Counter int64

func vfC10LibBases(dir string) []vfBase {
	var out []vfBase
	// length of a string attribute "fillup" that brings /y's header (with its attribute "unit")
	// to exactly 255 message bytes, found by trying (0: not found)
	fillLen := 0
	for n := 1; n <= 230 && fillLen == 0; n++ {
		w, err := vfNewWorld(dir)
		if err != nil {
			break
		}
		ok := true
		for _, o := range []vfOp{{Op: "mkds", Path: "/y", Type: "i32", Dims: []uint64{2, 3}}, {Op: "attr", Path: "/y", Name: "unit", Value: "s40"}, {Op: "attr", Path: "/y", Name: "fillup", Value: fmt.Sprintf("str:%d", n)}} {
			if e, _ := w.Apply(o); e != nil {
				ok = false
			}
		}
		if ok && vfHeaderMessageBytes(w, "/y") == 255 {
			fillLen = n
		}
		w.Remove()
	}
	type variant struct {
		sb   uint8
		k    int
		full bool
	}
	var vars []variant
	for _, sb := range []uint8{2, 0, 3} {
		for _, k := range []int{0, 3, 7, 9} {
			vars = append(vars, variant{sb, k, false})
		}
	}
	if fillLen > 0 {
		// the object created last has a completely full header: the end of the file is live
		// content, not growth room, when the next session starts allocating
		vars = append(vars, variant{2, 7, true}, variant{0, 7, true})
	}
	for _, v := range vars {
		{
			sb, k, full := v.sb, v.k, v.full
			name := fmt.Sprintf("lib/sb%d/x-with-%d-attrs+y+g", sb, k)
			if full {
				name += "+y-header-full"
			}
			out = append(out, vfBase{
				name: name,
				build: func(p string) error {
					fw, err := CreateForWrite(p, CreateTruncate, WithSuperblockVersion(sb))
					if err != nil {
						return err
					}
					w := &vfWorld{Path: p, FW: fw, DS: map[string]*DatasetWriter{}, DSType: map[string]string{}, DSDims: map[string][]uint64{}, GR: map[string]*GroupWriter{}}
					ops := []vfOp{{Op: "mkds", Path: "/x", Type: "f64", Dims: []uint64{4}}, {Op: "write", Path: "/x", Pat: 1}}
					for i := 0; i < k; i++ {
						ops = append(ops, vfOp{Op: "attr", Path: "/x", Name: fmt.Sprintf("k%02d", i), Value: []string{"i64", "s1", "f32"}[i%3]})
					}
					// /y is created LAST: its reserved header room is the end of the file, which is
					// where a reopened session's allocator starts
					ops = append(ops, vfOp{Op: "mkgroup", Path: "/g"}, vfOp{Op: "attr", Path: "/g", Name: "ga", Value: "i32a"},
						vfOp{Op: "mkds", Path: "/g/z", Type: "u8", Dims: []uint64{3}}, vfOp{Op: "write", Path: "/g/z", Pat: 4},
						// namesakes of the session's target at deeper levels (same leaf name, same type
						// and shape, other content), in a group that sorts before and one that sorts after
						vfOp{Op: "mkds", Path: "/g/x", Type: "f64", Dims: []uint64{4}}, vfOp{Op: "write", Path: "/g/x", Pat: 3},
						vfOp{Op: "mkgroup", Path: "/zz"}, vfOp{Op: "mkds", Path: "/zz/x", Type: "f64", Dims: []uint64{4}}, vfOp{Op: "write", Path: "/zz/x", Pat: 4},
						// a chunked, resizable dataset: through an OpenDataset handle its layout address
						// is the chunk index, not raw data
						vfOp{Op: "mkds", Path: "/ck", Type: "f64", Dims: []uint64{4}, Chunk: []uint64{2}, Max: []uint64{6}}, vfOp{Op: "write", Path: "/ck", Pat: 2},
						vfOp{Op: "attr", Path: "/ck", Name: "ca", Value: "i32a"},
						vfOp{Op: "mkds", Path: "/y", Type: "i32", Dims: []uint64{2, 3}}, vfOp{Op: "write", Path: "/y", Pat: 2},
						vfOp{Op: "attr", Path: "/y", Name: "unit", Value: "s40"})
					if full {
						ops = append(ops, vfOp{Op: "attr", Path: "/y", Name: "fillup", Value: fmt.Sprintf("str:%d", fillLen)})
					}
					for _, o := range ops {
						if e, _ := w.Apply(o); e != nil {
							fw.Close()
							return fmt.Errorf("%s: %w", o, e)
						}
					}
					return fw.Close()
				},
				ds: []string{"/x", "/y", "/ck"}, types: map[string]string{"/x": "f64", "/y": "i32", "/ck": "f64"}, nelems: map[string]int{"/x": 4, "/y": 6, "/ck": 4},
			})
		}
	}
	return out
}

// vfC10RefBases: small reference-library files with at least one dataset Read() supports.
func vfC10RefBases(max int) []vfBase {
	var out []vfBase
	cands := []string{"testdata/simple.h5", "testdata/with_attributes.h5", "testdata/with_groups.h5", "testdata/v0.h5", "testdata/v2.h5", "testdata/v3.h5", "testdata/multiple_datasets.h5", "testdata/test_attributes.h5", "testdata/simple_float64.h5", "testdata/matrix_2x3.h5"}
	for _, c := range cands {
		if len(out) >= max {
			break
		}
		st, err := os.Stat(c)
		if err != nil || st.Size() == 0 || st.Size() > 1<<20 {
			continue
		}
		tr, err := vfDumpFile(c)
		if err != nil {
			continue
		}
		var ds []string
		types := map[string]string{}
		nel := map[string]int{}
		for p, ob := range tr.Objs {
			if ob.Kind != "dataset" || ob.Read == "ERR" {
				continue
			}
			var n int
			fmt.Sscanf(ob.Read, "%d:", &n)
			switch {
			case strings.Contains(ob.Info, "float (size=8"):
				types[p] = "f64"
			case strings.Contains(ob.Info, "float (size=4"):
				types[p] = "f32"
			case strings.Contains(ob.Info, "integer (size=4"):
				types[p] = "i32"
			case strings.Contains(ob.Info, "integer (size=8"):
				types[p] = "i64"
			default:
				continue
			}
			nel[p] = n
			ds = append(ds, p)
		}
		sort.Strings(ds)
		if len(ds) == 0 {
			continue
		}
		if len(ds) > 2 {
			ds = ds[:2]
		}
		src := c
		out = append(out, vfBase{name: "ref/" + filepath.Base(c), build: func(p string) error {
			b, err := os.ReadFile(src)
			if err != nil {
				return err
			}
			return os.WriteFile(p, b, 0o644)
		}, ds: ds, types: types, nelems: nel})
	}
	return out
}

// vfC10Superblock compares the superblock of the file after a session with the one before it,
// field by field and by the layout of the version found before the session (8-byte offsets and
// lengths, which is what the library and the bundled small reference files use; other widths
// are not judged): only the end-of-file address (and, in versions 2/3, the checksum) may
// change; the end-of-file address must equal the file size when the file grew and stay what it
// was otherwise; a version 2/3 checksum must be a checksum of the bytes before it.
func vfC10Superblock(before, after []byte) string {
	sig := "\x89HDF\r\n\x1a\n"
	if len(before) < 96 || len(after) < 96 || string(before[:8]) != sig {
		return ""
	}
	if string(after[:8]) != sig {
		return "signature changed"
	}
	ver := before[8]
	var eofAt, end int
	var ckAt = -1
	switch ver {
	case 0, 1:
		if before[13] != 8 || before[14] != 8 {
			return ""
		}
		eofAt = 24 + 16
		if ver == 1 {
			eofAt += 4
		}
		end = eofAt + 16 + 40 // driver address and the root symbol table entry
	case 2, 3:
		if before[9] != 8 || before[10] != 8 {
			return ""
		}
		eofAt, ckAt, end = 28, 44, 48
	default:
		return ""
	}
	for k := 0; k < end; k++ {
		if k >= eofAt && k < eofAt+8 || ckAt >= 0 && k >= ckAt && k < ckAt+4 {
			continue
		}
		if before[k] != after[k] {
			return fmt.Sprintf("version %d superblock byte %d changed: %#02x -> %#02x", ver, k, before[k], after[k])
		}
	}
	eofB, eofA := binary.LittleEndian.Uint64(before[eofAt:]), binary.LittleEndian.Uint64(after[eofAt:])
	switch {
	case len(after) > len(before) && eofA != uint64(len(after)):
		return fmt.Sprintf("file grew from %d to %d bytes, end-of-file address %d -> %d", len(before), len(after), eofB, eofA)
	case len(after) == len(before) && eofA != eofB:
		return fmt.Sprintf("file size unchanged (%d), end-of-file address %d -> %d", len(after), eofB, eofA)
	}
	if ckAt >= 0 {
		// (the library stores a CRC-32 where the format wants lookup3: finding of C05, not judged here)
		if got, want, crc := binary.LittleEndian.Uint32(after[ckAt:]), h5ref.Lookup3(after[:ckAt]), crc32.ChecksumIEEE(after[:ckAt]); got != want && got != crc {
			return fmt.Sprintf("superblock checksum %#08x is neither the lookup3 (%#08x) nor the CRC-32 (%#08x) of the bytes before it", got, want, crc)
		}
	}
	return ""
}

func TestVerif_C10(t *testing.T) {
	r := vkit.Start(t, "C10", "model_checking")
	defer r.Finish()
	dir := vkit.Scratch(t)
	bases := append(vfC10LibBases(dir), vfC10RefBases(6)...)
	// structural monitor: the independent decoder (h5ref, the oracle of C05) reads the file
	// after every session. Baseline = what it has to tolerate in the library's own freshly
	// written files (the library-written bases, before any session; these deviations are
	// findings of C05). A session must not add a decoder error, nor a deviation tag that neither
	// the file had before the session nor any fresh file has.
	baseline := map[string]bool{}
	for _, b := range bases {
		if !strings.HasPrefix(b.name, "lib/") {
			continue
		}
		p := filepath.Join(dir, "baseline.h5")
		if b.build(p) == nil {
			if img, err := os.ReadFile(p); err == nil {
				for _, t := range h5ref.Decode(img).DeviationTags() {
					baseline[t] = true
				}
			}
		}
		os.Remove(p)
	}
	var bl []string
	for t := range baseline {
		bl = append(bl, t)
	}
	sort.Strings(bl)
	r.Set("structural_monitor_baseline_tags(fresh library files)", bl)
	maxSessions := 2
	if r.Thorough() {
		maxSessions = 3
	}
	r.Rule(fmt.Sprintf("base files: library-written (superblock 0/2/3 x dataset with 0/3/7/9 attributes + second dataset + group with nested dataset) and small reference-library files; histories of <= %d sessions, each OpenForWrite + <= 2 operations from {noop, upsert(a|k00|new, i32a|s40|f64x3), an upsert refused for its size, delete(k00|absent), overwrite data, create dataset, create group} + Close; after every session the dump must equal the previous dump with exactly the session's successful modifications applied, untouched objects must be unchanged, a session without a successful modification must leave the file byte-identical, the superblock may change only in its end-of-file address and checksum, and the independent decoder must find no error or deviation tag after the session that neither the file had before nor any freshly written library file has; non-trivial = history with at least one successful modification", maxSessions))
	var states sync.Map
	nstates := int64(0)
	for _, base := range bases {
		base := base
		// per-session alphabet
		var ops []vfSOp
		tgt := base.ds[0]
		for _, n := range []string{"a", "k00"} {
			for _, v := range []string{"i32a", "s40", "f64x3"} {
				ops = append(ops, vfSOp{Op: "attr", Path: tgt, Name: n, Value: v})
			}
		}
		// same-size overwrites of attributes that exist when the session starts (k00 is an
		// int64, k02 a float32 in the library-written bases), also after an earlier message
		// of the header has been deleted or resized in the same session
		ops = append(ops, vfSOp{Op: "attr", Path: tgt, Name: "k00", Value: "i64b"}, vfSOp{Op: "attr", Path: tgt, Name: "k02", Value: "f32b"},
			vfSOp{Op: "delattr", Path: tgt, Name: "k01"})
		// a write that is refused for its size (a refused call is no modification; what it leaves
		// on the handle shows in the calls after it)
		ops = append(ops, vfSOp{Op: "attr", Path: tgt, Name: "big", Value: "f64x9000"})
		ops = append(ops, vfSOp{Op: "delattr", Path: tgt, Name: "k00"}, vfSOp{Op: "delattr", Path: tgt, Name: "absent"},
			vfSOp{Op: "write", Path: tgt, Pat: 5}, vfSOp{Op: "mkds", Path: "/newds"}, vfSOp{Op: "mkgroup", Path: "/newgrp"})
		if len(base.ds) > 1 {
			ops = append(ops, vfSOp{Op: "attr", Path: base.ds[1], Name: "b", Value: "i32b"})
		}
		if len(base.ds) > 2 && strings.HasPrefix(base.name, "lib/") {
			// data overwrite and an attribute on the chunked dataset
			ops = append(ops, vfSOp{Op: "write", Path: base.ds[2], Pat: 5}, vfSOp{Op: "attr", Path: base.ds[2], Name: "cb", Value: "s40"})
		}
		var sessions []vfSession
		sessions = append(sessions, vfSession{})
		for _, o := range ops {
			sessions = append(sessions, vfSession{o})
		}
		if !strings.HasPrefix(base.name, "lib/sb0") && !strings.HasPrefix(base.name, "lib/sb3") || r.Thorough() {
			for _, o1 := range ops {
				for _, o2 := range ops {
					if o1.Op == "mkds" || o1.Op == "mkgroup" || o2.Op == "mkds" || o2.Op == "mkgroup" {
						continue
					}
					sessions = append(sessions, vfSession{o1, o2})
				}
			}
		}
		// histories
		var hists [][]vfSession
		var gen func(h []vfSession)
		gen = func(h []vfSession) {
			if len(h) > 0 {
				hists = append(hists, append([]vfSession{}, h...))
			}
			if len(h) >= maxSessions {
				return
			}
			cand := sessions
			if len(h) >= 1 {
				// later sessions: single-op sessions only (keeps the product bounded)
				cand = nil
				for _, s := range sessions {
					if len(s) <= 1 {
						cand = append(cand, s)
					}
				}
			}
			for _, s := range cand {
				gen(append(append([]vfSession{}, h...), s))
			}
		}
		gen(nil)
		r.Sample(map[string]any{"base": base.name, "histories": len(hists), "example": vfSessionsString(hists[len(hists)/2])})
		vkit.ParallelFor(len(hists), func(i int) {
			if r.Expired() {
				r.Cap("time budget")
				return
			}
			h := hists[i]
			p := filepath.Join(dir, fmt.Sprintf("c10-%d.h5", atomic.AddInt64(&vfC10Counter, 1)))
			defer os.Remove(p)
			if err := base.build(p); err != nil {
				r.Fail("harness/base-build-failed", map[string]any{"base": base.name, "error": err.Error()})
				return
			}
			prev, err := vfDumpFile(p)
			if err != nil {
				r.Fail("harness/base-unreadable", map[string]any{"base": base.name, "error": err.Error()})
				return
			}
			kind := strings.SplitN(base.name, "/", 2)[0]
			anyOK := false
			for si, s := range h {
				before, _ := os.ReadFile(p)
				res := vfRunSession(p, s, base.types, base.nelems)
				r.Transitions(1)
				detail := map[string]any{"base": base.name, "history": vfSessionsString(h[:si+1]), "sessions": h[:si+1]}
				after, _ := os.ReadFile(p)
				if res.OpenErr != nil {
					detail["error"] = res.OpenErr.Error()
					if strings.HasPrefix(res.OpenErr.Error(), "PANIC") {
						r.Fail(kind+"/session-panics", detail)
					} else {
						r.Fail(kind+"/open-for-write-fails", detail)
					}
					break
				}
				okOps := 0
				var errs []string
				for k, e := range res.Errs {
					if res.Panics[k] {
						detail["panic"] = e.Error()
						r.Fail(fmt.Sprintf("%s/%s/panic", kind, s[k].Op), detail)
					}
					if e == nil {
						okOps++
					} else {
						errs = append(errs, e.Error())
					}
				}
				detail["op_errors"] = errs
				r.Add("successful_modifications_on_"+kind+"_files", int64(okOps))
				if res.CloseErr != nil {
					detail["close_error"] = res.CloseErr.Error()
					r.Fail(kind+"/close-fails", detail)
				}
				cur, derr := vfDumpFile(p)
				if derr != nil {
					detail["open_error"] = derr.Error()
					cls := "noop"
					if len(s) > 0 {
						cls = s[len(s)-1].Op
					}
					r.Fail(fmt.Sprintf("%s/%s/file-unopenable-after-session", kind, cls), detail)
					break
				}
				{
					rb, ra := h5ref.Decode(before), h5ref.Decode(after)
					had := map[string]bool{}
					for _, t := range rb.DeviationTags() {
						had[t] = true
					}
					cls := "noop"
					if len(s) > 0 {
						cls = s[len(s)-1].Op
					}
					for _, t := range ra.DeviationTags() {
						if !had[t] && !baseline[t] {
							d := map[string]any{"base": base.name, "history": vfSessionsString(h[:si+1]), "sessions": h[:si+1], "tag": t}
							for _, dv := range ra.Deviations {
								if dv.Tag == t {
									d["where"], d["what"] = dv.Where, dv.Detail
									break
								}
							}
							r.Fail(fmt.Sprintf("%s/%s/session-introduces-structural-deviation/%s", kind, cls, t), d)
						}
					}
					if len(ra.Errors) > 0 && len(rb.Errors) == 0 {
						r.Fail(fmt.Sprintf("%s/%s/session-leaves-structure-undecodable", kind, cls), map[string]any{"base": base.name, "history": vfSessionsString(h[:si+1]), "sessions": h[:si+1], "decoder_errors": ra.Errors[:1]})
					}
				}
				if why := vfC10Superblock(before, after); why != "" {
					detail["superblock"] = why
					cls := "noop"
					if len(s) > 0 {
						cls = s[len(s)-1].Op
					}
					r.Fail(fmt.Sprintf("%s/%s/superblock-damaged", kind, cls), detail)
				}
				if okOps == 0 {
					if !bytes.Equal(before, after) {
						detail["sha_before"] = fmt.Sprintf("%x", sha256.Sum256(before))
						detail["sha_after"] = fmt.Sprintf("%x", sha256.Sum256(after))
						// where do they differ
						n := 0
						for k := 0; k < len(before) && k < len(after); k++ {
							if before[k] != after[k] {
								if n == 0 {
									detail["first_diff_offset"] = k
								}
								n++
							}
						}
						detail["bytes_differing"], detail["len_before"], detail["len_after"] = n, len(before), len(after)
						cls := "noop-session"
						if len(s) > 0 {
							// A session whose calls all failed made no successful modification, but
							// the statement only demands byte identity of a session that makes no
							// modification at all; failed calls are judged logically (below, and C16).
							cls = ""
						}
						if cls != "" {
							r.Fail(fmt.Sprintf("%s/%s/file-not-byte-identical", kind, cls), detail)
						}
					}
				} else {
					anyOK = true
				}
				// expected = prev with modifications
				touched := map[string]bool{}
				for k, o := range s {
					if res.Errs[k] != nil {
						continue
					}
					touched[o.Path] = true
					if o.Op == "mkds" || o.Op == "mkgroup" {
						touched["/"] = true
					}
				}
				var problems []string
				for path, ob := range prev.Objs {
					canon := strings.TrimSuffix(path, "/")
					if canon == "" {
						canon = "/"
					}
					if touched[canon] {
						continue
					}
					nb := cur.Objs[path]
					if nb == nil {
						problems = append(problems, "untouched-object-vanished("+ob.Kind+")")
					} else if nb.Content() != ob.Content() {
						problems = append(problems, "untouched-object-changed("+ob.Kind+")")
						detail["changed_path"] = path
						detail["was"], detail["now"] = ob.Content(), nb.Content()
					}
				}
				// touched datasets: attribute map semantics + data
				for path := range touched {
					po, co := prev.Get(path), cur.Get(path)
					if po == nil || po.Kind != "dataset" {
						if co == nil && (path != "/") {
							problems = append(problems, "created-object-missing")
						}
						continue
					}
					if co == nil {
						problems = append(problems, "modified-object-vanished")
						continue
					}
					model := map[string]string{} // name -> "kind:<valuekind>" or "orig:<string>"
					for _, a := range po.Attrs {
						model[a.Name] = "orig:" + a.String()
					}
					wantRead := po.Read
					for k, o := range s {
						if res.Errs[k] != nil || o.Path != path {
							continue
						}
						switch o.Op {
						case "attr":
							model[o.Name] = "kind:" + o.Value
						case "delattr":
							delete(model, o.Name)
						case "write":
							wantRead = vfFloatBits(vfExpectFloat(base.types[path], base.nelems[path], o.Pat))
						}
					}
					if co.AttrErr {
						problems = append(problems, "attributes-unreadable")
					} else {
						got := map[string]vfAttr{}
						for _, a := range co.Attrs {
							if _, dup := got[a.Name]; dup {
								problems = append(problems, "duplicate-attribute")
							}
							got[a.Name] = a
						}
						for n, want := range model {
							a, ok := got[n]
							switch {
							case !ok:
								if strings.HasPrefix(want, "orig:") {
									problems = append(problems, "existing-attribute-lost")
								} else {
									problems = append(problems, "written-attribute-missing")
								}
							case strings.HasPrefix(want, "orig:"):
								if a.String() != want[5:] {
									problems = append(problems, "existing-attribute-changed")
								}
							default:
								if m := vfAttrMatches(a, want[5:]); m != "" {
									problems = append(problems, "written-attribute-"+m)
								}
							}
						}
						for n := range got {
							if _, ok := model[n]; !ok {
								problems = append(problems, "deleted-or-unknown-attribute-present")
							}
						}
					}
					if co.Read != wantRead {
						if wantRead == po.Read {
							problems = append(problems, "data-changed-without-write")
						} else {
							problems = append(problems, "overwritten-data-differs")
						}
						detail["read_now"], detail["read_want"] = co.Read, wantRead
					}
					if co.Shape != po.Shape {
						problems = append(problems, "shape-changed")
					}
				}
				if len(problems) > 0 {
					sort.Strings(problems)
					problems = vfUniq(problems)
					cls := "noop"
					if len(s) > 0 {
						cls = s[len(s)-1].Op
					}
					for _, pr := range problems {
						r.Fail(fmt.Sprintf("%s/%s/%s", kind, cls, pr), detail)
					}
					r.Outcome("mismatch")
					break // later sessions start from an undefined state
				}
				r.Outcome("ok")
				if _, loaded := states.LoadOrStore(base.name+cur.String(), true); !loaded {
					atomic.AddInt64(&nstates, 1)
				}
				prev = cur
			}
			if anyOK {
				r.Case(base.name + ": " + vfSessionsString(h))
			} else {
				r.Case("")
			}
		})
	}
	r.States(nstates)
	r.Traces(0)
}
