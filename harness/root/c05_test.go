//go:build verif

package hdf5

import (
	"bytes"
	"encoding/binary"
	"fmt"
	"math"
	"os"
	"path/filepath"
	"sort"
	"strings"
	"sync"
	"sync/atomic"
	"testing"
	"time"

	"github.com/scigolib/hdf5/internal/core"
	"github.com/scigolib/hdf5/internal/verif/h5ref"
	"github.com/scigolib/hdf5/internal/verif/vkit"
)

// C05 — written files are well-formed: every structure in bounds and below the recorded
// end-of-file address, no two structures overlapping, signatures / versions / sizes /
// checksums consistent, and decodable by an independent implementation of the format
// specification (h5ref) to the tree and values that were written.
//
// C05 is a monitor: it re-runs the generators of the other explorations (operation sequences,
// the C01 grid, variable-length data, resize histories) in "emit closed file" mode and checks
// every closed file with h5ref only.

// ---------------------------------------------------------------------------------------
// writer-side model
// ---------------------------------------------------------------------------------------

type vfC05Obj struct {
	kind   string // group | dataset | link-soft | link-external
	dims   []uint64
	class  int
	size   int
	signed int // -1 n/a
	data   []byte
	vlen   [][]byte
	isVLen bool
	attrs  map[string]string // name -> value kind
	target string
	lastOp string // class of the last operation that touched the object
	layout string
}

type vfC05Model struct {
	objs map[string]*vfC05Obj
}

func vfC05NewModel() *vfC05Model {
	return &vfC05Model{objs: map[string]*vfC05Obj{"/": {kind: "group", attrs: map[string]string{}, lastOp: "create-file", signed: -1}}}
}

var vfC05TypeInfo = map[string][3]int{ // class, size, signed
	"i32": {0, 4, 1}, "f64": {1, 8, -1}, "i64": {0, 8, 1}, "f32": {1, 4, -1}, "u8": {0, 1, 0}, "u32": {0, 4, 0}, "str4": {3, 4, -1},
}

// vfC05Bytes encodes a Go slice as written by DatasetWriter.Write into little-endian bytes.
func vfC05Bytes(data interface{}, strSize int) []byte {
	var b []byte
	le := binary.LittleEndian
	switch v := data.(type) {
	case []int8:
		for _, x := range v {
			b = append(b, byte(x))
		}
	case []uint8:
		b = append(b, v...)
	case []int16:
		for _, x := range v {
			b = le.AppendUint16(b, uint16(x))
		}
	case []uint16:
		for _, x := range v {
			b = le.AppendUint16(b, x)
		}
	case []int32:
		for _, x := range v {
			b = le.AppendUint32(b, uint32(x))
		}
	case []uint32:
		for _, x := range v {
			b = le.AppendUint32(b, x)
		}
	case []int64:
		for _, x := range v {
			b = le.AppendUint64(b, uint64(x))
		}
	case []uint64:
		for _, x := range v {
			b = le.AppendUint64(b, x)
		}
	case []float32:
		for _, x := range v {
			b = le.AppendUint32(b, math.Float32bits(x))
		}
	case []float64:
		for _, x := range v {
			b = le.AppendUint64(b, math.Float64bits(x))
		}
	case []string:
		for _, x := range v {
			e := make([]byte, strSize)
			copy(e, x)
			b = append(b, e...)
		}
	default:
		panic(fmt.Sprintf("vfC05Bytes: %T", data))
	}
	return b
}

// vfC05Resize is the byte-wise N-d resize: keep the intersection, zero elsewhere.
func vfC05Resize(old []byte, od, nd []uint64, es int) []byte {
	out := make([]byte, vfProd(nd)*es)
	idx := make([]uint64, len(nd))
	for i := 0; i < vfProd(nd); i++ {
		rem := uint64(i)
		for d := len(nd) - 1; d >= 0; d-- {
			idx[d] = rem % nd[d]
			rem /= nd[d]
		}
		inside := true
		var off uint64
		for d := range idx {
			if idx[d] >= od[d] {
				inside = false
				break
			}
			off = off*od[d] + idx[d]
		}
		if inside {
			copy(out[i*es:(i+1)*es], old[int(off)*es:])
		}
	}
	return out
}

func vfC05OpClass(o vfOp) string {
	switch o.Op {
	case "attr":
		return "attr-" + o.Value
	case "mkds":
		if len(o.Chunk) > 0 {
			return "mkds-chunked"
		}
		return "mkds-contiguous"
	}
	return o.Op
}

// apply updates the model for an operation the writer accepted.
func (m *vfC05Model) apply(o vfOp, w *vfWorld) {
	cls := vfC05OpClass(o)
	parent := func(p string) {
		par, _ := parsePath(p)
		if par == "" {
			par = "/"
		}
		if po := m.objs[par]; po != nil {
			po.lastOp = cls
		}
	}
	switch o.Op {
	case "mkds":
		ti := vfC05TypeInfo[o.Type]
		lay := "contiguous"
		if len(o.Chunk) > 0 {
			lay = "chunked"
		}
		m.objs[o.Path] = &vfC05Obj{kind: "dataset", dims: append([]uint64{}, o.Dims...), class: ti[0], size: ti[1], signed: ti[2],
			data: make([]byte, vfProd(o.Dims)*ti[1]), attrs: map[string]string{}, lastOp: cls, layout: lay}
		parent(o.Path)
	case "mkgroup":
		m.objs[o.Path] = &vfC05Obj{kind: "group", attrs: map[string]string{}, lastOp: cls, signed: -1}
		parent(o.Path)
	case "write":
		ob := m.objs[o.Path]
		t := vfTypes[w.DSType[o.Path]]
		ob.data = vfC05Bytes(t.Make(vfProd(ob.dims), o.Pat), t.Size)
		ob.lastOp = cls
	case "attr":
		ob := m.objs[o.Path]
		ob.attrs[o.Name] = o.Value
		ob.lastOp = cls
	case "delattr":
		ob := m.objs[o.Path]
		delete(ob.attrs, o.Name)
		ob.lastOp = cls
	case "resize":
		ob := m.objs[o.Path]
		ob.data = vfC05Resize(ob.data, ob.dims, o.Dims, ob.size)
		ob.dims = append([]uint64{}, o.Dims...)
		ob.lastOp = cls
	case "hardlink":
		m.objs[o.Path] = m.objs[o.Target]
		m.objs[o.Target].lastOp = cls
		parent(o.Path)
	case "softlink":
		m.objs[o.Path] = &vfC05Obj{kind: "link-soft", target: o.Target, lastOp: cls, signed: -1}
		parent(o.Path)
	case "densegroup":
		m.objs[o.Path] = &vfC05Obj{kind: "group", attrs: map[string]string{}, lastOp: cls, signed: -1}
		m.objs[o.Path+"/x"] = m.objs[o.Target]
		parent(o.Path)
	}
}

// ---------------------------------------------------------------------------------------
// the monitor: checks of one closed file
// ---------------------------------------------------------------------------------------

type vfC05Finding struct {
	key    string
	detail map[string]any
}

func vfC05ExtentClass(kind string) string {
	switch kind {
	case "ohdr", "ohdr-cont":
		return "object-header"
	case "chunk-data", "contiguous-data":
		return "raw-data"
	case "btree-v1-group", "btree-v1-chunk", "snod", "bthd", "btlf", "btin":
		return "index-node"
	case "local-heap-header", "local-heap-data", "gcol", "frhp", "fhdb", "fhib":
		return "heap"
	}
	return kind
}

func vfC05ErrClass(s string) string {
	if i := strings.IndexAny(s, " :"); i > 0 {
		return s[:i]
	}
	return s
}

// vfC05Canon renders the decoded tree canonically (states metric).
func vfC05Canon(res *h5ref.Result) string {
	var paths []string
	for p := range res.Objects {
		paths = append(paths, p)
	}
	sort.Strings(paths)
	var sb strings.Builder
	for _, p := range paths {
		o := res.Objects[p]
		fmt.Fprintf(&sb, "%s %s %v %s %s %x|", p, o.Kind, o.Dims, o.TypeDesc, o.Layout, o.Raw)
		for _, a := range o.Attrs {
			fmt.Fprintf(&sb, "@%s %s %v %x|", a.Name, a.TypeDesc, a.Dims, a.Raw)
		}
		for _, e := range o.VLen {
			fmt.Fprintf(&sb, "v%x|", e)
		}
		sb.WriteString(o.LinkTarget)
		sb.WriteString("\n")
	}
	return sb.String()
}

// vfC05CheckFile decodes one closed file independently and returns everything that violates
// the statement.
func vfC05CheckFile(file []byte, m *vfC05Model, caseName string) (out []vfC05Finding, res *h5ref.Result) {
	res = h5ref.Decode(file)
	add := func(key string, detail map[string]any) {
		detail["case"] = caseName
		out = append(out, vfC05Finding{key, detail})
	}
	for _, e := range res.Errors {
		add("decoder-error/"+vfC05ErrClass(e), map[string]any{"error": e})
	}
	for _, u := range res.Unsupported {
		add("decoder-unsupported/"+vfC05ErrClass(u), map[string]any{"feature": u})
	}
	// deviations from the specification the decoder had to tolerate
	seenTag := map[string]bool{}
	for _, d := range res.Deviations {
		if seenTag[d.Tag] {
			continue
		}
		seenTag[d.Tag] = true
		add("spec/"+d.Tag, map[string]any{"where": d.Where, "detail": d.Detail})
	}
	// bounds
	n := uint64(len(file))
	for _, e := range res.Extents {
		switch {
		case e.End > n:
			add("beyond-file/"+e.Kind, map[string]any{"extent": fmt.Sprintf("[%d,%d) %s %s", e.Start, e.End, e.Kind, e.Owner), "file_size": n})
		case e.End > res.EOFAddress:
			add("beyond-eof/"+vfC05ExtentClass(e.Kind), map[string]any{"extent": fmt.Sprintf("[%d,%d) %s %s", e.Start, e.End, e.Kind, e.Owner), "eof_address": res.EOFAddress, "file_size": n})
		}
	}
	// pairwise disjoint: sweep over the extents sorted by start
	var cur *h5ref.Extent
	for i := range res.Extents {
		e := &res.Extents[i]
		if cur != nil && e.Start < cur.End {
			a, b := cur.Kind, e.Kind
			if b < a {
				a, b = b, a
			}
			add("overlap/"+a+"+"+b, map[string]any{"first": fmt.Sprintf("[%d,%d) %s owner %s", cur.Start, cur.End, cur.Kind, cur.Owner), "second": fmt.Sprintf("[%d,%d) %s owner %s", e.Start, e.End, e.Kind, e.Owner)})
		}
		if cur == nil || e.End > cur.End {
			cur = e
		}
	}
	if m == nil {
		return out, res
	}
	// decoded tree == writer-side model
	for p, mo := range m.objs {
		ro := res.Objects[p]
		if ro == nil {
			add("tree/path-missing/"+mo.lastOp, map[string]any{"path": p, "kind": mo.kind})
			continue
		}
		if ro.Kind != mo.kind {
			add("tree/kind-differs/"+mo.lastOp, map[string]any{"path": p, "want": mo.kind, "got": ro.Kind})
			continue
		}
		switch mo.kind {
		case "link-soft":
			if ro.LinkTarget != mo.target {
				add("tree/link-target-differs/"+mo.lastOp, map[string]any{"path": p, "want": mo.target, "got": ro.LinkTarget})
			}
			continue
		case "dataset":
			if fmt.Sprint(ro.Dims) != fmt.Sprint(mo.dims) {
				add("tree/dims-differ/"+mo.lastOp, map[string]any{"path": p, "want": mo.dims, "got": ro.Dims})
				continue
			}
			if mo.isVLen {
				if ro.TypeClass != 9 {
					add("tree/type-differs/"+mo.lastOp, map[string]any{"path": p, "want": "class 9", "got": ro.TypeDesc})
				} else if ro.VLen == nil {
					add("tree/vlen-elements-undecodable/"+mo.lastOp, map[string]any{"path": p, "note": ro.VLenNote + ro.RawNote})
				} else {
					for i := range mo.vlen {
						if i >= len(ro.VLen) || !bytes.Equal(ro.VLen[i], mo.vlen[i]) {
							got := []byte(nil)
							if i < len(ro.VLen) {
								got = ro.VLen[i]
							}
							add("tree/vlen-element-bytes-differ/"+mo.lastOp, map[string]any{"path": p, "element": i, "want_len": len(mo.vlen[i]), "got_len": len(got), "want": fmt.Sprintf("%.40x", mo.vlen[i]), "got": fmt.Sprintf("%.40x", got)})
							break
						}
					}
				}
			} else {
				if ro.TypeClass != mo.class || ro.TypeSize != mo.size || (mo.signed >= 0 && ro.TypeSigned != (mo.signed == 1)) {
					add("tree/type-differs/"+mo.lastOp, map[string]any{"path": p, "want": fmt.Sprintf("class %d size %d signed %d", mo.class, mo.size, mo.signed), "got": ro.TypeDesc})
				}
				if ro.Type != nil && ro.Type.BigEndian {
					add("tree/byte-order-differs/"+mo.lastOp, map[string]any{"path": p, "got": ro.TypeDesc})
				}
				if ro.Raw == nil {
					add("tree/dataset-bytes-undecodable/"+mo.lastOp, map[string]any{"path": p, "note": ro.RawNote})
				} else if !bytes.Equal(ro.Raw, mo.data) {
					i := 0
					for i < len(ro.Raw) && i < len(mo.data) && ro.Raw[i] == mo.data[i] {
						i++
					}
					add("tree/dataset-bytes-differ/"+mo.lastOp, map[string]any{"path": p, "first_difference_at_byte": i, "want": fmt.Sprintf("%x", mo.data), "got": fmt.Sprintf("%x", ro.Raw), "layout": ro.Layout, "filters": ro.Filters})
				}
			}
		}
		if mo.kind == "group" || mo.kind == "dataset" {
			got := map[string]*h5ref.Attr{}
			for i := range ro.Attrs {
				got[ro.Attrs[i].Name] = &ro.Attrs[i]
			}
			if ro.AttrNote != "" {
				add("tree/attributes-undecodable/"+mo.lastOp, map[string]any{"path": p, "note": ro.AttrNote})
			}
			for name, kind := range mo.attrs {
				a := got[name]
				if a == nil {
					add("tree/attribute-missing/"+mo.lastOp, map[string]any{"path": p, "attribute": vfShort(name), "have": len(ro.Attrs), "want": len(mo.attrs)})
					continue
				}
				e := vfExpectAttr(kind)
				what := ""
				switch {
				case a.TypeClass != e.class:
					what = "class"
				case e.size != 0 && a.TypeSize != e.size:
					what = "size"
				case e.signed >= 0 && a.Signed != (e.signed == 1):
					what = "sign"
				case fmt.Sprint(a.Dims) != fmt.Sprint([]uint64{uint64(e.count)}):
					what = "dims"
				case e.class == 3:
					if a.TypeSize != len(e.str)+1 || !bytes.Equal(a.Raw, append([]byte(e.str), 0)) {
						what = "string-bytes"
					}
				case !bytes.Equal(a.Raw, e.raw):
					what = "bytes"
				}
				if what != "" {
					add("tree/attribute-"+what+"-differs/"+mo.lastOp, map[string]any{"path": p, "attribute": vfShort(name), "kind": kind, "got_type": a.TypeDesc, "got_dims": a.Dims, "got_raw": fmt.Sprintf("%.64x", a.Raw)})
				}
			}
			for name := range got {
				if _, ok := mo.attrs[name]; !ok {
					add("tree/attribute-extra/"+mo.lastOp, map[string]any{"path": p, "attribute": vfShort(name)})
				}
			}
		}
	}
	for p, ro := range res.Objects {
		if _, ok := m.objs[p]; !ok {
			add("tree/path-extra/"+ro.Kind, map[string]any{"path": p, "kind": ro.Kind})
		}
	}
	sort.SliceStable(out, func(i, j int) bool { return out[i].key < out[j].key })
	return out, res
}

// ---------------------------------------------------------------------------------------
// generators
// ---------------------------------------------------------------------------------------

type vfC05Case struct {
	name string
	sb   uint8
	run  func(w *vfWorld, m *vfC05Model) error // builds the file on w, mirrors it in m
}

var vfC05Files int64

type vfC05Sink struct {
	r      *vkit.Run
	dir    string
	mu     sync.Mutex
	states map[string]struct{}
	byGen  map[string]int64
	keys   map[string]int64
}

// exec builds one file, closes it and hands the bytes to the monitor.
func (s *vfC05Sink) exec(gen string, c vfC05Case) {
	r := s.r
	if r.Expired() {
		r.Cap("time budget")
		return
	}
	var file []byte
	m := vfC05NewModel()
	var buildErr error
	panicked := r.Guard("writer/", c.name, func() {
		w, err := vfNewWorld(s.dir, WithSuperblockVersion(c.sb))
		if err != nil {
			buildErr = err
			return
		}
		defer w.Remove()
		if err := c.run(w, m); err != nil {
			buildErr = err
			return
		}
		if err := w.Close(); err != nil {
			buildErr = fmt.Errorf("close: %w", err)
			return
		}
		file, buildErr = os.ReadFile(w.Path)
	})
	if panicked {
		r.Case(c.name)
		r.Outcome("writer-panicked")
		return
	}
	if buildErr != nil {
		// the generator asked for something the writer refuses: outside the space
		r.Case("")
		r.Outcome("rejected-by-writer")
		s.mu.Lock()
		s.byGen[gen+"/rejected"]++
		s.mu.Unlock()
		return
	}
	r.Case(c.name)
	r.Transitions(1)
	r.Traces(1)
	atomic.AddInt64(&vfC05Files, 1)
	var findings []vfC05Finding
	var res *h5ref.Result
	r.Guard("monitor/", c.name, func() { findings, res = vfC05CheckFile(file, m, c.name) })
	if res != nil && res.SuperblockVersion != int(c.sb) {
		findings = append(findings, vfC05Finding{"tree/superblock-version-differs", map[string]any{"case": c.name, "want": c.sb, "got": res.SuperblockVersion}})
	}
	if res != nil {
		canon := vfC05Canon(res)
		s.mu.Lock()
		s.states[canon] = struct{}{}
		s.byGen[gen]++
		s.mu.Unlock()
	}
	classes := map[string]bool{}
	s.mu.Lock()
	for _, f := range findings {
		s.keys[f.key]++
	}
	s.mu.Unlock()
	for _, f := range findings {
		r.Fail(f.key, f.detail)
		classes[strings.SplitN(f.key, "/", 2)[0]] = true
	}
	if len(classes) == 0 {
		r.Outcome("conforming")
	}
	for c := range classes {
		r.Outcome("has-" + c)
	}
}

// vfC05Enabled is the union alphabet of the sequence explorations (C02/C03/C04/C13 style).
func vfC05Enabled(hist []vfOp) []vfOp {
	has := map[string]bool{}
	attrs := map[string]map[string]bool{}
	nx := 0
	for _, o := range hist {
		switch o.Op {
		case "mkds", "mkgroup", "hardlink", "softlink", "densegroup":
			has[o.Path] = true
		case "attr":
			if attrs[o.Path] == nil {
				attrs[o.Path] = map[string]bool{}
			}
			attrs[o.Path][o.Name] = true
			if o.Path == "/x" && strings.HasPrefix(o.Name, "n") {
				nx++
			}
		case "delattr":
			delete(attrs[o.Path], o.Name)
		}
	}
	var out []vfOp
	if !has["/x"] {
		out = append(out, vfOp{Op: "mkds", Path: "/x", Type: "i32", Dims: []uint64{4}})
	}
	if !has["/c"] {
		out = append(out, vfOp{Op: "mkds", Path: "/c", Type: "f64", Dims: []uint64{4}, Chunk: []uint64{2}, Max: []uint64{8}})
	}
	if !has["/g"] {
		out = append(out, vfOp{Op: "mkgroup", Path: "/g"})
	}
	if has["/g"] && !has["/g/s"] {
		out = append(out, vfOp{Op: "mkds", Path: "/g/s", Type: "u8", Dims: []uint64{3}})
	}
	if has["/x"] {
		out = append(out, vfOp{Op: "write", Path: "/x", Pat: 1})
		out = append(out, vfOp{Op: "attr", Path: "/x", Name: "a", Value: "i32a"})
		out = append(out, vfOp{Op: "attr", Path: "/x", Name: "big", Value: "s120"})
		out = append(out, vfOp{Op: "attr", Path: "/x", Name: fmt.Sprintf("n%02d", nx), Value: "i64"})
		if nx > 0 {
			// size-changing overwrite of the attribute added last (in dense storage: the object
			// stored last in the heap)
			out = append(out, vfOp{Op: "attr", Path: "/x", Name: fmt.Sprintf("n%02d", nx-1), Value: "s40"})
		}
		var names []string
		for n := range attrs["/x"] {
			names = append(names, n)
		}
		sort.Strings(names)
		if len(names) > 0 {
			out = append(out, vfOp{Op: "delattr", Path: "/x", Name: names[0]})
		}
		if !has["/lx"] {
			out = append(out, vfOp{Op: "hardlink", Path: "/lx", Target: "/x"})
		}
		if !has["/sl"] {
			out = append(out, vfOp{Op: "softlink", Path: "/sl", Target: "/x"})
		}
		if !has["/dg"] {
			out = append(out, vfOp{Op: "densegroup", Path: "/dg", Target: "/x"})
		}
	}
	if has["/c"] {
		out = append(out, vfOp{Op: "write", Path: "/c", Pat: 2})
		out = append(out, vfOp{Op: "resize", Path: "/c", Dims: []uint64{6}})
	}
	if has["/g"] {
		out = append(out, vfOp{Op: "attr", Path: "/g", Name: "ga", Value: "s40"})
	}
	return out
}

func vfC05SeqCase(cfg string, sb uint8, hist []vfOp, nprefix int) vfC05Case {
	return vfC05Case{name: fmt.Sprintf("seq %s: %s", cfg, vfOpsString(hist[nprefix:])), sb: sb, run: func(w *vfWorld, m *vfC05Model) error {
		for i, o := range hist {
			err, _ := w.Apply(o)
			if err != nil {
				if i < nprefix {
					return fmt.Errorf("start state rejected: %w", err)
				}
				continue // a refused call leaves the model unchanged
			}
			m.apply(o, w)
		}
		return nil
	}}
}

func vfC05Sequences(s *vfC05Sink, depth int) {
	type start struct {
		name string
		ops  []vfOp
	}
	mkX := vfOp{Op: "mkds", Path: "/x", Type: "i32", Dims: []uint64{4}}
	withAttrs := func(n int) []vfOp {
		h := []vfOp{mkX}
		for i := 0; i < n; i++ {
			h = append(h, vfOp{Op: "attr", Path: "/x", Name: fmt.Sprintf("n%02d", i), Value: "i64"})
		}
		return h
	}
	var nine []vfOp
	for i := 0; i < 9; i++ {
		nine = append(nine, vfOp{Op: "mkds", Path: fmt.Sprintf("/m%d", i), Type: "u8", Dims: []uint64{2}})
	}
	xcg := []vfOp{mkX, {Op: "mkds", Path: "/c", Type: "f64", Dims: []uint64{4}, Chunk: []uint64{2}, Max: []uint64{8}}, {Op: "mkgroup", Path: "/g"}}
	starts := []start{{"empty", nil}, {"x+c+g", xcg}, {"x+7attrs", withAttrs(7)}, {"x+9attrs(dense)", withAttrs(9)}, {"root+9datasets", nine}}
	var cases []vfC05Case
	for _, sb := range []uint8{2, 0, 3} {
		for _, st := range starts {
			cfg := fmt.Sprintf("sb%d/%s", sb, st.name)
			d := depth
			if st.ops != nil && st.name != "x+c+g" && d > 2 {
				d = depth - 1
			}
			if st.name == "root+9datasets" {
				d = 1
			}
			var rec func(hist []vfOp)
			rec = func(hist []vfOp) {
				if len(hist) > len(st.ops) || len(st.ops) == 0 {
					cases = append(cases, vfC05SeqCase(cfg, sb, append([]vfOp{}, hist...), len(st.ops)))
				}
				if len(hist)-len(st.ops) >= d {
					return
				}
				for _, o := range vfC05Enabled(hist) {
					rec(append(append([]vfOp{}, hist...), o))
				}
			}
			rec(append([]vfOp{}, st.ops...))
		}
	}
	vkit.ParallelFor(len(cases), func(i int) { s.exec("sequences", cases[i]) })
}

func vfC05Grid(s *vfC05Sink, thorough bool) {
	all := vfTypesC01()
	want := map[string]bool{"int8": true, "int32": true, "int64": true, "uint16": true, "uint64": true, "float32": true, "float64": true, "string5": true}
	var types []*vfDT
	for _, t := range all {
		if want[t.name] || thorough || t.name == "enum-int8" || t.name == "array-int32[2]" {
			types = append(types, t)
		}
	}
	type lay struct {
		chunk  func(dims []uint64) []uint64
		filter string
		name   string
	}
	full := func(d []uint64) []uint64 { return append([]uint64{}, d...) }
	part := func(d []uint64) []uint64 {
		c := make([]uint64, len(d))
		for i := range c {
			c[i] = 2
		}
		return c
	}
	lays := []lay{{nil, "", "contiguous"}, {full, "", "chunked-single"}, {part, "", "chunked-multi"},
		{part, "gzip", "chunked-gzip"}, {part, "shuffle+gzip", "chunked-shuffle+gzip"}, {part, "fletcher32", "chunked-fletcher32"}, {part, "shuffle+gzip+fletcher32", "chunked-shuffle+gzip+fletcher32"}}
	shapes := [][]uint64{{5}, {3, 5}}
	if thorough {
		shapes = append(shapes, []uint64{2, 3, 4}, []uint64{1})
	}
	var cases []vfC05Case
	for _, t := range types {
		for _, sb := range []uint8{2, 0, 3} {
			for _, l := range lays {
				for _, dims := range shapes {
					pats := []int{0}
					if thorough {
						pats = []int{0, 1, 2}
					}
					for _, pat := range pats {
						t, sb, l, dims, pat := t, sb, l, dims, pat
						name := fmt.Sprintf("grid %s sb%d %s %v pat%d", t.name, sb, l.name, dims, pat)
						cases = append(cases, vfC05Case{name: name, sb: sb, run: func(w *vfWorld, m *vfC05Model) error {
							opts := append([]DatasetOption{}, t.opts...)
							if l.chunk != nil {
								opts = append(opts, WithChunkDims(l.chunk(dims)))
								for _, f := range strings.Split(l.filter, "+") {
									switch f {
									case "gzip":
										opts = append(opts, WithGZIPCompression(6))
									case "shuffle":
										opts = append(opts, WithShuffle())
									case "fletcher32":
										opts = append(opts, WithFletcher32())
									}
								}
							}
							ds, err := w.FW.CreateDataset("/d", t.dt, dims, opts...)
							if err != nil {
								return err
							}
							data, _, _ := t.gen(vfProd(dims), pat)
							if err := ds.Write(data); err != nil {
								return err
							}
							signed := t.signed
							if int(t.class) != 0 {
								signed = -1
							}
							if int(t.class) == 8 || int(t.class) == 10 {
								// one op class per storage kind for the derived types
								if l.chunk != nil {
									l.name = "chunked/" + t.name[:strings.IndexAny(t.name, "-")]
								} else {
									l.name = "contiguous/" + t.name[:strings.IndexAny(t.name, "-")]
								}
							}
							m.objs["/d"] = &vfC05Obj{kind: "dataset", dims: dims, class: int(t.class), size: int(t.size), signed: signed,
								data: vfC05Bytes(data, int(t.size)), attrs: map[string]string{}, lastOp: l.name}
							m.objs["/"].lastOp = l.name
							return nil
						}})
					}
				}
			}
		}
	}
	vkit.ParallelFor(len(cases), func(i int) { s.exec("grid", cases[i]) })
}

func vfC05VLen(s *vfC05Sink, thorough bool) {
	vts := vfVLTypes()
	types := []vfVLType{vts[0], vts[1]}
	if thorough {
		types = vts
	}
	many := func(n, l int) []int {
		out := make([]int, n)
		for i := range out {
			out[i] = l
		}
		return out
	}
	lists := [][]int{{1}, {0}, {5, 0, 3}, {8, 9}, {4064, 2}, {4081}, many(256, 8), many(300, 1)}
	if thorough {
		lists = append(lists, []int{4063, 4064, 4065}, []int{65537}, many(1000, 3))
	}
	var cases []vfC05Case
	for _, t := range types {
		for _, sb := range []uint8{2, 0, 3} {
			for _, chunked := range []bool{false, true} {
				for _, lens := range lists {
					t, sb, chunked, lens := t, sb, chunked, lens
					if t.name != "vlen-string" {
						// lengths are in elements for sequences
						for _, l := range lens {
							if l > 5000 {
								lens = nil
							}
						}
						if lens == nil {
							continue
						}
					}
					ls := fmt.Sprint(lens)
					if len(lens) > 6 {
						ls = fmt.Sprintf("%dx%d", len(lens), lens[0])
					}
					lay := "vlen-contiguous"
					if chunked {
						lay = "vlen-chunked"
					}
					name := fmt.Sprintf("vlen %s sb%d %s lens=%s", t.name, sb, lay, ls)
					cases = append(cases, vfC05Case{name: name, sb: sb, run: func(w *vfWorld, m *vfC05Model) error {
						n := len(lens)
						var opts []DatasetOption
						if chunked {
							ch := uint64(2)
							if n < 2 {
								ch = 1
							}
							opts = append(opts, WithChunkDims([]uint64{ch}))
						}
						ds, err := w.FW.CreateDataset("/v", t.dt, []uint64{uint64(n)}, opts...)
						if err != nil {
							return err
						}
						data, raws := t.mk(lens, 0)
						if err := ds.Write(data); err != nil {
							return err
						}
						for i := range raws {
							if raws[i] == nil {
								raws[i] = []byte{}
							}
						}
						m.objs["/v"] = &vfC05Obj{kind: "dataset", dims: []uint64{uint64(n)}, isVLen: true, vlen: raws, attrs: map[string]string{}, lastOp: lay, signed: -1}
						m.objs["/"].lastOp = lay
						return nil
					}})
				}
			}
		}
	}
	vkit.ParallelFor(len(cases), func(i int) { s.exec("vlen", cases[i]) })
}

// vfC05Compound: compound datasets written with WriteRaw (the C01 compound family).
func vfC05Compound(s *vfC05Sink) {
	i32, _ := core.CreateBasicDatatypeMessage(core.DatatypeFixed, 4)
	f32, _ := core.CreateBasicDatatypeMessage(core.DatatypeFloat, 4)
	i64, _ := core.CreateBasicDatatypeMessage(core.DatatypeFixed, 8)
	f64, _ := core.CreateBasicDatatypeMessage(core.DatatypeFloat, 8)
	s4, _ := core.CreateBasicDatatypeMessage(core.DatatypeString, 4)
	type ctype struct {
		name   string
		fields []core.CompoundFieldDef
	}
	cts := []ctype{
		{"{i32 id;f32 v;i64 big;str4 tag}", []core.CompoundFieldDef{{Name: "id", Offset: 0, Type: i32}, {Name: "v", Offset: 4, Type: f32}, {Name: "big", Offset: 8, Type: i64}, {Name: "tag", Offset: 16, Type: s4}}},
		{"{f64 x}", []core.CompoundFieldDef{{Name: "x", Offset: 0, Type: f64}}},
	}
	var cases []vfC05Case
	for _, ct := range cts {
		for _, sb := range []uint8{2, 0, 3} {
			for _, dims := range [][]uint64{{1}, {2, 3}} {
				ct, sb, dims := ct, sb, dims
				cases = append(cases, vfC05Case{name: fmt.Sprintf("compound %s sb%d %v", ct.name, sb, dims), sb: sb, run: func(w *vfWorld, m *vfC05Model) error {
					typ, err := core.CreateCompoundTypeFromFields(ct.fields)
					if err != nil {
						return err
					}
					ds, err := w.FW.CreateCompoundDataset("/c", typ, dims)
					if err != nil {
						return err
					}
					raw := make([]byte, vfProd(dims)*int(typ.Size))
					for i := range raw {
						raw[i] = byte(i*7 + 1)
					}
					if err := ds.WriteRaw(raw); err != nil {
						return err
					}
					m.objs["/c"] = &vfC05Obj{kind: "dataset", dims: dims, class: 6, size: int(typ.Size), signed: -1, data: raw, attrs: map[string]string{}, lastOp: "compound"}
					m.objs["/"].lastOp = "compound"
					return nil
				}})
			}
		}
	}
	vkit.ParallelFor(len(cases), func(i int) { s.exec("compound", cases[i]) })
}

func vfC05Resizes(s *vfC05Sink, depth int) {
	type scen struct {
		name     string
		init, ch []uint64
		max      []uint64
		targets  [][]uint64
	}
	U := Unlimited
	scens := []scen{
		{"rank1", []uint64{3}, []uint64{2}, []uint64{U}, [][]uint64{{5}, {2}, {4}}},
		{"rank2", []uint64{2, 3}, []uint64{2, 2}, []uint64{U, 4}, [][]uint64{{3, 4}, {1, 2}, {2, 3}}},
	}
	var cases []vfC05Case
	for _, sc := range scens {
		var alphabet []vfOp
		for _, t := range sc.targets {
			alphabet = append(alphabet, vfOp{Op: "resize", Path: "/r", Dims: t})
		}
		alphabet = append(alphabet, vfOp{Op: "write", Path: "/r", Pat: 1}, vfOp{Op: "write", Path: "/r", Pat: 2})
		prefix := []vfOp{{Op: "mkds", Path: "/r", Type: "f64", Dims: sc.init, Chunk: sc.ch, Max: sc.max},
			{Op: "mkds", Path: "/other", Type: "i32", Dims: []uint64{3}}, {Op: "write", Path: "/other", Pat: 3}, {Op: "write", Path: "/r", Pat: 1}}
		for _, sb := range []uint8{2, 0, 3} {
			cfg := fmt.Sprintf("sb%d/resize-%s", sb, sc.name)
			var rec func(hist []vfOp)
			rec = func(hist []vfOp) {
				cases = append(cases, vfC05SeqCase(cfg, sb, append([]vfOp{}, hist...), len(prefix)))
				if len(hist)-len(prefix) >= depth {
					return
				}
				for _, o := range alphabet {
					rec(append(append([]vfOp{}, hist...), o))
				}
			}
			rec(append([]vfOp{}, prefix...))
		}
	}
	vkit.ParallelFor(len(cases), func(i int) { s.exec("resize", cases[i]) })
}

func TestVerif_C05(t *testing.T) {
	r := vkit.Start(t, "C05", "model_checking")
	defer r.Finish()
	dir := vkit.Scratch(t)
	// R1: the oracle is validated against the reference corpus before it is trusted
	phases := map[string]float64{}
	t0 := time.Now()
	lap := func(name string) {
		phases[name] = time.Since(t0).Seconds()
		t0 = time.Now()
	}
	trusted := vfC05ValidateR1(r)
	r.Set("r1_trusted", trusted)
	depth, rdepth := 3, 4
	if r.Thorough() {
		depth, rdepth = 5, 6
	}
	lap("r1_corpus_validation")
	s := &vfC05Sink{r: r, dir: dir, states: map[string]struct{}{}, byGen: map[string]int64{}, keys: map[string]int64{}}
	vfC05Sequences(s, depth)
	lap("sequences")
	vfC05Grid(s, r.Thorough())
	lap("grid")
	vfC05VLen(s, r.Thorough())
	lap("vlen")
	vfC05Resizes(s, rdepth)
	lap("resize")
	vfC05Compound(s)
	lap("compound")
	vfC05Capacity(s)
	lap("capacity")
	r.Set("phase_wall_seconds", phases)
	r.States(int64(len(s.states)))
	r.Set("files_by_generator", s.byGen)
	r.Set("finding_key_file_counts", s.keys)
	r.Set("files_decoded", atomic.LoadInt64(&vfC05Files))
	r.Rule(fmt.Sprintf("every closed file produced by: (i) all sequences of length <= %d over the union alphabet {create dataset contiguous / chunked+maxdims / in group, create group, write, attribute 4-byte / 120-byte / on group / next numbered, delete attribute, hard link, soft link, resize, dense group} from the start states {empty, /x + /c + /g created (all operations enabled), dataset with 7 attributes, dataset with 9 attributes (dense storage), root group with 9 datasets} under superblock 0, 2 and 3 (a call the writer refuses leaves the model unchanged); (ii) the grid element type x superblock {0,2,3} x {contiguous, single chunk, many chunks with partial edge chunks, gzip, shuffle+gzip, fletcher32, shuffle+gzip+fletcher32} x shapes; (iii) variable-length strings and sequences with length lists that include empty elements and the roll-over to a second heap collection, contiguous and chunked; (iv) all resize/write histories of length <= %d on rank-1 and rank-2 chunked datasets; (v) two compound types x superblock x 2 shapes written raw; (vi) capacity families: a group (root and nested) receiving n in {31,32,33,40} children with names of length {1,6,30,120}, datasets and groups alternating, every creation the writer refuses leaving the model unchanged. Each file is decoded by the independent decoder h5ref and checked: no decoder error; every extent inside the file and below the superblock's end-of-file address; extents pairwise disjoint; every tolerated deviation from the specification is a finding 'spec/<tag>'; decoded tree (paths, kinds, dims, type class/size/sign, attribute names/types/bytes, element bytes) equals the writer-side model. Every case is a distinct history / grid point.", depth, rdepth))
	r.Assume("h5ref implements the HDF5 File Format Specification v3 faithfully; it is validated on the bundled reference-library corpus (r1_corpus_agreement) and must report no deviation there")
	r.Assume("a local heap free-list head of 1 and a global-heap free-space object whose size counts or omits its own header are accepted, as the reference library writes them")
	r.Sample("seq sb2/empty: mkds(/x,i32,[4]); attr(/x,\"big\",s120)")
	r.Sample("grid float64 sb0 chunked-shuffle+gzip+fletcher32 [3 5] pat0")
	r.Sample("vlen vlen-string sb2 vlen-contiguous lens=[4064 2]")
	r.Sample("seq sb3/resize-rank2: resize(/r,[3 4]); write(/r,p2); resize(/r,[1 2])")
	_ = filepath.Join
}

// vfC05Capacity: fixed-capacity structures at and beyond their limits (symbol table node of 32
// entries, 256-byte name heap): a creation beyond capacity must be refused; whatever was
// accepted must be in the file, and the file must stay well-formed.
func vfC05Capacity(s *vfC05Sink) {
	const abc = "abcdefghijklmnopqrstuvwxyzABCDEFGHIJKLMNOPQRSTUVWXYZ"
	var cases []vfC05Case
	for _, sb := range []uint8{2, 0, 3} {
		for _, parent := range []string{"", "/g"} {
			for _, nameLen := range []int{1, 6, 30, 120} {
				for _, n := range []int{31, 32, 33, 40} {
					var h []vfOp
					if parent != "" {
						h = append(h, vfOp{Op: "mkgroup", Path: parent})
					}
					for i := 0; i < n; i++ {
						name := string(abc[i%len(abc)])
						if nameLen > 1 {
							name += strings.Repeat("x", nameLen-1)
						}
						if i%2 == 0 {
							h = append(h, vfOp{Op: "mkds", Path: parent + "/" + name, Type: "u8", Dims: []uint64{1}})
						} else {
							h = append(h, vfOp{Op: "mkgroup", Path: parent + "/" + name})
						}
					}
					cfg := fmt.Sprintf("sb%d/capacity(parent=%q,n=%d,len=%d)", sb, parent, n, nameLen)
					c := vfC05SeqCase(cfg, sb, h, 0)
					c.name = "capacity " + cfg
					cases = append(cases, c)
				}
			}
		}
	}
	// object header capacity: a dataset header brought to every reachable total of 236..255
	// message bytes by attributes, then a second dataset created and written right behind it
	// (the header, grown in place, must stay inside the space reserved for it)
	mkX := vfOp{Op: "mkds", Path: "/x", Type: "f64", Dims: []uint64{4}}
	fills := vfHeaderFillStates(s.dir, mkX, 236, 255)
	var totals []int
	for t := range fills {
		totals = append(totals, t)
	}
	sort.Ints(totals)
	for _, sb := range []uint8{2, 3} {
		for _, t := range totals {
			h := append(append([]vfOp{}, fills[t]...), vfOp{Op: "mkds", Path: "/y", Type: "f64", Dims: []uint64{4}}, vfOp{Op: "write", Path: "/y", Pat: 2}, vfOp{Op: "write", Path: "/x", Pat: 1})
			cfg := fmt.Sprintf("sb%d/header-capacity(messages=%d)", sb, t)
			c := vfC05SeqCase(cfg, sb, h, 0)
			c.name = "capacity " + cfg
			cases = append(cases, c)
		}
	}
	// rebalancing-mode family: the dense attribute index of a dataset is modified under every
	// rebalancing mode the writer offers (each mode has its own deletion path in the index):
	// 12 attributes, the mode switched before the attributes or before the deletions, 1..3
	// deletions (first, middle, last name), one more attribute afterwards
	for _, sb := range []uint8{2, 0, 3} {
		for _, mode := range []string{"", "DisableRebalancing", "EnableLazyRebalancing", "EnableIncrementalRebalancing"} {
			for _, early := range []bool{true, false} {
				if mode == "" && !early {
					continue
				}
				for ndel := 1; ndel <= 3; ndel++ {
					h := []vfOp{{Op: "mkds", Path: "/x", Type: "f64", Dims: []uint64{4}}}
					if mode != "" && early {
						h = append(h, vfOp{Op: "toggle", Bad: mode})
					}
					for i := 0; i < 12; i++ {
						h = append(h, vfOp{Op: "attr", Path: "/x", Name: fmt.Sprintf("n%02d", i), Value: []string{"i64", "s40", "f32"}[i%3]})
					}
					if mode != "" && !early {
						h = append(h, vfOp{Op: "toggle", Bad: mode})
					}
					for _, i := range []int{0, 6, 11}[:ndel] {
						h = append(h, vfOp{Op: "delattr", Path: "/x", Name: fmt.Sprintf("n%02d", i)})
					}
					h = append(h, vfOp{Op: "attr", Path: "/x", Name: "after", Value: "i32a"})
					cfg := fmt.Sprintf("sb%d/rebalancing-mode(%q,switched-first=%v,deletions=%d)", sb, mode, early, ndel)
					c := vfC05SeqCase(cfg, sb, h, 0)
					c.name = "capacity " + cfg
					cases = append(cases, c)
				}
			}
		}
	}
	// name-heap edge family: seven 31-character names, then one more of every length 20..40: the
	// last name ends before, exactly at and one byte past the end of the 256-byte name heap
	// (accepted names must be terminated inside the heap, the others refused)
	for _, sb := range []uint8{2, 0, 3} {
		for _, parent := range []string{"", "/g"} {
			for last := 20; last <= 40; last++ {
				var h []vfOp
				if parent != "" {
					h = append(h, vfOp{Op: "mkgroup", Path: parent})
				}
				for i := 0; i < 7; i++ {
					h = append(h, vfOp{Op: "mkgroup", Path: parent + "/" + strings.Repeat(string(rune('a'+i)), 31)})
				}
				h = append(h, vfOp{Op: "mkds", Path: parent + "/" + strings.Repeat("z", last), Type: "u8", Dims: []uint64{1}})
				cfg := fmt.Sprintf("sb%d/name-heap-edge(parent=%q,last=%d)", sb, parent, last)
				c := vfC05SeqCase(cfg, sb, h, 0)
				c.name = "capacity " + cfg
				cases = append(cases, c)
			}
		}
	}
	// reopened-session family: attributes in compact (3) or dense (12) storage, the session
	// ended and the file opened again for writing (handles re-acquired: they cache the parsed
	// header and take their own write paths), then size-changing and same-size overwrites, an
	// insert and a delete through the reopened handle
	for _, sb := range []uint8{2, 0, 3} {
		for _, n := range []int{3, 12} {
			for _, tail := range [][]vfOp{
				{{Op: "attr", Path: "/x", Name: "n01", Value: "s120"}},
				{{Op: "attr", Path: "/x", Name: "n00", Value: "i64b"}},
				{{Op: "attr", Path: "/x", Name: "n01", Value: "s120"}, {Op: "attr", Path: "/x", Name: "fresh", Value: "i32a"}},
				{{Op: "delattr", Path: "/x", Name: "n02"}, {Op: "attr", Path: "/x", Name: "n01", Value: "s1"}},
				{{Op: "attr", Path: "/x", Name: "fresh", Value: "f64x3"}, {Op: "delattr", Path: "/x", Name: "n00"}},
			} {
				h := []vfOp{{Op: "mkds", Path: "/x", Type: "f64", Dims: []uint64{4}}, {Op: "write", Path: "/x", Pat: 1}}
				for i := 0; i < n; i++ {
					h = append(h, vfOp{Op: "attr", Path: "/x", Name: fmt.Sprintf("n%02d", i), Value: []string{"i64", "s40", "f32"}[i%3]})
				}
				h = append(h, vfOp{Op: "reopen"})
				h = append(h, tail...)
				cfg := fmt.Sprintf("sb%d/reopened-session(attributes=%d): %s", sb, n, vfOpsString(tail))
				c := vfC05SeqCase(cfg, sb, h, 0)
				c.name = "capacity " + cfg
				cases = append(cases, c)
			}
		}
	}
	vkit.ParallelFor(len(cases), func(i int) { s.exec("capacity", cases[i]) })
}
