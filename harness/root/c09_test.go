//go:build verif

package hdf5

import (
	"fmt"
	"math"
	"os"
	"path/filepath"
	"sort"
	"strings"
	"sync/atomic"
	"testing"

	"github.com/scigolib/hdf5/internal/core"
	"github.com/scigolib/hdf5/internal/verif/vkit"
)

// C09 — partial reads agree with the full read (differential on the same open file).

type vfSelDim struct{ start, count, stride, block uint64 }

// vfDimChoices enumerates per-dimension (start,count,stride,block): all valid ones plus the
// invalid ones that exceed the extent by exactly one element.
func vfDimChoices(d uint64, strides, blocks []uint64) (valid, invalid []vfSelDim) {
	for start := uint64(0); start <= d; start++ {
		for count := uint64(1); count <= d+1; count++ {
			for _, st := range strides {
				for _, bl := range blocks {
					if st < bl && count > 1 {
						continue // overlapping blocks (a single block longer than the stride is fine)
					}
					last := start + (count-1)*st + bl
					s := vfSelDim{start, count, st, bl}
					if last <= d {
						valid = append(valid, s)
					} else if last == d+1 {
						invalid = append(invalid, s)
					}
				}
			}
		}
	}
	// far out of bounds: values whose sums and products wrap around 2^64 (a bounds check that
	// adds before it compares sees a small number again)
	const top = ^uint64(0)
	for _, s := range []vfSelDim{
		{top, 2, 1, 1}, {top - d + 1, d, 1, 1}, {top - 3, 8, 1, 1}, {1 << 63, 2, 1, 1},
		{0, top, 1, 1}, {0, 1 << 63, 2, 1}, {1, 2, top, 1}, {1, 3, 1 << 63, 1}, {d - 1, 2, top - d + 2, 1},
		{0, 1, 1, top}, {1, 1, 1, top}, {d - 1, 1, 1, top - d + 2}, {0, 1, 1 << 63, 1 << 63},
	} {
		invalid = append(invalid, s)
	}
	return
}

func vfUniqU(x []uint64) []uint64 {
	sort.Slice(x, func(i, j int) bool { return x[i] < x[j] })
	out := x[:0]
	for i, v := range x {
		if v == 0 {
			continue
		}
		if i == 0 || v != x[i-1] {
			out = append(out, v)
		}
	}
	return out
}

// vfGather computes sel(full) in row-major order of the selection.
func vfGather(full []float64, dims []uint64, sel []vfSelDim) []float64 {
	var out []float64
	idx := make([]uint64, len(dims))
	var rec func(d int)
	rec = func(d int) {
		if d == len(dims) {
			var off uint64
			for k := range dims {
				off = off*dims[k] + idx[k]
			}
			out = append(out, full[off])
			return
		}
		s := sel[d]
		for c := uint64(0); c < s.count; c++ {
			for b := uint64(0); b < s.block; b++ {
				idx[d] = s.start + c*s.stride + b
				rec(d + 1)
			}
		}
	}
	rec(0)
	return out
}

type vfC09DS struct {
	name  string
	typ   string
	dims  []uint64
	chunk []uint64
	// shrinkTo: after writing, Resize to this shape (leaves chunks outside the extent)
	shrinkTo []uint64
}

func vfToFloats(v interface{}) ([]float64, bool) {
	switch x := v.(type) {
	case []float64:
		return x, true
	case []float32:
		o := make([]float64, len(x))
		for i := range x {
			o[i] = float64(x[i])
		}
		return o, true
	case []int32:
		o := make([]float64, len(x))
		for i := range x {
			o[i] = float64(x[i])
		}
		return o, true
	case []int64:
		o := make([]float64, len(x))
		for i := range x {
			o[i] = float64(x[i])
		}
		return o, true
	}
	return nil, false
}

func vfSameBits(a, b []float64) bool {
	if len(a) != len(b) {
		return false
	}
	for i := range a {
		if math.Float64bits(a[i]) != math.Float64bits(b[i]) {
			return false
		}
	}
	return true
}

var vfC09Counter int64

func TestVerif_C09(t *testing.T) {
	r := vkit.Start(t, "C09", "exploration")
	defer r.Finish()
	dir := vkit.Scratch(t)
	var dss []vfC09DS
	add := func(typ string, dims []uint64, chunks ...[]uint64) {
		dss = append(dss, vfC09DS{name: fmt.Sprintf("%s%v contiguous", typ, dims), typ: typ, dims: dims})
		for _, c := range chunks {
			dss = append(dss, vfC09DS{name: fmt.Sprintf("%s%v chunk%v", typ, dims, c), typ: typ, dims: dims, chunk: c})
		}
	}
	add("f64", []uint64{6}, []uint64{2}, []uint64{4}, []uint64{6})
	add("i32", []uint64{6}, []uint64{4})
	add("f64", []uint64{4, 5}, []uint64{2, 2}, []uint64{3, 5}, []uint64{1, 3})
	add("i64", []uint64{4, 5}, []uint64{2, 3})
	add("f32", []uint64{3, 3, 4}, []uint64{2, 2, 3}, []uint64{1, 3, 2})
	add("f64", []uint64{2, 3, 2, 3}, []uint64{1, 2, 1, 2})
	dss = append(dss, vfC09DS{name: "f64[6] chunk[2] shrunk-to[3]", typ: "f64", dims: []uint64{6}, chunk: []uint64{2}, shrinkTo: []uint64{3}})
	dss = append(dss, vfC09DS{name: "f64[4 5] chunk[2 2] shrunk-to[3 2]", typ: "f64", dims: []uint64{4, 5}, chunk: []uint64{2, 2}, shrinkTo: []uint64{3, 2}})
	// grown by Resize and not written again: chunks inside the extent that were never allocated
	dss = append(dss, vfC09DS{name: "f64[4] chunk[2] grown-to[7]", typ: "f64", dims: []uint64{4}, chunk: []uint64{2}, shrinkTo: []uint64{7}})
	dss = append(dss, vfC09DS{name: "i32[2 3] chunk[2 2] grown-to[4 5]", typ: "i32", dims: []uint64{2, 3}, chunk: []uint64{2, 2}, shrinkTo: []uint64{4, 5}})
	dss = append(dss, vfC09DS{name: "f64[3 2] chunk[2 2] reshaped-to[2 5]", typ: "f64", dims: []uint64{3, 2}, chunk: []uint64{2, 2}, shrinkTo: []uint64{2, 5}})
	{
		add("u32", []uint64{7}, []uint64{3})
		add("f64", []uint64{5, 5}, []uint64{2, 3}, []uint64{5, 1})
		add("i32", []uint64{3, 4, 3}, []uint64{2, 3, 2})
	}
	r.Rule("per library-written dataset (rank 1-4; contiguous and chunked with selections spanning several chunks and partial edge chunks; two shrunk, two grown and one reshaped by Resize after the write, so that stale chunks lie outside and never-allocated chunks inside the extent): every (start,count,stride,block) per dimension with start in [0,d], count in [1,d+1], stride in {1,2,3,d}, block in {1,2}, stride>=block (rank>=3: reduced stride/block sets, stated in evidence) — all valid selections (a single block may be longer than the stride) plus all that leave the bounds by exactly one element plus 13 per dimension whose sums or products wrap around 2^64; ReadHyperslab (and ReadSlice for stride=block=1) compared element-wise with a gather from the full Read() of the same open file; the chunk iterator must visit each stored chunk once and tile the full read; every selection is a distinct case")
	var totalSel, totalInvalid int64
	for _, ds := range dss {
		if r.Expired() {
			r.Cap("time budget")
			break
		}
		ds := ds
		p := filepath.Join(dir, fmt.Sprintf("c09-%d.h5", atomic.AddInt64(&vfC09Counter, 1)))
		w, err := CreateForWrite(p, CreateTruncate)
		if err != nil {
			t.Fatalf("create: %v", err)
		}
		ty := vfTypes[ds.typ]
		opts := []DatasetOption{}
		if ds.chunk != nil {
			opts = append(opts, WithChunkDims(ds.chunk))
		}
		if ds.shrinkTo != nil {
			mx := append([]uint64{}, ds.dims...)
			for k := range mx {
				if ds.shrinkTo[k] > mx[k] {
					mx[k] = ds.shrinkTo[k]
				}
			}
			opts = append(opts, WithMaxDims(mx))
		}
		dw, err := w.CreateDataset("/d", ty.DT, ds.dims, opts...)
		if err != nil {
			t.Fatalf("create dataset %s: %v", ds.name, err)
		}
		if err := dw.Write(ty.Make(vfProd(ds.dims), 1)); err != nil {
			t.Fatalf("write %s: %v", ds.name, err)
		}
		dims := ds.dims
		if ds.shrinkTo != nil {
			if err := dw.Resize(ds.shrinkTo); err != nil {
				t.Fatalf("resize %s: %v", ds.name, err)
			}
			dims = ds.shrinkTo
		}
		if err := w.Close(); err != nil {
			t.Fatalf("close: %v", err)
		}
		f, err := Open(p)
		if err != nil {
			r.Fail("reopen-failed", map[string]any{"dataset": ds.name, "error": err.Error()})
			continue
		}
		var d *Dataset
		f.Walk(func(path string, o Object) {
			if x, ok := o.(*Dataset); ok && path == "/d" {
				d = x
			}
		})
		full, err := d.Read()
		if err != nil {
			r.Fail("full-read-failed", map[string]any{"dataset": ds.name, "error": err.Error()})
			f.Close()
			continue
		}
		rank := len(dims)
		layout := "contiguous"
		if ds.chunk != nil {
			layout = "chunked"
		}
		if ds.shrinkTo != nil {
			layout = "chunked-shrunk"
			if vfProd(ds.shrinkTo) > vfProd(ds.dims) {
				layout = "chunked-grown"
			}
		}
		// per-dimension choices
		valid := make([][]vfSelDim, rank)
		invalid := make([][]vfSelDim, rank)
		for k := 0; k < rank; k++ {
			strides := vfUniqU([]uint64{1, 2, 3, dims[k]})
			blocks := []uint64{1, 2}
			if rank == 3 {
				strides = vfUniqU([]uint64{1, 2, dims[k]})
			}
			if rank >= 4 {
				strides, blocks = []uint64{1, 2}, []uint64{1}
				if k%2 == 1 {
					blocks = []uint64{1, 2}
				}
			}
			valid[k], invalid[k] = vfDimChoices(dims[k], strides, blocks)
		}
		// enumerate the product of valid choices; plus, for each dimension, invalid choice
		// there with the first valid choice elsewhere
		var sels [][]vfSelDim
		var rec func(k int, cur []vfSelDim)
		rec = func(k int, cur []vfSelDim) {
			if k == rank {
				sels = append(sels, append([]vfSelDim{}, cur...))
				return
			}
			for _, c := range valid[k] {
				rec(k+1, append(cur, c))
			}
		}
		rec(0, nil)
		nValid := len(sels)
		for k := 0; k < rank; k++ {
			for _, bad := range invalid[k] {
				s := make([]vfSelDim, rank)
				for j := range s {
					s[j] = valid[j][len(valid[j])/2]
				}
				s[k] = bad
				sels = append(sels, s)
			}
		}
		atomic.AddInt64(&totalSel, int64(nValid))
		atomic.AddInt64(&totalInvalid, int64(len(sels)-nValid))
		r.Sample(map[string]any{"dataset": ds.name, "valid_selections": nValid, "out_of_bounds_selections": len(sels) - nValid})
		vkit.ParallelFor(len(sels), func(i int) {
			s := sels[i]
			isValid := i < nValid
			hs := &HyperslabSelection{Start: make([]uint64, rank), Count: make([]uint64, rank), Stride: make([]uint64, rank), Block: make([]uint64, rank)}
			unit := true
			for k := range s {
				hs.Start[k], hs.Count[k], hs.Stride[k], hs.Block[k] = s[k].start, s[k].count, s[k].stride, s[k].block
				if s[k].stride != 1 || s[k].block != 1 {
					unit = false
				}
			}
			desc := fmt.Sprintf("%s start=%v count=%v stride=%v block=%v", ds.name, hs.Start, hs.Count, hs.Stride, hs.Block)
			detail := map[string]any{"dataset": ds.name, "dims": dims, "chunk": ds.chunk, "start": hs.Start, "count": hs.Count, "stride": hs.Stride, "block": hs.Block}
			// classify the selection for finding keys
			spans := 0
			if ds.chunk != nil {
				for k := range s {
					lo := s[k].start / ds.chunk[k]
					hi := (s[k].start + (s[k].count-1)*s[k].stride + s[k].block - 1) / ds.chunk[k]
					if isValid && hi > lo {
						spans++
					}
				}
			}
			shape := "unit"
			if !unit {
				shape = "strided"
			}
			cls := fmt.Sprintf("%s/rank%d/%s/spans%d", layout, rank, shape, min(spans, 2))
			r.Cases(1)
			r.Guard(cls+"/hyperslab/", detail, func() {
				got, err := d.ReadHyperslab(hs)
				if !isValid {
					if err == nil {
						r.Fail(cls+"/hyperslab/out-of-bounds-accepted", detail)
					} else {
						r.Outcome("rejected")
					}
					return
				}
				if err != nil {
					detail["error"] = err.Error()
					r.Fail(cls+"/hyperslab/valid-selection-rejected", detail)
					return
				}
				gf, ok := vfToFloats(got)
				if !ok {
					detail["type"] = fmt.Sprintf("%T", got)
					r.Fail(cls+"/hyperslab/unexpected-result-type", detail)
					return
				}
				want := vfGather(full, dims, s)
				if !vfSameBits(gf, want) {
					detail["want"], detail["got"] = fmt.Sprint(want), fmt.Sprint(gf)
					r.Fail(cls+"/hyperslab/"+vfC09Shape(gf, want), detail)
					return
				}
				r.Outcome("equal")
				// the same selection with the stride left out (nil means 1 in every dimension)
				allOne := true
				for k := range s {
					if s[k].stride != 1 {
						allOne = false
					}
				}
				if allOne {
					got2, err2 := d.ReadHyperslab(&HyperslabSelection{Start: hs.Start, Count: hs.Count, Block: hs.Block})
					if gf2, ok := vfToFloats(got2); err2 != nil || !ok || !vfSameBits(gf2, want) {
						detail["error"] = fmt.Sprint(err2)
						r.Fail(cls+"/hyperslab/differs-with-stride-left-out", detail)
					}
				}
			})
			if unit {
				r.Guard(cls+"/slice/", detail, func() {
					got, err := d.ReadSlice(hs.Start, hs.Count)
					if !isValid {
						if err == nil {
							r.Fail(cls+"/slice/out-of-bounds-accepted", detail)
						}
						return
					}
					if err != nil {
						detail["error"] = err.Error()
						r.Fail(cls+"/slice/valid-selection-rejected", detail)
						return
					}
					gf, _ := vfToFloats(got)
					want := vfGather(full, dims, s)
					if !vfSameBits(gf, want) {
						detail["want"], detail["got"] = fmt.Sprint(want), fmt.Sprint(gf)
						r.Fail(cls+"/slice/"+vfC09Shape(gf, want), detail)
					}
				})
			}
			_ = desc
		})
		// chunk iterator
		if ds.chunk != nil {
			r.Cases(1)
			detail := map[string]any{"dataset": ds.name}
			r.Guard(layout+"/iterator/", detail, func() {
				it, err := d.ChunkIterator()
				if err != nil {
					detail["error"] = err.Error()
					r.Fail(layout+"/iterator/create-failed", detail)
					return
				}
				paste := make([]float64, len(full))
				filled := make([]int, len(full))
				seen := map[string]int{}
				cd := it.ChunkDims()
				for it.Next() {
					co := append([]uint64{}, it.ChunkCoords()...)
					seen[fmt.Sprint(co)]++
					piece, err := it.Chunk()
					outside := false
					for k := range co {
						if co[k]*cd[k] >= dims[k] {
							outside = true
						}
					}
					if outside {
						// a chunk left outside the extent by a shrink holds no element; any
						// non-panicking answer is acceptable
						continue
					}
					if err != nil {
						detail["error"] = err.Error()
						r.Fail(layout+"/iterator/chunk-read-failed", detail)
						return
					}
					pf, _ := vfToFloats(piece)
					sel := make([]vfSelDim, rank)
					n := 1
					for k := range co {
						c := cd[k]
						if co[k]*cd[k]+c > dims[k] {
							c = dims[k] - co[k]*cd[k]
						}
						sel[k] = vfSelDim{co[k] * cd[k], c, 1, 1}
						n *= int(c)
					}
					if len(pf) != n {
						detail["piece_len"], detail["want_len"] = len(pf), n
						r.Fail(layout+"/iterator/piece-size", detail)
						return
					}
					// paste
					idxs := vfGatherIdx(dims, sel)
					for j, off := range idxs {
						paste[off] = pf[j]
						filled[off]++
					}
				}
				if it.Err() != nil {
					detail["error"] = it.Err().Error()
					r.Fail(layout+"/iterator/iteration-error", detail)
					return
				}
				for k, n := range seen {
					if n != 1 {
						detail["chunk"] = k
						r.Fail(layout+"/iterator/chunk-visited-more-than-once", detail)
						return
					}
				}
				for off, n := range filled {
					want := 1
					if ds.shrinkTo != nil {
						// a chunk is stored iff it intersects the extent that was written before
						// the Resize; elements of never-stored chunks are covered by no piece
						rem := uint64(off)
						for k := rank - 1; k >= 0; k-- {
							c := rem % dims[k]
							rem /= dims[k]
							if (c/cd[k])*cd[k] >= ds.dims[k] {
								want = 0
							}
						}
					}
					if n != want {
						detail["offset"], detail["times"] = off, n
						r.Fail(layout+"/iterator/pieces-do-not-tile", detail)
						return
					}
				}
				if !vfSameBits(paste, full) {
					r.Fail(layout+"/iterator/tiled-pieces-differ-from-read", detail)
					return
				}
				r.Outcome("iterator-ok")
			})
		}
		f.Close()
		os.Remove(p)
	}
	vfC09Corpus(r, &totalSel)
	vfC09ChunkGrid(r, dir, &totalSel)
	r.Distinct("selections", totalSel+totalInvalid)
	r.Set("valid_selections", totalSel)
	r.Set("out_of_bounds_selections", totalInvalid)
	_ = strings.Join
}

func vfGatherIdx(dims []uint64, sel []vfSelDim) []uint64 {
	var out []uint64
	idx := make([]uint64, len(dims))
	var rec func(d int)
	rec = func(d int) {
		if d == len(dims) {
			var off uint64
			for k := range dims {
				off = off*dims[k] + idx[k]
			}
			out = append(out, off)
			return
		}
		s := sel[d]
		for c := uint64(0); c < s.count; c++ {
			for b := uint64(0); b < s.block; b++ {
				idx[d] = s.start + c*s.stride + b
				rec(d + 1)
			}
		}
	}
	rec(0)
	return out
}

// vfC09Shape names the shape of a wrong partial read.
func vfC09Shape(got, want []float64) string {
	if len(got) != len(want) {
		return "length-differs"
	}
	a := append([]float64{}, got...)
	b := append([]float64{}, want...)
	sort.Float64s(a)
	sort.Float64s(b)
	if vfSameBits(a, b) {
		return "right-elements-wrong-order"
	}
	return "wrong-elements"
}

// vfC09Corpus: every dataset of the bundled reference files that the full Read supports and
// that has <= 4096 elements (compact layout, big-endian types, C-library chunk indexes and
// filters come from here), with a boundary grid of selections per dimension.
func vfC09Corpus(r *vkit.Run, total *int64) {
	var files []string
	for _, pat := range []string{"testdata/*.h5", "testdata/*.hdf5", "testdata/reference/*.h5", "testdata/hdf5_official/*.h5", "testdata/c-library-corpus/*/*.h5", "testdata/c-library-corpus/*.h5"} {
		m, _ := filepath.Glob(pat)
		files = append(files, m...)
	}
	sort.Strings(files)
	nds := 0
	for _, fn := range files {
		if r.Expired() {
			r.Cap("time budget (corpus)")
			return
		}
		st, err := os.Stat(fn)
		if err != nil || st.Size() == 0 || st.Size() > 4<<20 {
			continue
		}
		var f *File
		func() {
			defer func() { recover() }()
			f, _ = Open(fn)
		}()
		if f == nil {
			continue
		}
		var dsets []*Dataset
		var paths []string
		func() {
			defer func() { recover() }()
			f.Walk(func(p string, o Object) {
				if d, ok := o.(*Dataset); ok && len(dsets) < 40 {
					dsets = append(dsets, d)
					paths = append(paths, p)
				}
			})
		}()
		for di, d := range dsets {
			var full []float64
			var dims []uint64
			ok := false
			func() {
				defer func() { recover() }()
				maxElems := 256
				if r.Thorough() {
					maxElems = 4096
				}
				// the extent first, from the dataspace message: a full read of a dataset that is
				// too large anyway would only cost memory
				if hdr, err := core.ReadObjectHeader(d.file.osFile, d.address, d.file.sb); err == nil {
					if di, err := core.ReadDatasetInfo(hdr, d.file.sb); err == nil && di.Dataspace != nil {
						n := uint64(1)
						for _, x := range di.Dataspace.Dimensions {
							if x != 0 && n > (1<<40)/x {
								n = 1 << 40
								break
							}
							n *= x
						}
						if n > uint64(maxElems) {
							return
						}
					}
				}
				v, err := d.Read()
				if err != nil || len(v) == 0 || len(v) > maxElems {
					return
				}
				o := &vfObject{}
				vfDatasetDump(d, o)
				if o.Shape == "ERR" {
					return
				}
				for _, fld := range strings.Fields(strings.Trim(o.Shape, "[]")) {
					var x uint64
					fmt.Sscan(fld, &x)
					dims = append(dims, x)
				}
				if vfProd(dims) != len(v) || len(dims) == 0 || len(dims) > 4 {
					return
				}
				full, ok = v, true
			}()
			if !ok {
				continue
			}
			nds++
			rank := len(dims)
			choices := make([][]vfSelDim, rank)
			for k := 0; k < rank; k++ {
				dd := dims[k]
				seen := map[vfSelDim]bool{}
				for _, st := range vfUniqU([]uint64{0 + 1, 2, dd/2 + 1, dd}) { // start+1 to survive vfUniqU's zero filter
					start := st - 1
					for _, cnt := range vfUniqU([]uint64{1, 2, dd / 2, dd}) {
						strideSet, blockSet := []uint64{1, 2}, []uint64{1, 2}
						if rank >= 3 && !r.Thorough() {
							strideSet, blockSet = []uint64{1, 2}, []uint64{1}
						}
						for _, stride := range strideSet {
							for _, bl := range blockSet {
								if stride < bl || start+(cnt-1)*stride+bl > dd {
									continue
								}
								c := vfSelDim{start, cnt, stride, bl}
								if !seen[c] {
									seen[c] = true
									choices[k] = append(choices[k], c)
								}
							}
						}
					}
				}
			}
			var sels [][]vfSelDim
			var rec func(k int, cur []vfSelDim)
			rec = func(k int, cur []vfSelDim) {
				if len(sels) > 20000 {
					return
				}
				if k == rank {
					sels = append(sels, append([]vfSelDim{}, cur...))
					return
				}
				for _, c := range choices[k] {
					rec(k+1, append(cur, c))
				}
			}
			rec(0, nil)
			atomic.AddInt64(total, int64(len(sels)))
			name := fn + ":" + paths[di]
			if nds <= 2 {
				r.Sample(map[string]any{"corpus_dataset": name, "dims": dims, "selections": len(sels)})
			}
			vkit.ParallelFor(len(sels), func(i int) {
				s := sels[i]
				hs := &HyperslabSelection{Start: make([]uint64, rank), Count: make([]uint64, rank), Stride: make([]uint64, rank), Block: make([]uint64, rank)}
				for k := range s {
					hs.Start[k], hs.Count[k], hs.Stride[k], hs.Block[k] = s[k].start, s[k].count, s[k].stride, s[k].block
				}
				detail := map[string]any{"dataset": name, "dims": dims, "start": hs.Start, "count": hs.Count, "stride": hs.Stride, "block": hs.Block}
				r.Cases(1)
				r.Guard(fmt.Sprintf("corpus/rank%d/hyperslab/", rank), detail, func() {
					got, err := d.ReadHyperslab(hs)
					if err != nil {
						detail["error"] = err.Error()
						r.Fail(fmt.Sprintf("corpus/rank%d/hyperslab/valid-selection-rejected", rank), detail)
						return
					}
					gf, _ := vfToFloats(got)
					want := vfGather(full, dims, s)
					if !vfSameBits(gf, want) {
						detail["want"], detail["got"] = fmt.Sprint(want), fmt.Sprint(gf)
						r.Fail(fmt.Sprintf("corpus/rank%d/hyperslab/%s", rank, vfC09Shape(gf, want)), detail)
						return
					}
					r.Outcome("equal")
				})
			})
		}
		f.Close()
	}
	r.Set("corpus_datasets", nds)
}

// vfC09ChunkGrid: datasets whose chunk grid is large (two- and three-digit chunk coordinates
// in one and in two dimensions, thousands of chunks in one index): every single chunk's
// region, every row and column of chunks and the full extent are read with ReadSlice and
// compared with the gather from the full read; the chunk iterator must tile the full read.
func vfC09ChunkGrid(r *vkit.Run, dir string, total *int64) {
	for _, g := range []struct {
		dims, chunk []uint64
	}{{[]uint64{24, 22}, []uint64{2, 2}}, {[]uint64{230}, []uint64{2}}, {[]uint64{3000}, []uint64{1}}, {[]uint64{128, 64}, []uint64{2, 2}}} {
		if r.Expired() {
			r.Cap("time budget (chunk grid)")
			return
		}
		name := fmt.Sprintf("chunk-grid f64%v chunk%v", g.dims, g.chunk)
		p := filepath.Join(dir, fmt.Sprintf("c09-grid-%d.h5", atomic.AddInt64(&vfC09Counter, 1)))
		w, err := CreateForWrite(p, CreateTruncate)
		if err != nil {
			r.Fail("chunk-grid/create-failed", map[string]any{"dataset": name, "error": err.Error()})
			continue
		}
		ty := vfTypes["f64"]
		dw, err := w.CreateDataset("/d", ty.DT, g.dims, WithChunkDims(g.chunk))
		if err == nil {
			err = dw.Write(ty.Make(vfProd(g.dims), 1))
		}
		if cerr := w.Close(); err == nil {
			err = cerr
		}
		if err != nil {
			r.Fail("chunk-grid/write-failed", map[string]any{"dataset": name, "error": err.Error()})
			os.Remove(p)
			continue
		}
		f, err := Open(p)
		if err != nil {
			r.Fail("chunk-grid/reopen-failed", map[string]any{"dataset": name, "error": err.Error()})
			os.Remove(p)
			continue
		}
		var d *Dataset
		f.Walk(func(path string, o Object) {
			if x, ok := o.(*Dataset); ok && path == "/d" {
				d = x
			}
		})
		full, err := d.Read()
		if err != nil || len(full) != vfProd(g.dims) {
			r.Fail("chunk-grid/full-read-failed", map[string]any{"dataset": name, "error": fmt.Sprint(err), "elements": len(full)})
			f.Close()
			os.Remove(p)
			continue
		}
		rank := len(g.dims)
		nch := make([]uint64, rank)
		for k := range nch {
			nch[k] = (g.dims[k] + g.chunk[k] - 1) / g.chunk[k]
		}
		type region struct{ start, count []uint64 }
		var regs []region
		regs = append(regs, region{make([]uint64, rank), append([]uint64{}, g.dims...)})
		var rec func(k int, cur []uint64)
		rec = func(k int, cur []uint64) {
			if k == rank {
				st, ct := make([]uint64, rank), make([]uint64, rank)
				for j := range cur {
					st[j] = cur[j] * g.chunk[j]
					ct[j] = g.chunk[j]
					if st[j]+ct[j] > g.dims[j] {
						ct[j] = g.dims[j] - st[j]
					}
				}
				regs = append(regs, region{st, ct})
				return
			}
			for c := uint64(0); c < nch[k]; c++ {
				rec(k+1, append(cur, c))
			}
		}
		rec(0, nil)
		if rank == 2 { // whole rows and whole columns of chunks
			for c := uint64(0); c < nch[0]; c++ {
				regs = append(regs, region{[]uint64{c * g.chunk[0], 0}, []uint64{g.chunk[0], g.dims[1]}})
			}
			for c := uint64(0); c < nch[1]; c++ {
				regs = append(regs, region{[]uint64{0, c * g.chunk[1]}, []uint64{g.dims[0], g.chunk[1]}})
			}
		}
		atomic.AddInt64(total, int64(len(regs)))
		vkit.ParallelFor(len(regs), func(i int) {
			rg := regs[i]
			sel := make([]vfSelDim, rank)
			for k := range sel {
				sel[k] = vfSelDim{rg.start[k], rg.count[k], 1, 1}
			}
			detail := map[string]any{"dataset": name, "start": rg.start, "count": rg.count}
			r.Cases(1)
			r.Guard("chunk-grid/readslice/", detail, func() {
				got, err := d.ReadSlice(rg.start, rg.count)
				if err != nil {
					detail["error"] = err.Error()
					r.Fail("chunk-grid/readslice/valid-selection-rejected", detail)
					return
				}
				gf, _ := vfToFloats(got)
				if want := vfGather(full, g.dims, sel); !vfSameBits(gf, want) {
					r.Fail("chunk-grid/readslice/"+vfC09Shape(gf, want), detail)
					return
				}
				r.Outcome("equal")
			})
		})
		// long strides: in one dimension a stride of several chunks that is not a whole number of
		// chunks (2c+1, 3c+1, 4c+3) and of exactly 2 and 3 chunks, blocks of 1 and 2, as many blocks
		// as fit, from every start below one stride's worth of chunks; the other dimensions take
		// their first three elements
		{
			var sels [][]vfSelDim
			for k := 0; k < rank; k++ {
				c := g.chunk[k]
				for _, st := range []uint64{2*c + 1, 3*c + 1, 4*c + 3, 2 * c, 3 * c} {
					for _, bl := range []uint64{1, 2} {
						for start := uint64(0); start < st && start < g.dims[k]; start++ {
							if start+bl > g.dims[k] {
								continue
							}
							count := (g.dims[k]-start-bl)/st + 1
							sel := make([]vfSelDim, rank)
							for j := range sel {
								n := g.dims[j]
								if n > 3 {
									n = 3
								}
								sel[j] = vfSelDim{0, n, 1, 1}
							}
							sel[k] = vfSelDim{start, count, st, bl}
							sels = append(sels, sel)
						}
					}
				}
			}
			atomic.AddInt64(total, int64(len(sels)))
			vkit.ParallelFor(len(sels), func(i int) {
				sel := sels[i]
				hs := &HyperslabSelection{Start: make([]uint64, rank), Count: make([]uint64, rank), Stride: make([]uint64, rank), Block: make([]uint64, rank)}
				for k := range sel {
					hs.Start[k], hs.Count[k], hs.Stride[k], hs.Block[k] = sel[k].start, sel[k].count, sel[k].stride, sel[k].block
				}
				detail := map[string]any{"dataset": name, "start": hs.Start, "count": hs.Count, "stride": hs.Stride, "block": hs.Block}
				r.Cases(1)
				r.Guard("chunk-grid/long-stride/", detail, func() {
					got, err := d.ReadHyperslab(hs)
					if err != nil {
						detail["error"] = err.Error()
						r.Fail("chunk-grid/long-stride/valid-selection-rejected", detail)
						return
					}
					gf, _ := vfToFloats(got)
					if want := vfGather(full, g.dims, sel); !vfSameBits(gf, want) {
						r.Fail("chunk-grid/long-stride/"+vfC09Shape(gf, want), detail)
						return
					}
					r.Outcome("equal")
				})
			})
		}
		// iterator: every piece equals the gather of its region, the pieces cover every element once
		r.Guard("chunk-grid/iterator/", map[string]any{"dataset": name}, func() {
			it, err := d.ChunkIterator()
			if err != nil {
				r.Fail("chunk-grid/iterator/unavailable", map[string]any{"dataset": name, "error": err.Error()})
				return
			}
			covered := 0
			pieces := 0
			for it.Next() {
				piece, err := it.Chunk()
				if err != nil {
					r.Fail("chunk-grid/iterator/chunk-error", map[string]any{"dataset": name, "error": err.Error()})
					return
				}
				pf, _ := vfToFloats(piece)
				co := it.ChunkCoords()
				sel := make([]vfSelDim, rank)
				for k := range sel {
					st := co[k] * g.chunk[k]
					if len(co) != rank || st >= g.dims[k] {
						r.Fail("chunk-grid/iterator/coordinates-outside", map[string]any{"dataset": name, "coords": co})
						return
					}
					ct := g.chunk[k]
					if st+ct > g.dims[k] {
						ct = g.dims[k] - st
					}
					sel[k] = vfSelDim{st, ct, 1, 1}
				}
				if want := vfGather(full, g.dims, sel); !vfSameBits(pf, want) {
					r.Fail("chunk-grid/iterator/"+vfC09Shape(pf, want), map[string]any{"dataset": name, "coords": co})
					return
				}
				covered += len(pf)
				pieces++
			}
			if it.Err() != nil || covered != len(full) {
				r.Fail("chunk-grid/iterator/does-not-tile", map[string]any{"dataset": name, "covered": covered, "elements": len(full), "pieces": pieces, "error": fmt.Sprint(it.Err())})
				return
			}
			r.Outcome("iterator-ok")
		})
		f.Close()
		os.Remove(p)
	}
}
