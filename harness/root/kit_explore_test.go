//go:build verif

package hdf5

import (
	"fmt"
	"sync"

	"github.com/scigolib/hdf5/internal/verif/vkit"
)

// ---------------------------------------------------------------------------------------
// E1: stateless depth-bounded exploration of operation sequences on the real FileWriter.
// Successor = replay of the whole sequence on a fresh instance (real objects do not clone).
// Every sequence of length <= depth over the enabled alphabet is executed exactly once; the
// visitor sees the execution of the sequence and the execution of its parent prefix, so
// every prefix is checked with one dump per execution.
// ---------------------------------------------------------------------------------------

type vfExec struct {
	Hist    []vfOp
	Errs    []error // per op
	Panics  []bool
	Tree    *vfTree // dump of the file as it is on disk after the last op (writer still open)
	OpenErr error
	// Closed is the dump after FileWriter.Close (only when requested).
	Closed    *vfTree
	ClosedErr error
	CloseErr  error
	// RefCounts: object reference counts of the closed file by path (filled by C16)
	RefCounts string
}

func (e *vfExec) LastErr() error {
	if len(e.Errs) == 0 {
		return nil
	}
	return e.Errs[len(e.Errs)-1]
}

// vfRun executes hist on a fresh file created with cfg and dumps the result.
func vfRun(dir string, cfg []interface{}, hist []vfOp, alsoClose bool) *vfExec {
	ex := &vfExec{Hist: hist}
	w, err := vfNewWorld(dir, cfg...)
	if err != nil {
		ex.OpenErr = fmt.Errorf("create: %w", err)
		return ex
	}
	defer w.Remove()
	for _, o := range hist {
		e, p := w.Apply(o)
		ex.Errs = append(ex.Errs, e)
		ex.Panics = append(ex.Panics, p)
	}
	ex.Tree, ex.OpenErr = vfDumpFile(w.Path)
	if alsoClose {
		func() {
			defer func() {
				if p := recover(); p != nil {
					ex.CloseErr = fmt.Errorf("PANIC: %v", p)
				}
			}()
			ex.CloseErr = w.Close()
		}()
		ex.Closed, ex.ClosedErr = vfDumpFile(w.Path)
	}
	return ex
}

type vfExplore struct {
	R       *vkit.Run
	Dir     string
	Cfg     []interface{}
	Prefix  []vfOp // start state: executed before every sequence, not counted in depth
	Depth   int
	Enabled func(hist []vfOp) []vfOp
	// Visit is called once per sequence (length >= 1 beyond Prefix) with the parent execution.
	Visit func(parent, cur *vfExec)
	// CloseAtLeaves additionally closes the writer at maximal sequences and dumps again.
	CloseAtLeaves bool

	mu    sync.Mutex
	execs int64
}

// Run explores all sequences; parallel over the depth-2 subtrees.
func (x *vfExplore) Run() {
	root := vfRun(x.Dir, x.Cfg, x.Prefix, false)
	x.count()
	type task struct {
		parent *vfExec
		hist   []vfOp
	}
	var tasks []task
	// expand two levels sequentially to create tasks
	lvl1 := x.Enabled(x.Prefix)
	for _, o1 := range lvl1 {
		h1 := append(append([]vfOp{}, x.Prefix...), o1)
		tasks = append(tasks, task{root, h1})
	}
	var tasks2 []task
	var mu sync.Mutex
	vkit.ParallelFor(len(tasks), func(i int) {
		t := tasks[i]
		cur := x.step(t.parent, t.hist)
		if len(t.hist)-len(x.Prefix) >= x.Depth {
			return
		}
		for _, o := range x.Enabled(t.hist) {
			h := append(append([]vfOp{}, t.hist...), o)
			mu.Lock()
			tasks2 = append(tasks2, task{cur, h})
			mu.Unlock()
		}
	})
	vkit.ParallelFor(len(tasks2), func(i int) {
		x.dfs(tasks2[i].parent, tasks2[i].hist)
	})
	x.R.Traces(x.execs)
}

func (x *vfExplore) count() {
	x.mu.Lock()
	x.execs++
	x.mu.Unlock()
}

func (x *vfExplore) step(parent *vfExec, hist []vfOp) *vfExec {
	leaf := len(hist)-len(x.Prefix) >= x.Depth
	cur := vfRun(x.Dir, x.Cfg, hist, leaf && x.CloseAtLeaves)
	x.count()
	x.R.Transitions(1)
	x.Visit(parent, cur)
	return cur
}

func (x *vfExplore) dfs(parent *vfExec, hist []vfOp) {
	if x.R.Expired() {
		x.R.Cap("time budget reached during sequence exploration")
		return
	}
	cur := x.step(parent, hist)
	if len(hist)-len(x.Prefix) >= x.Depth {
		return
	}
	for _, o := range x.Enabled(hist) {
		h := append(append([]vfOp{}, hist...), o)
		x.dfs(cur, h)
	}
}
