//go:build verif

package hdf5

import (
	"bufio"
	"context"
	"encoding/binary"
	"encoding/json"
	"fmt"
	"os"
	"os/exec"
	"path/filepath"
	"runtime"
	"runtime/debug"
	"sort"
	"strconv"
	"strings"
	"sync"
	"syscall"
	"testing"
	"time"

	"github.com/scigolib/hdf5/internal/core"
	"github.com/scigolib/hdf5/internal/verif/vkit"
	"github.com/scigolib/hdf5/internal/verif/vos"
)

// C07 — no input file can crash, hang or exhaust the reader.
//
// Deviation enumeration, bound 1: every single byte of a base file set to each of 5 values,
// and every little-endian field position (every offset, widths 2/4/8) set to each boundary
// value of a size/count/address field, including the address of every structure in the file
// (self-reference, cycles). Every true field of the format lies at some offset with some
// width, so this is a superset of a per-field enumeration. Mutants run in worker
// subprocesses (address-space limit, watchdog); the worker announces each mutant before
// touching it, so a fatal error or a hang is attributed exactly.

type vfMutant struct {
	Off   int
	Width int
	Val   uint64
}

func (m vfMutant) String() string {
	return fmt.Sprintf("off=%d width=%d val=%#x", m.Off, m.Width, m.Val)
}

var vfSignatures = []string{"OHDR", "TREE", "SNOD", "HEAP", "GCOL", "FRHP", "FHDB", "FHIB", "BTHD", "BTLF", "BTIN", "OCHK", "\x89HDF"}

// vfStructureAddrs finds the addresses of all signed structures in the file.
func vfStructureAddrs(b []byte) []uint64 {
	var out []uint64
	for i := 0; i+4 <= len(b); i++ {
		s := string(b[i : i+4])
		for _, sig := range vfSignatures {
			if s == sig {
				out = append(out, uint64(i))
			}
		}
	}
	return out
}

// vfMutants enumerates the mutants of a file deterministically (parent and worker agree).
// focus: nil = the whole file; otherwise ranges [lo,hi) in which every deviation is
// enumerated, optionally followed by the sentinel {-1,-1} and ranges in which only single
// bytes are altered (raw or compressed data read by the traversal).
func vfMutants(b []byte, thorough bool, focus [][2]int) []vfMutant {
	n := len(b)
	var byteOnly [][2]int
	for i, f := range focus {
		if f[0] == -1 && f[1] == -1 {
			byteOnly = focus[i+1:]
			focus = focus[:i:i]
			if focus == nil {
				focus = [][2]int{}
			}
			break
		}
	}
	inByteOnly := make([]bool, n)
	for _, f := range byteOnly {
		for j := f[0]; j < f[1] && j < n; j++ {
			if j >= 0 {
				inByteOnly[j] = true
			}
		}
	}
	interesting := make([]bool, n)
	// bytes within a window of non-zero content are interesting; long zero runs (unused heap
	// space) are skipped
	win := 8
	if focus != nil {
		win = 16 // under an exact read mask the enumeration can afford wider zero margins
	}
	for i := 0; i < n; i++ {
		if b[i] != 0 {
			lo, hi := i-win, i+win
			if lo < 0 {
				lo = 0
			}
			if hi > n {
				hi = n
			}
			for j := lo; j < hi; j++ {
				interesting[j] = true
			}
		}
	}
	if focus != nil {
		inFocus := make([]bool, n)
		for _, f := range focus {
			for j := f[0]; j < f[1] && j < n; j++ {
				if j >= 0 {
					inFocus[j] = true
				}
			}
		}
		for i := range interesting {
			interesting[i] = interesting[i] && inFocus[i]
		}
	}
	addrs := vfStructureAddrs(b)
	fs := uint64(n)
	var out []vfMutant
	for o := 0; o < n; o++ {
		if !interesting[o] {
			if inByteOnly[o] {
				for _, v := range []uint64{0x00, 0x01, 0x7F, 0x80, 0xFF} {
					if uint64(b[o]) != v {
						out = append(out, vfMutant{o, 1, v})
					}
				}
			}
			continue
		}
		for _, v := range []uint64{0x00, 0x01, 0x7F, 0x80, 0xFF} {
			if uint64(b[o]) != v {
				out = append(out, vfMutant{o, 1, v})
			}
		}
		if o+2 <= n {
			// (2 and 3: lengths just above what a parser checked for before indexing)
			for _, v := range []uint64{0xFFFF, 0xFFFE, 0x8000, 0x7FFF, 0x0100, 0x0002, 0x0003} {
				out = append(out, vfMutant{o, 2, v})
			}
		}
		if o+4 <= n {
			for _, v := range []uint64{0xFFFFFFFF, 0xFFFFFFFE, 0xFFFFFFF8, 0xFFFFFFF0, 0x80000000, 0x7FFFFFFF, 0x00010000, fs, fs - 1} {
				out = append(out, vfMutant{o, 4, v & 0xFFFFFFFF})
			}
		}
		if o+8 <= n {
			// (-8 and -16: sizes that cancel a fixed header length when added to a cursor)
			vals := []uint64{0xFFFFFFFFFFFFFFFF, 0xFFFFFFFFFFFFFFFE, 0xFFFFFFFFFFFFFFF8, 0xFFFFFFFFFFFFFFF0, 1 << 63, 1<<63 - 1, 1 << 32, 1<<32 - 1, 1 << 31, fs, fs + 1, fs - 1, 1 << 40}
			sel := addrs
			if len(addrs) > 48 && !thorough {
				// many structures (deep synthetic chain): the first and last 8 and the 8 nearest
				// to this offset (self-reference, local cycles, jumps to either end)
				k := sort.Search(len(addrs), func(i int) bool { return addrs[i] >= uint64(o) })
				lo, hi := k-4, k+4
				if lo < 0 {
					lo = 0
				}
				if hi > len(addrs) {
					hi = len(addrs)
				}
				sel = append(append(append([]uint64{}, addrs[:8]...), addrs[lo:hi]...), addrs[len(addrs)-8:]...)
			}
			vals = append(vals, sel...)
			if thorough {
				for _, a := range addrs {
					vals = append(vals, a+1, a-1)
				}
			}
			for _, v := range vals {
				if binary.LittleEndian.Uint64(b[o:o+8]) != v {
					out = append(out, vfMutant{o, 8, v})
				}
			}
		}
	}
	return out
}

func vfApplyMutant(b []byte, m vfMutant) []byte {
	c := append([]byte{}, b...)
	switch m.Width {
	case 1:
		c[m.Off] = byte(m.Val)
	case 2:
		binary.LittleEndian.PutUint16(c[m.Off:], uint16(m.Val))
	case 4:
		binary.LittleEndian.PutUint32(c[m.Off:], uint32(m.Val))
	case 8:
		binary.LittleEndian.PutUint64(c[m.Off:], m.Val)
	}
	return c
}

// vfC07Stage is called by the driver at the start of each API stage (worker: allocation
// attribution by stage; nil elsewhere).
var vfC07Stage func(name string)

func vfStage(name string) {
	if vfC07Stage != nil {
		vfC07Stage(name)
	}
}

// vfC07Drive runs every read the API offers on the file; it must terminate.
func vfC07Drive(path string) {
	vfStage("Open")
	f, err := Open(path)
	if err != nil {
		return
	}
	defer f.Close()
	tr := vfDumpOpenNoRecover(f)
	_ = tr
}

// vfDumpOpenNoRecover is the dump without the per-call recover of vfDatasetDump: a panic
// must surface with its stack.
func vfDumpOpenNoRecover(f *File) int {
	n := 0
	f.Walk(func(p string, obj Object) {
		n++
		switch x := obj.(type) {
		case *Group:
			vfStage("Group.Attributes")
			if as, err := x.Attributes(); err == nil {
				for _, a := range as {
					if a != nil {
						_, _ = a.ReadValue()
					}
				}
			}
		case *Dataset:
			vfStage("Dataset.Info")
			_, _ = x.Info()
			vfStage("Dataset.Read")
			_, _ = x.Read()
			vfStage("Dataset.ReadStrings")
			_, _ = x.ReadStrings()
			vfStage("Dataset.ReadCompound")
			_, _ = x.ReadCompound()
			vfStage("Dataset.Attributes")
			if as, err := x.Attributes(); err == nil {
				for _, a := range as {
					if a != nil {
						_, _ = a.ReadValue()
					}
				}
			}
			_, _ = x.ListAttributes()
			// first element through the partial-read path, and the chunk iterator
			o := &vfObject{}
			o.Shape = "ERR"
			func() {
				if s, err := x.Info(); err == nil && s != "" {
					// rank from a successful full info is not needed: probe ranks 1..4
				}
			}()
			vfStage("Dataset.ReadSlice")
			for rank := 1; rank <= 4; rank++ {
				st := make([]uint64, rank)
				ct := make([]uint64, rank)
				for i := range ct {
					ct[i] = 1
				}
				if _, err := x.ReadSlice(st, ct); err == nil {
					break
				}
			}
			vfStage("Dataset.ChunkIterator")
			if it, err := x.ChunkIterator(); err == nil {
				for k := 0; it.Next() && k < 4096; k++ {
					_, _ = it.Chunk()
				}
			}
		}
	})
	return n
}

type vfC07Job struct {
	Base     string `json:"base"`
	File     string `json:"file"` // path of the intact bytes
	From, To int
	Budget   uint64   `json:"budget"`
	Thorough bool     `json:"thorough"`
	Scratch  string   `json:"scratch"`
	Single   int      `json:"single"`   // >=0: run only this mutant, with allocation profiling
	Deadline int64    `json:"deadline"` // unix seconds after which the worker stops (0: none)
	CPUMs    int64    `json:"cpu_ms"`   // CPU time one mutant may use (0: no limit)
	Focus    [][2]int `json:"focus,omitempty"`
}

// TestVerif_C07Worker is the worker side (re-executed test binary).
func TestVerif_C07Worker(t *testing.T) {
	jf := os.Getenv("VERIF_C07_JOB")
	if jf == "" {
		t.Skip("worker only")
	}
	var job vfC07Job
	b, _ := os.ReadFile(jf)
	if err := json.Unmarshal(b, &job); err != nil {
		fmt.Println("E bad job")
		return
	}
	intact, err := os.ReadFile(job.File)
	if err != nil {
		fmt.Println("E no base")
		return
	}
	debug.SetGCPercent(50)
	muts := vfMutants(intact, job.Thorough, job.Focus)
	out := bufio.NewWriter(os.Stdout)
	defer out.Flush()
	tmp := filepath.Join(job.Scratch, fmt.Sprintf("m%d.h5", os.Getpid()))
	defer os.Remove(tmp)
	var ms runtime.MemStats
	run := func(i int) (verdict string, detail string) {
		m := muts[i]
		if err := os.WriteFile(tmp, vfApplyMutant(intact, m), 0o644); err != nil {
			return "E", "write"
		}
		runtime.ReadMemStats(&ms)
		before := ms.TotalAlloc
		stageName, stageStart := "Open", before
		worstStage, worstDelta := "Open", uint64(0)
		cpu0 := vfCPUms()
		cpuStageStart, cpuWorstStage, cpuWorst := cpu0, "Open", int64(0)
		vfC07Stage = func(name string) {
			runtime.ReadMemStats(&ms)
			if d := ms.TotalAlloc - stageStart; d > worstDelta {
				worstStage, worstDelta = stageName, d
			}
			now := vfCPUms()
			if d := now - cpuStageStart; d > cpuWorst {
				cpuWorstStage, cpuWorst = stageName, d
			}
			stageName, stageStart, cpuStageStart = name, ms.TotalAlloc, now
		}
		func() {
			defer func() {
				if p := recover(); p != nil {
					st := string(debug.Stack())
					verdict = "panic"
					detail = vkit.PanicSite(st) + "|" + strings.SplitN(fmt.Sprint(p), "\n", 2)[0]
				}
			}()
			vfC07Drive(tmp)
		}()
		if verdict != "" {
			return
		}
		vfC07Stage("end")
		vfC07Stage = nil
		if d := ms.TotalAlloc - before; d > job.Budget {
			return "alloc", worstStage + "|" + strconv.FormatUint(d, 10)
		}
		if d := vfCPUms() - cpu0; job.CPUMs > 0 && d > job.CPUMs {
			return "cpu", cpuWorstStage + "|" + strconv.FormatInt(d, 10)
		}
		return "", ""
	}
	if job.Single >= 0 {
		// attribution run: profile every allocation, report the biggest allocating repo frame
		runtime.MemProfileRate = 1
		v, d := run(job.Single)
		site := "unknown"
		runtime.GC() // the profile is as of the last completed collection
		runtime.GC()
		recs := make([]runtime.MemProfileRecord, 16384)
		nrec, _ := runtime.MemProfile(recs, true)
		bySite := map[string]int64{}
		var total int64
		for _, rec := range recs[:nrec] {
			frames := runtime.CallersFrames(rec.Stack())
			for {
				fr, more := frames.Next()
				if strings.HasPrefix(fr.Function, "github.com/scigolib/hdf5") && !strings.Contains(fr.Function, ".vf") && !strings.Contains(fr.Function, "Verif") && !strings.Contains(fr.Function, "/verif/") {
					bySite[strings.TrimPrefix(fr.Function, "github.com/scigolib/hdf5/")] += rec.AllocBytes
					total += rec.AllocBytes
					break
				}
				if !more {
					break
				}
			}
		}
		var best int64
		for k, b := range bySite {
			if b > best || (b == best && k < site) {
				best, site = b, k
			}
		}
		// one site responsible for most of the bytes = a single size-driven allocation;
		// otherwise the budget was exceeded by many small allocations (a long traversal)
		if total == 0 || best*2 < total {
			site = "many-small-allocations"
		}
		fmt.Fprintf(out, "S %d %s %s site=%s\n", job.Single, v, d, site)
		return
	}
	for i := job.From; i < job.To && i < len(muts); i++ {
		if job.Deadline > 0 && time.Now().Unix() > job.Deadline {
			fmt.Fprintf(out, "X %d\n", i)
			return
		}
		fmt.Fprintf(out, "M %d\n", i)
		out.Flush()
		if v, d := run(i); v != "" {
			fmt.Fprintf(out, "R %d %s %s\n", i, v, d)
			out.Flush()
		}
	}
	fmt.Fprintln(out, "D")
}

// vfC07AttributeUnit: unit-level enumeration of the attribute value reader with several
// deviations at once (the file-level enumeration has bound 1): every combination of datatype
// class x element size x dataspace x number of data bytes present from small boundary sets is
// handed to Attribute.ReadValue; it must return (an error or a value) without panicking. The
// counts that are not small are beyond 2^59, where an allocation sized by them panics in
// makeslice instead of exhausting memory.
func vfC07AttributeUnit(r *vkit.Run) {
	r.Rule("unit level, several deviations: core.Attribute.ReadValue on every combination of datatype class {fixed, float, string, variable-length string, opaque} x element size {0,1,3,4,8,2^31,2^32-1} x dataspace {scalar, [0], [1], [3], [2^60], [2^63], [2^64-1], [2^32,2^32], [3,2^62]} x data bytes present {0,1,4,8,24} — no panic")
	classes := []struct {
		name string
		c    core.DatatypeClass
		bits uint32
	}{{"fixed", core.DatatypeFixed, 0x08}, {"float", core.DatatypeFloat, 0x20}, {"string", core.DatatypeString, 0}, {"vlen-string", core.DatatypeVarLen, 0x01}, {"opaque", core.DatatypeOpaque, 0}}
	sizes := []uint32{0, 1, 3, 4, 8, 1 << 31, 1<<32 - 1}
	spaces := [][]uint64{nil, {0}, {1}, {3}, {1 << 60}, {1 << 63}, {^uint64(0)}, {1 << 32, 1 << 32}, {3, 1 << 62}}
	lens := []int{0, 1, 4, 8, 24}
	var n int64
	for _, cl := range classes {
		for _, sz := range sizes {
			for _, sp := range spaces {
				for _, ln := range lens {
					n++
					detail := map[string]any{"class": cl.name, "size": sz, "dims": sp, "data_bytes": ln}
					r.Cases(1)
					r.Guard("attribute-unit/", detail, func() {
						a := &core.Attribute{Name: "a", Datatype: &core.DatatypeMessage{Class: cl.c, Version: 1, Size: sz, ClassBitField: cl.bits, Properties: []byte{0, 0, 32, 0, 0, 0, 0, 0, 0, 0, 0, 0}},
							Dataspace: &core.DataspaceMessage{Version: 1, Type: core.DataspaceSimple, Dimensions: sp}, Data: make([]byte, ln)}
						if sp == nil {
							a.Dataspace.Type = core.DataspaceScalar
						}
						_, err := a.ReadValue()
						if err != nil {
							r.Outcome("attribute-unit/error")
						} else {
							r.Outcome("attribute-unit/value")
						}
					})
				}
			}
		}
	}
	r.Distinct("attribute value reader inputs", n)
}

func TestVerif_C07(t *testing.T) {
	r := vkit.Start(t, "C07", "fault_enumeration")
	defer r.Finish()
	dir := vkit.Scratch(t)
	vfC07AttributeUnit(r)
	bases := vfLibBaseFiles(t, dir)
	// is the os->vos redirection active in this build? With it the harness records which bytes
	// of a base file the complete read traversal reads; deviations are then enumerated over
	// exactly those bytes (a deviation in a byte the reader never reads cannot change what it
	// does: the reader's execution is a function of the bytes it reads).
	vosActive := false
	{
		p := filepath.Join(dir, "probe.h5")
		os.WriteFile(p, bases[0].bytes, 0o644)
		pl := &vos.Plan{Trace: true}
		vos.SetPlan(p, pl)
		vfC07Drive(p)
		vosActive = len(pl.Reads) > 0
		vos.SetPlan(p, nil)
		os.Remove(p)
	}
	r.Set("read_trace_seam_active", vosActive)
	nCorpus, maxSize := 6, int64(8192)
	if r.Thorough() {
		nCorpus, maxSize = 20, 16384
	}
	if vosActive {
		// with exact read masks the cost of a base is the number of bytes read, not its size
		nCorpus, maxSize = 24, 65536
		if r.Thorough() {
			nCorpus = 40
		}
	}
	{
		covered := map[string]bool{}
		if vosActive {
			// greedy feature cover, one file at a time; a file whose traversal reads more than the
			// byte limit (mostly raw data) is passed over: its cost is the number of bytes read
			limit := 6 << 10
			allocLimit := uint64(768 << 10)
			corpusMutants, mutantBudget := 0, 420000
			if r.Thorough() {
				limit = 32 << 10
				allocLimit = 16 << 20
				mutantBudget = 2200000
			}
			cands := vfCorpusScan(512, maxSize)
			skipped, nFocused, nFocusMax := 0, 0, 6
			if r.Thorough() {
				nFocusMax = 12
			}
			for n := 0; n < nCorpus && len(cands) > 0; {
				trial := map[string]bool{}
				for k := range covered {
					trial[k] = true
				}
				one, chosen := vfCorpusCover(cands, 1, trial)
				if len(one) == 0 {
					break
				}
				// remove the chosen candidate from the pool either way
				var rest []vfCorpusCand
				for _, c := range cands {
					if c.fn != chosen[0].fn {
						rest = append(rest, c)
					}
				}
				cands = rest
				p := filepath.Join(dir, "cost.h5")
				os.WriteFile(p, one[0].bytes, 0o644)
				pl := &vos.Plan{Trace: true}
				vos.SetPlan(p, pl)
				var m0, m1 runtime.MemStats
				runtime.ReadMemStats(&m0)
				vfC07Drive(p)
				runtime.ReadMemStats(&m1)
				vos.SetPlan(p, nil)
				os.Remove(p)
				// a base whose intact traversal is heavy (large datasets converted element by
				// element) multiplies that cost by the number of its mutants: passed over
				if m1.TotalAlloc-m0.TotalAlloc > allocLimit {
					skipped++
					continue
				}
				cost := 0
				for _, rg := range vfMergeRanges(pl.Reads, len(one[0].bytes)) {
					cost += rg[1] - rg[0]
				}
				if cost > limit {
					// too many bytes read (mostly raw or compressed data): every deviation only in
					// the headers of the objects that carry the new features (256-byte windows, at
					// most 3 objects) and in the first 64 bytes of every signed structure read;
					// everywhere else that is read (up to 16 KiB) single bytes only
					if nFocused >= nFocusMax || len(one[0].focus) == 0 {
						skipped++
						continue
					}
					nFocused++
					one[0].name = strings.Replace(one[0].name, "corpus:", "corpus-focus:", 1)
					full := append([][2]int{}, one[0].focus...)
					for _, rd := range pl.Reads {
						if rd[0] < 0 || rd[0]+4 > int64(len(one[0].bytes)) {
							continue
						}
						sig := string(one[0].bytes[rd[0] : rd[0]+4])
						for _, known := range vfSignatures {
							if sig == known {
								full = append(full, [2]int{int(rd[0]), int(rd[0]) + 64})
							}
						}
					}
					one[0].focus = full
					if cost <= 16<<10 {
						one[0].focus = append(append(one[0].focus, [2]int{-1, -1}), vfMergeRanges(pl.Reads, len(one[0].bytes))...)
					}
				} else {
					one[0].focus = nil
				}
				// overall budget of the tier: a base that would take the corpus part beyond it is
				// passed over (cheaper ones further down the greedy order may still fit)
				nm := len(vfMutants(one[0].bytes, r.Thorough(), func() [][2]int {
					f := one[0].focus
					if f == nil {
						return vfMergeRanges(pl.Reads, len(one[0].bytes))
					}
					return f
				}()))
				if corpusMutants+nm > mutantBudget {
					skipped++
					continue
				}
				corpusMutants += nm
				bases = append(bases, one[0])
				covered = trial
				n++
			}
			r.Set("corpus_candidates_passed_over_as_too_costly", skipped)
		} else {
			small, _ := vfCorpusCover(vfCorpusScan(512, maxSize), nCorpus, covered)
			for i := range small {
				small[i].focus = nil // small files are mutated as a whole
			}
			bases = append(bases, small...)
			// larger reference files (up to 64 KiB) that carry features none of the small ones has
			// (e.g. compact layout): only the object headers carrying the new features are mutated
			nFocus := 3
			if r.Thorough() {
				nFocus = 12
			}
			focused, _ := vfCorpusCover(vfCorpusScan(maxSize+1, 65536), nFocus, covered)
			for i := range focused {
				focused[i].name = strings.Replace(focused[i].name, "corpus:", "corpus-focus:", 1)
			}
			bases = append(bases, focused...)
		}
		var cov []string
		for k := range covered {
			cov = append(cov, k)
		}
		sort.Strings(cov)
		r.Set("reader_features_covered_by_corpus_bases", cov)
	}
	// synthetic base: compact layout (the writer cannot produce it and the reference files that
	// hold it are large): superblock 2, version 2 object headers, a root group with two link
	// messages, a compact int32[6] dataset and a compact fixed-length string[2] dataset
	{
		img := vfCompactFile()
		p := filepath.Join(dir, "compact.h5")
		os.WriteFile(p, img, 0o644)
		tr, err := vfDumpFile(p)
		ok := err == nil && tr != nil && tr.Get("/c") != nil && tr.Get("/s") != nil &&
			tr.Get("/c").Read != "ERR" && tr.Get("/s").Strings != "ERR"
		if !ok {
			r.Fail("synthetic-compact/intact-file-not-read", map[string]any{"error": fmt.Sprint(err), "tree": fmt.Sprint(tr)})
		} else {
			bases = append(bases, vfBaseFile{"synth-sb2-compact-datasets", img, tr, nil})
		}
	}
	// synthetic base: the same file with the root header continued twice (version 2
	// continuation blocks; the small reference files that have them are passed over as too
	// costly in the quick tier)
	{
		img := vfContinuedFile()
		p := filepath.Join(dir, "continued.h5")
		os.WriteFile(p, img, 0o644)
		tr, err := vfDumpFile(p)
		ok := err == nil && tr != nil && tr.Get("/c") != nil && tr.Get("/s") != nil && tr.Get("/t") != nil &&
			tr.Get("/t").Read != "ERR" && tr.Get("/s").Strings != "ERR"
		if !ok {
			r.Fail("synthetic-continued/intact-file-not-read", map[string]any{"error": fmt.Sprint(err), "tree": fmt.Sprint(tr)})
		} else {
			bases = append(bases, vfBaseFile{"synth-sb2-header-continued-twice", img, tr, nil})
		}
	}
	// synthetic base: a chain of nested old-style groups as the reference library lays them
	// out (cached symbol-table entries); a deviation near the bottom must not cost more than
	// one near the top (work that multiplies per nesting level becomes a hang at this depth)
	{
		img := vfDeepChainFile(30)
		p := filepath.Join(dir, "chain.h5")
		os.WriteFile(p, img, 0o644)
		tr, err := vfDumpFile(p)
		depth := 0
		if tr != nil {
			for q := range tr.Objs {
				if n := strings.Count(q, "/g"); n > depth {
					depth = n
				}
			}
		}
		if err != nil || depth != 30 {
			r.Fail("synthetic-chain/intact-file-not-read-to-the-bottom", map[string]any{"error": fmt.Sprint(err), "levels_listed": depth})
		} else {
			// every level has the same four structures; what distinguishes levels is only their
			// depth, so (quick tier) the superblock and the levels 0, 1, 14, 15, 28, 29, 30 are
			// mutated: both ends and the middle of the chain
			var focus [][2]int
			if !r.Thorough() {
				focus = append(focus, [2]int{0, 96})
				for _, lv := range []int{0, 1, 14, 15, 28, 29, 30} {
					focus = append(focus, [2]int{96 + lv*184, 96 + (lv+1)*184})
				}
			}
			bases = append(bases, vfBaseFile{"synth-sb0-cached-stab-chain-30", img, tr, focus})
		}
	}
	if vosActive {
		for i := range bases {
			p := filepath.Join(dir, "trace.h5")
			os.WriteFile(p, bases[i].bytes, 0o644)
			pl := &vos.Plan{Trace: true}
			vos.SetPlan(p, pl)
			vfC07Drive(p)
			vos.SetPlan(p, nil)
			os.Remove(p)
			read := vfMergeRanges(pl.Reads, len(bases[i].bytes))
			if bases[i].focus != nil {
				var tail [][2]int
				full := bases[i].focus
				for k, f := range full {
					if f[0] == -1 && f[1] == -1 {
						tail = append([][2]int{}, full[k:]...)
						full = full[:k]
						break
					}
				}
				read = append(vfIntersectRanges(read, full), tail...)
			}
			bases[i].focus = read
			if read == nil {
				bases[i].focus = [][2]int{}
			}
		}
	}
	// allocation budget: far above anything an intact read needs, far below a field-sized allocation
	var maxIntact, maxSizeB uint64
	var maxIntactCPU int64
	var ms runtime.MemStats
	for _, b := range bases {
		p := filepath.Join(dir, "intact.h5")
		os.WriteFile(p, b.bytes, 0o644)
		runtime.GC()
		runtime.ReadMemStats(&ms)
		before := ms.TotalAlloc
		c0 := vfCPUms()
		vfC07Drive(p)
		if d := vfCPUms() - c0; d > maxIntactCPU {
			maxIntactCPU = d
		}
		runtime.ReadMemStats(&ms)
		if d := ms.TotalAlloc - before; d > maxIntact {
			maxIntact = d
		}
		if uint64(len(b.bytes)) > maxSizeB {
			maxSizeB = uint64(len(b.bytes))
		}
	}
	budget := uint64(16 << 20)
	if 16*maxIntact > budget {
		budget = 16 * maxIntact
	}
	budget += 64 * maxSizeB
	// work bound: the CPU time one mutant may use. An intact traversal of the largest base
	// takes milliseconds; the limit is 10 s of CPU time or 2000 times the slowest intact
	// traversal, whichever is larger (CPU time, not wall time: a loaded machine does not
	// inflate it).
	cpuLimitMs := int64(10000)
	if 2000*maxIntactCPU > cpuLimitMs {
		cpuLimitMs = 2000 * maxIntactCPU
	}
	r.Set("intact_max_cpu_ms", maxIntactCPU)
	r.Set("cpu_limit_ms_per_mutant", cpuLimitMs)
	r.Set("intact_max_alloc_bytes", maxIntact)
	r.Set("alloc_budget_bytes", budget)
	r.Rule("base files: 7 library-written files (one per feature), small reference-library files and a synthetic chain of 30 nested old-style groups with cached symbol-table entries (for which, in the quick tier, the substituted structure addresses are the first 8, the last 8 and the 8 nearest to the offset); mutants (one deviation each): every byte with non-zero content nearby set to each of {00,01,7F,80,FF}, and every offset read as a little-endian field of width 2/4/8 set to each boundary value (max, max-1, -8, -16, sign bit, 2^31, 2^32(-1), file size and file size +-1, 2^40) and, for width 8, the address of every signed structure in the file (self-reference, cycles); each mutant is opened and every read of the API is run (Walk, Info, Read, ReadStrings, ReadCompound, Attributes+ReadValue, ReadSlice of the first element, full chunk iteration) in a worker subprocess under an address-space limit; verdict: terminates, no panic, no fatal error, allocation below the budget, CPU time of the mutant below the work bound; every mutant is distinct")
	r.Assume("a hang is declared only after a mutant made no progress for 20 s and again for 60 s when re-run alone (an intact traversal takes milliseconds)")

	type fileJob struct {
		base vfBaseFile
		path string
		n    int
	}
	var fjs []fileJob
	var baseList []string
	total := 0
	for i, b := range bases {
		p := filepath.Join(dir, fmt.Sprintf("base%d.h5", i))
		os.WriteFile(p, b.bytes, 0o644)
		n := len(vfMutants(b.bytes, r.Thorough(), b.focus))
		fjs = append(fjs, fileJob{b, p, n})
		total += n
		r.Sample(map[string]any{"base": b.name, "size": len(b.bytes), "mutants": n})
		baseList = append(baseList, fmt.Sprintf("%s size=%d mutants=%d focus=%v", b.name, len(b.bytes), n, b.focus))
	}
	r.Set("mutants_total", total)
	r.Set("bases", baseList)

	workers := runtime.GOMAXPROCS(0)
	type slice struct {
		fj       fileJob
		from, to int
	}
	var slices []slice
	for _, fj := range fjs {
		step := (fj.n + workers*2 - 1) / (workers * 2)
		if step < 200 {
			step = 200
		}
		for a := 0; a < fj.n; a += step {
			b := a + step
			if b > fj.n {
				b = fj.n
			}
			slices = append(slices, slice{fj, a, b})
		}
	}
	var mu sync.Mutex
	done := 0
	profiled := map[string]int{}
	report := func(fj fileJob, idx int, verdict, detail string) {
		muts := vfMutants(fj.base.bytes, r.Thorough(), fj.base.focus)
		m := muts[idx]
		kind := "lib"
		if strings.HasPrefix(fj.base.name, "corpus") {
			kind = "corpus"
		}
		d := map[string]any{"base": fj.base.name, "mutant": m.String(), "mutant_index": idx, "verdict": verdict, "detail": detail}
		switch verdict {
		case "panic":
			site := strings.SplitN(detail, "|", 2)[0]
			msg := ""
			if parts := strings.SplitN(detail, "|", 2); len(parts) == 2 {
				msg = vfPanicClass(parts[1])
			}
			r.Fail(fmt.Sprintf("panic(%s)@%s", msg, site), d)
		case "alloc":
			// keyed by the API stage that allocated most (deterministic); the allocating
			// function from a profiled single run goes into the artefact only
			stage := strings.SplitN(detail, "|", 2)[0]
			// the profiled re-run is informative only: at most three per key, none once the
			// time budget is used up
			mu.Lock()
			profiled[vfC07BaseClass(fj.base)+"@"+stage]++
			doProfile := profiled[vfC07BaseClass(fj.base)+"@"+stage] <= 3 && !r.Expired()
			mu.Unlock()
			if doProfile {
				d["allocating_site_from_profile"] = vfC07Single(dir, fj.path, fj.base.name, fj.base.focus, idx, budget, r.Thorough())
			}
			// keyed by base file and API stage (both deterministic); the profiled site is
			// informative only (attribution by profile is not stable enough for a key)
			_ = kind
			// keyed by the class of the base file (library-written or reference file, with or
			// without a chunked dataset) and the API stage — not by the file's name, which
			// depends on the base selection
			r.Fail("alloc-over-budget/"+vfC07BaseClass(fj.base)+"@"+stage, d)
		case "fatal":
			r.Fail("fatal("+detail+")/"+kind, d)
		case "hang":
			r.Fail("hang/"+kind+"@"+detail, d)
		case "cpu":
			// keyed by base file and API stage
			r.Fail("work-not-bounded-by-file-size/"+fj.base.name+"@"+strings.SplitN(detail, "|", 2)[0], d)
		}
	}
	vkit.ParallelFor(len(slices), func(si int) {
		s := slices[si]
		from := s.from
		for from < s.to {
			if r.Expired() {
				r.Cap("time budget")
				return
			}
			last, results, finished, stderrTail, hung := vfC07RunWorker(dir, vfC07Job{Base: s.fj.base.name, Focus: s.fj.base.focus, File: s.fj.path, From: from, To: s.to, Budget: budget, Thorough: r.Thorough(), Scratch: dir, Single: -1, Deadline: r.Deadline().Unix(), CPUMs: cpuLimitMs}, 20*time.Second)
			stoppedAt := -1
			for _, res := range results {
				if res.verdict == "deadline" {
					stoppedAt = res.idx
					continue
				}
				report(s.fj, res.idx, res.verdict, res.detail)
			}
			if stoppedAt >= 0 {
				mu.Lock()
				done += stoppedAt - from
				mu.Unlock()
				r.Cap("time budget")
				return
			}
			if finished {
				mu.Lock()
				done += s.to - from
				mu.Unlock()
				break
			}
			// worker died or hung at mutant `last`
			if last < 0 {
				r.Fail("harness/worker-failed-to-start", map[string]any{"stderr": stderrTail})
				return
			}
			if hung {
				// confirm alone with a longer limit
				_, res2, fin2, err2, hung2 := vfC07RunWorker(dir, vfC07Job{Base: s.fj.base.name, Focus: s.fj.base.focus, File: s.fj.path, From: last, To: last + 1, Budget: budget, Thorough: r.Thorough(), Scratch: dir, Single: -1, CPUMs: cpuLimitMs}, 60*time.Second)
				switch {
				case hung2 && !fin2:
					report(s.fj, last, "hang", vfLastRepoFrame(stderrTail))
				case fin2:
					// not a hang (the box was busy): the mutant's own verdict counts
					r.Add("watchdog_false_positives_rechecked", 1)
					for _, res := range res2 {
						report(s.fj, res.idx, res.verdict, res.detail)
					}
				default:
					// died when run alone: classify like any other worker death
					cls := "crash"
					switch {
					case strings.Contains(err2, "out of memory") || strings.Contains(err2, "cannot allocate"):
						cls = "out-of-memory"
					case strings.Contains(err2, "stack overflow") || strings.Contains(err2, "goroutine stack exceeds"):
						cls = "stack-overflow"
					}
					report(s.fj, last, "fatal", cls+"@"+vfLastRepoFrame(err2))
				}
			} else {
				cls := "crash"
				switch {
				case strings.Contains(stderrTail, "out of memory") || strings.Contains(stderrTail, "cannot allocate"):
					cls = "out-of-memory"
				case strings.Contains(stderrTail, "stack overflow") || strings.Contains(stderrTail, "goroutine stack exceeds"):
					cls = "stack-overflow"
				}
				report(s.fj, last, "fatal", cls+"@"+vfLastRepoFrame(stderrTail))
			}
			mu.Lock()
			done += last + 1 - from
			mu.Unlock()
			from = last + 1
		}
	})
	r.Cases(int64(done))
	r.Distinct("mutants", int64(done))
	if done < total {
		r.Cap(fmt.Sprintf("%d of %d mutants evaluated", done, total))
	}
}

func vfPanicClass(msg string) string {
	switch {
	case strings.Contains(msg, "index out of range"):
		return "index-out-of-range"
	case strings.Contains(msg, "slice bounds out of range"):
		return "slice-bounds"
	case strings.Contains(msg, "makeslice"):
		return "makeslice"
	case strings.Contains(msg, "nil pointer"):
		return "nil-dereference"
	case strings.Contains(msg, "divide by zero"):
		return "divide-by-zero"
	}
	return "other"
}

func vfLastRepoFrame(stderr string) string {
	for _, l := range strings.Split(stderr, "\n") {
		if strings.HasPrefix(l, "github.com/scigolib/hdf5") && !strings.Contains(l, ".vf") && !strings.Contains(l, "Verif") && !strings.Contains(l, "/verif/") {
			fn := l
			if i := strings.LastIndex(fn, "("); i > 0 {
				fn = fn[:i]
			}
			return strings.TrimPrefix(fn, "github.com/scigolib/hdf5/")
		}
	}
	return "unknown"
}

type vfC07Res struct {
	idx     int
	verdict string
	detail  string
}

// vfC07RunWorker runs one worker subprocess; returns the last announced mutant, the results,
// whether it finished, the tail of stderr, and whether it was killed for lack of progress.
func vfC07RunWorker(dir string, job vfC07Job, idle time.Duration) (last int, results []vfC07Res, finished bool, stderrTail string, hung bool) {
	last = -1
	jf, err := os.CreateTemp(dir, "job*.json")
	if err != nil {
		return
	}
	jb, _ := json.Marshal(job)
	jf.Write(jb)
	jf.Close()
	defer os.Remove(jf.Name())
	ctx, cancel := context.WithCancel(context.Background())
	defer cancel()
	// address-space limit through the shell (ulimit -v, KiB): 6 GiB
	cmd := exec.CommandContext(ctx, "/bin/sh", "-c", "ulimit -v 3145728; exec \"$0\" -test.run='^TestVerif_C07Worker$' -test.timeout=0", os.Args[0])
	cmd.Env = append(os.Environ(), "VERIF_C07_JOB="+jf.Name(), "GOMAXPROCS=2", "GOMEMLIMIT=2GiB", "GOTRACEBACK=single")
	stdout, _ := cmd.StdoutPipe()
	var errBuf strings.Builder
	cmd.Stderr = &vfTailWriter{b: &errBuf}
	if err := cmd.Start(); err != nil {
		return
	}
	progress := make(chan string, 1024)
	go func() {
		sc := bufio.NewScanner(stdout)
		sc.Buffer(make([]byte, 1<<16), 1<<20)
		for sc.Scan() {
			progress <- sc.Text()
		}
		close(progress)
	}()
	timer := time.NewTimer(idle)
loop:
	for {
		select {
		case line, ok := <-progress:
			if !ok {
				break loop
			}
			if !timer.Stop() {
				select {
				case <-timer.C:
				default:
				}
			}
			timer.Reset(idle)
			switch {
			case strings.HasPrefix(line, "M "):
				last, _ = strconv.Atoi(line[2:])
			case strings.HasPrefix(line, "R "):
				f := strings.SplitN(line, " ", 4)
				if len(f) == 4 {
					i, _ := strconv.Atoi(f[1])
					results = append(results, vfC07Res{i, f[2], f[3]})
				}
			case strings.HasPrefix(line, "S "):
				results = append(results, vfC07Res{job.Single, "single", line})
			case line == "D":
				finished = true
			case strings.HasPrefix(line, "X "):
				// the worker stopped at its deadline before mutant i
				i, _ := strconv.Atoi(line[2:])
				results = append(results, vfC07Res{i, "deadline", ""})
			case strings.HasPrefix(line, "panic:") || strings.HasPrefix(line, "fatal error:") || strings.HasPrefix(line, "runtime:") || strings.HasPrefix(line, "github.com/") || strings.HasPrefix(line, "goroutine "):
				errBuf.WriteString(line + "\n")
			}
		case <-timer.C:
			hung = true
			// ask for a goroutine dump to name the spinning function, then kill
			_ = cmd.Process.Signal(os.Interrupt)
			cancel()
			break loop
		}
	}
	_ = cmd.Wait()
	stderrTail = errBuf.String()
	if len(stderrTail) > 6000 {
		stderrTail = stderrTail[:6000]
	}
	return
}

type vfTailWriter struct {
	mu sync.Mutex
	b  *strings.Builder
}

func (w *vfTailWriter) Write(p []byte) (int, error) {
	w.mu.Lock()
	defer w.mu.Unlock()
	if w.b.Len() < 1<<16 {
		w.b.Write(p)
	}
	return len(p), nil
}

// vfC07Single re-runs one mutant with allocation profiling and returns the allocating site.
func vfC07Single(dir, file, base string, focus [][2]int, idx int, budget uint64, thorough bool) string {
	_, results, _, _, _ := vfC07RunWorker(dir, vfC07Job{Base: base, Focus: focus, File: file, From: idx, To: idx + 1, Budget: budget, Thorough: thorough, Scratch: dir, Single: idx}, 60*time.Second)
	for _, r := range results {
		if r.verdict == "single" {
			if i := strings.Index(r.detail, "site="); i >= 0 {
				return r.detail[i+5:]
			}
		}
	}
	return "unknown"
}

var _ = sort.Strings

// vfDeepChainFile builds a version 0 superblock file with depth nested groups /g/g/.../g in the
// reference library's old-style layout: version 1 object header with a Symbol Table message,
// local heap, one B-tree leaf, one symbol table node whose single entry caches the child's
// B-tree and heap addresses (cache type 1).
func vfDeepChainFile(depth int) []byte {
	le := binary.LittleEndian
	const hdr, heap, tree, snod, sb = 40, 48, 48, 48, 96
	const per = hdr + heap + tree + snod
	undef := ^uint64(0)
	levels := depth + 1
	img := make([]byte, sb+levels*per)
	hdrAt := func(i int) uint64 { return uint64(sb + i*per) }
	heapAt := func(i int) uint64 { return hdrAt(i) + hdr }
	treeAt := func(i int) uint64 { return heapAt(i) + heap }
	snodAt := func(i int) uint64 { return treeAt(i) + tree }
	copy(img[0:8], "\x89HDF\r\n\x1a\n")
	img[13], img[14] = 8, 8
	le.PutUint16(img[16:18], 4)
	le.PutUint16(img[18:20], 16)
	le.PutUint64(img[32:40], undef)
	le.PutUint64(img[40:48], uint64(len(img)))
	le.PutUint64(img[48:56], undef)
	le.PutUint64(img[64:72], hdrAt(0))
	le.PutUint32(img[72:76], 1)
	le.PutUint64(img[80:88], treeAt(0))
	le.PutUint64(img[88:96], heapAt(0))
	for i := 0; i < levels; i++ {
		h := img[hdrAt(i):]
		h[0] = 1
		le.PutUint16(h[2:4], 1)
		le.PutUint32(h[4:8], 1)
		le.PutUint32(h[8:12], 24)
		le.PutUint16(h[16:18], 0x0011)
		le.PutUint16(h[18:20], 16)
		le.PutUint64(h[24:32], treeAt(i))
		le.PutUint64(h[32:40], heapAt(i))
		p := img[heapAt(i):]
		copy(p[0:4], "HEAP")
		le.PutUint64(p[8:16], 16)
		le.PutUint64(p[16:24], undef)
		le.PutUint64(p[24:32], heapAt(i)+32)
		p[32+8] = 'g'
		b := img[treeAt(i):]
		copy(b[0:4], "TREE")
		le.PutUint64(b[8:16], undef)
		le.PutUint64(b[16:24], undef)
		if i == levels-1 {
			continue
		}
		le.PutUint16(b[6:8], 1)
		le.PutUint64(b[32:40], snodAt(i))
		le.PutUint64(b[40:48], 8)
		n := img[snodAt(i):]
		copy(n[0:4], "SNOD")
		n[4] = 1
		le.PutUint16(n[6:8], 1)
		e := n[8:]
		le.PutUint64(e[0:8], 8)
		le.PutUint64(e[8:16], hdrAt(i+1))
		le.PutUint32(e[16:20], 1)
		le.PutUint64(e[24:32], treeAt(i+1))
		le.PutUint64(e[32:40], heapAt(i+1))
	}
	return img
}

// vfCPUms is the CPU time (user+system) this process has used, in milliseconds.
func vfCPUms() int64 {
	var ru syscall.Rusage
	if err := syscall.Getrusage(syscall.RUSAGE_SELF, &ru); err != nil {
		return 0
	}
	return ru.Utime.Sec*1000 + int64(ru.Utime.Usec)/1000 + ru.Stime.Sec*1000 + int64(ru.Stime.Usec)/1000
}

// vfC07BaseClass: "lib" / "corpus" / "synth", with "+chunked" when the intact file holds a
// chunked dataset (the full read of a chunked dataset sizes its buffers from the dataspace).
func vfC07BaseClass(b vfBaseFile) string {
	c := "lib"
	switch {
	case strings.HasPrefix(b.name, "corpus"):
		c = "corpus"
	case strings.HasPrefix(b.name, "synth"):
		c = "synth"
	}
	if b.tree != nil {
		for _, o := range b.tree.Objs {
			if o.Kind == "dataset" && strings.Contains(strings.ToLower(o.Info), "chunked") {
				return c + "+chunked"
			}
		}
	}
	return c
}

// vfMergeRanges turns traced reads into sorted disjoint [lo,hi) ranges inside [0,size).
func vfMergeRanges(reads [][2]int64, size int) [][2]int {
	mask := make([]bool, size)
	for _, rd := range reads {
		for j := rd[0]; j < rd[1] && j < int64(size); j++ {
			if j >= 0 {
				mask[j] = true
			}
		}
	}
	var out [][2]int
	for i := 0; i < size; {
		if !mask[i] {
			i++
			continue
		}
		j := i
		for j < size && mask[j] {
			j++
		}
		out = append(out, [2]int{i, j})
		i = j
	}
	return out
}

func vfIntersectRanges(a, b [][2]int) [][2]int {
	var out [][2]int
	for _, x := range a {
		for _, y := range b {
			lo, hi := x[0], x[1]
			if y[0] > lo {
				lo = y[0]
			}
			if y[1] < hi {
				hi = y[1]
			}
			if lo < hi {
				out = append(out, [2]int{lo, hi})
			}
		}
	}
	return out
}

// vfCompactFile builds a superblock-2 file with version 2 object headers: root group (two
// link messages) -> "c": int32[6], compact layout; "s": 4-byte fixed strings [2], compact.
func vfCompactFile() []byte { return vfCompactFileOpt(false) }

// vfContinuedFile is the same file with the root group's header continued twice: chunk 0
// (link "c", continuation) -> OCHK (link "s", continuation) -> OCHK (link "t" to the first
// dataset). One continuation can then be made to name a block another has already led to.
func vfContinuedFile() []byte { return vfCompactFileOpt(true) }

func vfCompactFileOpt(continued bool) []byte {
	le := binary.LittleEndian
	msg := func(typ byte, body []byte) []byte {
		h := []byte{typ, 0, 0, 0}
		le.PutUint16(h[1:3], uint16(len(body)))
		return append(h, body...)
	}
	ohdr := func(msgs ...[]byte) []byte {
		var body []byte
		for _, m := range msgs {
			body = append(body, m...)
		}
		out := []byte{'O', 'H', 'D', 'R', 2, 0x00, byte(len(body) + 4)}
		out = append(out, body...)
		return append(out, 0, 0, 0, 0)
	}
	pad8 := func(b []byte) []byte {
		for len(b)%8 != 0 {
			b = append(b, 0)
		}
		return b
	}
	dataspace := func(n uint64) []byte {
		d := make([]byte, 12)
		d[0], d[1], d[3] = 2, 1, 1
		le.PutUint64(d[4:], n)
		return d
	}
	compact := func(data []byte) []byte {
		l := make([]byte, 4+len(data))
		l[0], l[1] = 3, 0
		le.PutUint16(l[2:4], uint16(len(data)))
		copy(l[4:], data)
		return l
	}
	intType := []byte{0x10, 0x08, 0, 0, 4, 0, 0, 0, 0, 0, 32, 0}
	strType := []byte{0x13, 0x00, 0, 0, 4, 0, 0, 0}
	ints := make([]byte, 24)
	for i := 0; i < 6; i++ {
		le.PutUint32(ints[4*i:], uint32(i+1))
	}
	dsC := pad8(ohdr(msg(1, dataspace(6)), msg(3, intType), msg(8, compact(ints))))
	dsS := pad8(ohdr(msg(1, dataspace(2)), msg(3, strType), msg(8, compact([]byte("ab\x00\x00cdef")))))
	link := func(name string, addr uint64) []byte {
		l := []byte{1, 0x00, byte(len(name))}
		l = append(l, name...)
		a := make([]byte, 8)
		le.PutUint64(a, addr)
		return append(l, a...)
	}
	const rootAddr = 48
	var root []byte
	var cAddr, sAddr uint64
	if continued {
		cont := func(addr, size uint64) []byte {
			c := make([]byte, 16)
			le.PutUint64(c, addr)
			le.PutUint64(c[8:], size)
			return c
		}
		ochk := func(msgs ...[]byte) []byte {
			out := []byte("OCHK")
			for _, m := range msgs {
				out = append(out, m...)
			}
			return append(out, 0, 0, 0, 0)
		}
		build := func(k1, k2, c, s uint64) (r0, r1, r2 []byte) {
			r2 = ochk(msg(6, link("t", c)))
			r1 = ochk(msg(6, link("s", s)), msg(0x10, cont(k2, uint64(len(r2)))))
			r0 = pad8(ohdr(msg(6, link("c", c)), msg(0x10, cont(k1, uint64(len(r1))))))
			return
		}
		r0, r1, r2 := build(0, 0, 0, 0)
		k1 := uint64(rootAddr + len(r0))
		k2 := k1 + uint64(len(pad8(r1)))
		cAddr = k2 + uint64(len(pad8(r2)))
		sAddr = cAddr + uint64(len(dsC))
		r0, r1, r2 = build(k1, k2, cAddr, sAddr)
		root = append(append(r0, pad8(r1)...), pad8(r2)...)
	} else {
		rootLen := len(pad8(ohdr(msg(6, link("c", 0)), msg(6, link("s", 0)))))
		cAddr = uint64(rootAddr + rootLen)
		sAddr = cAddr + uint64(len(dsC))
		root = pad8(ohdr(msg(6, link("c", cAddr)), msg(6, link("s", sAddr))))
	}
	sb := make([]byte, 48)
	copy(sb, "\x89HDF\r\n\x1a\n")
	sb[8], sb[9], sb[10] = 2, 8, 8
	le.PutUint64(sb[20:], ^uint64(0))
	le.PutUint64(sb[36:], rootAddr)
	file := append(append(append(sb, root...), dsC...), dsS...)
	file = append(file, make([]byte, 16)...)
	le.PutUint64(file[28:], uint64(len(file)))
	return file
}
