//go:build verif

package hdf5

import (
	"encoding/binary"
	"fmt"
	"sort"
	"strings"
	"sync"
	"testing"

	"github.com/scigolib/hdf5/internal/core"
	"github.com/scigolib/hdf5/internal/verif/vkit"
)

// C16 — a write call that returns an error changes nothing; the writer stays usable.
// Differential: dump(s · f · v · Close) must equal dump(s · v · Close) whenever f returned an
// error; v must behave identically; nothing panics; Close may be repeated.

func TestVerif_C16(t *testing.T) {
	r := vkit.Start(t, "C16", "model_checking")
	defer r.Finish()
	dir := vkit.Scratch(t)

	// valid alphabet for reaching states
	mkX := vfOp{Op: "mkds", Path: "/x", Type: "i32", Dims: []uint64{4}}
	mkR := vfOp{Op: "mkds", Path: "/r", Type: "f64", Dims: []uint64{4}, Chunk: []uint64{2}, Max: []uint64{6}}
	mkG := vfOp{Op: "mkgroup", Path: "/g"}
	valid := []vfOp{mkX, mkR, mkG,
		{Op: "write", Path: "/x", Pat: 1}, {Op: "write", Path: "/r", Pat: 1},
		{Op: "attr", Path: "/x", Name: "a", Value: "i32a"}, {Op: "attr", Path: "/g", Name: "a", Value: "s40"},
		{Op: "mkds", Path: "/g/n", Type: "u8", Dims: []uint64{2}}, {Op: "hardlink", Path: "/lx", Target: "/x"},
	}
	enabled := func(hist []vfOp) []vfOp {
		has := map[string]bool{}
		for _, o := range hist {
			if o.Op == "mkds" || o.Op == "mkgroup" || o.Op == "hardlink" {
				has[o.Path] = true
			}
		}
		var out []vfOp
		for _, o := range valid {
			switch o.Op {
			case "mkds", "mkgroup":
				par, _ := parsePath(o.Path)
				if !has[o.Path] && (par == "" || has[par]) {
					out = append(out, o)
				}
			case "hardlink":
				if !has[o.Path] && has[o.Target] {
					out = append(out, o)
				}
			default:
				if has[o.Path] {
					out = append(out, o)
				}
			}
		}
		return out
	}
	depth := 2
	if r.Thorough() {
		depth = 3
	}
	// states = all valid prefixes up to depth, plus capacity-adjacent states
	var states [][]vfOp
	var gen func(h []vfOp)
	gen = func(h []vfOp) {
		states = append(states, append([]vfOp{}, h...))
		if len(h) >= depth {
			return
		}
		for _, o := range enabled(h) {
			gen(append(append([]vfOp{}, h...), o))
		}
	}
	gen(nil)
	// capacity states
	full := []vfOp{mkG, mkX}
	for i := 0; i < 31; i++ {
		full = append(full, vfOp{Op: "mkds", Path: fmt.Sprintf("/g/c%02d", i), Type: "u8", Dims: []uint64{1}})
	}
	states = append(states, full)
	// ... and with all 32 entries taken: the next creation in /g is refused for lack of room
	full32 := append(append([]vfOp{}, full...), vfOp{Op: "mkds", Path: "/g/c31", Type: "u8", Dims: []uint64{1}})
	states = append(states, full32)
	heapFull := []vfOp{mkG, mkX}
	for i := 0; i < 3; i++ {
		heapFull = append(heapFull, vfOp{Op: "mkgroup", Path: "/g/" + strings.Repeat(string(rune('p'+i)), 59)})
	}
	heapFull = append(heapFull, vfOp{Op: "mkgroup", Path: "/g/" + strings.Repeat("z", 50)})
	states = append(states, heapFull)
	dense := []vfOp{mkX, mkG}
	for i := 0; i < 9; i++ {
		dense = append(dense, vfOp{Op: "attr", Path: "/x", Name: fmt.Sprintf("f%02d", i), Value: "i64"})
	}
	states = append(states, dense)
	hdrFull := []vfOp{mkX, mkG, {Op: "attr", Path: "/x", Name: "big1", Value: "s120"}}
	states = append(states, hdrFull)

	// dense attribute capacity: as many attributes as the index/heap accept (found by a dry
	// run), so that the next attribute write is a capacity failure
	capN := -1
	{
		w, err := vfNewWorld(dir)
		if err == nil {
			w.Apply(mkX)
			w.Apply(mkG)
			for i := 0; i < 700; i++ {
				if e, _ := w.Apply(vfOp{Op: "attr", Path: "/x", Name: fmt.Sprintf("cap%04d", i), Value: "s40"}); e != nil {
					capN = i
					break
				}
			}
			w.Remove()
		}
	}
	r.Set("dense_attribute_capacity_found", capN)
	if capN > 0 {
		st := []vfOp{mkX, mkG}
		for i := 0; i < capN; i++ {
			st = append(st, vfOp{Op: "attr", Path: "/x", Name: fmt.Sprintf("cap%04d", i), Value: "s40"})
		}
		states = append(states, st)
	}
	// a target that already has a second name (its header holds a reference count message)
	// and got attributes afterwards, compact and dense: the message a refused link has to
	// leave alone is not the last one of the header
	{
		linked := []vfOp{mkX, {Op: "hardlink", Path: "/lx", Target: "/x"}, {Op: "attr", Path: "/x", Name: "a", Value: "i32a"}}
		states = append(states, linked)
		dense := []vfOp{mkX, {Op: "hardlink", Path: "/lx", Target: "/x"}}
		for i := 0; i < 9; i++ {
			dense = append(dense, vfOp{Op: "attr", Path: "/x", Name: fmt.Sprintf("f%02d", i), Value: "i64"})
		}
		states = append(states, dense)
	}
	// a dataset with an unlimited maximum (what a Resize may be asked for differs from /r's)
	mkU := vfOp{Op: "mkds", Path: "/u", Type: "f64", Dims: []uint64{4}, Chunk: []uint64{2}, Max: []uint64{Unlimited}}
	states = append(states, []vfOp{mkU}, []vfOp{mkX, mkU, {Op: "write", Path: "/u", Pat: 1}})
	// root name heap filled so that exactly the follow-up name "new" still fits (found by a dry
	// run): a refused call that leaves even one byte behind in that heap makes the follow-up fail
	heapExact := -1
	for L := 100; L <= 160 && heapExact < 0; L++ {
		st := []vfOp{mkX, mkG, {Op: "mkds", Path: "/" + strings.Repeat("A", 100), Type: "u8", Dims: []uint64{1}}, {Op: "mkds", Path: "/" + strings.Repeat("B", L), Type: "u8", Dims: []uint64{1}}}
		fits := func(name string) bool {
			w, err := vfNewWorld(dir)
			if err != nil {
				return false
			}
			defer w.Remove()
			for _, o := range st {
				if e, _ := w.Apply(o); e != nil {
					return false
				}
			}
			e, _ := w.Apply(vfOp{Op: "mkds", Path: "/" + name, Type: "i32", Dims: []uint64{2}})
			return e == nil
		}
		if fits("new") && !fits("new1") {
			heapExact = L
			states = append(states, st)
		}
	}
	r.Set("root_name_heap_exact_fill_found(length of the tuned name)", heapExact)
	// header-fill states: /x's object header at every reachable total in [236,255] message
	// bytes (no reference count yet): a hard link to /x then fails for lack of header space
	fillStates := vfHeaderFillStates(dir, mkX, 236, 255)
	var fillTotals []int
	for t := range fillStates {
		fillTotals = append(fillTotals, t)
	}
	sort.Ints(fillTotals)
	r.Set("header_fill_totals_reached", fillTotals)
	nFill := 0
	for _, t := range fillTotals {
		st := append(append([]vfOp{}, fillStates[t]...), mkG)
		states = append(states, st)
		nFill++
	}
	_ = nFill
	// reopened sessions: /x with k attributes (compact storage up to 7, transition to dense at
	// the 8th) and /r, the file closed and opened again with OpenForWrite, handles re-acquired
	// with OpenDataset (they carry a parsed, cached object header)
	nReopened := 0
	for _, k := range []int{0, 3, 7, 8, 9} {
		st := []vfOp{mkX}
		for i := 0; i < k; i++ {
			st = append(st, vfOp{Op: "attr", Path: "/x", Name: fmt.Sprintf("f%02d", i), Value: []string{"i64", "s1", "f32"}[i%3]})
		}
		st = append(st, mkG, vfOp{Op: "reopen"})
		states = append(states, st)
		nReopened++
	}
	r.Set("reopened_session_states", nReopened)
	followUps := [][]vfOp{
		{{Op: "attr", Path: "/x", Name: "z", Value: "i32b"}},
		{{Op: "mkds", Path: "/new", Type: "i32", Dims: []uint64{2}}},
		{{Op: "write", Path: "/x", Pat: 2}},
		{{Op: "mkgroup", Path: "/g2"}},
		{{Op: "mkds", Path: "/g/new", Type: "u8", Dims: []uint64{2}}},
		{{Op: "mkds", Path: "/x/sub", Type: "u8", Dims: []uint64{2}}}, // under a dataset name: must fail in both runs
		{{Op: "mkgroup", Path: "/r/subg"}},
		{{Op: "mkgroup", Path: "/lx2"}}, // a name a failed hard link may have taken
		{{Op: "mkds", Path: "/g/ovf/x", Type: "u8", Dims: []uint64{2}}}, // below a group whose creation may have been refused for lack of room in /g
		// two-call follow-ups on the object the failing call was aimed at: state a failed call
		// leaves behind on a handle shows only when later calls combine
		{{Op: "write", Path: "/r", Pat: 2}, {Op: "attr", Path: "/r", Name: "z", Value: "i32b"}},
		{{Op: "write", Path: "/x", Pat: 2}, {Op: "attr", Path: "/x", Name: "z", Value: "s40"}},
		{{Op: "attr", Path: "/r", Name: "z", Value: "i32b"}, {Op: "write", Path: "/r", Pat: 2}},
		{{Op: "resize", Path: "/r", Dims: []uint64{6}}, {Op: "write", Path: "/r", Pat: 2}},
		{{Op: "attr", Path: "/x", Name: "z", Value: "i32b"}, {Op: "delattr", Path: "/x", Name: "z"}},
		{{Op: "write", Path: "/u", Pat: 2}},
		{{Op: "resize", Path: "/u", Dims: []uint64{6}}, {Op: "write", Path: "/u", Pat: 2}},
	}
	// the failing-call catalogue, aimed at each plausible object
	bads := func(h []vfOp) []vfOp {
		has := map[string]string{}
		for _, o := range h {
			switch o.Op {
			case "mkds":
				has[o.Path] = "dataset"
			case "mkgroup":
				has[o.Path] = "group"
			}
		}
		var out []vfOp
		for _, b := range vfBadCalls {
			needDS := strings.HasPrefix(b, "write") || strings.HasPrefix(b, "resize") || b == "delattr-absent"
			needObj := needDS || strings.HasPrefix(b, "attr-") || strings.Contains(b, "duplicate") || b == "hardlink-missing-parent" || b == "hardlink-relative" || b == "hardlink-to-root-path" || b == "mkgroup-over-dataset-name"
			if !needObj {
				out = append(out, vfOp{Op: "bad", Bad: b})
				continue
			}
			for _, p := range []string{"/x", "/r", "/g", "/u"} {
				k := has[p]
				if k == "" || (needDS && k != "dataset") {
					continue
				}
				if b == "resize-beyond-max" && p != "/r" || b == "resize-not-resizable" && p != "/x" || p == "/u" && !strings.HasPrefix(b, "resize") && !strings.HasPrefix(b, "write") {
					continue
				}
				if b == "mkgroup-over-dataset-name" && k != "dataset" || b == "mkgroup-duplicate" && k != "group" {
					continue
				}
				out = append(out, vfOp{Op: "bad", Bad: b, Path: p})
			}
		}
		// capacity: one more child in a full group / a name that does not fit the heap / oversized attribute
		out = append(out, vfOp{Op: "mkgroup", Path: "/g/ovf"}, vfOp{Op: "mkds", Path: "/g/overflow", Type: "u8", Dims: []uint64{1}},
			vfOp{Op: "mkgroup", Path: "/g/" + strings.Repeat("y", 120)},
			vfOp{Op: "attr", Path: "/x", Name: "huge", Value: "s200"},
			// the same on a name that exists already (size-changing overwrite that does not fit)
			vfOp{Op: "attr", Path: "/x", Name: "f00", Value: "s200"}, vfOp{Op: "attr", Path: "/x", Name: "f01", Value: "str:230"},
			vfOp{Op: "attr", Path: "/x", Name: strings.Repeat("N", 250), Value: "s40"},
			vfOp{Op: "attr", Path: "/x", Name: "one-more", Value: "s40"},
			vfOp{Op: "hardlink", Path: "/lx2", Target: "/x"}, vfOp{Op: "attr", Path: "/x", Name: "t", Value: "u8"})
		return out
	}
	r.Rule(fmt.Sprintf("states = every valid prefix of length <= %d over 9 valid operations plus capacity-adjacent states (group with 32 entries, name heap nearly full, root name heap with room for exactly the follow-up name, dense attributes, header nearly full, a chunked dataset with an unlimited maximum); for each state every call of the failing-call catalogue (%d kinds, aimed at each existing object) and 4 capacity probes, followed by each of 15 valid follow-ups (9 single calls, 6 two-call sequences on the object the failing call was aimed at); when the call returned an error the closed file must dump equal to the run without the call and hold the same object reference counts, the follow-up must return the same, nothing may panic, Close x3 must return nil; non-trivial = the candidate call returned an error", depth, len(vfBadCalls)))
	type job struct {
		s []vfOp
		f vfOp
	}
	var jobs []job
	for _, s := range states {
		if len(s) > 300 {
			// the long capacity state is only probed with the one call it exists for
			jobs = append(jobs, job{s, vfOp{Op: "attr", Path: "/x", Name: "one-more", Value: "s40"}}, job{s, vfOp{Op: "attr", Path: "/x", Name: "cap0000", Value: "s120"}})
			continue
		}
		for _, f := range bads(s) {
			jobs = append(jobs, job{s, f})
		}
	}
	r.Set("states", len(states))
	var errKinds sync.Map
	vkit.ParallelFor(len(jobs), func(i int) {
		if r.Expired() {
			r.Cap("time budget")
			return
		}
		j := jobs[i]
		for _, v := range followUps {
			with := append(append(append([]vfOp{}, j.s...), j.f), v...)
			without := append(append([]vfOp{}, j.s...), v...)
			a := vfRunC16(dir, with)
			r.Transitions(1)
			fi := len(j.s)
			fname := j.f.Op
			if j.f.Op == "bad" {
				fname = j.f.Bad
			} else {
				fname = "capacity:" + j.f.Op
			}
			detail := map[string]any{"state": vfOpsString(j.s), "failing_call": j.f.String(), "follow_up": vfOpsString(v), "ops": with}
			if a.Panics[fi] {
				detail["panic"] = fmt.Sprint(a.Errs[fi])
				r.Case(fname)
				r.Fail(fname+"/panic", detail)
				continue
			}
			if a.Errs[fi] == nil {
				// accepted: not this property's business
				r.Case("")
				r.Outcome("call-accepted")
				continue
			}
			errKinds.Store(fname, true)
			r.Case(vfOpsString(with))
			b := vfRunC16(dir, without)
			r.Transitions(1)
			var problems []string
			for k := range v {
				if a.Panics[fi+1+k] {
					problems = append(problems, "follow-up-panics")
				} else if (a.Errs[fi+1+k] == nil) != (b.Errs[fi+k] == nil) {
					problems = append(problems, "follow-up-behaves-differently("+v[k].Op+")")
				}
			}
			if a.CloseErr != nil {
				problems = append(problems, "close-fails")
				detail["close_error"] = fmt.Sprint(a.CloseErr)
			}
			switch {
			case a.Closed == nil && b.Closed != nil:
				problems = append(problems, "file-unopenable")
				detail["open_error"] = fmt.Sprint(a.ClosedErr)
			case a.Closed != nil && b.Closed != nil && a.Closed.String() != b.Closed.String():
				problems = append(problems, "content-differs")
				detail["with_call"] = a.Closed.String()
				detail["without_call"] = b.Closed.String()
			case a.RefCounts != b.RefCounts:
				problems = append(problems, "reference-counts-differ")
				detail["with_call"], detail["without_call"] = a.RefCounts, b.RefCounts
			}
			if len(problems) == 0 {
				r.Outcome("unchanged")
				continue
			}
			for _, p := range problems {
				r.Fail(fname+"/"+p, detail)
			}
			r.Outcome("changed")
		}
	})
	n := 0
	errKinds.Range(func(k, v any) bool { n++; return true })
	r.Set("failing_call_kinds_that_returned_an_error", n)
	r.States(int64(len(states)))
	r.Sample(map[string]any{"state": vfOpsString(states[5]), "failing_call": "bad:mkds-duplicate(/x)", "follow_up": vfOpsString(followUps[0])})

	// closed-writer calls and repeated Close
	r.Guard("closed-writer/", nil, func() {
		w, err := vfNewWorld(dir)
		if err != nil {
			t.Fatal(err)
		}
		defer w.Remove()
		w.Apply(mkX)
		w.Apply(mkG)
		w.Apply(mkR)
		// one handle per element type of the kit (every write path, incl. variable-length data
		// through the global heap), created and written once before the writer is closed
		var typeNames []string
		for tn := range vfTypes {
			typeNames = append(typeNames, tn)
		}
		sort.Strings(typeNames)
		late := []vfOp{{Op: "mkds", Path: "/late", Type: "i32", Dims: []uint64{2}}, {Op: "mkgroup", Path: "/lateg"}, {Op: "write", Path: "/x", Pat: 1},
			{Op: "attr", Path: "/x", Name: "late", Value: "i32a"}, {Op: "attr", Path: "/g", Name: "late", Value: "i32a"}, {Op: "hardlink", Path: "/latel", Target: "/x"}, {Op: "delattr", Path: "/x", Name: "a"},
			{Op: "write", Path: "/r", Pat: 2}, {Op: "resize", Path: "/r", Dims: []uint64{6}}, {Op: "softlink", Path: "/lates", Target: "/x"}, {Op: "extlink", Path: "/latee", Target: "/obj"}}
		for _, tn := range typeNames {
			p := "/t_" + tn
			if e, _ := w.Apply(vfOp{Op: "mkds", Path: p, Type: tn, Dims: []uint64{2}}); e != nil {
				continue
			}
			w.Apply(vfOp{Op: "write", Path: p, Pat: 1})
			late = append(late, vfOp{Op: "write", Path: p, Pat: 2}, vfOp{Op: "attr", Path: p, Name: "late", Value: "i32a"})
		}
		for k := 0; k < 3; k++ {
			if err := w.FW.Close(); err != nil {
				r.Fail("close-repeated/returns-error", map[string]any{"call": k + 1, "error": err.Error()})
			}
		}
		for _, o := range late {
			r.Case("closed-writer/" + o.String())
			err, pan := w.Apply(o)
			if pan {
				r.Fail("closed-writer/"+o.Op+"/panic", map[string]any{"op": o.String(), "panic": fmt.Sprint(err)})
			} else if err == nil {
				r.Fail("closed-writer/"+o.Op+"/accepted", map[string]any{"op": o.String()})
			}
		}
		if err := w.FW.Close(); err != nil {
			r.Fail("close-repeated/returns-error-after-late-calls", map[string]any{"error": err.Error()})
		}
		tr, err := vfDumpFile(w.Path)
		if err != nil || tr.Get("/late") != nil || tr.Get("/lateg") != nil {
			r.Fail("closed-writer/content-changed", map[string]any{"error": fmt.Sprint(err)})
		}
	})
}

func vfRunC16(dir string, hist []vfOp) *vfExec {
	ex := &vfExec{Hist: hist}
	w, err := vfNewWorld(dir)
	if err != nil {
		ex.OpenErr = err
		return ex
	}
	defer w.Remove()
	for _, o := range hist {
		e, p := w.Apply(o)
		ex.Errs = append(ex.Errs, e)
		ex.Panics = append(ex.Panics, p)
	}
	func() {
		defer func() {
			if p := recover(); p != nil {
				ex.CloseErr = fmt.Errorf("PANIC: %v", p)
			}
		}()
		for k := 0; k < 3; k++ {
			if e := w.Close(); e != nil && ex.CloseErr == nil {
				ex.CloseErr = e
			}
		}
	}()
	ex.Closed, ex.ClosedErr = vfDumpFile(w.Path)
	ex.RefCounts = vfRefCounts(w.Path)
	return ex
}

// vfRefCounts lists the object reference count of every group and dataset of a file (the
// header field of version 1 headers, the reference count message of version 2 headers, 1 when
// there is none): the logical dump does not show it, and a refused hard link must leave it alone.
func vfRefCounts(path string) (out string) {
	defer func() {
		if p := recover(); p != nil {
			out = fmt.Sprintf("PANIC: %v", p)
		}
	}()
	f, err := Open(path)
	if err != nil {
		return "unopenable"
	}
	defer f.Close()
	var lines []string
	f.Walk(func(p string, o Object) {
		var addr uint64
		switch x := o.(type) {
		case *Group:
			addr = x.address
		case *Dataset:
			addr = x.address
		default:
			return
		}
		h, err := core.ReadObjectHeader(f.osFile, addr, f.sb)
		if err != nil {
			lines = append(lines, p+"=ERR")
			return
		}
		n := uint32(1)
		if h.Version == 1 {
			n = h.ReferenceCount
		}
		for _, m := range h.Messages {
			if m.Type == core.MsgRefCount && len(m.Data) >= 4 {
				n = binary.LittleEndian.Uint32(m.Data)
			}
		}
		lines = append(lines, fmt.Sprintf("%s=%d", p, n))
	})
	sort.Strings(lines)
	return strings.Join(lines, " ")
}
