//go:build verif

package hdf5

import (
	"crypto/sha256"
	"encoding/json"
	"fmt"
	"math"
	"os"
	"path/filepath"
	"runtime/debug"
	"sort"
	"strconv"
	"strings"
	"sync"
	"testing"

	"github.com/scigolib/hdf5/internal/core"
	"github.com/scigolib/hdf5/internal/verif/vkit"
)

// C06 — everything the reader returns without error for a reference-library file equals
// what h5dump reported for it (testdata/hdf5_official/ddl).

type vfC06Pair struct {
	ddl string
	blk *vfDDLBlock
}

type vfC06File struct {
	base  string // base name of the corpus file (the DDL header name)
	path  string // path relative to the repository root
	size  int64
	pairs []vfC06Pair
}

type vfC06Fail struct {
	Key    string `json:"key"`
	Label  string `json:"label"`
	File   string `json:"file"`
	Path   string `json:"path"`
	Aspect string `json:"aspect"`
	DDL    string `json:"ddl"`
	Detail any    `json:"detail"`
}

type vfC06Ctx struct {
	r  *vkit.Run
	mu sync.Mutex
	// failing triples (key -> first detail), acceptable errors by class, skipped-by-reason
	fails                             map[string]*vfC06Fail
	errs                              map[string]int64
	skips                             map[string]int64
	compared                          map[string]int64 // comparisons by aspect class
	elemsCompared, elemsNotComparable int64
	samples                           map[string]string // triple -> what was compared (a few well-known files)
}

// sample remembers a literal compared triple of two small, well-known files; the evidence
// shows the first few in sorted order (deterministic).
func (x *vfC06Cmp) sample(path, aspect, what string) {
	if x.file.base != "tall.h5" && x.file.base != "tstr3.h5" && x.file.base != "tattr.h5" {
		return
	}
	x.c.mu.Lock()
	k := x.file.base + "|" + path + "|" + aspect
	if _, ok := x.c.samples[k]; !ok {
		x.c.samples[k] = x.ddl + ": " + what
	}
	x.c.mu.Unlock()
}

func (c *vfC06Ctx) elems(d *vfC06Diff) {
	c.mu.Lock()
	c.elemsCompared += int64(d.total - d.skipped)
	c.elemsNotComparable += int64(d.skipped)
	c.mu.Unlock()
}

func (c *vfC06Ctx) skip(reason string) {
	c.mu.Lock()
	c.skips[reason]++
	c.mu.Unlock()
}

func (c *vfC06Ctx) errAccepted(site string) {
	c.mu.Lock()
	c.errs[site]++
	c.mu.Unlock()
	c.r.Outcome("unsupported-surfaces-as-error")
}

// one (file, DDL block) comparison in progress
type vfC06Cmp struct {
	c    *vfC06Ctx
	file *vfC06File
	ddl  string
	blk  *vfDDLBlock
	f    *File
}

// cmp counts one comparison of a (file, object, aspect) triple.
func (x *vfC06Cmp) cmp(path, aspect string) {
	x.c.r.Case(x.file.base + "|" + path + "|" + aspect)
	cls := aspect
	if i := strings.IndexAny(cls, "(:"); i > 0 {
		cls = cls[:i]
	}
	x.c.mu.Lock()
	x.c.compared[cls]++
	x.c.mu.Unlock()
}

func (x *vfC06Cmp) ok() { x.c.r.Outcome("equal") }

// fail reports one failing triple under its root-cause label.
func (x *vfC06Cmp) fail(label, path, aspect string, detail map[string]any) {
	key := label + "|" + x.file.base + "|" + path + "|" + aspect
	if detail == nil {
		detail = map[string]any{}
	}
	detail["ddl"] = x.ddl
	detail["corpus_file"] = x.file.path
	x.c.mu.Lock()
	if _, seen := x.c.fails[key]; !seen {
		x.c.fails[key] = &vfC06Fail{Key: key, Label: label, File: x.file.base, Path: path, Aspect: aspect, DDL: x.ddl, Detail: detail}
	}
	x.c.mu.Unlock()
	x.c.r.Outcome("differs")
	x.c.r.Fail(key, detail)
}

// call runs one reader call; a panic is a failure of the triple.
func (x *vfC06Cmp) call(path, aspect string, f func()) (panicked bool) {
	defer func() {
		if p := recover(); p != nil {
			panicked = true
			st := string(debug.Stack())
			x.fail("panic@"+vkit.PanicSite(st), path, aspect, map[string]any{"panic": fmt.Sprint(p)})
		}
	}()
	f()
	return false
}

// ---------------------------------------------------------------------------------------
// datatypes
// ---------------------------------------------------------------------------------------

func vfC06Order(bf uint32) string {
	if bf&1 != 0 {
		return "BE"
	}
	return "LE"
}

var vfC06Pads = []string{"NULLTERM", "NULLPAD", "SPACEPAD"}
var vfC06CSets = []string{"ASCII", "UTF8"}

func vfC06Idx(tab []string, i uint32) string {
	if int(i) < len(tab) {
		return tab[i]
	}
	return fmt.Sprintf("code%d", i)
}

// resolve follows a DATATYPE "/path" reference to the committed datatype printed in the
// same DDL block.
func (x *vfC06Cmp) resolve(t *vfDDLType) *vfDDLType {
	for i := 0; t != nil && t.Class == "named" && i < 8; i++ {
		n := vfDDLFind(x.blk.Top, t.Ref)
		for j := 0; n != nil && n.HardLink != "" && j < 8; j++ {
			n = vfDDLFind(x.blk.Top, n.HardLink)
		}
		if n == nil || n.Kind != "datatype" || n.Type == nil {
			return nil
		}
		t = n.Type
	}
	if t != nil && t.Class == "named" {
		return nil
	}
	return t
}

// typeDiff lists the components in which the reader's datatype message differs from the
// DDL type (only components the DDL states).
func (x *vfC06Cmp) typeDiff(t *vfDDLType, dt *core.DatatypeMessage, depth int) []string {
	var d []string
	t = x.resolve(t)
	if t == nil || dt == nil || depth > 6 {
		return nil
	}
	wantClass := map[string]core.DatatypeClass{"int": core.DatatypeFixed, "float": core.DatatypeFloat, "string": core.DatatypeString,
		"bitfield": core.DatatypeBitfield, "opaque": core.DatatypeOpaque, "compound": core.DatatypeCompound, "reference": core.DatatypeReference,
		"enum": core.DatatypeEnum, "vlen": core.DatatypeVarLen, "array": core.DatatypeArray, "complex": core.DatatypeComplex}[t.Class]
	if t.Class == "string" && t.Var {
		wantClass = core.DatatypeVarLen
	}
	if dt.Class != wantClass {
		return []string{fmt.Sprintf("class: ddl %s(%d) reader %d", t.Class, wantClass, dt.Class)}
	}
	size := func() {
		if t.Size > 0 && uint32(t.Size) != dt.Size {
			d = append(d, fmt.Sprintf("size: ddl %d reader %d", t.Size, dt.Size))
		}
	}
	switch t.Class {
	case "int":
		size()
		if o := vfC06Order(dt.ClassBitField); t.Order != "" && o != t.Order {
			d = append(d, fmt.Sprintf("order: ddl %s reader %s", t.Order, o))
		}
		if s := dt.ClassBitField&0x08 != 0; s != t.Signed {
			d = append(d, fmt.Sprintf("signed: ddl %v reader %v", t.Signed, s))
		}
	case "float":
		size()
		o := vfC06Order(dt.ClassBitField)
		if dt.ClassBitField&0x40 != 0 {
			o = "VAX"
		}
		if t.Order != "" && o != t.Order {
			d = append(d, fmt.Sprintf("order: ddl %s reader %s", t.Order, o))
		}
	case "bitfield":
		size()
		if o := vfC06Order(dt.ClassBitField); t.Order != "" && o != t.Order {
			d = append(d, fmt.Sprintf("order: ddl %s reader %s", t.Order, o))
		}
	case "string":
		if t.Var {
			if dt.ClassBitField&0x0F != 1 {
				d = append(d, "vlen kind: ddl string reader sequence")
				break
			}
			if p := vfC06Idx(vfC06Pads, (dt.ClassBitField>>4)&0x0F); t.Pad != "" && p != t.Pad {
				d = append(d, fmt.Sprintf("strpad: ddl %s reader %s", t.Pad, p))
			}
			if cs := vfC06Idx(vfC06CSets, (dt.ClassBitField>>8)&0x0F); t.CSet != "" && cs != t.CSet {
				d = append(d, fmt.Sprintf("cset: ddl %s reader %s", t.CSet, cs))
			}
			break
		}
		size()
		if p := vfC06Idx(vfC06Pads, dt.ClassBitField&0x0F); t.Pad != "" && p != t.Pad {
			d = append(d, fmt.Sprintf("strpad: ddl %s reader %s", t.Pad, p))
		}
		if cs := vfC06Idx(vfC06CSets, (dt.ClassBitField>>4)&0x0F); t.CSet != "" && cs != t.CSet {
			d = append(d, fmt.Sprintf("cset: ddl %s reader %s", t.CSet, cs))
		}
	case "enum", "array", "complex":
		size()
	case "vlen":
		if dt.ClassBitField&0x0F != 0 {
			d = append(d, "vlen kind: ddl sequence reader string")
		}
	case "compound":
		var ct *core.CompoundType
		var err error
		func() {
			defer func() {
				if p := recover(); p != nil {
					err = fmt.Errorf("panic: %v", p)
					d = append(d, "panic in ParseCompoundType: "+fmt.Sprint(p))
				}
			}()
			ct, err = core.ParseCompoundType(dt)
		}()
		if err != nil || ct == nil {
			x.c.errAccepted("ParseCompoundType")
			break
		}
		var got, want []string
		for _, m := range ct.Members {
			got = append(got, m.Name)
		}
		for _, m := range t.Members {
			want = append(want, m.Name)
		}
		if strings.Join(got, "\x00") != strings.Join(want, "\x00") {
			d = append(d, fmt.Sprintf("members: ddl %q reader %q", want, got))
			break
		}
		for i, m := range ct.Members {
			for _, s := range x.typeDiff(t.Members[i].Type, m.Type, depth+1) {
				d = append(d, "member "+m.Name+": "+s)
			}
		}
	}
	return d
}

// ---------------------------------------------------------------------------------------
// values
// ---------------------------------------------------------------------------------------

func vfC06SigDigits(text string) int {
	s := strings.TrimLeft(text, "+-")
	if i := strings.IndexAny(s, "eE"); i >= 0 {
		s = s[:i]
	}
	s = strings.Replace(s, ".", "", 1)
	s = strings.TrimLeft(s, "0")
	return len(s)
}

// vfC06FloatMatch: does the reader's value v print as text the way h5dump prints floats?
// h5dump 1.14 uses %g (6 significant digits) unless -m gives a format; the value matches
// when the printed decimal is the correct rounding of v to the number of digits printed
// (at least 6 significant ones, or the number of decimals of a %f style text), or when the
// text parses back to exactly v at the element's precision.
func vfC06FloatMatch(text string, v float64, size int) bool {
	lt := strings.ToLower(text)
	switch lt {
	case "nan", "-nan", "+nan":
		return math.IsNaN(v)
	case "inf", "+inf", "infinity":
		return math.IsInf(v, 1)
	case "-inf", "-infinity":
		return math.IsInf(v, -1)
	}
	d, err := strconv.ParseFloat(text, 64)
	if err != nil {
		return false
	}
	if math.IsNaN(v) || math.IsInf(v, 0) {
		return false
	}
	if d == v || (size == 4 && float64(float32(d)) == v) {
		return true
	}
	n := vfC06SigDigits(text)
	for _, prec := range []int{6, 7, 8, 9, 15, 16, 17, n} {
		if prec < n || prec < 1 {
			continue
		}
		if back, err := strconv.ParseFloat(strconv.FormatFloat(v, 'g', prec, 64), 64); err == nil && back == d {
			return true
		}
	}
	if i := strings.IndexByte(text, '.'); i >= 0 && !strings.ContainsAny(text, "eE") {
		k := len(text) - i - 1
		if back, err := strconv.ParseFloat(strconv.FormatFloat(v, 'f', k, 64), 64); err == nil && back == d {
			return true
		}
	}
	return false
}

// leafMatch compares one scalar the reader returned with one DDL token of the given type.
// ok=false: they differ. cmpable=false: the DDL token cannot be interpreted for this type
// (the element is then not compared).
func (x *vfC06Cmp) leafMatch(t *vfDDLType, tok *vfDDLVal, got any) (match, cmpable bool) {
	t = x.resolve(t)
	if t == nil || tok == nil {
		return false, false
	}
	switch g := got.(type) {
	case string:
		if t.Class != "string" || tok.K != 's' || tok.NL {
			return false, false
		}
		want := tok.W
		// h5dump prints the whole fixed buffer of padded strings; the reader returns the
		// string value without its padding
		switch {
		case t.Var:
		case t.Pad == "NULLPAD":
			want = strings.TrimRight(want, "\x00")
			g = strings.TrimRight(g, "\x00")
		case t.Pad == "SPACEPAD":
			want = strings.TrimRight(want, " \x00")
			g = strings.TrimRight(g, " \x00")
		case t.Pad == "NULLTERM":
			if i := strings.IndexByte(want, 0); i >= 0 {
				want = want[:i]
			}
		}
		return want == g, true
	}
	var v float64
	isFloat, fsize := false, 8
	switch g := got.(type) {
	case float64:
		v, isFloat = g, true
	case float32:
		v, isFloat, fsize = float64(g), true, 4
	case int32:
		v = float64(g)
	case int64:
		v = float64(g)
	case int16:
		v = float64(g)
	case int8:
		v = float64(g)
	case uint8:
		v = float64(g)
	case uint16:
		v = float64(g)
	case uint32:
		v = float64(g)
	case uint64:
		v = float64(g)
	case int:
		v = float64(g)
	default:
		return false, false
	}
	if tok.K != 'w' {
		return false, false
	}
	w := tok.W
	cls := t.Class
	if cls == "enum" {
		found := false
		for i, n := range t.EnumNames {
			if n == w {
				w, found = t.EnumVals[i], true
				break
			}
		}
		if !found {
			if _, err := strconv.ParseInt(w, 10, 64); err != nil {
				return false, false
			}
		}
		bt := x.resolve(t.Base)
		if bt == nil {
			return false, false
		}
		cls = bt.Class
	}
	switch cls {
	case "int":
		if t.NonStd != "" {
			return false, false
		}
		if i, err := strconv.ParseInt(w, 10, 64); err == nil {
			return float64(i) == v, true
		}
		if u, err := strconv.ParseUint(w, 10, 64); err == nil {
			return float64(u) == v, true
		}
		return false, false
	case "float":
		if t.NonStd != "" {
			return false, false
		}
		if t.Size == 4 || t.Size == 2 {
			fsize = 4
		}
		_ = isFloat
		if _, err := strconv.ParseFloat(w, 64); err != nil {
			switch strings.ToLower(w) {
			case "nan", "-nan", "inf", "-inf":
			default:
				return false, false
			}
		}
		return vfC06FloatMatch(w, v, fsize), true
	}
	return false, false
}

// vfC06Diff summarises an element-wise comparison.
type vfC06Diff struct {
	total, bad, skipped int
	first               int
	firstWant, firstGot string
}

func (d *vfC06Diff) add(i int, match, cmpable bool, want *vfDDLVal, got any) {
	d.total++
	if !cmpable {
		d.skipped++
		return
	}
	if !match {
		if d.bad == 0 {
			d.first = i
			if want != nil {
				d.firstWant = want.W
			}
			d.firstGot = fmt.Sprint(got)
			if len(d.firstGot) > 80 {
				d.firstGot = d.firstGot[:80] + "…"
			}
			if len(d.firstWant) > 80 {
				d.firstWant = d.firstWant[:80] + "…"
			}
		}
		d.bad++
	}
}

func (d *vfC06Diff) shape() string {
	return fmt.Sprintf("(%d/%d,first@%d)", d.bad, d.total, d.first)
}

func (d *vfC06Diff) detail() map[string]any {
	return map[string]any{"elements": d.total, "differing": d.bad, "not_comparable": d.skipped, "first_index": d.first, "ddl_value": d.firstWant, "reader_value": d.firstGot}
}

// ddlElems returns the parsed top-level elements of a DATA block when the DDL holds the
// complete data of the object; reason != "" says why values cannot be compared.
func (x *vfC06Cmp) ddlElems(hasData bool, nData int, subset, packed bool, raw string, sp *vfDDLSpace) (elems []*vfDDLVal, reason string) {
	switch {
	case !hasData:
		return nil, "ddl-without-data"
	case subset:
		return nil, "ddl-subset"
	case packed || nData > 1:
		return nil, "ddl-packed-bits"
	case sp == nil:
		return nil, "ddl-without-dataspace"
	}
	elems, err := vfDDLParseData(raw, x.blk.Escaped)
	if err != nil {
		if os.Getenv("VERIF_C06_DEBUG") != "" {
			fmt.Printf("DEBUG data-unparsed %s: %v\n", x.ddl, err)
		}
		return nil, "ddl-data-unparsed"
	}
	if uint64(len(elems)) != sp.NElems() {
		if len(elems) == 0 {
			return nil, "ddl-data-empty(binary/-o/error output)"
		}
		if os.Getenv("VERIF_C06_DEBUG") != "" {
			fmt.Printf("DEBUG data-count %s: %d vs %d: %.60q\n", x.ddl, len(elems), sp.NElems(), raw)
		}
		return nil, "ddl-data-count-differs-from-dataspace"
	}
	return elems, ""
}

func vfC06Flatten(v any) []any {
	switch x := v.(type) {
	case []int32:
		o := make([]any, len(x))
		for i := range x {
			o[i] = x[i]
		}
		return o
	case []int64:
		o := make([]any, len(x))
		for i := range x {
			o[i] = x[i]
		}
		return o
	case []float32:
		o := make([]any, len(x))
		for i := range x {
			o[i] = x[i]
		}
		return o
	case []float64:
		o := make([]any, len(x))
		for i := range x {
			o[i] = x[i]
		}
		return o
	case []string:
		o := make([]any, len(x))
		for i := range x {
			o[i] = x[i]
		}
		return o
	case []interface{}:
		return x
	case []uint8:
		o := make([]any, len(x))
		for i := range x {
			o[i] = x[i]
		}
		return o
	case []int8, []int16, []uint16, []uint32, []uint64:
		s := fmt.Sprint(x)
		return []any{"<" + s + ">"}
	}
	return []any{v}
}

// compareCompound compares one compound element member-wise.
func (x *vfC06Cmp) compareCompound(t *vfDDLType, tok *vfDDLVal, cv core.CompoundValue, d *vfC06Diff, idx int) {
	t = x.resolve(t)
	if t == nil || t.Class != "compound" || tok == nil || tok.K != '{' || len(tok.Sub) != len(t.Members) {
		d.add(idx, false, false, tok, nil)
		return
	}
	names := map[string]bool{}
	for i, m := range t.Members {
		names[m.Name] = true
		got, present := cv[m.Name]
		if !present {
			d.add(idx, false, true, &vfDDLVal{W: "member " + m.Name}, "<member missing>")
			continue
		}
		if sub, ok := got.(core.CompoundValue); ok {
			x.compareCompound(m.Type, tok.Sub[i], sub, d, idx)
			continue
		}
		match, cmpable := x.leafMatch(m.Type, tok.Sub[i], got)
		if !cmpable {
			// the reader returned a scalar for a member the DDL shows as something else
			mt := x.resolve(m.Type)
			if mt != nil && (mt.Class == "array" || mt.Class == "vlen" || mt.Class == "compound" || mt.Class == "reference" || mt.Class == "opaque") {
				d.add(idx, false, true, &vfDDLVal{W: "member " + m.Name + " of class " + mt.Class}, got)
				continue
			}
		}
		d.add(idx, match, cmpable, tok.Sub[i], got)
	}
	var extra []string
	for k := range cv {
		if !names[k] {
			extra = append(extra, k)
		}
	}
	sort.Strings(extra)
	for _, k := range extra {
		d.add(idx, false, true, &vfDDLVal{W: "<no such member>"}, "member "+k)
	}
}

// ---------------------------------------------------------------------------------------
// objects
// ---------------------------------------------------------------------------------------

func (x *vfC06Cmp) compareSpace(path, aspect string, sp *vfDDLSpace, ds *core.DataspaceMessage) {
	if sp == nil || ds == nil {
		return
	}
	x.cmp(path, aspect)
	want := sp.Kind
	got := map[core.DataspaceType]string{core.DataspaceScalar: "SCALAR", core.DataspaceSimple: "SIMPLE", core.DataspaceNull: "NULL"}[ds.Type]
	if want == "SIMPLE" {
		want = fmt.Sprintf("SIMPLE%v", sp.Dims)
	}
	if got == "SIMPLE" {
		got = fmt.Sprintf("SIMPLE%v", ds.Dimensions)
	}
	if want != got {
		x.fail(vfC06ShapeLabel(sp, ds), path, aspect, map[string]any{"ddl": want, "reader": got})
		return
	}
	x.ok()
}

func vfC06ShapeLabel(sp *vfDDLSpace, ds *core.DataspaceMessage) string {
	if sp.Kind == "NULL" && ds.Type == core.DataspaceScalar {
		return "null-dataspace-read-as-scalar"
	}
	return "shape-differs"
}

func (x *vfC06Cmp) compareAttrs(path string, want []*vfDDLAttr, complete bool, addr uint64, get func() ([]*core.Attribute, error)) {
	if len(want) == 0 && !(complete && x.blk.AttrsShown) {
		return
	}
	var attrs []*core.Attribute
	var err error
	if x.call(path, "attributes", func() { attrs, err = get() }) {
		return
	}
	if err != nil {
		x.c.errAccepted("Attributes")
		return
	}
	byName := map[string]*core.Attribute{}
	dup := map[string]bool{}
	for _, a := range attrs {
		if a == nil {
			continue
		}
		if _, seen := byName[a.Name]; seen {
			dup[a.Name] = true
		}
		byName[a.Name] = a
	}
	wantNames := map[string]bool{}
	for _, wa := range want {
		wantNames[wa.Name] = true
		apath := path + "@" + wa.Name
		x.cmp(apath, "exists")
		a := byName[wa.Name]
		if a == nil {
			x.fail(vfC06AttrMissingLabel(x, addr, wa.Name), apath, "exists", map[string]any{"reader_attributes": vfC06AttrNames(attrs)})
			continue
		}
		x.ok()
		if dup[wa.Name] {
			x.fail("duplicate-attribute", apath, "exists", nil)
		}
		if wa.Type != nil && a.Datatype != nil {
			x.cmp(apath, "type")
			if x.resolve(wa.Type) == nil {
				x.c.skip("ddl-named-type-unresolved")
			} else if d := x.typeDiff(wa.Type, a.Datatype, 0); len(d) > 0 {
				x.fail(vfC06TypeLabel(d, a.Datatype), apath, "type", map[string]any{"differences": d})
			} else {
				x.ok()
			}
		}
		x.compareSpace(apath, "shape", wa.Space, a.Dataspace)
		x.compareAttrValue(apath, wa, a)
	}
	if complete && x.blk.AttrsShown {
		var extra []string
		for n := range byName {
			if !wantNames[n] {
				extra = append(extra, n)
			}
		}
		sort.Strings(extra)
		for _, n := range extra {
			x.cmp(path+"@"+n, "exists")
			x.fail("extra-attribute", path+"@"+n, "exists", nil)
		}
	}
}

func vfC06AttrNames(attrs []*core.Attribute) []string {
	var n []string
	for _, a := range attrs {
		if a != nil {
			n = append(n, a.Name)
		}
	}
	sort.Strings(n)
	return n
}

func (x *vfC06Cmp) compareAttrValue(apath string, wa *vfDDLAttr, a *core.Attribute) {
	if wa.Type == nil || wa.Space == nil {
		return
	}
	elems, reason := x.ddlElems(wa.HasData, 1, false, false, wa.Data, wa.Space)
	if reason != "" {
		x.c.skip("attr:" + reason)
		return
	}
	var v any
	var err error
	if x.call(apath, "values", func() { v, err = a.ReadValue() }) {
		return
	}
	if err != nil {
		x.c.errAccepted("Attribute.ReadValue")
		return
	}
	t := x.resolve(wa.Type)
	if t == nil {
		x.c.skip("ddl-named-type-unresolved")
		return
	}
	got := vfC06Flatten(v)
	x.cmp(apath, "values")
	if len(got) != len(elems) {
		x.fail(vfC06ValueLabel(x, "attr", t, a.Datatype, nil), apath, fmt.Sprintf("values(count %d!=%d)", len(got), len(elems)), map[string]any{"ddl_elements": len(elems), "reader_elements": len(got), "reader_value": fmt.Sprintf("%.80v", v)})
		return
	}
	d := &vfC06Diff{}
	for i := range elems {
		m, c := x.leafMatch(t, elems[i], got[i])
		if !c && (t.Class == "array" || t.Class == "compound" || t.Class == "vlen" || t.Class == "reference" || t.Class == "opaque" || t.Class == "bitfield") {
			// the reader returned a scalar for an element that is not a scalar
			d.add(i, false, true, &vfDDLVal{W: "element of class " + t.Class}, got[i])
			continue
		}
		d.add(i, m, c, elems[i], got[i])
	}
	x.c.elems(d)
	if d.bad > 0 {
		x.fail(vfC06ValueLabel(x, "attr", t, a.Datatype, d), apath, "values"+d.shape(), d.detail())
		return
	}
	if d.skipped == d.total && d.total > 0 {
		x.c.skip("attr:values-not-comparable:" + t.Class)
		return
	}
	x.sample(apath, "values", fmt.Sprintf("ReadValue() = %.60v equals the %d DDL element(s)", v, len(elems)))
	x.ok()
}

// compareDataset compares type, shape, values and attributes of one dataset. n carries the
// DDL content (for a HARDLINK stub: the node it points to, if printed in the same block).
func (x *vfC06Cmp) compareDataset(path string, n *vfDDLNode, ds *Dataset) {
	var info *core.DatasetInfo
	var hdr *core.ObjectHeader
	if n.Type != nil || n.Space != nil {
		var err error
		if !x.call(path, "type", func() {
			hdr, err = core.ReadObjectHeader(ds.file.osFile, ds.address, ds.file.sb)
			if err == nil {
				info, err = core.ReadDatasetInfo(hdr, ds.file.sb)
			}
		}) && err != nil {
			x.c.errAccepted("ReadDatasetInfo")
			info = nil
		}
	}
	var t *vfDDLType
	if n.Type != nil {
		t = x.resolve(n.Type)
		if t == nil {
			x.c.skip("ddl-named-type-unresolved")
		}
	}
	if info != nil && t != nil {
		x.cmp(path, "type")
		if d := x.typeDiff(t, info.Datatype, 0); len(d) > 0 {
			x.fail(vfC06TypeLabel(d, info.Datatype), path, "type", map[string]any{"differences": d})
		} else {
			x.ok()
		}
	}
	if info != nil {
		x.compareSpace(path, "shape", n.Space, info.Dataspace)
	}
	if t != nil && n.Space != nil {
		elems, reason := x.ddlElems(n.HasData, n.NData, n.Subset, n.Packed, n.Data, n.Space)
		if reason != "" {
			x.c.skip("dataset:" + reason)
		} else {
			x.compareRead(path, n, t, elems, ds, info, hdr)
			x.compareStrings(path, n, t, elems, ds, info)
			x.compareCompoundData(path, n, t, elems, ds, info)
		}
	}
	if !n.FromContents || len(n.Attrs) > 0 {
		x.compareAttrs(path, n.Attrs, true, ds.address, ds.Attributes)
	}
}

func (x *vfC06Cmp) compareRead(path string, n *vfDDLNode, t *vfDDLType, elems []*vfDDLVal, ds *Dataset, info *core.DatasetInfo, hdr *core.ObjectHeader) {
	var v []float64
	var err error
	if x.call(path, "values.Read", func() { v, err = ds.Read() }) {
		return
	}
	if err != nil {
		x.c.errAccepted("Dataset.Read")
		return
	}
	x.cmp(path, "values.Read")
	var dt *core.DatatypeMessage
	if info != nil {
		dt = info.Datatype
	}
	if t.Class != "int" && t.Class != "float" && t.Class != "enum" {
		x.fail("read-returns-numbers-for-class-"+t.Class, path, "values.Read", map[string]any{"reader_elements": len(v)})
		return
	}
	if len(v) != len(elems) {
		x.fail(vfC06ValueLabel(x, "dataset", t, dt, nil), path, fmt.Sprintf("values.Read(count %d!=%d)", len(v), len(elems)), map[string]any{"ddl_elements": len(elems), "reader_elements": len(v)})
		return
	}
	d := &vfC06Diff{}
	for i := range elems {
		m, c := x.leafMatch(t, elems[i], v[i])
		d.add(i, m, c, elems[i], v[i])
	}
	x.c.elems(d)
	if d.bad > 0 {
		det := d.detail()
		det["layout"], det["filters"] = n.Layout, n.Filters
		x.fail(vfC06ReadLabel(x, n, t, dt, hdr, d), path, "values.Read"+d.shape(), det)
		return
	}
	if d.skipped == d.total && d.total > 0 {
		x.c.skip("dataset:values-not-comparable:" + t.Class)
		return
	}
	if len(v) > 0 {
		x.sample(path, "values.Read", fmt.Sprintf("Read() returned %d numbers, all equal to the DATA block; first: reader %v, ddl %q", len(v), v[0], elems[0].W))
	}
	x.ok()
}

func (x *vfC06Cmp) compareStrings(path string, n *vfDDLNode, t *vfDDLType, elems []*vfDDLVal, ds *Dataset, info *core.DatasetInfo) {
	var v []string
	var err error
	if x.call(path, "values.ReadStrings", func() { v, err = ds.ReadStrings() }) {
		return
	}
	if err != nil {
		x.c.errAccepted("Dataset.ReadStrings")
		return
	}
	x.cmp(path, "values.ReadStrings")
	if t.Class != "string" {
		x.fail("readstrings-returns-strings-for-class-"+t.Class, path, "values.ReadStrings", map[string]any{"reader_elements": len(v)})
		return
	}
	if len(v) != len(elems) {
		x.fail("string-count-differs", path, fmt.Sprintf("values.ReadStrings(count %d!=%d)", len(v), len(elems)), nil)
		return
	}
	d := &vfC06Diff{}
	for i := range elems {
		m, c := x.leafMatch(t, elems[i], v[i])
		d.add(i, m, c, elems[i], strconv.Quote(v[i]))
	}
	x.c.elems(d)
	if d.bad > 0 {
		x.fail("string-values-differ", path, "values.ReadStrings"+d.shape(), d.detail())
		return
	}
	if d.skipped == d.total && d.total > 0 {
		x.c.skip("dataset:strings-not-comparable")
		return
	}
	if len(v) > 0 {
		x.sample(path, "values.ReadStrings", fmt.Sprintf("ReadStrings() returned %d strings equal to the DATA block modulo padding; first: %.40q", len(v), v[0]))
	}
	x.ok()
}

func (x *vfC06Cmp) compareCompoundData(path string, n *vfDDLNode, t *vfDDLType, elems []*vfDDLVal, ds *Dataset, info *core.DatasetInfo) {
	var v []core.CompoundValue
	var err error
	if x.call(path, "values.ReadCompound", func() { v, err = ds.ReadCompound() }) {
		return
	}
	if err != nil {
		x.c.errAccepted("Dataset.ReadCompound")
		return
	}
	x.cmp(path, "values.ReadCompound")
	if os.Getenv("VERIF_C06_DEBUG") != "" && info != nil {
		if ct, err := core.ParseCompoundType(info.Datatype); err == nil {
			fmt.Printf("DEBUG compound %s %s %s\n", x.file.base, path, ct)
		}
	}
	if t.Class != "compound" {
		x.fail("readcompound-returns-records-for-class-"+t.Class, path, "values.ReadCompound", nil)
		return
	}
	if len(v) != len(elems) {
		x.fail("compound-count-differs", path, fmt.Sprintf("values.ReadCompound(count %d!=%d)", len(v), len(elems)), nil)
		return
	}
	d := &vfC06Diff{}
	for i := range elems {
		x.compareCompound(t, elems[i], v[i], d, i)
	}
	x.c.elems(d)
	if d.bad > 0 {
		x.fail(vfC06CompoundLabel(x, t, info, d), path, "values.ReadCompound"+d.shape(), d.detail())
		return
	}
	if d.skipped == d.total && d.total > 0 {
		x.c.skip("dataset:compound-not-comparable")
		return
	}
	x.ok()
}

func vfC06Kind(o Object) string {
	switch o.(type) {
	case *Group:
		return "group"
	case *Dataset:
		return "dataset"
	case *NamedDatatype:
		return "datatype"
	}
	return fmt.Sprintf("%T", o)
}

// content returns the node whose body describes the object n names: n itself, or the
// target of its HARDLINK stub when that was printed in the same block.
func (x *vfC06Cmp) content(n *vfDDLNode) *vfDDLNode {
	for i := 0; n != nil && n.HardLink != "" && i < 8; i++ {
		t := vfDDLFind(x.blk.Top, n.HardLink)
		if t == nil || t.Kind != n.Kind {
			return nil
		}
		n = t
	}
	if n != nil && n.HardLink != "" {
		return nil
	}
	return n
}

func (x *vfC06Cmp) compareObject(path string, n *vfDDLNode, o Object, depth int) {
	switch n.Kind {
	case "group":
		g, _ := o.(*Group)
		if g == nil {
			return
		}
		if n.HardLink != "" {
			// same object as another path: its members are those printed there (one level)
			if t := x.content(n); t != nil && t.Listing {
				x.compareMembers(path, t, g, false, depth)
			}
			return
		}
		x.compareMembers(path, n, g, true, depth)
	case "dataset":
		d, _ := o.(*Dataset)
		if d == nil {
			return
		}
		if c := x.content(n); c != nil {
			x.compareDataset(path, c, d)
		} else {
			x.c.skip("ddl-hardlink-target-not-printed")
		}
	case "datatype":
		nd, _ := o.(*NamedDatatype)
		if nd == nil {
			return
		}
		c := x.content(n)
		if c == nil {
			x.c.skip("ddl-hardlink-target-not-printed")
			return
		}
		if c.Type != nil && nd.Datatype() != nil {
			x.cmp(path, "type")
			if d := x.typeDiff(c.Type, nd.Datatype(), 0); len(d) > 0 {
				x.fail(vfC06TypeLabel(d, nd.Datatype()), path, "type", map[string]any{"differences": d})
			} else {
				x.ok()
			}
		}
		if len(c.Attrs) > 0 {
			// the read API has no way to ask a committed datatype for its attributes: read
			// them the way Dataset.Attributes does
			x.compareAttrs(path, c.Attrs, false, nd.address, func() ([]*core.Attribute, error) {
				h, err := core.ReadObjectHeader(nd.file.osFile, nd.address, nd.file.sb)
				if err != nil {
					return nil, err
				}
				if h.AttributesErr != nil {
					return nil, h.AttributesErr
				}
				return h.Attributes, nil
			})
		}
	}
}

// compareMembers compares the member list of a DDL group with Children() and, when recurse
// is set, the members themselves.
func (x *vfC06Cmp) compareMembers(path string, n *vfDDLNode, g *Group, recurse bool, depth int) {
	if depth > 64 {
		return
	}
	var kids []Object
	if x.call(path, "members", func() { kids = g.Children() }) {
		return
	}
	byName := map[string]Object{}
	dups := map[string]bool{}
	for _, k := range kids {
		if k == nil {
			continue
		}
		if _, seen := byName[k.Name()]; seen {
			dups[k.Name()] = true
		}
		byName[k.Name()] = k
	}
	want := map[string]bool{}
	for _, ch := range n.Children {
		if ch.Unnamed {
			continue
		}
		want[ch.Name] = true
		cp := vfDDLJoin(path, ch.Name)
		o := byName[ch.Name]
		switch ch.Kind {
		case "softlink", "extlink", "udlink":
			x.cmp(cp, "member")
			if o == nil {
				x.fail(map[string]string{"softlink": "link-member-omitted(soft)", "extlink": "link-member-omitted(external)", "udlink": "link-member-omitted(user-defined)"}[ch.Kind], cp, "member", map[string]any{"link": ch.Target})
			} else {
				// the reader resolved or presented the link as an object: nothing the DDL can say about it
				x.c.skip("link-presented-as-" + vfC06Kind(o))
			}
			continue
		}
		x.cmp(cp, "member")
		if o == nil {
			x.fail(vfC06MissingLabel(x, path, g, len(kids)), cp, "member", map[string]any{"ddl_kind": ch.Kind, "reader_children": len(kids)})
			continue
		}
		if dups[ch.Name] {
			x.fail("duplicate-member", cp, "member", nil)
		}
		if k := vfC06Kind(o); k != ch.Kind {
			x.fail("kind-differs", cp, "kind", map[string]any{"ddl": ch.Kind, "reader": k})
			continue
		}
		x.ok()
		if recurse {
			x.compareObject(cp, ch, o, depth+1)
		}
	}
	var extra []string
	for name := range byName {
		if !want[name] {
			extra = append(extra, name)
		}
	}
	sort.Strings(extra)
	for _, name := range extra {
		cp := vfDDLJoin(path, name)
		x.cmp(cp, "member")
		x.fail("extra-member", cp, "member", map[string]any{"reader_kind": vfC06Kind(byName[name])})
	}
	if recurse && (!n.FromContents || len(n.Attrs) > 0) {
		x.compareAttrs(path, n.Attrs, true, g.address, g.Attributes)
	}
}

// lookup walks an absolute path through Children().
func (x *vfC06Cmp) lookup(path string) (o Object, missingAt string, viaNonGroup bool) {
	var cur Object = x.f.Root()
	if path == "/" {
		return cur, "", false
	}
	walked := ""
	for _, comp := range strings.Split(strings.Trim(path, "/"), "/") {
		g, ok := cur.(*Group)
		if !ok {
			return nil, walked, true
		}
		walked += "/" + comp
		var next Object
		for _, k := range g.Children() {
			if k != nil && k.Name() == comp {
				next = k
			}
		}
		if next == nil {
			return nil, walked, false
		}
		cur = next
	}
	return cur, "", false
}

func (x *vfC06Cmp) compareBlock() {
	for _, n := range x.blk.Top {
		switch n.Kind {
		case "group", "dataset", "datatype":
		default:
			x.c.skip("ddl-top-level-" + n.Kind)
			continue
		}
		if n.Unnamed {
			x.c.skip("ddl-object-without-a-link(/#address)")
			continue
		}
		if n.Path != "/" && n.EmptyBody {
			// h5dump prints an empty block for an object it could not open
			x.c.skip("ddl-top-level-object-with-empty-body")
			continue
		}
		var o Object
		var missingAt string
		var viaNonGroup bool
		if x.call(n.Path, "member", func() { o, missingAt, viaNonGroup = x.lookup(n.Path) }) {
			continue
		}
		if o == nil {
			if viaNonGroup {
				x.c.skip("ddl-top-level-path-through-non-group")
				continue
			}
			// a path the reference could open; the reader lists no such member
			x.cmp(missingAt, "member")
			par := missingAt[:strings.LastIndexByte(missingAt, '/')]
			if par == "" {
				par = "/"
			}
			pg, _, _ := x.lookup(par)
			g, _ := pg.(*Group)
			nk := 0
			if g != nil {
				nk = len(g.Children())
			}
			x.fail(vfC06MissingLabel(x, par, g, nk), missingAt, "member", map[string]any{"ddl_path": n.Path})
			continue
		}
		if n.Path != "/" {
			x.cmp(n.Path, "member")
			if k := vfC06Kind(o); k != n.Kind {
				x.fail("kind-differs", n.Path, "kind", map[string]any{"ddl": n.Kind, "reader": k})
				continue
			}
			x.ok()
		}
		x.compareObject(n.Path, n, o, 0)
	}
}

// ---------------------------------------------------------------------------------------
// root-cause labels (diagnosed from what the harness can observe about the object)
// ---------------------------------------------------------------------------------------

func vfC06TypeLabel(d []string, dt *core.DatatypeMessage) string {
	if dt != nil && dt.Version == 0 {
		// a datatype message starts with version<<4|class, version >= 1; a first byte of 1..3 is
		// the version of a *shared message* reference (header message flag 0x02)
		return "shared-datatype-message-not-resolved"
	}
	for _, s := range d {
		if strings.Contains(s, "class: ddl array") && strings.HasPrefix(s, "member ") && dt != nil && dt.Version == 1 {
			return "compound-v1-array-member-read-as-scalar"
		}
	}
	return "type-differs"
}

// ancestors returns the object header addresses of the groups on the way to path
// (excluding the object at path itself).
func (x *vfC06Cmp) ancestors(path string) []uint64 {
	var out []uint64
	var cur Object = x.f.Root()
	comps := strings.Split(strings.Trim(path, "/"), "/")
	for _, comp := range comps {
		g, ok := cur.(*Group)
		if !ok || comp == "" {
			break
		}
		out = append(out, g.address)
		var next Object
		for _, k := range g.Children() {
			if k != nil && k.Name() == comp {
				next = k
			}
		}
		if next == nil {
			break
		}
		cur = next
	}
	return out
}

func vfC06Header(f *File, addr uint64) (h *core.ObjectHeader) {
	defer func() {
		if recover() != nil {
			h = nil
		}
	}()
	if addr == 0 {
		return nil
	}
	h, err := core.ReadObjectHeader(f.osFile, addr, f.sb)
	if err != nil {
		return nil
	}
	return h
}

func vfC06UndefAddr(b []byte) bool {
	if len(b) == 0 {
		return true
	}
	for _, c := range b {
		if c != 0xff {
			return false
		}
	}
	return true
}

func vfC06MissingLabel(x *vfC06Cmp, groupPath string, g *Group, nkids int) string {
	if g == nil {
		return "silently-missing-member"
	}
	if groupPath != "/" {
		for _, a := range x.ancestors(groupPath) {
			if a == g.address && a != 0 {
				return "hardlink-to-ancestor-group-listed-empty"
			}
		}
	}
	if h := vfC06Header(x.f, g.address); h != nil {
		off := int(x.f.sb.OffsetSize)
		for _, m := range h.Messages {
			if m.Type == core.MsgLinkInfo && len(m.Data) >= 2 {
				// version, flags, [max creation index 8], fractal heap address, name index address
				p := 2
				if m.Data[1]&0x01 != 0 {
					p += 8
				}
				if len(m.Data) >= p+off && !vfC06UndefAddr(m.Data[p:p+off]) {
					return "dense-links-not-loaded"
				}
			}
		}
		if h.Version == 2 {
			for _, m := range h.Messages {
				if m.Type == core.MsgContinuation {
					return "ohdr-v2-continuation-not-followed"
				}
			}
		}
	}
	return "silently-missing-member"
}

func vfC06AttrMissingLabel(x *vfC06Cmp, addr uint64, name string) string {
	h := vfC06Header(x.f, addr)
	if h == nil {
		return "silently-missing-attribute"
	}
	off := int(x.f.sb.OffsetSize)
	for _, m := range h.Messages {
		switch {
		case m.Type == core.MsgAttribute && len(m.Data) >= 10:
			nameAt := 8
			if m.Data[0] >= 3 {
				nameAt = 9
			}
			nl := int(m.Data[2]) | int(m.Data[3])<<8
			if nameAt+nl <= len(m.Data) && nl > 0 && string(m.Data[nameAt:nameAt+nl-1]) == name {
				if m.Data[0] >= 2 && m.Data[1]&0x01 != 0 {
					return "attr-msg-v2-misparsed-error-swallowed"
				}
				return "compact-attr-parse-error-swallowed"
			}
		case uint16(m.Type) == 0x15 && len(m.Data) >= 2:
			// the Attribute Info message of the format is type 0x0015; the reader looks for 0x000F
			p := 2
			if m.Data[1]&0x01 != 0 {
				p += 2
			}
			if len(m.Data) >= p+off && !vfC06UndefAddr(m.Data[p:p+off]) {
				return "dense-attrs-not-loaded(attribute-info-is-msg-0x15,reader-expects-0x0F)"
			}
		}
	}
	if h.Version == 2 {
		for _, m := range h.Messages {
			if m.Type == core.MsgContinuation {
				return "ohdr-v2-continuation-not-followed"
			}
		}
	}
	return "silently-missing-attribute"
}

func vfC06ValueLabel(x *vfC06Cmp, what string, t *vfDDLType, dt *core.DatatypeMessage, d *vfC06Diff) string {
	switch {
	case t != nil && t.Order == "BE" && (t.Class == "int" || t.Class == "float"):
		return what + "-big-endian-read-as-little-endian"
	case t != nil && t.Class == "int" && !t.Signed:
		return what + "-unsigned-read-as-signed"
	}
	return what + "-values-differ"
}

func vfC06ReadLabel(x *vfC06Cmp, n *vfDDLNode, t *vfDDLType, dt *core.DatatypeMessage, hdr *core.ObjectHeader, d *vfC06Diff) string {
	if t != nil && t.Order == "VAX" {
		return "vax-float-read-as-ieee"
	}
	if hdr != nil {
		for _, m := range hdr.Messages {
			if m.Type != core.MsgFilterPipeline {
				continue
			}
			var fp *core.FilterPipelineMessage
			func() {
				defer func() { recover() }()
				fp, _ = core.ParseFilterPipelineMessage(m.Data)
			}()
			if fp != nil {
				for _, f := range fp.Filters {
					if f.ID == core.FilterLZF {
						return "lzf-long-backreference-misdecoded"
					}
				}
			}
		}
	}
	return "dataset-values-differ"
}

func vfC06CompoundLabel(x *vfC06Cmp, t *vfDDLType, info *core.DatasetInfo, d *vfC06Diff) string {
	return "compound-values-differ"
}

// ---------------------------------------------------------------------------------------
// driver
// ---------------------------------------------------------------------------------------

func TestVerif_C06(t *testing.T) {
	r := vkit.Start(t, "C06", "exploration")
	defer r.Finish()

	// 1. corpus index: base name -> distinct non-empty files
	type cf struct {
		path string
		size int64
		sum  [32]byte
	}
	corpus := map[string][]cf{}
	emptied := 0
	var cfiles []string
	for _, pat := range []string{"testdata/hdf5_official/*", "testdata/reference/*", "testdata/c-library-corpus/*", "testdata/c-library-corpus/*/*", "testdata/*"} {
		m, _ := filepath.Glob(pat)
		cfiles = append(cfiles, m...)
	}
	sort.Strings(cfiles)
	seenPath := map[string]bool{}
	for _, fn := range cfiles {
		if seenPath[fn] {
			continue
		}
		seenPath[fn] = true
		ext := filepath.Ext(fn)
		if ext != ".h5" && ext != ".hdf5" {
			continue
		}
		st, err := os.Stat(fn)
		if err != nil || st.IsDir() {
			continue
		}
		if st.Size() == 0 {
			emptied++
			corpus[filepath.Base(fn)] = append(corpus[filepath.Base(fn)], cf{path: fn})
			continue
		}
		b, err := os.ReadFile(fn)
		if err != nil {
			continue
		}
		corpus[filepath.Base(fn)] = append(corpus[filepath.Base(fn)], cf{path: fn, size: st.Size(), sum: sha256.Sum256(b)})
	}

	// 2. DDL files
	ddls, _ := filepath.Glob("testdata/hdf5_official/ddl/*.ddl")
	sort.Strings(ddls)
	stats := map[string]int64{}
	unparsed := map[string]string{}
	files := map[string]*vfC06File{}
	for _, dn := range ddls {
		stats["ddl_files"]++
		b, err := os.ReadFile(dn)
		if err != nil || len(strings.TrimSpace(string(b))) == 0 {
			stats["ddl_emptied"]++
			continue
		}
		base := filepath.Base(dn)
		blocks, preamble, trailer, perr := vfDDLParse(string(b))
		if perr == nil && len(blocks) == 0 {
			stats["ddl_without_header(error/usage/other tool output)"]++
			continue
		}
		stats["ddl_with_header"]++
		if perr != nil {
			// still count whether it names a corpus file
			stats["ddl_unparsed"]++
			unparsed[base] = perr.Error()
			continue
		}
		if strings.TrimSpace(preamble) != "" {
			// dumped through another file driver (onion revisions): the DDL does not describe
			// the bytes of the base file
			stats["ddl_with_preamble_skipped"]++
			unparsed[base] = "preamble: " + strings.TrimSpace(preamble)
			continue
		}
		stats["ddl_parsed"]++
		if trailer != "" {
			stats["ddl_parsed_with_error_trailer"]++
		}
		matchedAny, hasData, subset := false, false, false
		for _, blk := range blocks {
			cands := corpus[filepath.Base(blk.H5Name)]
			var live []cf
			for _, c := range cands {
				if c.size > 0 {
					live = append(live, c)
				}
			}
			if len(cands) > 0 && len(live) == 0 {
				stats["ddl_blocks_naming_an_emptied_file"]++
			}
			if len(live) == 0 {
				stats["ddl_blocks_naming_no_corpus_file"]++
				continue
			}
			// identical copies in several corpus directories count once
			distinct := map[[32]byte]cf{}
			for _, c := range live {
				if _, ok := distinct[c.sum]; !ok {
					distinct[c.sum] = c
				}
			}
			if len(distinct) > 1 {
				stats["ddl_blocks_naming_files_with_different_content"]++
				continue
			}
			matchedAny = true
			stats["ddl_blocks_matched"]++
			hasData = hasData || blk.HasData
			subset = subset || blk.HasSubset
			name := filepath.Base(blk.H5Name)
			fe := files[name]
			if fe == nil {
				fe = &vfC06File{base: name, path: live[0].path, size: live[0].size}
				files[name] = fe
			}
			fe.pairs = append(fe.pairs, vfC06Pair{ddl: base, blk: blk})
		}
		if matchedAny {
			stats["ddl_matched_to_corpus_file"]++
			if hasData {
				stats["ddl_matched_with_DATA"]++
			}
			if subset {
				stats["ddl_matched_with_SUBSET"]++
			}
		}
	}
	var list []*vfC06File
	for _, fe := range files {
		list = append(list, fe)
	}
	sort.Slice(list, func(i, j int) bool { return list[i].base < list[j].base })

	quickLimit := int64(0) // 0 = no limit: the whole corpus runs in the quick tier
	ctx := &vfC06Ctx{r: r, fails: map[string]*vfC06Fail{}, errs: map[string]int64{}, skips: map[string]int64{}, compared: map[string]int64{}, samples: map[string]string{}}
	var openErr, opened int64
	var omu sync.Mutex
	vkit.ParallelFor(len(list), func(i int) {
		fe := list[i]
		if quickLimit > 0 && !r.Thorough() && fe.size > quickLimit {
			ctx.skip("file-larger-than-quick-limit")
			return
		}
		if r.Expired() {
			r.Cap("time budget")
			return
		}
		x0 := &vfC06Cmp{c: ctx, file: fe, ddl: "-"}
		r.Guard("panic-outside-a-reader-call|"+fe.base+"|", map[string]any{"file": fe.path}, func() {
			var f *File
			var err error
			if x0.call("/", "open", func() { f, err = Open(fe.path) }) {
				return
			}
			if err != nil {
				omu.Lock()
				openErr++
				omu.Unlock()
				ctx.errAccepted("Open")
				r.Case(fe.base + "|/|open")
				return
			}
			omu.Lock()
			opened++
			omu.Unlock()
			r.Case(fe.base + "|/|open")
			defer f.Close()
			for _, pr := range fe.pairs {
				x := &vfC06Cmp{c: ctx, file: fe, ddl: pr.ddl, blk: pr.blk, f: f}
				x.compareBlock()
			}
		})
	})

	// 3. evidence
	labelCounts := map[string]int64{}
	var keys []string
	for k, f := range ctx.fails {
		labelCounts[f.Label]++
		keys = append(keys, k)
	}
	sort.Strings(keys)
	for k, v := range stats {
		r.Set(k, v)
	}
	r.Set("corpus_files_emptied", emptied)
	r.Set("corpus_files_with_a_ddl", len(list))
	r.Set("corpus_files_opened", opened)
	r.Set("corpus_files_open_error(acceptable)", openErr)
	r.Set("failing_triples", len(keys))
	r.Set("failing_triples_by_label", labelCounts)
	r.Set("acceptable_errors_by_call", ctx.errs)
	r.Set("not_compared_by_reason", ctx.skips)
	r.Set("comparisons_by_aspect", ctx.compared)
	r.Set("elements_compared", ctx.elemsCompared)
	r.Set("elements_not_comparable(skipped)", ctx.elemsNotComparable)
	var un []string
	for k, v := range unparsed {
		un = append(un, k+": "+v)
	}
	sort.Strings(un)
	r.Set("ddl_not_used_with_reason", un)
	var sk []string
	for k := range ctx.samples {
		sk = append(sk, k)
	}
	sort.Strings(sk)
	for i, k := range sk {
		if i >= 5 {
			break
		}
		r.Sample(map[string]any{"triple": k, "compared": ctx.samples[k]})
	}
	for i, k := range keys {
		if i%29 == 0 && i/29 < 3 {
			r.Sample(map[string]any{"failing_triple": k, "detail": ctx.fails[k].Detail})
		}
	}
	r.Rule(fmt.Sprintf("exhaustive over the finite corpus, whole corpus in the quick tier: %d DDL files (%d emptied, %d without an HDF5 header, %d with header of which %d parsed, %d unparsed, %d skipped for a VFD preamble); %d DDLs (%d HDF5 blocks) name an existing non-empty corpus file (%d distinct files; %d with DATA, %d with SUBSET); every object/attribute/element the DDL states is compared with what Open/Children/ReadDatasetInfo/Read/ReadStrings/ReadCompound/Attributes/ReadValue return without error; a case is one (file, object path, aspect) triple compared, distinct = distinct triples",
		stats["ddl_files"], stats["ddl_emptied"], stats["ddl_without_header(error/usage/other tool output)"], stats["ddl_with_header"], stats["ddl_parsed"], stats["ddl_unparsed"], stats["ddl_with_preamble_skipped"],
		stats["ddl_matched_to_corpus_file"], stats["ddl_blocks_matched"], len(list), stats["ddl_matched_with_DATA"], stats["ddl_matched_with_SUBSET"]))
	r.Assume("the shipped DDL files are the unmodified output of h5dump 1.14.6 on the shipped corpus files of the same name; h5dump options are inferred from the DDL content only")
	r.Assume("float values printed by h5dump (%g, or a -m format) match when the printed decimal is the correct rounding of the reader's value to the digits printed")

	vfC06CrossDecoder(r)

	if out := os.Getenv("VERIF_C06_DUMP"); out != "" {
		var all []*vfC06Fail
		for _, k := range keys {
			all = append(all, ctx.fails[k])
		}
		b, _ := json.MarshalIndent(all, "", " ")
		_ = os.WriteFile(out, b, 0o644)
	}
}
