//go:build verif

package hdf5

import (
	"fmt"
	"sort"
	"strings"
	"sync"
	"testing"

	"github.com/scigolib/hdf5/internal/verif/vkit"
)

// C04 — operations on one object never change another object.
// Differential oracle: dump(o') after == dump(o') before for every o' that the operation
// was not aimed at (hard-link aliases of the target count as the target; the parent group
// of a newly created name is touched by the creation).

type vfC04Model struct {
	has   map[string]bool // objects created (by successful-or-not mk; we only use intent)
	attrs map[string]int
}

func vfC04Enabled(chunkedX bool) func(hist []vfOp) []vfOp {
	return func(hist []vfOp) []vfOp {
		has := map[string]bool{}
		attrA := map[string]bool{}
		for _, o := range hist {
			switch o.Op {
			case "mkds", "mkgroup":
				has[o.Path] = true
			case "hardlink":
				has[o.Path] = true
			case "attr":
				if o.Name == "a" {
					attrA[o.Path] = true
				}
			case "delattr":
				attrA[o.Path] = false
			}
		}
		var out []vfOp
		mkX := vfOp{Op: "mkds", Path: "/x", Type: "i32", Dims: []uint64{4}}
		if chunkedX {
			mkX = vfOp{Op: "mkds", Path: "/x", Type: "f64", Dims: []uint64{4}, Chunk: []uint64{2}, Max: []uint64{8}}
		}
		if !has["/x"] {
			out = append(out, mkX)
		}
		if !has["/y"] {
			out = append(out, vfOp{Op: "mkds", Path: "/y", Type: "f64", Dims: []uint64{2, 3}})
		}
		if !has["/g"] {
			out = append(out, vfOp{Op: "mkgroup", Path: "/g"})
		}
		if has["/x"] {
			out = append(out, vfOp{Op: "write", Path: "/x", Pat: 1})
			out = append(out, vfOp{Op: "attr", Path: "/x", Name: "a", Value: "i32a"})
			out = append(out, vfOp{Op: "attr", Path: "/x", Name: "big", Value: "s120"})
			nx := 0
			for _, o := range hist {
				if o.Op == "attr" && o.Path == "/x" && strings.HasPrefix(o.Name, "n") {
					nx++
				}
			}
			out = append(out, vfOp{Op: "attr", Path: "/x", Name: fmt.Sprintf("n%02d", nx), Value: "i64"})
			if attrA["/x"] {
				out = append(out, vfOp{Op: "delattr", Path: "/x", Name: "a"})
			}
			if !has["/lx"] {
				out = append(out, vfOp{Op: "hardlink", Path: "/lx", Target: "/x"})
			}
			if chunkedX {
				out = append(out, vfOp{Op: "resize", Path: "/x", Dims: []uint64{6}})
			}
		}
		if has["/y"] {
			out = append(out, vfOp{Op: "write", Path: "/y", Pat: 2})
			out = append(out, vfOp{Op: "attr", Path: "/y", Name: "a", Value: "f64x3"})
		}
		// at most once per history: the session ends and a new one begins (handles of the
		// datasets re-acquired with OpenDataset, group handles gone)
		reopened := false
		for _, o := range hist {
			if o.Op == "reopen" {
				reopened = true
			}
		}
		if has["/x"] && !reopened {
			out = append(out, vfOp{Op: "reopen"})
		}
		// the root group is an object too: a hard link to it (if the library accepts one) adds
		// a reference count to the root header, which sits in front of the first object created
		if has["/x"] && !has["/lroot"] {
			out = append(out, vfOp{Op: "hardlink", Path: "/lroot", Target: "/"})
		}
		if has["/g"] {
			out = append(out, vfOp{Op: "attr", Path: "/g", Name: "a", Value: "s40"})
			if !has["/lg"] {
				out = append(out, vfOp{Op: "hardlink", Path: "/lg", Target: "/g"})
			}
			// a nested namesake of /x (same leaf name, same shape): a lookup that goes by the leaf
			// name alone lands on it
			if !has["/g/x"] {
				out = append(out, vfOp{Op: "mkds", Path: "/g/x", Type: "i32", Dims: []uint64{4}})
			}
		}
		return out
	}
}

// vfTouched returns the set of paths (as in the dump: groups end in "/") an op is aimed at.
func vfTouched(o vfOp, before *vfTree) map[string]bool {
	t := map[string]bool{}
	add := func(p string) {
		t[p] = true
		t[p+"/"] = true
	}
	parentOf := func(p string) string {
		par, _ := parsePath(p)
		if par == "" {
			return "/"
		}
		return par
	}
	switch o.Op {
	case "mkds", "mkgroup", "softlink", "extlink":
		add(o.Path)
		pp := parentOf(o.Path)
		t[pp] = true
		t[pp+"/"] = true
	case "hardlink":
		add(o.Path)
		add(o.Target)
		pp := parentOf(o.Path)
		t[pp] = true
		t[pp+"/"] = true
	default:
		add(o.Path)
	}
	// aliases: same header address as any touched object in the before-tree
	if before != nil {
		addrs := map[uint64]bool{}
		for p := range t {
			if ob := before.Objs[p]; ob != nil && ob.Addr != 0 {
				addrs[ob.Addr] = true
			}
		}
		for p, ob := range before.Objs {
			if addrs[ob.Addr] {
				t[p] = true
			}
		}
		// everything below a touched group that is an alias path (e.g. /lg/s when /g/s changes)
		for p := range before.Objs {
			for q := range t {
				if strings.HasSuffix(q, "/") && q != "/" && strings.HasPrefix(p, q) {
					// descendants of a touched group are reachable through it; their own content
					// is compared through their canonical path unless that path is touched too
					_ = p
				}
			}
		}
	}
	return t
}

func vfObjKind(t *vfTree, p string) string {
	if o := t.Get(p); o != nil {
		return o.Kind
	}
	return "absent"
}

func TestVerif_C04(t *testing.T) {
	r := vkit.Start(t, "C04", "model_checking")
	defer r.Finish()
	dir := vkit.Scratch(t)
	depth := 5
	if r.Thorough() {
		depth = 7
	}
	type cfg struct {
		name    string
		opts    []interface{}
		chunked bool
	}
	cfgs := []cfg{
		{"sb2/contiguous-x", nil, false},
		{"sb2/chunked-x", nil, true},
		{"sb0/contiguous-x", []interface{}{WithSuperblockVersion(SuperblockV0)}, false},
		{"sb3/chunked-x", []interface{}{WithSuperblockVersion(SuperblockV3)}, true},
	}
	r.Rule(fmt.Sprintf("every sequence of enabled operations up to depth %d over {create X,Y,G,G/x (a nested namesake of X); write X,Y; attribute on X (4B and 120B), Y, G; delete attribute on X; hard link to X, to G; resize X} per configuration; one execution of the real FileWriter per sequence, dump before/after compared for every object not aimed at; a case is non-trivial when at least one other object existed before the operation", depth))
	// start states: empty file; X one attribute short of the compact->dense transition with
	// Y and G already behind it in the file; X already in dense storage.
	mkStart := func(chunked bool, nattr int) []vfOp {
		en := vfC04Enabled(chunked)
		var h []vfOp
		h = append(h, en(nil)[0]) // mkX
		for i := 0; i < nattr; i++ {
			h = append(h, vfOp{Op: "attr", Path: "/x", Name: fmt.Sprintf("n%02d", i), Value: "i64"})
		}
		h = append(h, vfOp{Op: "mkds", Path: "/y", Type: "f64", Dims: []uint64{2, 3}}, vfOp{Op: "write", Path: "/y", Pat: 2},
			vfOp{Op: "mkgroup", Path: "/g"}, vfOp{Op: "attr", Path: "/g", Name: "a", Value: "s40"}, vfOp{Op: "write", Path: "/x", Pat: 1})
		return h
	}
	states := map[string]struct{}{}
	var smu = make(chan struct{}, 1)
	smu <- struct{}{}
	for _, c := range cfgs {
		c := c
		for si, start := range [][]vfOp{nil, mkStart(c.chunked, 7), mkStart(c.chunked, 9)} {
			d := depth
			if si > 0 {
				d = depth - 2
			}
			x := &vfExplore{R: r, Dir: dir, Cfg: c.opts, Prefix: start, Depth: d, Enabled: vfC04Enabled(c.chunked), CloseAtLeaves: true}
			x.Visit = func(parent, cur *vfExec) {
				op := cur.Hist[len(cur.Hist)-1]
				hs := c.name + ": " + vfOpsString(cur.Hist)
				detail := map[string]any{"config": c.name, "ops": cur.Hist, "history": vfOpsString(cur.Hist)}
				if cur.Panics[len(cur.Panics)-1] {
					r.Outcome("op-panicked")
				}
				if parent.Tree == nil {
					// the prefix already produced an unopenable file: reported at that prefix
					r.Case("")
					return
				}
				nOthers := 0
				touched := vfTouched(op, parent.Tree)
				for p := range parent.Tree.Objs {
					if !touched[p] {
						nOthers++
					}
				}
				if nOthers > 0 {
					r.Case(hs)
				} else {
					r.Case("")
				}
				tgtKind := vfObjKind(parent.Tree, op.Path)
				if op.Op == "hardlink" {
					tgtKind = vfObjKind(parent.Tree, op.Target)
				}
				opClass := op.Op
				if op.Op == "attr" {
					opClass = "attr-" + op.Value
				}
				if cur.Tree == nil {
					detail["open_error"] = fmt.Sprint(cur.OpenErr)
					r.Fail(fmt.Sprintf("%s/%s(%s)/file-unopenable", strings.SplitN(c.name, "/", 2)[0], opClass, tgtKind), detail)
					r.Outcome("unopenable")
					return
				}
				<-smu
				states[cur.Tree.String()] = struct{}{}
				smu <- struct{}{}
				var victims []string
				for p, ob := range parent.Tree.Objs {
					if touched[p] {
						continue
					}
					nb := cur.Tree.Objs[p]
					if nb == nil {
						victims = append(victims, p+":vanished("+ob.Kind+")")
						continue
					}
					if nb.Content() != ob.Content() {
						victims = append(victims, p+":changed("+ob.Kind+")")
					}
				}
				if len(victims) > 0 {
					sort.Strings(victims)
					vk := map[string]bool{}
					for _, v := range victims {
						vk[v[strings.Index(v, ":")+1:]] = true
					}
					var vks []string
					for k := range vk {
						vks = append(vks, k)
					}
					sort.Strings(vks)
					detail["victims"] = victims
					detail["before"] = parent.Tree.String()
					detail["after"] = cur.Tree.String()
					r.Fail(fmt.Sprintf("%s/%s(%s)/other-object-%s", strings.SplitN(c.name, "/", 2)[0], opClass, tgtKind, strings.Join(vks, "+")), detail)
					r.Outcome("victim")
				} else {
					r.Outcome("ok")
				}
				if cur.Closed != nil || cur.ClosedErr != nil {
					// "snapshot while open == file after Close" (no deferred state for these ops)
					if cur.Closed == nil || cur.Closed.String() != cur.Tree.String() {
						detail["closed_error"] = fmt.Sprint(cur.ClosedErr)
						r.Fail(fmt.Sprintf("%s/close-changes-content", strings.SplitN(c.name, "/", 2)[0]), detail)
					}
				}
			}
			x.Run()
		}
		r.Sample(map[string]any{"config": c.name, "depth": depth, "example_sequence": "mkds(/x); mkds(/y); attr(/x,a); hardlink(/lx->/x); write(/y)"})
	}
	// header-fill family: X's single-chunk object header brought to every reachable total in
	// [200,255] message bytes, Y/G/Z allocated right behind it, then every operation that can
	// make X's header grow in place (tiny attribute, reference count of a hard link) or that
	// writes the neighbours; the neighbours must stay unchanged.
	{
		mkX := vfOp{Op: "mkds", Path: "/x", Type: "f64", Dims: []uint64{4}}
		fills := vfHeaderFillStates(dir, mkX, 200, 255)
		var totals []int
		for t := range fills {
			totals = append(totals, t)
		}
		sort.Ints(totals)
		r.Set("header_fill_totals_reached", totals)
		neighbours := [][]vfOp{
			{{Op: "mkds", Path: "/y", Type: "f64", Dims: []uint64{4}}, {Op: "write", Path: "/y", Pat: 2}},
			{{Op: "mkgroup", Path: "/y"}, {Op: "attr", Path: "/y", Name: "ga", Value: "i32a"}},
			{{Op: "mkds", Path: "/y", Type: "i32", Dims: []uint64{4}, Chunk: []uint64{2}}, {Op: "write", Path: "/y", Pat: 2}},
		}
		grow := []vfOp{{Op: "attr", Path: "/x", Name: "t", Value: "u8"}, {Op: "hardlink", Path: "/lx", Target: "/x"}, {Op: "attr", Path: "/x", Name: "h", Value: "str:3"}, {Op: "write", Path: "/x", Pat: 1}}
		type fj struct {
			t    int
			hist []vfOp
		}
		var jobs []fj
		for _, t := range totals {
			for _, nb := range neighbours {
				for _, g := range grow {
					// neighbour first then growth, and growth first then neighbour write
					h1 := append(append(append([]vfOp{}, fills[t]...), nb...), g)
					jobs = append(jobs, fj{t, h1})
					h2 := append(append(append([]vfOp{}, fills[t]...), nb[0], g), nb[1:]...)
					jobs = append(jobs, fj{t, h2})
				}
			}
		}
		vkit.ParallelFor(len(jobs), func(i int) {
			j := jobs[i]
			// compare the neighbour /y (and /x where the last op is aimed at /y) before/after the last op
			parent := vfRun(dir, nil, j.hist[:len(j.hist)-1], false)
			cur := vfRun(dir, nil, j.hist, true)
			r.Transitions(2)
			r.Case(fmt.Sprintf("header-fill-%d: %s", j.t, vfOpsString(j.hist)))
			op := j.hist[len(j.hist)-1]
			detail := map[string]any{"family": "header-fill", "header_message_bytes_before_growth": j.t, "ops": j.hist, "history": vfOpsString(j.hist)}
			if parent.Tree == nil {
				return
			}
			if cur.Tree == nil {
				detail["open_error"] = fmt.Sprint(cur.OpenErr)
				r.Fail(fmt.Sprintf("header-fill/%s/file-unopenable", op.Op), detail)
				return
			}
			touched := vfTouched(op, parent.Tree)
			for p, ob := range parent.Tree.Objs {
				if touched[p] {
					continue
				}
				nb := cur.Tree.Objs[p]
				if nb == nil || nb.Content() != ob.Content() {
					detail["victim"] = p
					detail["before"], detail["after"] = parent.Tree.String(), cur.Tree.String()
					r.Fail(fmt.Sprintf("header-fill/%s/other-object-changed(%s)", op.Op, ob.Kind), detail)
					return
				}
			}
			if cur.Closed == nil || cur.Closed.String() != cur.Tree.String() {
				r.Fail("header-fill/close-changes-content", detail)
			}
			r.Outcome("ok")
		})
	}
	// group-capacity family: a group (the root group, and a created group) brought to 30, 31 and
	// 32 members with short names, then one more link of every kind into it; whatever the call
	// answers, every other object of the file must stay what it was and the file must open.
	{
		mkX := vfOp{Op: "mkds", Path: "/x", Type: "f64", Dims: []uint64{4}}
		var jobs [][]vfOp
		for _, parent := range []string{"", "/g"} {
			for _, n := range []int{30, 31, 32} {
				h := []vfOp{mkX, {Op: "write", Path: "/x", Pat: 1}}
				have := 1
				if parent == "/g" {
					h = append(h, vfOp{Op: "mkgroup", Path: "/g"})
					have = 0
				}
				for i := have; i < n; i++ {
					h = append(h, vfOp{Op: "mkds", Path: fmt.Sprintf("%s/c%02d", parent, i), Type: "u8", Dims: []uint64{1}})
				}
				for _, last := range []vfOp{
					{Op: "mkds", Path: parent + "/n", Type: "i32", Dims: []uint64{2}},
					{Op: "mkgroup", Path: parent + "/h"},
					{Op: "hardlink", Path: parent + "/l", Target: "/x"},
					{Op: "softlink", Path: parent + "/s", Target: "/x"},
				} {
					jobs = append(jobs, append(append([]vfOp{}, h...), last))
				}
			}
		}
		vkit.ParallelFor(len(jobs), func(i int) {
			hist := jobs[i]
			parent := vfRun(dir, nil, hist[:len(hist)-1], false)
			cur := vfRun(dir, nil, hist, true)
			r.Transitions(2)
			r.Case("group-capacity: " + vfOpsString(hist))
			op := hist[len(hist)-1]
			detail := map[string]any{"family": "group-capacity", "ops": hist, "history": vfOpsString(hist)}
			if parent.Tree == nil {
				return
			}
			if cur.Tree == nil {
				detail["open_error"] = fmt.Sprint(cur.OpenErr)
				r.Fail(fmt.Sprintf("group-capacity/%s/file-unopenable", op.Op), detail)
				return
			}
			touched := vfTouched(op, parent.Tree)
			for p, ob := range parent.Tree.Objs {
				if touched[p] {
					continue
				}
				nb := cur.Tree.Objs[p]
				if nb == nil || nb.Content() != ob.Content() {
					detail["victim"] = p
					r.Fail(fmt.Sprintf("group-capacity/%s/other-object-changed(%s)", op.Op, ob.Kind), detail)
					return
				}
			}
			if cur.Closed == nil || cur.Closed.String() != cur.Tree.String() {
				r.Fail("group-capacity/close-changes-content", detail)
			}
			r.Outcome("ok")
		})
	}
	// variable-length family: data that lives in global heap collections, which are written
	// when a collection fills up or at Close. Every sequence up to the depth over two
	// variable-length datasets (short elements, an element larger than a default collection,
	// 2000-byte elements), a fixed-size dataset and a group; the files after Close of the
	// sequence and of its parent prefix are compared for every object not aimed at.
	{
		enabled := func(hist []vfOp) []vfOp {
			has := map[string]bool{}
			for _, o := range hist {
				if o.Op == "mkds" || o.Op == "mkgroup" {
					has[o.Path] = true
				}
			}
			var out []vfOp
			for _, v := range []string{"/v", "/v2"} {
				if !has[v] {
					out = append(out, vfOp{Op: "mkds", Path: v, Type: "vstr", Dims: []uint64{2}})
				} else {
					out = append(out, vfOp{Op: "write", Path: v, Pat: 1}, vfOp{Op: "write", Path: v, Pat: 2}, vfOp{Op: "write", Path: v, Pat: 3})
				}
			}
			if !has["/y"] {
				out = append(out, vfOp{Op: "mkds", Path: "/y", Type: "f64", Dims: []uint64{4}})
			} else {
				out = append(out, vfOp{Op: "write", Path: "/y", Pat: 2})
			}
			if !has["/g"] {
				out = append(out, vfOp{Op: "mkgroup", Path: "/g"})
			} else {
				out = append(out, vfOp{Op: "attr", Path: "/g", Name: "a", Value: "s40"})
			}
			return out
		}
		vd := 4
		if r.Thorough() {
			vd = 5
		}
		var level [][]vfOp
		level = append(level, nil)
		closed := map[string]*vfExec{"": vfRun(dir, nil, nil, true)}
		var cmu sync.Mutex
		for d := 1; d <= vd; d++ {
			var next [][]vfOp
			for _, h := range level {
				for _, o := range enabled(h) {
					next = append(next, append(append([]vfOp{}, h...), o))
				}
			}
			vkit.ParallelFor(len(next), func(i int) {
				if r.Expired() {
					r.Cap("time budget reached in the variable-length family")
					return
				}
				h := next[i]
				cur := vfRun(dir, nil, h, true)
				r.Transitions(1)
				cmu.Lock()
				closed[vfOpsString(h)] = cur
				parent := closed[vfOpsString(h[:len(h)-1])]
				cmu.Unlock()
				op := h[len(h)-1]
				r.Case("vlen: " + vfOpsString(h))
				detail := map[string]any{"family": "variable-length", "ops": h, "history": vfOpsString(h)}
				if parent == nil || parent.Closed == nil {
					return
				}
				opClass := op.Op
				if op.Op == "write" {
					opClass = fmt.Sprintf("write-p%d", op.Pat)
				}
				if cur.Closed == nil {
					detail["open_error"] = fmt.Sprint(cur.ClosedErr)
					r.Fail(fmt.Sprintf("vlen/%s(%s)/file-unopenable", opClass, op.Path), detail)
					return
				}
				touched := vfTouched(op, parent.Closed)
				for p, ob := range parent.Closed.Objs {
					if touched[p] {
						continue
					}
					nb := cur.Closed.Objs[p]
					if nb == nil || nb.Content() != ob.Content() {
						detail["victim"] = p
						detail["before"], detail["after"] = ob.Content(), ""
						if nb != nil {
							detail["after"] = nb.Content()
						}
						r.Fail(fmt.Sprintf("vlen/%s(%s)/other-object-changed(%s)", opClass, op.Path, p), detail)
						return
					}
				}
				r.Outcome("vlen-ok")
			})
			level = next
		}
	}
	r.States(int64(len(states)))
	r.Assume("the dump compares only what the read API reports (Info, Read, ReadStrings, ReadCompound, Attributes, Children)")
}
