//go:build verif

package hdf5

import (
	"encoding/binary"
	"fmt"
	"math"
	"os"
	"path/filepath"
	"sort"
	"strings"
	"sync"
	"time"

	"github.com/scigolib/hdf5/internal/core"
	"github.com/scigolib/hdf5/internal/verif/h5ref"
	"github.com/scigolib/hdf5/internal/verif/vkit"
)

// ---------------------------------------------------------------------------------------
// R1 validation: before the independent decoder (h5ref) is trusted as the oracle of C05 it
// must (a) decode the reference-library files of the bundled corpus without reporting a single
// deviation from the specification and (b) agree with the library's own reader wherever both
// succeed. Disagreements are listed, not failed: a wrong answer of the library's reader on a
// reference file belongs to property C06.
// ---------------------------------------------------------------------------------------

// vfC05NotReference lists corpus files that are not valid reference-library output, with the
// reason; a deviation reported on them says nothing about the decoder.
var vfC05NotReference = map[string]string{
	"test_attr_basic.h5":                  "written by this library's writer (fixture of the repository's tests), not by the reference library",
	"test_attr_int32.h5":                  "written by this library's writer (fixture of the repository's tests), not by the reference library",
	"test_attributes.h5":                  "written by this library's writer (fixture of the repository's tests), not by the reference library",
	"tbogus.h5":                           "reference test file that deliberately contains a message of an unknown ('bogus') type",
	"tbad_msg_count.h5":                   "reference test file with a deliberately wrong message count in an object header",
	"corrupt_stab_msg.h5":                 "reference test file with a deliberately corrupted symbol table message",
	"h5stat_err_refcount.h5":              "reference test file with a deliberately corrupted reference count message",
	"tCVE-2021-37501_attr_decode.h5":      "fuzzer-derived file (CVE reproducer): attribute dataspace larger than its data",
	"3790_infinite_loop.h5":               "fuzzer-derived file (issue 3790 reproducer)",
	"tmisc38a.h5":                         "reference test file with a deliberately corrupted datatype size (tmisc38)",
	"h5clear_fsm_persist_greater.h5":      "h5clear test file whose end-of-file address was deliberately made larger than the file",
	"h5clear_fsm_persist_less.h5":         "h5clear test file whose end-of-file address was deliberately made smaller than the file",
	"h5clear_fsm_persist_user_greater.h5": "h5clear test file whose end-of-file address was deliberately made larger than the file",
	"h5clear_fsm_persist_user_less.h5":    "h5clear test file whose end-of-file address was deliberately made smaller than the file",
	"h5clear_fsm_persist_noclose.h5":      "h5clear test file left unclosed on purpose (stale end-of-file address)",
	"h5clear_status_noclose.h5":           "h5clear test file left unclosed on purpose (stale end-of-file address)",
}

// multi-file storage: the file alone is one member of a family/multi/split/subfiling set, so
// its addresses legitimately reach beyond it
func vfC05MultiFile(name string) bool {
	for _, p := range []string{"family_", "tfamily", "multi_file", "tmulti", "tsplit_file", "test_subfiling"} {
		if strings.HasPrefix(name, p) {
			return true
		}
	}
	return false
}

type vfC05LibObj struct {
	kind    string
	dims    string
	read    []float64
	readOK  bool
	strs    []string
	strsOK  bool
	class   int
	size    int
	nattrs  int
	attrsOK bool
}

// vfC05LibView walks a file with the library's reader; ok=false when the reader does not
// handle the file (error or panic).
func vfC05LibView(path string) (objs map[string]*vfC05LibObj, ok bool) {
	defer func() {
		if p := recover(); p != nil {
			objs, ok = nil, false
		}
	}()
	f, err := Open(path)
	if err != nil {
		return nil, false
	}
	defer f.Close()
	objs = map[string]*vfC05LibObj{}
	count := 0
	f.Walk(func(p string, obj Object) {
		count++
		if count > 20000 {
			panic("too many objects")
		}
		key := p
		if len(key) > 1 {
			key = strings.TrimSuffix(key, "/")
		}
		o := &vfC05LibObj{class: -1}
		switch x := obj.(type) {
		case *Group:
			o.kind = "group"
			func() {
				defer func() { _ = recover() }()
				if a, err := x.Attributes(); err == nil {
					o.nattrs, o.attrsOK = len(a), true
				}
			}()
		case *Dataset:
			o.kind = "dataset"
			big := false
			func() {
				defer func() { _ = recover() }()
				if hdr, err := core.ReadObjectHeader(f.osFile, x.address, f.sb); err == nil {
					if di, err := core.ReadDatasetInfo(hdr, f.sb); err == nil {
						if di.Dataspace != nil {
							o.dims = fmt.Sprint(di.Dataspace.Dimensions)
						}
						if di.Datatype != nil {
							o.class, o.size = int(di.Datatype.Class), int(di.Datatype.Size)
						}
						if di.Dataspace != nil && di.Datatype != nil {
							// values of datasets beyond 8 MiB are not compared (the file is at most 4 MiB:
							// such datasets are sparse and reading them costs minutes)
							n := uint64(di.Datatype.Size)
							for _, x := range di.Dataspace.Dimensions {
								if x != 0 && n > (8<<20)/x {
									big = true
									break
								}
								n *= x
							}
						}
					}
				}
			}()
			if !big {
				func() {
					defer func() { _ = recover() }()
					if v, err := x.Read(); err == nil {
						o.read, o.readOK = v, true
					}
				}()
				func() {
					defer func() { _ = recover() }()
					if v, err := x.ReadStrings(); err == nil {
						o.strs, o.strsOK = v, true
					}
				}()
			}
			func() {
				defer func() { _ = recover() }()
				if a, err := x.Attributes(); err == nil {
					o.nattrs, o.attrsOK = len(a), true
				}
			}()
		case *NamedDatatype:
			o.kind = "datatype"
		default:
			o.kind = fmt.Sprintf("%T", obj)
		}
		if _, dup := objs[key]; !dup {
			objs[key] = o
		}
	})
	return objs, true
}

// vfC05RawToFloat converts element bytes the documented way of Dataset.Read(): 4- and 8-byte
// integers (by signedness) and IEEE floats, in the datatype's byte order.
func vfC05RawToFloat(o *h5ref.Object) ([]float64, bool) {
	t := o.Type
	if t == nil || o.Raw == nil || (t.Class != 0 && t.Class != 1) || (t.Size != 4 && t.Size != 8) {
		return nil, false
	}
	var bo binary.ByteOrder = binary.LittleEndian
	if t.BigEndian {
		bo = binary.BigEndian
	}
	n := len(o.Raw) / t.Size
	out := make([]float64, n)
	for i := 0; i < n; i++ {
		p := o.Raw[i*t.Size:]
		switch {
		case t.Class == 1 && t.Size == 8:
			out[i] = math.Float64frombits(bo.Uint64(p))
		case t.Class == 1:
			out[i] = float64(math.Float32frombits(bo.Uint32(p)))
		case t.Size == 4 && t.Signed:
			out[i] = float64(int32(bo.Uint32(p)))
		case t.Size == 4:
			out[i] = float64(bo.Uint32(p))
		case t.Signed:
			out[i] = float64(int64(bo.Uint64(p)))
		default:
			out[i] = float64(bo.Uint64(p))
		}
	}
	return out, true
}

// vfC05RawToStrings converts element bytes to strings the way fixed-length strings are
// defined (cut at the first NUL for NUL-terminated/padded, trailing spaces for space-padded)
// and variable-length strings by their heap bytes.
func vfC05RawToStrings(o *h5ref.Object) ([]string, bool) {
	t := o.Type
	if t == nil || o.Raw == nil {
		return nil, false
	}
	if t.Class == 9 && t.VLenString {
		if o.VLen == nil {
			return nil, false
		}
		out := make([]string, len(o.VLen))
		for i, b := range o.VLen {
			if j := strings.IndexByte(string(b), 0); j >= 0 {
				b = b[:j]
			}
			out[i] = string(b)
		}
		return out, true
	}
	if t.Class != 3 || t.Size == 0 {
		return nil, false
	}
	n := len(o.Raw) / t.Size
	out := make([]string, n)
	for i := 0; i < n; i++ {
		b := o.Raw[i*t.Size : (i+1)*t.Size]
		switch t.Pad {
		case 2:
			out[i] = strings.TrimRight(string(b), " ")
		default:
			if j := strings.IndexByte(string(b), 0); j >= 0 {
				b = b[:j]
			}
			out[i] = string(b)
		}
	}
	return out, true
}

type vfC05R1Stats struct {
	mu                                                    sync.Mutex
	files, libHandled, decoded, decodedClean              int
	objects, datasets, datasetsCompared, elementsCompared int64
	stringsCompared                                       int64
	excluded                                              map[string]string
	decoderErrors                                         map[string][]string
	unsupported                                           map[string]int
	disagreements                                         []string
	ndisagree                                             int
}

func (s *vfC05R1Stats) disagree(format string, a ...any) {
	s.ndisagree++
	if len(s.disagreements) < 60 {
		s.disagreements = append(s.disagreements, fmt.Sprintf(format, a...))
	}
}

// vfC05ValidateR1 runs the corpus validation and records r1_* evidence. It returns false when
// the decoder reported a deviation on a reference file (the oracle cannot be trusted then).
func vfC05ValidateR1(r *vkit.Run) bool {
	var files []string
	for _, pat := range []string{"testdata/*.h5", "testdata/*.hdf5", "testdata/reference/*.h5", "testdata/hdf5_official/*.h5"} {
		m, _ := filepath.Glob(pat)
		sort.Strings(m)
		files = append(files, m...)
	}
	st := &vfC05R1Stats{excluded: map[string]string{}, decoderErrors: map[string][]string{}, unsupported: map[string]int{}}
	trusted := true
	type fileRes struct {
		name           string
		lib            map[string]*vfC05LibObj
		ok             bool
		res            *h5ref.Result
		skip           string
		libSec, decSec float64
	}
	results := make([]*fileRes, len(files))
	vkit.ParallelFor(len(files), func(i int) {
		fn := files[i]
		fr := &fileRes{name: fn}
		results[i] = fr
		info, err := os.Stat(fn)
		if err != nil || info.Size() == 0 {
			fr.skip = "empty"
			return
		}
		if info.Size() > 4<<20 {
			fr.skip = "larger than 4 MiB"
			return
		}
		b, err := os.ReadFile(fn)
		if err != nil {
			fr.skip = "unreadable"
			return
		}
		t0 := time.Now()
		fr.lib, fr.ok = vfC05LibView(fn)
		fr.libSec = time.Since(t0).Seconds()
		if !fr.ok {
			return
		}
		t0 = time.Now()
		fr.res = h5ref.Decode(b)
		fr.decSec = time.Since(t0).Seconds()
	})
	for _, fr := range results {
		base := filepath.Base(fr.name)
		if fr.skip != "" {
			continue
		}
		st.files++
		if !fr.ok {
			continue
		}
		st.libHandled++
		res := fr.res
		reason, notRef := vfC05NotReference[base]
		if !notRef && vfC05MultiFile(base) {
			reason, notRef = "one member of a multi-file (family/multi/split/subfiling) storage set: addresses legitimately reach beyond this member", true
		}
		if notRef {
			st.excluded[fr.name] = reason
		}
		st.decoded++
		if len(res.Deviations) > 0 && !notRef {
			trusted = false
			for _, tag := range res.DeviationTags() {
				r.Fail("r1-selfcheck/decoder-reports-deviation-on-reference-file/"+tag, map[string]any{"file": fr.name, "deviations": res.Deviations})
			}
		}
		if len(res.Errors) > 0 {
			e := res.Errors
			if len(e) > 4 {
				e = e[:4]
			}
			st.decoderErrors[fr.name] = e
		}
		for _, u := range res.Unsupported {
			st.unsupported[u]++
		}
		if len(res.Errors) == 0 && len(res.Deviations) == 0 {
			st.decodedClean++
		}
		// (b) cross-check with the library's reader
		var paths []string
		for p := range fr.lib {
			paths = append(paths, p)
		}
		sort.Strings(paths)
		for _, p := range paths {
			lo := fr.lib[p]
			ro := res.Objects[p]
			st.objects++
			if ro == nil {
				st.disagree("%s: %s (%s) listed by the library, not reached by the decoder", fr.name, p, lo.kind)
				continue
			}
			if ro.Kind != lo.kind {
				st.disagree("%s: %s is %s for the library, %s for the decoder", fr.name, p, lo.kind, ro.Kind)
				continue
			}
			if lo.kind != "dataset" {
				continue
			}
			st.datasets++
			if lo.dims != "" && ro.Type != nil {
				rd := fmt.Sprint(ro.Dims)
				if ro.Scalar || ro.Null {
					rd = lo.dims // the library reports scalars its own way
				}
				if rd != lo.dims {
					st.disagree("%s: %s dims %s (library) vs %v (decoder)", fr.name, p, lo.dims, ro.Dims)
					continue
				}
			}
			compared := false
			if lo.readOK {
				if want, ok := vfC05RawToFloat(ro); ok {
					compared = true
					if len(want) != len(lo.read) {
						st.disagree("%s: %s Read() returns %d values, decoder has %d elements (%s)", fr.name, p, len(lo.read), len(want), ro.TypeDesc)
					} else {
						bad := -1
						for i := range want {
							if math.Float64bits(want[i]) != math.Float64bits(lo.read[i]) && !(math.IsNaN(want[i]) && math.IsNaN(lo.read[i])) {
								bad = i
								break
							}
						}
						if bad >= 0 {
							st.disagree("%s: %s element %d: library %v, decoder %v (%s, %s, filters %v)", fr.name, p, bad, lo.read[bad], want[bad], ro.TypeDesc, ro.Layout, ro.Filters)
						}
						st.elementsCompared += int64(len(want))
					}
				} else if ro.Raw != nil && len(lo.read) > 0 {
					st.disagree("%s: %s Read() returns %d numbers for a %s dataset", fr.name, p, len(lo.read), ro.TypeDesc)
				}
			}
			if lo.strsOK {
				if want, ok := vfC05RawToStrings(ro); ok {
					compared = true
					if fmt.Sprintf("%q", want) != fmt.Sprintf("%q", lo.strs) {
						st.disagree("%s: %s ReadStrings() %.80q, decoder %.80q (%s)", fr.name, p, lo.strs, want, ro.TypeDesc)
					}
					st.stringsCompared += int64(len(want))
				}
			}
			if compared {
				st.datasetsCompared++
			}
		}
		// objects the decoder reaches but the library does not list
		var mine []string
		for p, o := range res.Objects {
			if _, ok := fr.lib[p]; !ok && (o.Kind == "group" || o.Kind == "dataset" || o.Kind == "datatype") && !o.Cycle {
				mine = append(mine, p+"("+o.Kind+")")
			}
		}
		sort.Strings(mine)
		if len(mine) > 0 {
			if len(mine) > 4 {
				mine = append(mine[:4], fmt.Sprintf("… %d more", len(mine)-4))
			}
			st.disagree("%s: reached by the decoder, not listed by the library: %s", fr.name, strings.Join(mine, " "))
		}
	}
	r.Set("r1_corpus_agreement", map[string]any{
		"files_considered":                         st.files,
		"files_handled_by_library_reader":          st.libHandled,
		"files_decoded_by_h5ref":                   st.decoded,
		"files_decoded_without_error_or_deviation": st.decodedClean,
		"reference_files_with_deviation":           map[bool]string{true: "none", false: "SEE VIOLATIONS"}[trusted],
		"objects_compared":                         st.objects,
		"datasets_seen":                            st.datasets,
		"datasets_values_compared":                 st.datasetsCompared,
		"numeric_elements_compared":                st.elementsCompared,
		"string_elements_compared":                 st.stringsCompared,
		"disagreements_with_library":               st.ndisagree,
	})
	var libTotal, decTotal float64
	slow := map[string]string{}
	for _, fr := range results {
		libTotal += fr.libSec
		decTotal += fr.decSec
		if fr.libSec > 0.5 || fr.decSec > 0.5 {
			slow[fr.name] = fmt.Sprintf("library %.2fs decoder %.2fs", fr.libSec, fr.decSec)
		}
	}
	r.Set("r1_cpu_seconds", map[string]any{"library_reader": libTotal, "h5ref": decTotal, "slow_files": slow})
	r.Set("r1_excluded_not_reference_output", st.excluded)
	r.Set("r1_decoder_errors_by_file", st.decoderErrors)
	r.Set("r1_unsupported_features_met", st.unsupported)
	if st.disagreements == nil {
		st.disagreements = []string{}
	}
	r.Set("r1_vs_library_disagreements", st.disagreements)
	return trusted
}
