//go:build verif

package hdf5

import (
	"fmt"
	"math"
	"strings"
	"sync"
	"testing"

	"github.com/scigolib/hdf5/internal/core"
	"github.com/scigolib/hdf5/internal/verif/vkit"
)

// C13 — Resize keeps retained data, zero-fills new space, respects the declared maximum.

// vfND is the reference model: a dense N-d array of float64 with row-major storage.
type vfND struct {
	dims []uint64
	data []float64
}

func vfNDNew(dims []uint64) *vfND {
	return &vfND{dims: append([]uint64{}, dims...), data: make([]float64, vfProd(dims))}
}

func (a *vfND) resize(nd []uint64) *vfND {
	b := vfNDNew(nd)
	idx := make([]uint64, len(nd))
	for i := range b.data {
		// idx of i in b
		rem := uint64(i)
		for d := len(nd) - 1; d >= 0; d-- {
			idx[d] = rem % nd[d]
			rem /= nd[d]
		}
		inside := true
		var off uint64
		for d := range idx {
			if idx[d] >= a.dims[d] {
				inside = false
				break
			}
			off = off*a.dims[d] + idx[d]
		}
		if inside {
			b.data[i] = a.data[off]
		}
	}
	return b
}

func TestVerif_C13(t *testing.T) {
	r := vkit.Start(t, "C13", "model_checking")
	defer r.Finish()
	dir := vkit.Scratch(t)
	type scen struct {
		name  string
		init  []uint64
		chunk []uint64
		max   []uint64
		box   uint64 // resize targets in [1,box]^rank
		depth int
	}
	U := Unlimited
	var scens []scen
	for _, ch := range [][]uint64{{1}, {2}, {3}} {
		for _, mx := range [][]uint64{{4}, {U}} {
			scens = append(scens, scen{fmt.Sprintf("rank1/chunk%v/max%s", ch, vfMaxStr(mx)), []uint64{3}, ch, mx, 5, 4})
		}
	}
	for _, ch := range [][]uint64{{1, 1}, {2, 2}, {2, 3}} {
		for _, mx := range [][]uint64{{3, 3}, {U, U}, {U, 3}} {
			scens = append(scens, scen{fmt.Sprintf("rank2/chunk%v/max%s", ch, vfMaxStr(mx)), []uint64{2, 3}, ch, mx, 4, 3})
		}
	}
	if r.Thorough() {
		for i := range scens {
			scens[i].depth++
		}
		scens = append(scens, scen{"rank3/chunk[1 2 2]/max[3 U 3]", []uint64{1, 2, 2}, []uint64{1, 2, 2}, []uint64{3, U, 3}, 3, 3})
	}
	r.Rule("per scenario (rank 1-2(3), chunk shape, fixed/unlimited/mixed maximum): all sequences up to the depth over {Resize(d) for every d in the box [1,box]^rank (includes shapes beyond a fixed maximum), Write(pattern 1), Write(pattern 2)} on the real DatasetWriter; after every sequence the file is reopened and compared with an N-d array model (resize keeps the intersection, zero elsewhere; write replaces); non-trivial = sequence containing at least one accepted resize")
	states := map[string]struct{}{}
	var smu sync.Mutex
	for _, sc := range scens {
		sc := sc
		mk := vfOp{Op: "mkds", Path: "/r", Type: "f64", Dims: sc.init, Chunk: sc.chunk, Max: sc.max}
		other := vfOp{Op: "mkds", Path: "/other", Type: "i32", Dims: []uint64{3}}
		prefix := []vfOp{mk, other, {Op: "write", Path: "/other", Pat: 3}, {Op: "write", Path: "/r", Pat: 1}}
		var alphabet []vfOp
		var rec func(cur []uint64)
		rec = func(cur []uint64) {
			if len(cur) == len(sc.init) {
				alphabet = append(alphabet, vfOp{Op: "resize", Path: "/r", Dims: append([]uint64{}, cur...)})
				return
			}
			for e := uint64(1); e <= sc.box; e++ {
				rec(append(cur, e))
			}
		}
		rec(nil)
		alphabet = append(alphabet, vfOp{Op: "write", Path: "/r", Pat: 1}, vfOp{Op: "write", Path: "/r", Pat: 2})
		x := &vfExplore{R: r, Dir: dir, Prefix: prefix, Depth: sc.depth, Enabled: func([]vfOp) []vfOp { return alphabet }, CloseAtLeaves: true}
		x.Visit = func(parent, cur *vfExec) {
			// model
			m := vfNDNew(sc.init)
			accepted := 0
			shrinkSinceWrite := false // an accepted resize made some dimension smaller since the last successful write
			var problems []string
			lastIdx := len(cur.Hist) - 1
			for i, o := range cur.Hist {
				if o.Path != "/r" {
					continue
				}
				err := cur.Errs[i]
				switch o.Op {
				case "write":
					if err == nil {
						for k := range m.data {
							m.data[k] = float64(vfPatVal(k, o.Pat)) + 0.5
						}
						shrinkSinceWrite = false
					} else if i == lastIdx {
						problems = append(problems, "write-of-full-current-extent-rejected")
					}
				case "resize":
					within := true
					for d := range o.Dims {
						if sc.max[d] != U && o.Dims[d] > sc.max[d] {
							within = false
						}
					}
					if within {
						if err != nil {
							if i == lastIdx {
								problems = append(problems, "resize-within-max-rejected")
							}
						} else {
							for d := range o.Dims {
								if o.Dims[d] < m.dims[d] {
									shrinkSinceWrite = true
								}
							}
							m = m.resize(o.Dims)
							accepted++
						}
					} else if err == nil {
						if i == lastIdx {
							problems = append(problems, "resize-beyond-max-accepted")
						}
						m = m.resize(o.Dims)
					}
				}
			}
			hs := sc.name + ": " + vfOpsString(cur.Hist[len(prefix):])
			if accepted > 0 {
				r.Case(hs)
			} else {
				r.Case("")
			}
			last := cur.Hist[lastIdx]
			detail := map[string]any{"scenario": sc.name, "ops": cur.Hist, "history": vfOpsString(cur.Hist[len(prefix):]), "model_dims": m.dims, "model": fmt.Sprint(m.data)}
			if cur.Panics[lastIdx] {
				problems = append(problems, "panic")
				detail["panic"] = fmt.Sprint(cur.LastErr())
			}
			if cur.Tree == nil {
				if parent.Tree != nil {
					problems = append(problems, "file-unopenable")
					detail["open_error"] = fmt.Sprint(cur.OpenErr)
				}
			} else {
				ob := cur.Tree.Get("/r")
				if ob == nil {
					problems = append(problems, "dataset-vanished")
				} else {
					smu.Lock()
					states[sc.name+ob.Info+ob.Read] = struct{}{}
					smu.Unlock()
					if ob.Shape != fmt.Sprint(m.dims) {
						problems = append(problems, "shape-not-last-accepted")
						detail["shape"] = ob.Shape
					}
					want := vfFloatBits(m.data)
					if ob.Read == "ERR" {
						problems = append(problems, "read-error")
					} else if ob.Read != want {
						shape := vfC13Shape(ob.Read, m)
						if shape == "read-stale-data-in-new-space" && !shrinkSinceWrite {
							// the recorded defect needs a shrink before the grow; stale data without one is another bug
							shape = "read-nonzero-in-new-space-without-prior-shrink"
						}
						problems = append(problems, shape)
						detail["read"] = ob.Read
						detail["want"] = want
					}
				}
				// the neighbour must be untouched (C04 flavour, cheap to keep here)
				if po, co := parent.Tree.Get("/other"), cur.Tree.Get("/other"); po != nil && (co == nil || co.Content() != po.Content()) {
					problems = append(problems, "neighbour-changed")
				}
				if cur.Closed != nil && cur.Closed.String() != cur.Tree.String() {
					problems = append(problems, "close-changes-content")
				}
			}
			if len(problems) == 0 {
				r.Outcome("ok")
				return
			}
			rank := fmt.Sprintf("rank%d", len(sc.init))
			for _, p := range vfUniq(problems) {
				// only report what the parent did not already show (problem persists otherwise)
				r.Fail(fmt.Sprintf("%s/%s/%s", rank, last.Op, p), detail)
			}
			r.Outcome("mismatch")
		}
		x.Run()
	}
	r.States(int64(len(states)))
	r.Sample(map[string]any{"scenario": scens[0].name, "sequence": "resize(/r,[4]); write(/r,p2); resize(/r,[1]); resize(/r,[3])", "expect": "[p2[0], 0, 0]"})
	_ = core.Version0
}

func vfMaxStr(m []uint64) string {
	parts := make([]string, len(m))
	for i, x := range m {
		if x == Unlimited {
			parts[i] = "U"
		} else {
			parts[i] = fmt.Sprint(x)
		}
	}
	return "[" + strings.Join(parts, " ") + "]"
}

// vfC13Shape names the shape of a wrong answer.
func vfC13Shape(read string, m *vfND) string {
	var n int
	fmt.Sscanf(read, "%d:", &n)
	if n != len(m.data) {
		return "read-length-differs"
	}
	parts := strings.Split(strings.TrimSuffix(read[strings.Index(read, ":")+1:], ","), ",")
	stale, lost, other := 0, 0, 0
	for i, p := range parts {
		var bits uint64
		fmt.Sscanf(p, "%x", &bits)
		g := math.Float64frombits(bits)
		if g == m.data[i] {
			continue
		}
		switch {
		case m.data[i] == 0 && g != 0:
			stale++
		case m.data[i] != 0 && g == 0:
			lost++
		default:
			other++
		}
	}
	switch {
	case other > 0:
		return "read-values-differ"
	case stale > 0 && lost > 0:
		return "read-stale-and-lost"
	case stale > 0:
		return "read-stale-data-in-new-space"
	default:
		return "read-retained-data-lost"
	}
}
