//go:build verif

package hdf5

import (
	"fmt"
	"strconv"
	"strings"
)

// ---------------------------------------------------------------------------------------
// R3 — parser for the h5dump DDL outputs shipped in testdata/hdf5_official/ddl.
//
// The parser is strict: anything it does not recognise is an error for the whole DDL file
// (structure) or for the one DATA block (values); nothing is guessed. What the DDL does not
// contain (dumps made with -H, -A, -d, -g, -n, -o, packed bits, subsets …) is recorded as
// such on the node so that the oracle only uses a DDL for what it states.
// ---------------------------------------------------------------------------------------

type vfDDLMember struct {
	Name string
	Type *vfDDLType
}

type vfDDLType struct {
	Class     string // int float string compound array enum vlen reference opaque bitfield complex named
	Size      int    // bytes of one element; 0 = the DDL does not say
	Signed    bool
	Order     string // LE BE VAX ""
	NonStd    string // descriptive text of a type h5dump could not name (odd precision)
	Var       bool   // variable-length string
	Pad       string // NULLTERM NULLPAD SPACEPAD
	CSet      string // ASCII UTF8
	Members   []vfDDLMember
	Dims      []uint64
	Base      *vfDDLType
	EnumNames []string
	EnumVals  []string
	Ref       string // path of the committed datatype for Class "named"
	RefKind   string // reference flavour
	Tag       string
}

type vfDDLSpace struct {
	Kind string // SCALAR NULL SIMPLE
	Dims []uint64
	Max  []uint64 // ^0 = H5S_UNLIMITED
}

// NElems is the number of elements the dataspace selects.
func (s *vfDDLSpace) NElems() uint64 {
	switch s.Kind {
	case "SCALAR":
		return 1
	case "NULL":
		return 0
	}
	n := uint64(1)
	for _, d := range s.Dims {
		n *= d
	}
	return n
}

type vfDDLAttr struct {
	Name    string
	Type    *vfDDLType
	Space   *vfDDLSpace
	HasData bool
	Data    string
}

type vfDDLNode struct {
	Kind     string // group dataset datatype softlink extlink udlink
	Name     string
	Path     string // absolute, no trailing slash except the root
	HardLink string // body was HARDLINK "<path>": same object as that path
	Type     *vfDDLType
	Space    *vfDDLSpace
	HasData  bool
	NData    int // number of DATA blocks (packed-bits dumps have several)
	Data     string
	Subset   bool
	Packed   bool
	Layout   string // first word of STORAGE_LAYOUT, "" when not printed
	Filters  string
	Attrs    []*vfDDLAttr
	Children []*vfDDLNode
	Target   string // soft link value / external "file path"
	// Listing is true for a group whose member list was printed (not a HARDLINK stub).
	Listing bool
	// EmptyBody is true when nothing at all was printed between the braces.
	EmptyBody bool
	// FromContents: node built from a FILE_CONTENTS listing (names and kinds only).
	FromContents bool
	// Unnamed: an object without a link, printed by h5dump as "/#<address>" inside the root
	// group block; it is not a member of any group.
	Unnamed bool
}

type vfDDLBlock struct {
	H5Name     string
	Top        []*vfDDLNode
	AttrsShown bool // at least one ATTRIBUTE was printed in this block
	TopAttrs   int  // top-level ATTRIBUTE blocks (dumped with -a): owner unknown, not used
	HasData    bool
	HasSubset  bool
	Escaped    bool // dumped with -e (C escapes inside strings)
}

type vfDDLErr struct{ msg string }

type vfDDLParser struct {
	s   string
	p   int
	esc bool
	blk *vfDDLBlock
}

func (p *vfDDLParser) fail(format string, a ...any) {
	line := 1 + strings.Count(p.s[:min(p.p, len(p.s))], "\n")
	panic(vfDDLErr{fmt.Sprintf("line %d: ", line) + fmt.Sprintf(format, a...)})
}

func (p *vfDDLParser) ws() {
	for p.p < len(p.s) {
		switch p.s[p.p] {
		case ' ', '\t', '\n', '\r':
			p.p++
		default:
			return
		}
	}
}

func (p *vfDDLParser) eof() bool { p.ws(); return p.p >= len(p.s) }

func (p *vfDDLParser) peek() byte {
	p.ws()
	if p.p >= len(p.s) {
		return 0
	}
	return p.s[p.p]
}

func vfDDLWordByte(c byte) bool {
	switch c {
	case ' ', '\t', '\n', '\r', '{', '}', '(', ')', '[', ']', ';', ',', '"':
		return false
	}
	return true
}

func (p *vfDDLParser) word() string {
	p.ws()
	st := p.p
	for p.p < len(p.s) && vfDDLWordByte(p.s[p.p]) {
		p.p++
	}
	return p.s[st:p.p]
}

func (p *vfDDLParser) peekWord() string {
	save := p.p
	w := p.word()
	p.p = save
	return w
}

func (p *vfDDLParser) expect(c byte) {
	if p.peek() != c {
		got := "EOF"
		if p.p < len(p.s) {
			got = strconv.Quote(p.s[p.p:min(p.p+12, len(p.s))])
		}
		p.fail("expected %q, found %s", string(c), got)
	}
	p.p++
}

func (p *vfDDLParser) restOfLine() string {
	st := p.p
	for p.p < len(p.s) && p.s[p.p] != '\n' {
		p.p++
	}
	return strings.TrimSpace(p.s[st:p.p])
}

// vfDDLUnquote reads a quoted string starting at s[i]=='"'. Default h5dump mode prints the
// characters of a string raw (including '"', '\\' and newlines) and only other unprintable
// bytes as \ooo; with -e it prints C escapes. Returns the decoded bytes, the index after the
// closing quote and whether a raw newline was inside (h5dump then re-indents the following
// line, so the content is not reliable).
func vfDDLUnquote(s string, i int, esc bool) (val string, next int, rawNL bool, ok bool) {
	if i >= len(s) || s[i] != '"' {
		return "", i, false, false
	}
	var sb strings.Builder
	j := i + 1
	for j < len(s) {
		c := s[j]
		if c == '"' {
			return sb.String(), j + 1, rawNL, true
		}
		if c == '\n' {
			rawNL = true
		}
		if c == '\\' && j+3 < len(s) && vfIsOct(s[j+1]) && vfIsOct(s[j+2]) && vfIsOct(s[j+3]) {
			v := (int(s[j+1]-'0') << 6) | (int(s[j+2]-'0') << 3) | int(s[j+3]-'0')
			sb.WriteByte(byte(v))
			j += 4
			continue
		}
		if c == '\\' && esc && j+1 < len(s) {
			switch s[j+1] {
			case '"':
				sb.WriteByte('"')
			case '\\':
				sb.WriteByte('\\')
			case 'b':
				sb.WriteByte('\b')
			case 'f':
				sb.WriteByte('\f')
			case 'n':
				sb.WriteByte('\n')
			case 'r':
				sb.WriteByte('\r')
			case 't':
				sb.WriteByte('\t')
			default:
				return "", j, rawNL, false
			}
			j += 2
			continue
		}
		sb.WriteByte(c)
		j++
	}
	return "", j, rawNL, false
}

func vfIsOct(c byte) bool { return c >= '0' && c <= '7' }

func (p *vfDDLParser) qstring() string {
	if p.peek() != '"' {
		p.fail("expected a quoted string")
	}
	v, next, _, ok := vfDDLUnquote(p.s, p.p, p.esc)
	if !ok {
		p.fail("unterminated string")
	}
	p.p = next
	return v
}

// skipBalanced skips a { … } block (quote-aware); p.p is at the '{'.
func (p *vfDDLParser) skipBalanced() string {
	p.expect('{')
	st := p.p
	depth := 1
	for p.p < len(p.s) {
		switch p.s[p.p] {
		case '{':
			depth++
		case '}':
			depth--
			if depth == 0 {
				txt := p.s[st:p.p]
				p.p++
				return txt
			}
		case '"':
			_, next, _, ok := vfDDLUnquote(p.s, p.p, p.esc)
			if !ok {
				p.fail("unterminated string in skipped block")
			}
			p.p = next
			continue
		}
		p.p++
	}
	p.fail("unbalanced block")
	return ""
}

// dataBlock captures the text of DATA { … }. h5dump puts "DATA {" and the closing brace on
// lines of their own at the same indentation and indents everything inside at least as
// deep with more text on the line, so the block ends at the first line that consists of
// exactly that indentation and "}". (Brace matching would be derailed by raw quotes inside
// string data.) p.p is just after the word DATA.
func (p *vfDDLParser) dataBlock() string {
	// indentation of the line holding DATA
	ls := strings.LastIndexByte(p.s[:p.p], '\n') + 1
	indent := p.s[ls : p.p-len("DATA")]
	if strings.TrimSpace(indent) != "" {
		p.fail("DATA is not the first word of its line")
	}
	p.expect('{')
	// rest of the line must be empty
	if strings.TrimSpace(p.restOfLine()) != "" {
		p.fail("text after DATA {")
	}
	if p.p < len(p.s) {
		p.p++ // newline
	}
	st := p.p
	closing := indent + "}"
	for p.p < len(p.s) {
		le := strings.IndexByte(p.s[p.p:], '\n')
		var line string
		if le < 0 {
			line = p.s[p.p:]
			le = len(p.s) - p.p
		} else {
			line = p.s[p.p : p.p+le]
		}
		if strings.TrimRight(line, " \r") == closing {
			txt := p.s[st:p.p]
			p.p += le
			return txt
		}
		p.p += le + 1
	}
	p.fail("DATA block not closed")
	return ""
}

func (p *vfDDLParser) parseDimList() []uint64 {
	// ( a, b, c ) with H5S_UNLIMITED
	p.expect('(')
	var out []uint64
	for {
		w := p.word()
		if w == "" {
			p.fail("dimension expected")
		}
		if w == "H5S_UNLIMITED" {
			out = append(out, ^uint64(0))
		} else {
			v, err := strconv.ParseUint(w, 10, 64)
			if err != nil {
				p.fail("bad dimension %q", w)
			}
			out = append(out, v)
		}
		if p.peek() == ',' {
			p.p++
			continue
		}
		break
	}
	p.expect(')')
	return out
}

func (p *vfDDLParser) parseSpace() *vfDDLSpace {
	w := p.word()
	switch w {
	case "SCALAR", "NULL":
		return &vfDDLSpace{Kind: w}
	case "SIMPLE":
		p.expect('{')
		sp := &vfDDLSpace{Kind: "SIMPLE"}
		sp.Dims = p.parseDimList()
		if p.peek() != '/' {
			p.fail("expected / in dataspace")
		}
		p.p++
		sp.Max = p.parseDimList()
		p.expect('}')
		return sp
	}
	p.fail("unknown dataspace %q", w)
	return nil
}

func vfDDLAtomic(w string) *vfDDLType {
	order := func(s string) (string, string, bool) {
		switch {
		case strings.HasSuffix(s, "LE"):
			return s[:len(s)-2], "LE", true
		case strings.HasSuffix(s, "BE"):
			return s[:len(s)-2], "BE", true
		}
		return s, "", false
	}
	bits := func(s string) (int, bool) {
		n, err := strconv.Atoi(s)
		if err != nil || n%8 != 0 || n <= 0 {
			return 0, false
		}
		return n / 8, true
	}
	switch {
	case strings.HasPrefix(w, "H5T_STD_I"), strings.HasPrefix(w, "H5T_STD_U"), strings.HasPrefix(w, "H5T_STD_B"):
		rest, ord, ok := order(w[len("H5T_STD_I"):])
		if !ok {
			return nil
		}
		sz, ok := bits(rest)
		if !ok {
			return nil
		}
		switch w[len("H5T_STD_")] {
		case 'I':
			return &vfDDLType{Class: "int", Size: sz, Signed: true, Order: ord}
		case 'U':
			return &vfDDLType{Class: "int", Size: sz, Order: ord}
		default:
			return &vfDDLType{Class: "bitfield", Size: sz, Order: ord}
		}
	case strings.HasPrefix(w, "H5T_IEEE_F"):
		rest, ord, ok := order(w[len("H5T_IEEE_F"):])
		if !ok {
			return nil
		}
		sz, ok := bits(rest)
		if !ok {
			return nil
		}
		return &vfDDLType{Class: "float", Size: sz, Order: ord}
	case strings.HasPrefix(w, "H5T_FLOAT_BFLOAT16"):
		_, ord, ok := order(w)
		if !ok {
			return nil
		}
		return &vfDDLType{Class: "float", Size: 2, Order: ord, NonStd: "bfloat16"}
	case strings.HasPrefix(w, "H5T_COMPLEX_IEEE_F"):
		rest, ord, ok := order(w[len("H5T_COMPLEX_IEEE_F"):])
		if !ok {
			return nil
		}
		sz, ok := bits(rest)
		if !ok {
			return nil
		}
		return &vfDDLType{Class: "complex", Size: 2 * sz, Order: ord, Base: &vfDDLType{Class: "float", Size: sz, Order: ord}}
	case w == "H5T_VAX_F32":
		return &vfDDLType{Class: "float", Size: 4, Order: "VAX"}
	case w == "H5T_VAX_F64":
		return &vfDDLType{Class: "float", Size: 8, Order: "VAX"}
	}
	return nil
}

// parseType parses the datatype that follows DATATYPE (dataset/attribute) or a member type.
func (p *vfDDLParser) parseType() *vfDDLType {
	c := p.peek()
	if c == '"' {
		return &vfDDLType{Class: "named", Ref: p.qstring()}
	}
	if c >= '0' && c <= '9' {
		// "32-bit little-endian integer 16-bit precision": a type h5dump has no name for
		st := p.p
		for p.p < len(p.s) && p.s[p.p] != '\n' && p.s[p.p] != '"' && p.s[p.p] != ';' && p.s[p.p] != '}' {
			p.p++
		}
		txt := strings.TrimSpace(p.s[st:p.p])
		f := strings.Fields(txt)
		t := &vfDDLType{NonStd: txt}
		if len(f) >= 3 && strings.HasSuffix(f[0], "-bit") {
			n, err := strconv.Atoi(strings.TrimSuffix(f[0], "-bit"))
			if err != nil || n%8 != 0 {
				p.fail("unparsable type text %q", txt)
			}
			t.Size = n / 8
			switch f[1] {
			case "little-endian":
				t.Order = "LE"
			case "big-endian":
				t.Order = "BE"
			default:
				p.fail("unparsable type text %q", txt)
			}
			switch {
			case f[2] == "integer":
				t.Class, t.Signed = "int", true
			case f[2] == "unsigned" && len(f) > 3 && f[3] == "integer":
				t.Class = "int"
			case f[2] == "floating-point":
				t.Class = "float"
			default:
				p.fail("unparsable type text %q", txt)
			}
			return t
		}
		p.fail("unparsable type text %q", txt)
	}
	w := p.word()
	switch w {
	case "H5T_COMPOUND":
		p.expect('{')
		t := &vfDDLType{Class: "compound"}
		for p.peek() != '}' {
			mt := p.parseType()
			name := p.qstring()
			p.expect(';')
			t.Members = append(t.Members, vfDDLMember{Name: name, Type: mt})
		}
		p.expect('}')
		return t
	case "H5T_ARRAY":
		p.expect('{')
		t := &vfDDLType{Class: "array"}
		for p.peek() == '[' {
			p.p++
			dw := p.word()
			v, err := strconv.ParseUint(dw, 10, 64)
			if err != nil {
				p.fail("bad array dimension %q", dw)
			}
			t.Dims = append(t.Dims, v)
			p.expect(']')
		}
		if len(t.Dims) == 0 {
			p.fail("array type without dimensions")
		}
		t.Base = p.parseType()
		p.expect('}')
		if t.Base.Size > 0 && !t.Base.Var {
			n := uint64(t.Base.Size)
			for _, d := range t.Dims {
				n *= d
			}
			t.Size = int(n)
		}
		return t
	case "H5T_VLEN":
		p.expect('{')
		t := &vfDDLType{Class: "vlen"}
		t.Base = p.parseType()
		p.expect('}')
		return t
	case "H5T_COMPLEX":
		p.expect('{')
		t := &vfDDLType{Class: "complex"}
		t.Base = p.parseType()
		p.expect('}')
		if t.Base.Size > 0 {
			t.Size = 2 * t.Base.Size
		}
		return t
	case "H5T_STRING":
		p.expect('{')
		t := &vfDDLType{Class: "string"}
		for p.peek() != '}' {
			k := p.word()
			v := p.word()
			p.expect(';')
			switch k {
			case "STRSIZE":
				if v == "H5T_VARIABLE" {
					t.Var = true
				} else {
					n, err := strconv.Atoi(v)
					if err != nil {
						p.fail("bad STRSIZE %q", v)
					}
					t.Size = n
				}
			case "STRPAD":
				t.Pad = strings.TrimPrefix(v, "H5T_STR_")
			case "CSET":
				t.CSet = strings.TrimPrefix(v, "H5T_CSET_")
			case "CTYPE":
			default:
				p.fail("unknown string property %q", k)
			}
		}
		p.expect('}')
		return t
	case "H5T_ENUM":
		p.expect('{')
		t := &vfDDLType{Class: "enum"}
		t.Base = p.parseType()
		p.expect(';')
		for p.peek() != '}' {
			n := p.qstring()
			v := p.word()
			p.expect(';')
			t.EnumNames = append(t.EnumNames, n)
			t.EnumVals = append(t.EnumVals, v)
		}
		p.expect('}')
		t.Size = t.Base.Size
		return t
	case "H5T_REFERENCE":
		p.expect('{')
		t := &vfDDLType{Class: "reference", RefKind: p.word()}
		p.expect('}')
		return t
	case "H5T_OPAQUE":
		t := &vfDDLType{Class: "opaque"}
		t.Tag = p.skipBalanced()
		return t
	}
	if t := vfDDLAtomic(w); t != nil {
		return t
	}
	p.fail("unknown datatype %q", w)
	return nil
}

// vfDDLUnnamed: h5dump prints an object that no link reaches as "#<address>[:<n>]" in the
// root group block and refers to it as "/#<address>".
func vfDDLUnnamed(name string) bool {
	name = strings.TrimPrefix(name, "/")
	if len(name) < 2 || name[0] != '#' {
		return false
	}
	for _, c := range name[1:] {
		if (c < '0' || c > '9') && c != ':' {
			return false
		}
	}
	return true
}

func vfDDLJoin(parent, name string) string {
	if strings.HasPrefix(name, "/") {
		return name
	}
	if parent == "/" || parent == "" {
		return "/" + name
	}
	return parent + "/" + name
}

const (
	vfDDLCtxTop = iota
	vfDDLCtxGroup
	vfDDLCtxDataset
	vfDDLCtxForeign // inside an EXTERNAL_LINK block: objects of another file
)

// parseItems parses statements up to (and including) the closing brace of the current
// block. owner is the node the statements belong to (nil at the top of an HDF5 block).
func (p *vfDDLParser) parseItems(ctx int, owner *vfDDLNode, parentPath string) []*vfDDLNode {
	var out []*vfDDLNode
	var lastDT *vfDDLNode
	nItems := 0
	for {
		if p.eof() {
			p.fail("unexpected end of file inside a block")
		}
		if p.peek() == '}' {
			p.p++
			if owner != nil && nItems == 0 {
				owner.EmptyBody = true
			}
			return out
		}
		kw := p.word()
		nItems++
		switch kw {
		case "GROUP":
			n := &vfDDLNode{Kind: "group", Name: p.qstring()}
			n.Path = vfDDLJoin(parentPath, n.Name)
			p.expect('{')
			n.Listing = true
			n.Children = p.parseItems(vfDDLCtxGroup, n, n.Path)
			if n.HardLink != "" {
				n.Listing = false
			}
			out = append(out, n)
			lastDT = nil
		case "DATASET":
			n := &vfDDLNode{Kind: "dataset", Name: p.qstring()}
			n.Path = vfDDLJoin(parentPath, n.Name)
			p.expect('{')
			p.parseItems(vfDDLCtxDataset, n, n.Path)
			out = append(out, n)
			lastDT = nil
		case "DATATYPE":
			if ctx == vfDDLCtxDataset {
				if owner.Type != nil {
					p.fail("second DATATYPE in one object")
				}
				owner.Type = p.parseType()
				break
			}
			n := &vfDDLNode{Kind: "datatype", Name: p.qstring()}
			n.Path = vfDDLJoin(parentPath, n.Name)
			n.Unnamed = vfDDLUnnamed(n.Name) && (parentPath == "/" || parentPath == "")
			if p.peekWord() == "HARDLINK" {
				p.word()
				n.HardLink = p.qstring()
			} else {
				n.Type = p.parseType()
			}
			if p.peek() == ';' {
				p.p++
			}
			out = append(out, n)
			lastDT = n
		case "DATASPACE":
			if ctx != vfDDLCtxDataset {
				p.fail("DATASPACE outside a dataset/attribute")
			}
			owner.Space = p.parseSpace()
		case "DATA":
			if ctx != vfDDLCtxDataset {
				p.fail("DATA outside a dataset/attribute")
			}
			txt := p.dataBlock()
			owner.NData++
			if !owner.HasData {
				owner.HasData = true
				owner.Data = txt
			}
			p.blk.HasData = true
		case "SUBSET":
			if ctx != vfDDLCtxDataset {
				p.fail("SUBSET outside a dataset")
			}
			p.expect('{')
			owner.Subset = true
			p.blk.HasSubset = true
			for p.peek() != '}' {
				k := p.word()
				switch k {
				case "START", "STRIDE", "COUNT", "BLOCK":
					p.parseDimList()
					if p.peek() == ';' {
						p.p++
					}
				case "DATA":
					txt := p.dataBlock()
					owner.NData++
					owner.HasData = true
					owner.Data = txt
					p.blk.HasData = true
				case "PACKED_BITS":
					p.restOfLine()
					owner.Packed = true
				default:
					p.fail("unknown keyword %q in SUBSET", k)
				}
			}
			p.expect('}')
		case "PACKED_BITS":
			p.restOfLine()
			if owner != nil {
				owner.Packed = true
			}
		case "ATTRIBUTE":
			a := &vfDDLAttr{Name: p.qstring()}
			p.expect('{')
			tmp := &vfDDLNode{Kind: "attribute"}
			p.parseItems(vfDDLCtxDataset, tmp, "")
			a.Type, a.Space, a.HasData, a.Data = tmp.Type, tmp.Space, tmp.HasData, tmp.Data
			if len(tmp.Attrs) > 0 || len(tmp.Children) > 0 {
				p.fail("nested objects inside ATTRIBUTE %q", a.Name)
			}
			p.blk.AttrsShown = true
			switch {
			case lastDT != nil:
				// attributes of a committed datatype follow its one-line statement
				lastDT.Attrs = append(lastDT.Attrs, a)
			case ctx == vfDDLCtxTop:
				p.blk.TopAttrs++ // dumped with -a: the DDL does not say whose attribute it is
			case owner != nil:
				owner.Attrs = append(owner.Attrs, a)
			}
		case "SOFTLINK":
			n := &vfDDLNode{Kind: "softlink", Name: p.qstring()}
			n.Path = vfDDLJoin(parentPath, n.Name)
			p.expect('{')
			if p.peek() != '}' {
				if w := p.word(); w != "LINKTARGET" {
					p.fail("expected LINKTARGET, found %q", w)
				}
				n.Target = p.qstring()
			}
			p.expect('}')
			out = append(out, n)
			lastDT = nil
		case "EXTERNAL_LINK":
			n := &vfDDLNode{Kind: "extlink", Name: p.qstring()}
			n.Path = vfDDLJoin(parentPath, n.Name)
			p.expect('{')
			for p.peek() != '}' {
				switch w := p.peekWord(); w {
				case "TARGETFILE":
					p.word()
					n.Target = p.qstring() + " " + n.Target
				case "TARGETPATH":
					p.word()
					n.Target += p.qstring()
				case "GROUP", "DATASET", "DATATYPE", "ATTRIBUTE":
					// h5dump followed the link: what follows describes another file
					save := p.blk.AttrsShown
					p.parseItemsForeign()
					p.blk.AttrsShown = save
				default:
					p.fail("unknown keyword %q in EXTERNAL_LINK", w)
				}
				if p.peek() == '}' {
					break
				}
			}
			p.expect('}')
			out = append(out, n)
			lastDT = nil
		case "USERDEFINED_LINK":
			n := &vfDDLNode{Kind: "udlink", Name: p.qstring()}
			n.Path = vfDDLJoin(parentPath, n.Name)
			p.expect('{')
			for p.peek() != '}' {
				if w := p.word(); w != "LINKCLASS" {
					p.fail("unknown keyword %q in USERDEFINED_LINK", w)
				}
				n.Target = "class " + p.word()
			}
			p.expect('}')
			out = append(out, n)
			lastDT = nil
		case "HARDLINK":
			if owner == nil {
				p.fail("HARDLINK at top level")
			}
			owner.HardLink = p.qstring()
		case "COMMENT":
			p.qstring()
			nItems-- // a comment is not content in the sense of EmptyBody
		case "STORAGE_LAYOUT":
			txt := p.skipBalanced()
			if owner != nil {
				f := strings.Fields(txt)
				if len(f) > 0 {
					owner.Layout = f[0]
				}
			}
		case "FILTERS":
			txt := p.skipBalanced()
			if owner != nil {
				owner.Filters = strings.Join(strings.Fields(txt), " ")
			}
		case "FILLVALUE", "ALLOCATION_TIME", "SUPER_BLOCK", "USER_BLOCK":
			p.skipBalanced()
		case "FILE_CONTENTS":
			if ctx != vfDDLCtxTop {
				p.fail("FILE_CONTENTS not at top level")
			}
			out = append(out, p.parseContents()...)
		default:
			p.fail("unknown keyword %q", kw)
		}
	}
}

// parseItemsForeign parses (and discards) the objects h5dump printed inside an
// EXTERNAL_LINK block after following the link into another file. It stops before the
// closing brace of the link block.
func (p *vfDDLParser) parseItemsForeign() {
	for p.peek() != '}' {
		kw := p.peekWord()
		switch kw {
		case "GROUP":
			p.word()
			n := &vfDDLNode{Kind: "group", Name: p.qstring()}
			p.expect('{')
			p.parseItems(vfDDLCtxGroup, n, "/<foreign>")
		case "DATASET":
			p.word()
			n := &vfDDLNode{Kind: "dataset", Name: p.qstring()}
			p.expect('{')
			p.parseItems(vfDDLCtxDataset, n, "/<foreign>")
		case "DATATYPE":
			p.word()
			p.qstring()
			if p.peekWord() == "HARDLINK" {
				p.word()
				p.qstring()
			} else {
				p.parseType()
			}
			if p.peek() == ';' {
				p.p++
			}
		case "ATTRIBUTE":
			p.word()
			p.qstring()
			p.expect('{')
			p.parseItems(vfDDLCtxDataset, &vfDDLNode{Kind: "attribute"}, "")
		default:
			return
		}
	}
}

// parseContents parses FILE_CONTENTS { … } (h5dump -n [1]) into a tree of nodes that carry
// names and kinds only.
func (p *vfDDLParser) parseContents() []*vfDDLNode {
	p.expect('{')
	p.restOfLine()
	nodes := map[string]*vfDDLNode{}
	var root *vfDDLNode
	var order []*vfDDLNode
	var last *vfDDLNode
	kinds := []struct{ prefix, kind string }{
		{"group", "group"}, {"dataset", "dataset"}, {"datatype", "datatype"}, {"attribute", "attribute"},
		{"ext link", "extlink"}, {"link", "softlink"}, {"unknown type of UD link", "udlink"},
	}
	for {
		if p.p >= len(p.s) {
			p.fail("FILE_CONTENTS not closed")
		}
		if p.s[p.p] == '\n' {
			p.p++
		}
		line := p.restOfLine()
		if line == "}" {
			break
		}
		if line == "" {
			continue
		}
		kind, rest := "", ""
		for _, k := range kinds {
			if strings.HasPrefix(line, k.prefix+" ") {
				kind, rest = k.kind, strings.TrimSpace(line[len(k.prefix):])
				break
			}
		}
		if kind == "" || !strings.HasPrefix(rest, "/") {
			p.fail("unknown FILE_CONTENTS line %q", line)
		}
		target := ""
		if i := strings.Index(rest, " -> "); i >= 0 {
			rest, target = rest[:i], rest[i+4:]
		}
		if kind == "attribute" {
			if last == nil || !(strings.HasPrefix(rest, last.Path+"/") || last.Path == "/") {
				p.fail("attribute line %q does not follow its object", line)
			}
			name := strings.TrimPrefix(rest, last.Path)
			name = strings.TrimPrefix(name, "/")
			last.Attrs = append(last.Attrs, &vfDDLAttr{Name: name})
			p.blk.AttrsShown = true
			continue
		}
		n := &vfDDLNode{Kind: kind, Path: rest, FromContents: true}
		if rest != "/" {
			n.Name = rest[strings.LastIndexByte(rest, '/')+1:]
		}
		switch kind {
		case "group", "dataset", "datatype":
			n.HardLink = target
			if kind == "group" && target == "" {
				n.Listing = true
			}
		default:
			n.Target = target
		}
		if vfDDLUnnamed(n.Name) && strings.Count(rest, "/") == 1 {
			continue // an object without a name, listed as /#<address>
		}
		nodes[rest] = n
		order = append(order, n)
		last = n
		if rest == "/" {
			root = n
		}
	}
	if root == nil {
		p.fail("FILE_CONTENTS without the root group")
	}
	root.Name = "/"
	for _, n := range order {
		if n == root {
			continue
		}
		pp := n.Path[:strings.LastIndexByte(n.Path, '/')]
		if pp == "" {
			pp = "/"
		}
		par := nodes[pp]
		if par == nil {
			p.fail("FILE_CONTENTS entry %q without its parent", n.Path)
		}
		par.Children = append(par.Children, n)
	}
	return []*vfDDLNode{root}
}

// vfDDLParse parses one DDL file. preamble is the text before the first HDF5 header (non
// empty for dumps made through another VFD, e.g. "Using revision 1").
func vfDDLParse(text string) (blocks []*vfDDLBlock, preamble, trailer string, err error) {
	defer func() {
		if r := recover(); r != nil {
			if e, ok := r.(vfDDLErr); ok {
				err = fmt.Errorf("%s", e.msg)
				return
			}
			panic(r)
		}
	}()
	p := &vfDDLParser{s: text}
	// -e mode: C escapes appear inside strings
	for i := 0; i+1 < len(text); i++ {
		if text[i] == '\\' {
			switch text[i+1] {
			case 'n', 't', 'r', 'b', 'f', '"', '\\':
				p.esc = true
			}
		}
	}
	for !p.eof() {
		// a header is a line that starts with: HDF5 "<file>" {
		atLineStart := p.p == 0 || p.s[p.p-1] == '\n'
		if !atLineStart || !strings.HasPrefix(p.s[p.p:], "HDF5 \"") {
			if len(blocks) == 0 {
				// preamble line
				preamble += p.restOfLine() + "\n"
				continue
			}
			if strings.HasPrefix(p.s[p.p:], "HDF5-DIAG") {
				// the error stack h5dump printed after the (complete) blocks
				trailer = strings.TrimSpace(p.s[p.p:])
				break
			}
			p.fail("text %q after an HDF5 block", p.restOfLine())
		}
		p.word()
		b := &vfDDLBlock{H5Name: p.qstring(), Escaped: p.esc}
		p.blk = b
		p.expect('{')
		b.Top = p.parseItems(vfDDLCtxTop, nil, "/")
		blocks = append(blocks, b)
	}
	return blocks, preamble, trailer, nil
}

// ---------------------------------------------------------------------------------------
// DATA values
// ---------------------------------------------------------------------------------------

type vfDDLVal struct {
	K   byte // 'w' bare word, 's' quoted string, '{' compound, '[' array, '(' vlen sequence
	W   string
	Sub []*vfDDLVal
	NL  bool // the string held a raw newline: h5dump re-indented it, content unreliable
}

type vfDDLDataParser struct {
	s   string
	p   int
	esc bool
}

func (d *vfDDLDataParser) ws() {
	for d.p < len(d.s) {
		switch d.s[d.p] {
		case ' ', '\t', '\n', '\r':
			d.p++
		default:
			return
		}
	}
}

func (d *vfDDLDataParser) value(depth int) (*vfDDLVal, error) {
	d.ws()
	if d.p >= len(d.s) {
		return nil, fmt.Errorf("value expected at end of data")
	}
	if depth > 64 {
		return nil, fmt.Errorf("nesting too deep")
	}
	c := d.s[d.p]
	switch c {
	case '"':
		v, next, nl, ok := vfDDLUnquote(d.s, d.p, d.esc)
		if !ok {
			return nil, fmt.Errorf("unterminated string")
		}
		d.p = next
		return &vfDDLVal{K: 's', W: v, NL: nl}, nil
	case '{', '[', '(':
		closer := map[byte]byte{'{': '}', '[': ']', '(': ')'}[c]
		d.p++
		v := &vfDDLVal{K: c}
		d.ws()
		if d.p < len(d.s) && d.s[d.p] == closer {
			d.p++
			return v, nil
		}
		for {
			e, err := d.value(depth + 1)
			if err != nil {
				return nil, err
			}
			v.Sub = append(v.Sub, e)
			d.ws()
			if d.p >= len(d.s) {
				return nil, fmt.Errorf("unclosed %q", string(c))
			}
			if d.s[d.p] == ',' {
				d.p++
				continue
			}
			if d.s[d.p] == closer {
				d.p++
				return v, nil
			}
			return nil, fmt.Errorf("unexpected %q inside %q…", string(d.s[d.p]), string(c))
		}
	}
	st := d.p
	for d.p < len(d.s) && vfDDLWordByte(d.s[d.p]) {
		d.p++
	}
	if d.p == st {
		return nil, fmt.Errorf("unexpected %q", string(c))
	}
	return &vfDDLVal{K: 'w', W: d.s[st:d.p]}, nil
}

// indexPrefix consumes "(i,j,…):" if present.
func (d *vfDDLDataParser) indexPrefix() bool {
	d.ws()
	i := d.p
	if i >= len(d.s) || d.s[i] != '(' {
		return false
	}
	i++
	digits := 0
	for i < len(d.s) && (d.s[i] >= '0' && d.s[i] <= '9' || d.s[i] == ',') {
		if d.s[i] != ',' {
			digits++
		}
		i++
	}
	if digits == 0 || i+1 >= len(d.s) || d.s[i] != ')' || d.s[i+1] != ':' {
		return false
	}
	d.p = i + 2
	return true
}

// vfDDLParseData parses the text of a DATA block into its top-level elements: a comma
// separated list of values, each optionally preceded by an index "(i,j):". Anything else
// (strings printed by -r without commas, region-reference dumps, packed output …) is an
// error: the caller then does not compare values.
func vfDDLParseData(raw string, esc bool) ([]*vfDDLVal, error) {
	d := &vfDDLDataParser{s: raw, esc: esc}
	var out []*vfDDLVal
	d.ws()
	if d.p >= len(d.s) {
		return nil, nil
	}
	for {
		d.indexPrefix()
		v, err := d.value(0)
		if err != nil {
			return nil, err
		}
		out = append(out, v)
		d.ws()
		if d.p >= len(d.s) {
			return out, nil
		}
		if d.s[d.p] != ',' {
			return nil, fmt.Errorf("values not separated by a comma near %q", d.s[d.p:min(d.p+16, len(d.s))])
		}
		d.p++
	}
}

// vfDDLFind returns the node at an absolute path below the given top nodes.
func vfDDLFind(top []*vfDDLNode, path string) *vfDDLNode {
	var rec func(ns []*vfDDLNode) *vfDDLNode
	rec = func(ns []*vfDDLNode) *vfDDLNode {
		for _, n := range ns {
			if n.Path == path {
				return n
			}
			if n.Path == "/" || strings.HasPrefix(path, n.Path+"/") {
				if r := rec(n.Children); r != nil {
					return r
				}
			}
		}
		return nil
	}
	return rec(top)
}
