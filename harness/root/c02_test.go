//go:build verif

package hdf5

import (
	"encoding/binary"
	"encoding/hex"
	"fmt"
	"math"
	"sort"
	"strings"
	"sync"
	"testing"

	"github.com/scigolib/hdf5/internal/structures"
	"github.com/scigolib/hdf5/internal/verif/vkit"
)

// C02 — attribute write/delete histories behave like a name -> value map.

// vfCollidingNames finds two distinct names with equal name hash under the library's own
// hash function (deterministic birthday search).
var vfCollideOnce sync.Once
var vfCollideA, vfCollideB string

func vfCollidingNames() (string, string) {
	vfCollideOnce.Do(func() {
		seen := map[uint32]string{}
		for i := 0; i < 4000000; i++ {
			n := fmt.Sprintf("n%06d", i)
			h := structures.VerifNameHash(n)
			if o, ok := seen[h]; ok {
				vfCollideA, vfCollideB = o, n
				return
			}
			seen[h] = n
		}
	})
	return vfCollideA, vfCollideB
}

// vfExpectAttr is what the statement demands of a value kind: class, size, signedness and
// raw little-endian bytes. Strings: class 3, bytes = string (+ padding/terminator).
type vfAttrExpect struct {
	class  int
	size   int // 0 = do not check (strings)
	signed int // -1 n/a, 0 unsigned, 1 signed
	raw    []byte
	str    string
	count  int
}

func vfExpectAttr(kind string) vfAttrExpect {
	v := vfAttrValue(kind)
	le := binary.LittleEndian
	b4 := func(x uint32) []byte { b := make([]byte, 4); le.PutUint32(b, x); return b }
	b8 := func(x uint64) []byte { b := make([]byte, 8); le.PutUint64(b, x); return b }
	switch x := v.(type) {
	case int32:
		return vfAttrExpect{0, 4, 1, b4(uint32(x)), "", 1}
	case uint8:
		return vfAttrExpect{0, 1, 0, []byte{x}, "", 1}
	case int64:
		return vfAttrExpect{0, 8, 1, b8(uint64(x)), "", 1}
	case uint16:
		return vfAttrExpect{0, 2, 0, []byte{byte(x), byte(x >> 8)}, "", 1}
	case uint32:
		return vfAttrExpect{0, 4, 0, b4(x), "", 1}
	case uint64:
		return vfAttrExpect{0, 8, 0, b8(x), "", 1}
	case float32:
		return vfAttrExpect{1, 4, -1, b4(math.Float32bits(x)), "", 1}
	case float64:
		return vfAttrExpect{1, 8, -1, b8(math.Float64bits(x)), "", 1}
	case string:
		return vfAttrExpect{3, 0, -1, nil, x, 1}
	case []float64:
		var raw []byte
		for _, e := range x {
			raw = append(raw, b8(math.Float64bits(e))...)
		}
		return vfAttrExpect{1, 8, -1, raw, "", len(x)}
	case []int32:
		var raw []byte
		for _, e := range x {
			raw = append(raw, b4(uint32(e))...)
		}
		return vfAttrExpect{0, 4, 1, raw, "", len(x)}
	}
	panic("no expectation for " + kind)
}

// vfAttrMatches compares a dumped attribute with the expectation; "" if it matches.
func vfAttrMatches(a vfAttr, kind string) string {
	e := vfExpectAttr(kind)
	var class, size int
	var bits uint32
	if _, err := fmt.Sscanf(a.Type, "class%d/size%d/bits0x%x", &class, &size, &bits); err != nil {
		return "type-unparsed"
	}
	if class != e.class {
		return "class"
	}
	raw, _ := hex.DecodeString(a.Raw)
	if e.class == 3 {
		if !strings.HasPrefix(string(raw), e.str) {
			return "string-bytes"
		}
		for _, c := range raw[len(e.str):] {
			if c != 0 && c != ' ' {
				return "string-padding"
			}
		}
		if size < len(e.str) {
			return "string-size"
		}
		if a.Value != "ERR" && a.Value != "string:"+e.str {
			return "string-value"
		}
		return ""
	}
	if size != e.size {
		return "size"
	}
	if e.signed >= 0 && int(bits>>3&1) != e.signed {
		return "signedness"
	}
	if bits&1 != 0 {
		return "byte-order"
	}
	if hex.EncodeToString(raw) != hex.EncodeToString(e.raw) {
		return "raw-bytes"
	}
	// shape: e.count elements
	var d []int
	ds := strings.Trim(a.Dims, "[]")
	n := 1
	if ds != "" {
		for _, f := range strings.Fields(ds) {
			var x int
			fmt.Sscan(f, &x)
			d = append(d, x)
			n *= x
		}
	}
	if n != e.count || len(d) > 1 {
		return "shape"
	}
	return ""
}

func TestVerif_C02(t *testing.T) {
	r := vkit.Start(t, "C02", "model_checking")
	defer r.Finish()
	dir := vkit.Scratch(t)
	cA, cB := vfCollidingNames()
	if cA == "" {
		t.Fatalf("no colliding name pair found")
	}
	if structures.VerifNameHash(cA) != structures.VerifNameHash(cB) || cA == cB {
		t.Fatalf("collision search broken")
	}
	long := strings.Repeat("N", 255)
	utf := "ключ"
	names := []string{"ä", cA, cB} // (a multi-byte name: byte and character counts differ)
	vals := []string{"i32a", "i32b", "s40", "f64x3", "u8"}
	depth := 3
	if r.Thorough() {
		names = []string{"a", "b", cA, cB, utf}
		vals = []string{"i32a", "i32b", "u8", "f64", "s1", "s40", "f64x3", "i32x1", "u32", "i64"}
		depth = 3
	}
	type target struct{ kind, path string }
	targets := []target{{"dataset", "/d"}, {"group", "/g"}}
	type start struct {
		name string
		k    int
		del  int // delete fillers down to this many after filling (dataset only), -1 none
	}
	starts := []start{{"k0", 0, -1}, {"k6", 6, -1}, {"k7", 7, -1}, {"k8", 8, -1}, {"k9", 9, -1}, {"k10del1", 10, 1}}
	type cfg struct {
		name string
		opts []interface{}
	}
	cfgs := []cfg{{"sb2", nil}, {"sb3", []interface{}{WithSuperblockVersion(SuperblockV3)}}, {"sb0", []interface{}{WithSuperblockVersion(SuperblockV0)}}}
	r.Rule(fmt.Sprintf("all sequences of length <= %d over {write(name,value), delete(name)} with names %d (incl. a pair with equal name hash) x values %d, on a dataset and a group, from start states with k in {0,6,7,8,9} filler attributes and 'dense emptied to 1', superblock 2 (3 and 0 at depth 2); after every sequence the reopened attribute set is compared with a map model; non-trivial = sequence with at least one successful write", depth, len(names), len(vals)))
	r.Assume("expected datatype class/size/signedness and little-endian raw bytes are computed by the harness from the Go value")
	states := map[string]struct{}{}
	var smu sync.Mutex

	for _, c := range cfgs {
		for _, tg := range targets {
			for _, st := range starts {
				if tg.kind == "group" && st.del >= 0 {
					continue
				}
				if c.name != "sb2" && !r.Thorough() && (st.name != "k7" && st.name != "k9") {
					continue // other superblock versions: threshold-adjacent start states only (quick)
				}
				c, tg, st := c, tg, st
				var prefix []vfOp
				other := vfOp{Op: "mkds", Path: "/other", Type: "i32", Dims: []uint64{2}}
				if tg.kind == "dataset" {
					prefix = append(prefix, vfOp{Op: "mkds", Path: tg.path, Type: "f64", Dims: []uint64{3}}, other, vfOp{Op: "write", Path: tg.path, Pat: 1})
				} else {
					prefix = append(prefix, vfOp{Op: "mkgroup", Path: tg.path}, other)
				}
				for i := 0; i < st.k; i++ {
					prefix = append(prefix, vfOp{Op: "attr", Path: tg.path, Name: fmt.Sprintf("fill%02d", i), Value: []string{"i64", "s1", "f32"}[i%3]})
				}
				if st.del >= 0 {
					for i := st.k - 1; i >= st.del; i-- {
						prefix = append(prefix, vfOp{Op: "delattr", Path: tg.path, Name: fmt.Sprintf("fill%02d", i)})
					}
				}
				d := depth
				if c.name != "sb2" {
					d = 2
				}
				var alphabet []vfOp
				for _, n := range names {
					for _, v := range vals {
						alphabet = append(alphabet, vfOp{Op: "attr", Path: tg.path, Name: n, Value: v})
					}
				}
				if tg.kind == "dataset" {
					for _, n := range names {
						alphabet = append(alphabet, vfOp{Op: "delattr", Path: tg.path, Name: n})
					}
					alphabet = append(alphabet, vfOp{Op: "delattr", Path: tg.path, Name: "fill00"})
					// the session may end and a new one begin at any point (Close, OpenForWrite,
					// the handle re-acquired with OpenDataset: it then works on a cached header)
					alphabet = append(alphabet, vfOp{Op: "reopen"})
				}
				if r.Thorough() {
					alphabet = append(alphabet, vfOp{Op: "attr", Path: tg.path, Name: long, Value: "i32a"}, vfOp{Op: "attr", Path: tg.path, Name: "big", Value: "s120"})
				}
				x := &vfExplore{R: r, Dir: dir, Cfg: c.opts, Prefix: prefix, Depth: d, CloseAtLeaves: false,
					Enabled: func([]vfOp) []vfOp { return alphabet }}
				x.Visit = func(parent, cur *vfExec) {
					ctx := fmt.Sprintf("%s/%s/%s", c.name, tg.kind, st.name)
					// model
					model := map[string]string{}
					okWrites := 0
					for i, o := range cur.Hist {
						if o.Path != tg.path {
							continue
						}
						if cur.Errs[i] != nil {
							continue
						}
						switch o.Op {
						case "attr":
							model[o.Name] = o.Value
							if i >= len(prefix) {
								okWrites++
							}
						case "delattr":
							delete(model, o.Name)
						}
					}
					hs := ctx + ": " + vfOpsString(cur.Hist[len(prefix):])
					if okWrites > 0 {
						r.Case(hs)
					} else {
						r.Case("")
					}
					last := cur.Hist[len(cur.Hist)-1]
					detail := map[string]any{"config": c.name, "target": tg.kind, "start": st.name, "prefix": prefix, "ops": cur.Hist[len(prefix):], "history": vfOpsString(cur.Hist[len(prefix):])}
					lastClass := last.Op
					if last.Op == "attr" {
						lastClass = "write"
					}
					if cur.Panics[len(cur.Panics)-1] {
						detail["panic"] = fmt.Sprint(cur.LastErr())
						r.Fail(fmt.Sprintf("%s/%s/panic", tg.kind, lastClass), detail)
					}
					if cur.Tree == nil {
						if parent.Tree != nil {
							detail["open_error"] = fmt.Sprint(cur.OpenErr)
							r.Fail(fmt.Sprintf("%s/%s/file-unopenable", tg.kind, lastClass), detail)
						}
						return
					}
					ob := cur.Tree.Get(tg.path)
					if ob == nil {
						r.Fail(fmt.Sprintf("%s/%s/object-vanished", tg.kind, lastClass), detail)
						return
					}
					if ob.AttrErr {
						r.Fail(fmt.Sprintf("%s/%s/attributes-unreadable", tg.kind, lastClass), detail)
						return
					}
					smu.Lock()
					states[ctx+ob.Content()] = struct{}{}
					smu.Unlock()
					// compare
					got := map[string][]vfAttr{}
					for _, a := range ob.Attrs {
						got[a.Name] = append(got[a.Name], a)
					}
					var problems []string
					for n, as := range got {
						if len(as) > 1 {
							problems = append(problems, "duplicate-name")
						}
						if _, ok := model[n]; !ok {
							if vfIsCollider(n, cA, cB) {
								problems = append(problems, "extra(collider)")
							} else {
								problems = append(problems, "extra")
							}
						}
					}
					for n, kind := range model {
						as := got[n]
						if len(as) == 0 {
							if vfIsCollider(n, cA, cB) {
								problems = append(problems, "missing(collider)")
							} else {
								problems = append(problems, "missing")
							}
							continue
						}
						if m := vfAttrMatches(as[len(as)-1], kind); m != "" {
							problems = append(problems, "value-"+m+"("+kind+")")
						}
					}
					if len(problems) > 0 {
						sort.Strings(problems)
						problems = vfUniq(problems)
						detail["problems"] = problems
						detail["model"] = model
						detail["got"] = ob.Content()
						r.Fail(fmt.Sprintf("%s/%s/%s", tg.kind, lastClass, strings.Join(problems, "+")), detail)
						r.Outcome("mismatch")
					} else {
						r.Outcome("ok")
					}
				}
				x.Run()
			}
		}
	}
	// long histories (single executions, not claimed exhaustive): up to and beyond the
	// 371-record capacity of the dense name index, three shapes each
	for _, tg := range targets {
		for _, L := range []int{9, 50, 371, 372, 400} {
			for _, shape0 := range []string{"grow-only", "grow-then-delete-every-second", "overwrite-each-with-another-size", "delete-all-then-write-again", "delete-all-reopen-then-write-again",
				// the same under every other rebalancing mode of the writer (each has its own
				// deletion path in the name index)
				"grow-then-delete-every-second@DisableRebalancing", "grow-then-delete-every-second@EnableLazyRebalancing", "grow-then-delete-every-second@EnableIncrementalRebalancing",
				"delete-all-then-write-again@DisableRebalancing", "delete-all-then-write-again@EnableLazyRebalancing", "delete-all-then-write-again@EnableIncrementalRebalancing"} {
				shape, mode := shape0, ""
				if i := strings.IndexByte(shape0, '@'); i >= 0 {
					shape, mode = shape0[:i], shape0[i+1:]
					if L > 50 || tg.kind != "dataset" {
						continue
					}
				}
				if tg.kind == "group" && shape != "grow-only" && shape != "overwrite-each-with-another-size" {
					continue // no delete on groups
				}
				if strings.HasPrefix(shape, "delete-all") && L > 50 {
					continue
				}
				var h []vfOp
				if tg.kind == "dataset" {
					h = append(h, vfOp{Op: "mkds", Path: tg.path, Type: "f64", Dims: []uint64{3}})
				} else {
					h = append(h, vfOp{Op: "mkgroup", Path: tg.path})
				}
				if mode != "" {
					h = append(h, vfOp{Op: "toggle", Bad: mode})
				}
				np := len(h)
				for i := 0; i < L; i++ {
					h = append(h, vfOp{Op: "attr", Path: tg.path, Name: fmt.Sprintf("L%04d", i), Value: []string{"i32a", "s1", "f64"}[i%3]})
				}
				switch shape {
				case "grow-then-delete-every-second":
					for i := 0; i < L; i += 2 {
						h = append(h, vfOp{Op: "delattr", Path: tg.path, Name: fmt.Sprintf("L%04d", i)})
					}
				case "overwrite-each-with-another-size":
					for i := 0; i < L; i++ {
						h = append(h, vfOp{Op: "attr", Path: tg.path, Name: fmt.Sprintf("L%04d", i), Value: []string{"s40", "i64", "u8"}[i%3]})
					}
				case "delete-all-then-write-again", "delete-all-reopen-then-write-again":
					// dense storage emptied completely (index with no record), then used again
					for i := 0; i < L; i++ {
						h = append(h, vfOp{Op: "delattr", Path: tg.path, Name: fmt.Sprintf("L%04d", i)})
					}
					if shape == "delete-all-reopen-then-write-again" {
						h = append(h, vfOp{Op: "reopen"})
					}
					h = append(h, vfOp{Op: "attr", Path: tg.path, Name: "again1", Value: "i32a"}, vfOp{Op: "attr", Path: tg.path, Name: "again2", Value: "s40"})
				}
				ex := vfRun(dir, nil, h, true)
				r.Transitions(1)
				name := fmt.Sprintf("long/%s/%s/L=%d", tg.kind, shape0, L)
				r.Case(name)
				model := map[string]string{}
				accepted := 0
				for i, o := range h[np:] {
					if ex.Errs[np+i] != nil || o.Path != tg.path {
						continue
					}
					if o.Op == "attr" {
						model[o.Name] = o.Value
						accepted++
					} else {
						delete(model, o.Name)
					}
				}
				detail := map[string]any{"family": name, "accepted_operations": accepted, "model_size": len(model)}
				tree := ex.Closed
				if tree == nil {
					detail["open_error"] = fmt.Sprint(ex.ClosedErr)
					r.Fail(fmt.Sprintf("long/%s/%s/file-unopenable", tg.kind, shape), detail)
					continue
				}
				ob := tree.Get(tg.path)
				if ob == nil || ob.AttrErr {
					r.Fail(fmt.Sprintf("long/%s/%s/attributes-unreadable", tg.kind, shape), detail)
					continue
				}
				got := map[string]vfAttr{}
				bad := ""
				for _, a := range ob.Attrs {
					if _, dup := got[a.Name]; dup {
						bad = "duplicate-name"
					}
					got[a.Name] = a
				}
				for n, kind := range model {
					a, ok := got[n]
					if !ok {
						bad = "missing"
					} else if m := vfAttrMatches(a, kind); m != "" {
						bad = "value-" + m
					}
				}
				for n := range got {
					if _, ok := model[n]; !ok {
						bad = "extra"
					}
				}
				if bad != "" {
					detail["got_count"] = len(got)
					r.Fail(fmt.Sprintf("long/%s/%s/%s", tg.kind, shape, bad), detail)
				} else {
					r.Outcome("long-ok")
				}
			}
		}
	}
	// name-shape family: for every name length 1..40 two names that differ only in their last
	// byte (and, for lengths >= 2, two that differ only in their first), all on one dataset in
	// dense storage, every name with its own value; then every second one deleted. A name index
	// that does not see some byte of a name confuses exactly such siblings.
	{
		h := []vfOp{{Op: "mkds", Path: "/d", Type: "f64", Dims: []uint64{3}}}
		np := len(h)
		var names []string
		for L := 1; L <= 40; L++ {
			stem := strings.Repeat("calibration_", 4)[:L-1]
			names = append(names, stem+"1", stem+"2")
			if L >= 2 {
				names = append(names, "x"+stem[:L-2]+"_", "y"+stem[:L-2]+"_")
			}
		}
		vals := []string{"i32a", "i64", "f32", "s1", "u8", "i32b", "f64"}
		for i, n := range names {
			h = append(h, vfOp{Op: "attr", Path: "/d", Name: n, Value: vals[i%len(vals)]})
		}
		for i := 0; i < len(names); i += 2 {
			h = append(h, vfOp{Op: "delattr", Path: "/d", Name: names[i]})
		}
		ex := vfRun(dir, nil, h, true)
		r.Transitions(1)
		r.Case("name-shapes")
		model := map[string]string{}
		for i, o := range h[np:] {
			if ex.Errs[np+i] != nil {
				continue
			}
			if o.Op == "attr" {
				model[o.Name] = o.Value
			} else {
				delete(model, o.Name)
			}
		}
		detail := map[string]any{"family": "name-shapes", "names": len(names), "model_size": len(model)}
		problem := ""
		if ex.Closed == nil {
			problem = "file-unopenable"
		} else if ob := ex.Closed.Get("/d"); ob == nil || ob.AttrErr {
			problem = "attributes-unreadable"
		} else {
			got := map[string]vfAttr{}
			for _, a := range ob.Attrs {
				got[a.Name] = a
			}
			for n, kind := range model {
				if a, ok := got[n]; !ok {
					problem, detail["name"] = "missing", n
				} else if m := vfAttrMatches(a, kind); m != "" {
					problem, detail["name"] = "value-"+m, n
				}
			}
			for n := range got {
				if _, ok := model[n]; !ok {
					problem, detail["name"] = "extra", n
				}
			}
		}
		if problem != "" {
			r.Fail("name-shapes/"+problem, detail)
		} else {
			r.Outcome("name-shapes-ok")
		}
	}
	// refused-write family: k compact attributes (k in {1,3,7}), in the creating session or a
	// reopened one, then a write that is refused (a value no storage accepts, values just below
	// the attribute heap's capacity, an oversized name), then every single follow-up of a small
	// alphabet on the same handle; the refused write must not count: the reopened attribute set
	// equals the map model of the accepted operations.
	for _, k := range []int{1, 3, 7} {
		for _, reopened := range []bool{false, true} {
			for _, bad := range []string{"attr-value-oversize", "attr-value-near-heap-capacity-a", "attr-value-near-heap-capacity-b", "attr-name-oversize"} {
				for _, fu := range [][]vfOp{
					nil,
					{{Op: "attr", Path: "/d", Name: "z", Value: "i32a"}},
					{{Op: "attr", Path: "/d", Name: "L0000", Value: "s40"}},
					{{Op: "delattr", Path: "/d", Name: "L0000"}},
					{{Op: "attr", Path: "/d", Name: "z", Value: "i32a"}, {Op: "delattr", Path: "/d", Name: "z"}},
				} {
					h := []vfOp{{Op: "mkds", Path: "/d", Type: "f64", Dims: []uint64{3}}}
					np := len(h)
					for i := 0; i < k; i++ {
						h = append(h, vfOp{Op: "attr", Path: "/d", Name: fmt.Sprintf("L%04d", i), Value: []string{"i32a", "s1", "f64"}[i%3]})
					}
					if reopened {
						h = append(h, vfOp{Op: "reopen"})
					}
					h = append(h, vfOp{Op: "bad", Bad: bad, Path: "/d"})
					h = append(h, fu...)
					ex := vfRun(dir, nil, h, true)
					r.Transitions(1)
					name := fmt.Sprintf("refused-write/k=%d/reopened=%v/%s/%s", k, reopened, bad, vfOpsString(fu))
					r.Case(name)
					model := map[string]string{}
					refused := false
					for i, o := range h[np:] {
						if o.Op == "bad" {
							refused = ex.Errs[np+i] != nil
							continue
						}
						if ex.Errs[np+i] != nil || o.Path != "/d" {
							continue
						}
						switch o.Op {
						case "attr":
							model[o.Name] = o.Value
						case "delattr":
							delete(model, o.Name)
						}
					}
					if !refused {
						r.Outcome("call-accepted")
						continue
					}
					detail := map[string]any{"family": name, "history": vfOpsString(h), "ops": h}
					tree := ex.Closed
					if tree == nil {
						detail["open_error"] = fmt.Sprint(ex.ClosedErr)
						r.Fail("refused-write/"+bad+"/file-unopenable", detail)
						continue
					}
					ob := tree.Get("/d")
					if ob == nil || ob.AttrErr {
						r.Fail("refused-write/"+bad+"/attributes-unreadable", detail)
						continue
					}
					got := map[string]vfAttr{}
					problem := ""
					for _, a := range ob.Attrs {
						got[a.Name] = a
					}
					for n, kind := range model {
						if a, ok := got[n]; !ok {
							problem = "missing"
						} else if m := vfAttrMatches(a, kind); m != "" {
							problem = "value-" + m
						}
					}
					for n := range got {
						if _, ok := model[n]; !ok {
							problem = "extra"
						}
					}
					if problem != "" {
						detail["got_count"], detail["model_size"] = len(got), len(model)
						r.Fail("refused-write/"+bad+"/"+problem, detail)
					} else {
						r.Outcome("refused-write-ok")
					}
				}
			}
		}
	}
	// capacity family: the dataset's single-chunk object header is brought to every reachable
	// total in [228,255] message bytes by attributes (the values the model records), then a
	// neighbour object is created and written right behind it, then one more small attribute
	// is attempted; the attribute set must equal the model after each step.
	{
		mkX := vfOp{Op: "mkds", Path: "/d", Type: "f64", Dims: []uint64{3}}
		fills := vfHeaderFillStates(dir, mkX, 228, 255)
		var totals []int
		for t := range fills {
			totals = append(totals, t)
		}
		sort.Ints(totals)
		r.Set("capacity_header_totals_reached", totals)
		neighbours := [][]vfOp{
			{{Op: "mkds", Path: "/y", Type: "f64", Dims: []uint64{4}}, {Op: "write", Path: "/y", Pat: 2}},
			{{Op: "mkgroup", Path: "/y"}},
			{{Op: "mkds", Path: "/y", Type: "i32", Dims: []uint64{4}, Chunk: []uint64{2}}, {Op: "write", Path: "/y", Pat: 2}},
		}
		tails := [][]vfOp{nil, {{Op: "attr", Path: "/d", Name: "t", Value: "u8"}}, {{Op: "write", Path: "/d", Pat: 3}}, {{Op: "attr", Path: "/d", Name: "h", Value: "str:5"}}}
		type cj struct {
			t int
			h []vfOp
		}
		var jobs []cj
		for _, t := range totals {
			for _, nb := range neighbours {
				for _, tl := range tails {
					jobs = append(jobs, cj{t, append(append(append([]vfOp{}, fills[t]...), nb...), tl...)})
				}
			}
		}
		// size-changing overwrites of an existing compact attribute that bring the header to every
		// total in [246,264] (the single-chunk limit is 255): from three fill states, with and
		// without a neighbour behind the header
		if len(totals) > 0 {
			picks := []int{totals[0], totals[len(totals)/2], totals[len(totals)-1]}
			for _, t := range picks {
				var hName string
				hLen := -1
				for _, o := range fills[t] {
					if o.Op == "attr" && strings.HasPrefix(o.Value, "str:") {
						hName = o.Name
						fmt.Sscanf(o.Value, "str:%d", &hLen)
					}
				}
				if hLen < 0 {
					continue
				}
				for target := 246; target <= 264; target++ {
					n := hLen + (target - t)
					if n < 1 {
						continue
					}
					ow := vfOp{Op: "attr", Path: "/d", Name: hName, Value: fmt.Sprintf("str:%d", n)}
					jobs = append(jobs, cj{t, append(append([]vfOp{}, fills[t]...), ow)})
					jobs = append(jobs, cj{t, append(append(append([]vfOp{}, fills[t]...), neighbours[0]...), ow)})
				}
			}
		}
		vkit.ParallelFor(len(jobs), func(i int) {
			j := jobs[i]
			ex := vfRun(dir, nil, j.h, true)
			r.Transitions(1)
			r.Case(fmt.Sprintf("capacity-%d: %s", j.t, vfOpsString(j.h)))
			model := map[string]string{}
			for k, o := range j.h {
				if o.Path != "/d" || ex.Errs[k] != nil {
					continue
				}
				if o.Op == "attr" {
					model[o.Name] = o.Value
				}
			}
			detail := map[string]any{"family": "capacity", "header_message_bytes": j.t, "ops": j.h, "history": vfOpsString(j.h)}
			tree := ex.Closed
			if tree == nil {
				detail["open_error"] = fmt.Sprint(ex.ClosedErr)
				r.Fail("capacity/file-unopenable", detail)
				return
			}
			ob := tree.Get("/d")
			if ob == nil || ob.AttrErr {
				r.Fail("capacity/attributes-unreadable", detail)
				return
			}
			got := map[string]vfAttr{}
			bad := ""
			for _, a := range ob.Attrs {
				if _, dup := got[a.Name]; dup {
					bad = "duplicate-name"
				}
				got[a.Name] = a
			}
			for n, kind := range model {
				a, ok := got[n]
				if !ok {
					bad = "missing"
				} else if m := vfAttrMatches(a, kind); m != "" {
					bad = "value-" + m
				}
			}
			for n := range got {
				if _, ok := model[n]; !ok {
					bad = "extra"
				}
			}
			if bad != "" {
				detail["got"] = ob.Content()
				r.Fail("capacity/"+bad, detail)
			} else {
				r.Outcome("capacity-ok")
			}
		})
	}
	// dense heap capacity family: the 64 KiB heap of a dataset's dense attributes is filled by
	// three 16000-byte attributes, then a last attribute whose length is swept over the last
	// bytes the heap accepts (the edge is found by bisection on acceptance): every accepted
	// attribute must read back byte for byte, also after one more same-size overwrite of another
	// attribute in a second session
	{
		base := []vfOp{{Op: "mkds", Path: "/d", Type: "f64", Dims: []uint64{3}}}
		for i := 0; i < 9; i++ {
			base = append(base, vfOp{Op: "attr", Path: "/d", Name: fmt.Sprintf("s%02d", i), Value: "i64"})
		}
		for i := 0; i < 3; i++ {
			base = append(base, vfOp{Op: "attr", Path: "/d", Name: fmt.Sprintf("big%d", i), Value: "str:16000"})
		}
		edge := func(n int) vfOp { return vfOp{Op: "attr", Path: "/d", Name: "edge", Value: fmt.Sprintf("str:%d", n)} }
		accepted := func(n int) bool {
			ex := vfRun(dir, nil, append(append([]vfOp{}, base...), edge(n)), false)
			r.Transitions(1)
			return ex.Errs[len(ex.Errs)-1] == nil
		}
		baseOK := true
		{
			ex := vfRun(dir, nil, base, false)
			for _, e := range ex.Errs {
				if e != nil {
					baseOK = false
				}
			}
		}
		lo, hi := 1, 20000 // accepted(lo), !accepted(hi) expected
		if baseOK && accepted(lo) && !accepted(hi) {
			for hi-lo > 1 {
				mid := (lo + hi) / 2
				if accepted(mid) {
					lo = mid
				} else {
					hi = mid
				}
			}
			r.Set("dense_heap_edge_largest_accepted_last_attribute", lo)
			var jobs [][]vfOp
			for n := lo - 8; n <= lo+2; n++ {
				if n < 1 {
					continue
				}
				h := append(append([]vfOp{}, base...), edge(n))
				jobs = append(jobs, h, append(append([]vfOp{}, h...), vfOp{Op: "reopen"}, vfOp{Op: "attr", Path: "/d", Name: "s00", Value: "i64b"}))
			}
			vkit.ParallelFor(len(jobs), func(i int) {
				h := jobs[i]
				ex := vfRun(dir, nil, h, true)
				r.Transitions(1)
				r.Case("dense-heap-edge: " + vfOpsString(h[len(base):]))
				model := map[string]string{}
				for k, o := range h {
					if o.Path == "/d" && o.Op == "attr" && ex.Errs[k] == nil {
						model[o.Name] = o.Value
					}
				}
				detail := map[string]any{"family": "dense-heap-edge", "tail": vfOpsString(h[len(base):]), "largest_accepted": lo}
				if ex.Closed == nil {
					detail["open_error"] = fmt.Sprint(ex.ClosedErr)
					r.Fail("dense-heap-edge/file-unopenable", detail)
					return
				}
				ob := ex.Closed.Get("/d")
				if ob == nil || ob.AttrErr {
					r.Fail("dense-heap-edge/attributes-unreadable", detail)
					return
				}
				got := map[string]vfAttr{}
				for _, a := range ob.Attrs {
					got[a.Name] = a
				}
				bad := ""
				for n, kind := range model {
					a, ok := got[n]
					if !ok {
						bad = "missing"
					} else if m := vfAttrMatches(a, kind); m != "" {
						bad = "value-" + m
						detail["attribute"] = n
					}
				}
				if len(got) != len(model) && bad == "" {
					bad = "extra"
				}
				if bad != "" {
					r.Fail("dense-heap-edge/"+bad, detail)
				} else {
					r.Outcome("dense-heap-edge-ok")
				}
			})
		} else {
			r.Set("dense_heap_edge_family", "not constructible on this tree (base rejected or no acceptance edge in [1,20000])")
		}
	}
	r.States(int64(len(states)))
	r.Sample(map[string]any{"colliding_names": []string{cA, cB}, "hash": structures.VerifNameHash(cA)})
	r.Sample(map[string]any{"start": "k7 on dataset", "sequence": "attr(/d,a,i32a); attr(/d," + cA + ",s40); delattr(/d,a)"})
}

func vfIsCollider(n, a, b string) bool { return n == a || n == b }

func vfUniq(s []string) []string {
	out := s[:0]
	for i, x := range s {
		if i == 0 || x != s[i-1] {
			out = append(out, x)
		}
	}
	return out
}
