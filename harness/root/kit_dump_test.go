//go:build verif

package hdf5

import (
	"encoding/binary"
	"encoding/hex"
	"fmt"
	"hash/crc32"
	"io"
	"math"
	"os"
	"regexp"
	"sort"
	"strings"
	"sync"

	"github.com/scigolib/hdf5/internal/core"
)

// ---------------------------------------------------------------------------------------
// Logical dump: everything the read API reports about a file, in a canonical, comparable
// form. Errors are part of the dump (as "ERR"), never their text, so a reworded message is
// not a difference while "value became error" is.
// ---------------------------------------------------------------------------------------

var vfAddrRE = regexp.MustCompile(`address=0x[0-9A-Fa-f]+`)

type vfAttr struct {
	Name  string
	Type  string // class/size/bitfield(sign,order)
	Dims  string
	Raw   string // hex of Data
	Value string // ReadValue result or "ERR"
}

func (a vfAttr) String() string {
	return fmt.Sprintf("%q{%s %s raw=%s val=%s}", a.Name, a.Type, a.Dims, a.Raw, a.Value)
}

type vfObject struct {
	Path     string
	Kind     string // group | dataset | datatype | other
	Addr     uint64
	Info     string
	Shape    string // dims from the parsed dataspace message, or ERR
	Read     string // float64 bit patterns or ERR
	Strings  string
	Compound string
	// VLen is set for contiguous variable-length datasets: every element resolved by the
	// harness itself (element reference -> independently parsed global heap collection),
	// as length:checksum per element, because the read API offers no reader for them.
	VLen string
	// Partial (only when vfDumpPartial is set): ReadSlice of the full extent, the same call
	// again on the same handle (a retry), and the concatenated chunks of a full iteration;
	// each is a printed value or ERR.
	Partial  [3]string
	Attrs    []vfAttr // sorted by name
	AttrErr  bool
	Children []string // in Children() order
}

// Content is the canonical content string of an object (no address, no path).
func (o *vfObject) Content() string {
	var sb strings.Builder
	fmt.Fprintf(&sb, "%s", o.Kind)
	if o.Kind == "dataset" {
		// file addresses are layout, not content
		info := vfAddrRE.ReplaceAllString(o.Info, "address=*")
		fmt.Fprintf(&sb, " info=%q shape=%s read=%s strings=%s compound=%s", info, o.Shape, o.Read, o.Strings, o.Compound)
		if o.VLen != "" {
			fmt.Fprintf(&sb, " vlen=%s", o.VLen)
		}
		if o.Partial[0] != "" {
			fmt.Fprintf(&sb, " slice=%s slice-again=%s chunks=%s", o.Partial[0], o.Partial[1], o.Partial[2])
		}
	}
	if o.Kind == "group" {
		fmt.Fprintf(&sb, " children=%q", o.Children)
	}
	if o.AttrErr {
		sb.WriteString(" attrs=ERR")
	} else {
		sb.WriteString(" attrs=[")
		for _, a := range o.Attrs {
			sb.WriteString(a.String())
			sb.WriteString(";")
		}
		sb.WriteString("]")
	}
	return sb.String()
}

type vfTree struct {
	Order []string // walk order, paths; groups end in "/"
	Objs  map[string]*vfObject
	// Dup lists paths that Walk produced more than once.
	Dup []string
}

func vfAttrDump(attrs []*core.Attribute) []vfAttr {
	out := make([]vfAttr, 0, len(attrs))
	for _, a := range attrs {
		if a == nil {
			out = append(out, vfAttr{Name: "<nil>"})
			continue
		}
		va := vfAttr{Name: a.Name, Raw: hex.EncodeToString(a.Data)}
		if a.Datatype != nil {
			va.Type = fmt.Sprintf("class%d/size%d/bits%#x", a.Datatype.Class, a.Datatype.Size, a.Datatype.ClassBitField)
		} else {
			va.Type = "nil"
		}
		if a.Dataspace != nil {
			va.Dims = fmt.Sprintf("%v", a.Dataspace.Dimensions)
		} else {
			va.Dims = "nil"
		}
		func() {
			defer func() {
				if p := recover(); p != nil {
					va.Value = "PANIC"
				}
			}()
			v, err := a.ReadValue()
			if err != nil {
				va.Value = "ERR"
			} else {
				va.Value = vfValueString(v)
			}
		}()
		out = append(out, va)
	}
	sort.SliceStable(out, func(i, j int) bool { return out[i].Name < out[j].Name })
	return out
}

// vfValueString renders a value bit-exactly (floats by bit pattern).
func vfValueString(v interface{}) string {
	switch x := v.(type) {
	case float64:
		return fmt.Sprintf("f64:%016x", math.Float64bits(x))
	case float32:
		return fmt.Sprintf("f32:%08x", math.Float32bits(x))
	case []float64:
		var sb strings.Builder
		sb.WriteString("[]f64:")
		for _, e := range x {
			fmt.Fprintf(&sb, "%016x,", math.Float64bits(e))
		}
		return sb.String()
	case []float32:
		var sb strings.Builder
		sb.WriteString("[]f32:")
		for _, e := range x {
			fmt.Fprintf(&sb, "%08x,", math.Float32bits(e))
		}
		return sb.String()
	default:
		return fmt.Sprintf("%T:%v", v, v)
	}
}

func vfFloatBits(v []float64) string {
	var sb strings.Builder
	fmt.Fprintf(&sb, "%d:", len(v))
	for _, e := range v {
		fmt.Fprintf(&sb, "%x,", math.Float64bits(e))
	}
	return sb.String()
}

func vfDatasetDump(d *Dataset, o *vfObject) {
	guard := func(f func()) (panicked bool) {
		defer func() {
			if p := recover(); p != nil {
				panicked = true
			}
		}()
		f()
		return
	}
	if guard(func() {
		s, err := d.Info()
		if err != nil {
			o.Info = "ERR"
		} else {
			o.Info = s
		}
	}) {
		o.Info = "PANIC"
	}
	o.Shape = "ERR"
	guard(func() {
		if hdr, err := core.ReadObjectHeader(d.file.osFile, d.address, d.file.sb); err == nil {
			if di, err := core.ReadDatasetInfo(hdr, d.file.sb); err == nil && di.Dataspace != nil {
				o.Shape = fmt.Sprint(di.Dataspace.Dimensions)
				if di.Datatype != nil && di.Datatype.Class == core.DatatypeVarLen && di.Layout != nil && di.Layout.Class == core.LayoutContiguous {
					o.VLen = vfVLenView(d.file.osFile, di.Layout.DataAddress, di.Dataspace.Dimensions)
				}
			}
		}
	})
	if guard(func() {
		v, err := d.Read()
		if err != nil {
			o.Read = "ERR"
		} else {
			o.Read = vfFloatBits(v)
		}
	}) {
		o.Read = "PANIC"
	}
	if vfDumpPartial {
		vfPartialDump(d, o, guard)
	}
	if guard(func() {
		v, err := d.ReadStrings()
		if err != nil {
			o.Strings = "ERR"
		} else {
			o.Strings = fmt.Sprintf("%q", v)
		}
	}) {
		o.Strings = "PANIC"
	}
	if guard(func() {
		v, err := d.ReadCompound()
		if err != nil {
			o.Compound = "ERR"
		} else {
			o.Compound = vfCompoundString(v)
		}
	}) {
		o.Compound = "PANIC"
	}
	if guard(func() {
		a, err := d.Attributes()
		if err != nil {
			o.AttrErr = true
		} else {
			o.Attrs = vfAttrDump(a)
		}
	}) {
		o.AttrErr = true
		o.Info += "|ATTR-PANIC"
	}
}

func vfCompoundString(v []core.CompoundValue) string {
	var sb strings.Builder
	for _, cv := range v {
		keys := make([]string, 0, len(cv))
		for k := range cv {
			keys = append(keys, k)
		}
		sort.Strings(keys)
		sb.WriteString("{")
		for _, k := range keys {
			fmt.Fprintf(&sb, "%s=%s,", k, vfValueString(cv[k]))
		}
		sb.WriteString("}")
	}
	return sb.String()
}

// vfDumpFile opens the file read-only and dumps every object Walk reaches.
func vfDumpFile(path string) (*vfTree, error) {
	f, err := Open(path)
	if err != nil {
		return nil, err
	}
	defer f.Close()
	return vfDumpOpen(f), nil
}

func vfDumpOpen(f *File) *vfTree {
	t := &vfTree{Objs: map[string]*vfObject{}}
	f.Walk(func(p string, obj Object) {
		o := &vfObject{Path: p}
		switch x := obj.(type) {
		case *Group:
			o.Kind = "group"
			o.Addr = x.address
			for _, c := range x.Children() {
				o.Children = append(o.Children, c.Name())
			}
			a, err := x.Attributes()
			if err != nil {
				o.AttrErr = true
			} else {
				o.Attrs = vfAttrDump(a)
			}
		case *Dataset:
			o.Kind = "dataset"
			o.Addr = x.address
			vfDatasetDump(x, o)
		case *NamedDatatype:
			o.Kind = "datatype"
			o.Addr = x.address
		default:
			o.Kind = fmt.Sprintf("other:%T", obj)
		}
		if _, dup := t.Objs[p]; dup {
			t.Dup = append(t.Dup, p)
		}
		t.Order = append(t.Order, p)
		t.Objs[p] = o
	})
	return t
}

// vfSnapshot copies the bytes of a file that is still open for writing and dumps the copy.
func vfSnapshot(src, dst string) (*vfTree, []byte, error) {
	b, err := os.ReadFile(src)
	if err != nil {
		return nil, nil, err
	}
	if err := os.WriteFile(dst, b, 0o644); err != nil {
		return nil, nil, err
	}
	t, err := vfDumpFile(dst)
	return t, b, err
}

// String renders the whole tree canonically (paths sorted).
func (t *vfTree) String() string {
	if t == nil {
		return "<unopenable>"
	}
	paths := make([]string, 0, len(t.Objs))
	for p := range t.Objs {
		paths = append(paths, p)
	}
	sort.Strings(paths)
	var sb strings.Builder
	for _, p := range paths {
		fmt.Fprintf(&sb, "%s => %s\n", p, t.Objs[p].Content())
	}
	if len(t.Dup) > 0 {
		fmt.Fprintf(&sb, "DUP %q\n", t.Dup)
	}
	return sb.String()
}

// Get finds an object by path, with or without the trailing slash of groups.
func (t *vfTree) Get(p string) *vfObject {
	if t == nil {
		return nil
	}
	if o, ok := t.Objs[p]; ok {
		return o
	}
	if o, ok := t.Objs[p+"/"]; ok {
		return o
	}
	return nil
}

var (
	vfVLenCacheMu    sync.Mutex
	vfVLenCacheKey   io.ReaderAt
	vfVLenCacheBytes []byte
)

// vfVLenView resolves the elements of a contiguous variable-length dataset without the
// library's readers: element references (either length,address,index as the format has it or
// address,index as this library writes it) into collections parsed by vfParseGCOL.
func vfVLenView(r io.ReaderAt, addr uint64, dims []uint64) string {
	n := uint64(1)
	for _, d := range dims {
		n *= d
	}
	if n > 1<<16 {
		return "TOO-MANY"
	}
	st, ok := r.(interface{ Stat() (os.FileInfo, error) })
	if !ok {
		return "NO-STAT"
	}
	fi, err := st.Stat()
	if err != nil {
		return "NO-STAT"
	}
	if fi.Size() > 8<<20 {
		return "FILE-TOO-LARGE-FOR-THE-INDEPENDENT-VIEW"
	}
	// the bytes of the file are read once per open file, not once per dataset
	vfVLenCacheMu.Lock()
	file := vfVLenCacheBytes
	if vfVLenCacheKey != r || int64(len(file)) != fi.Size() {
		file = make([]byte, fi.Size())
		if _, err := r.ReadAt(file, 0); err != nil && err != io.EOF {
			vfVLenCacheMu.Unlock()
			return "READ-ERR"
		}
		vfVLenCacheKey, vfVLenCacheBytes = r, file
	}
	vfVLenCacheMu.Unlock()
	if addr+16*n > uint64(len(file)) {
		return "ELEMENTS-OUTSIDE-FILE"
	}
	cols := map[uint64]*vfGCOL{}
	var sb strings.Builder
	isCol := func(a uint64) bool { return a+4 <= uint64(len(file)) && string(file[a:a+4]) == "GCOL" }
	for e := uint64(0); e < n; e++ {
		el := file[addr+16*e : addr+16*e+16]
		saddr, sidx := binary.LittleEndian.Uint64(el[4:12]), binary.LittleEndian.Uint32(el[12:16])
		laddr, lidx := binary.LittleEndian.Uint64(el[0:8]), binary.LittleEndian.Uint32(el[8:12])
		var caddr uint64
		var cidx uint32
		switch {
		case saddr == 0 && laddr == 0:
			sb.WriteString("null,")
			continue
		case isCol(laddr):
			caddr, cidx = laddr, lidx
		case isCol(saddr):
			caddr, cidx = saddr, sidx
		default:
			sb.WriteString("UNRESOLVED,")
			continue
		}
		g := cols[caddr]
		if g == nil {
			g = vfParseGCOL(file, caddr)
			cols[caddr] = g
		}
		ob, ok := g.objs[uint16(cidx)]
		if !ok {
			sb.WriteString("MISSING,")
			continue
		}
		fmt.Fprintf(&sb, "%d:%08x,", len(ob), crc32.ChecksumIEEE(ob))
	}
	return sb.String()
}

// vfDumpPartial makes the dump exercise the partial-read API as well (C17).
var vfDumpPartial bool

func vfPartialDump(d *Dataset, o *vfObject, guard func(func()) bool) {
	var dims []uint64
	guard(func() {
		if hdr, err := core.ReadObjectHeader(d.file.osFile, d.address, d.file.sb); err == nil {
			if di, err := core.ReadDatasetInfo(hdr, d.file.sb); err == nil && di.Dataspace != nil {
				dims = di.Dataspace.Dimensions
			}
		}
	})
	o.Partial = [3]string{"ERR", "ERR", "ERR"}
	n := uint64(1)
	for _, x := range dims {
		n *= x
	}
	if len(dims) == 0 || n == 0 || n > 1<<16 {
		return
	}
	start := make([]uint64, len(dims))
	for k := 0; k < 2; k++ {
		k := k
		if guard(func() {
			v, err := d.ReadSlice(start, dims)
			if err == nil {
				o.Partial[k] = fmt.Sprintf("%v", v)
			}
		}) {
			o.Partial[k] = "PANIC"
		}
	}
	if guard(func() {
		it, err := d.ChunkIterator()
		if err != nil {
			return
		}
		var sb strings.Builder
		for i := 0; it.Next() && i < 4096; i++ {
			c, err := it.Chunk()
			if err != nil {
				return
			}
			fmt.Fprintf(&sb, "%v@%v;", c, it.ChunkCoords())
		}
		if it.Err() != nil {
			return
		}
		o.Partial[2] = sb.String()
	}) {
		o.Partial[2] = "PANIC"
	}
}
