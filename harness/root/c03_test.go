//go:build verif

package hdf5

import (
	"fmt"
	"sort"
	"strings"
	"sync"
	"testing"

	"github.com/scigolib/hdf5/internal/verif/vkit"
)

// C03 — the namespace after reopen equals the tree that was built.

type vfNode struct {
	kind   string // group dataset softlink extlink hardlink
	target string // for hardlink: canonical path of target
}

// vfNSModel applies the statement's rules. ok=false means the call must be rejected.
type vfNSModel struct {
	nodes map[string]vfNode
	undef bool // a call that had to be rejected was accepted: the model no longer defines the tree
}

// vfNormPath: a trailing slash names the same object ("/a/" == "/a").
func vfNormPath(p string) string {
	if len(p) > 1 {
		return strings.TrimSuffix(p, "/")
	}
	return p
}

func vfNewNS() *vfNSModel { return &vfNSModel{nodes: map[string]vfNode{"/": {kind: "group"}}} }

func (m *vfNSModel) resolve(p string) (string, vfNode, bool) {
	n, ok := m.nodes[p]
	for ok && n.kind == "hardlink" {
		p = n.target
		n, ok = m.nodes[p]
	}
	return p, n, ok
}

func (m *vfNSModel) parentOK(p string) bool {
	par, _ := parsePath(p)
	if par == "" {
		return true
	}
	// the parent must be a group created by path (links as parents are outside the alphabet)
	n, ok := m.nodes[par]
	return ok && n.kind == "group"
}

// mustReject reports whether the statement requires the call to fail.
func (m *vfNSModel) mustReject(o vfOp) (bool, string) {
	o.Path = vfNormPath(o.Path)
	if _, exists := m.nodes[o.Path]; exists {
		return true, "duplicate"
	}
	if !m.parentOK(o.Path) {
		return true, "missing-parent"
	}
	if o.Op == "hardlink" {
		if _, _, ok := m.resolve(o.Target); !ok {
			return true, "missing-target"
		}
	}
	if o.Op == "densegroup" {
		if _, _, ok := m.resolve(o.Target); !ok {
			return true, "missing-target"
		}
	}
	return false, ""
}

func (m *vfNSModel) apply(o vfOp) {
	o.Path = vfNormPath(o.Path)
	switch o.Op {
	case "mkgroup":
		m.nodes[o.Path] = vfNode{kind: "group"}
	case "mkds":
		m.nodes[o.Path] = vfNode{kind: "dataset"}
	case "hardlink":
		tp, _, _ := m.resolve(o.Target)
		m.nodes[o.Path] = vfNode{kind: "hardlink", target: tp}
	case "softlink":
		m.nodes[o.Path] = vfNode{kind: "softlink", target: o.Target}
	case "extlink":
		m.nodes[o.Path] = vfNode{kind: "extlink", target: o.Target}
	case "densegroup":
		m.nodes[o.Path] = vfNode{kind: "group"}
		tp, _, _ := m.resolve(o.Target)
		m.nodes[o.Path+"/x"] = vfNode{kind: "hardlink", target: tp}
	}
}

// expectedPaths expands the model into the path set Walk must produce: hard links to groups
// expose the target's subtree under the link path. Cycles (link to an ancestor) are expanded
// once: the link itself must be present as a group; below it nothing is demanded.
func (m *vfNSModel) expected() map[string]string {
	out := map[string]string{}
	var rec func(walkPath, modelPath string, depth int, seen map[string]bool)
	rec = func(walkPath, modelPath string, depth int, seen map[string]bool) {
		for p, n := range m.nodes {
			par, name := parsePath(p)
			if par == "" {
				par = "/"
			}
			if p == "/" || par != modelPath {
				continue
			}
			wp := strings.TrimSuffix(walkPath, "/") + "/" + name
			rp, rn, ok := m.resolve(p)
			if !ok {
				continue
			}
			kind := rn.kind
			if n.kind == "hardlink" {
				if kind == "group" {
					out[wp] = "group"
					if !seen[rp] && depth < 6 {
						s2 := map[string]bool{rp: true}
						for k := range seen {
							s2[k] = true
						}
						rec(wp, rp, depth+1, s2)
					} else {
						out[wp] = "group*" // cyclic: children not demanded
					}
					continue
				}
				out[wp] = kind
				continue
			}
			out[wp] = kind
			if kind == "group" && (seen[p] || depth >= 6) {
				out[wp] = "group*"
				continue
			}
			if kind == "group" {
				s2 := map[string]bool{p: true}
				for k := range seen {
					s2[k] = true
				}
				rec(wp, p, depth+1, s2)
			}
		}
	}
	rec("/", "/", 0, map[string]bool{"/": true})
	return out
}

func vfC03Alphabet(thorough bool) []vfOp {
	var a []vfOp
	for _, p := range []string{"/a", "/b", "/a/a", "/a/b", "/a/a/a"} {
		a = append(a, vfOp{Op: "mkgroup", Path: p})
	}
	for _, p := range []string{"/b", "/a/b", "/a/a/a", "/ç"} {
		a = append(a, vfOp{Op: "mkds", Path: p, Type: "i32", Dims: []uint64{2}})
	}
	// children under a name that may be taken by a dataset (or by nothing)
	a = append(a, vfOp{Op: "mkgroup", Path: "/b/x"}, vfOp{Op: "mkds", Path: "/b/y", Type: "i32", Dims: []uint64{2}})
	for _, l := range []string{"/h", "/a/h"} {
		for _, t := range []string{"/a", "/a/a", "/b", "/nope"} {
			a = append(a, vfOp{Op: "hardlink", Path: l, Target: t})
		}
	}
	// (the leaf names "ç", "ş" and "é" are multi-byte UTF-8: byte and character counts differ)
	a = append(a, vfOp{Op: "softlink", Path: "/s", Target: "/a"}, vfOp{Op: "softlink", Path: "/a/ş", Target: "/dänglïng"},
		vfOp{Op: "extlink", Path: "/é", Target: "/obj"}, vfOp{Op: "densegroup", Path: "/dg", Target: "/b"},
		// a soft link to the root group: the shortest valid target
		vfOp{Op: "softlink", Path: "/sr", Target: "/"})
	// hard links whose target is a link object or a dense group (their headers grow by the
	// reference count message like any other object's)
	for _, t := range []string{"/s", "/é", "/dg"} {
		a = append(a, vfOp{Op: "hardlink", Path: "/hs", Target: t})
	}
	// a nested target whose parent may be missing, a dataset or a group without that child,
	// while the root group holds an object with the same leaf name
	a = append(a, vfOp{Op: "hardlink", Path: "/hn", Target: "/b/a"})
	// a sibling whose name has another name of the alphabet as a proper prefix ("/ab" vs "/a"):
	// lookups that compare only the leading bytes confuse the two
	a = append(a, vfOp{Op: "mkgroup", Path: "/ab"})
	if thorough {
		a = append(a, vfOp{Op: "hardlink", Path: "/a/a/up", Target: "/a"}, vfOp{Op: "mkgroup", Path: "/a/"})
	}
	return a
}

func TestVerif_C03(t *testing.T) {
	r := vkit.Start(t, "C03", "model_checking")
	defer r.Finish()
	dir := vkit.Scratch(t)
	depth := 3
	if r.Thorough() {
		depth = 4
	}
	alphabet := vfC03Alphabet(r.Thorough())
	type cfg struct {
		name string
		opts []interface{}
	}
	cfgs := []cfg{{"sb2", nil}, {"sb0", []interface{}{WithSuperblockVersion(SuperblockV0)}}}
	if r.Thorough() {
		cfgs = append(cfgs, cfg{"sb3", []interface{}{WithSuperblockVersion(SuperblockV3)}})
	}
	type start struct {
		name   string
		prefix []vfOp
	}
	var full31 []vfOp
	full31 = append(full31, vfOp{Op: "mkgroup", Path: "/a"})
	for i := 0; i < 30; i++ {
		full31 = append(full31, vfOp{Op: "mkds", Path: fmt.Sprintf("/a/f%02d", i), Type: "u8", Dims: []uint64{1}})
	}
	var heapNear []vfOp
	heapNear = append(heapNear, vfOp{Op: "mkgroup", Path: "/a"})
	// names of 59 bytes + NUL, 8-aligned = 64 each; 256-byte heap: offset 0 reserved?
	for i := 0; i < 3; i++ {
		heapNear = append(heapNear, vfOp{Op: "mkgroup", Path: "/a/" + strings.Repeat(string(rune('p'+i)), 59)})
	}
	heapNear = append(heapNear, vfOp{Op: "mkds", Path: "/a/" + strings.Repeat("z", 40), Type: "u8", Dims: []uint64{1}})
	starts := []start{{"empty", nil}, {"a-has-30-children", full31}, {"a-name-heap-nearly-full", heapNear}}

	r.Rule(fmt.Sprintf("all sequences of length <= %d over %d creation ops {CreateGroup x5 paths, CreateDataset x4, CreateHardLink 2 links x 4 targets (incl. ancestor, missing), CreateSoftLink x2, CreateExternalLink, CreateDenseGroup} from 3 start states (empty, group with 30 children, group whose name heap is nearly full) per superblock version; the reopened Walk is compared with a tree model after every sequence; non-trivial = last op accepted or must-reject", depth, len(alphabet)))
	states := map[string]struct{}{}
	var smu sync.Mutex
	for _, c := range cfgs {
		for si, st := range starts {
			c, st := c, st
			d := depth
			if (si > 0 || c.name != "sb2") && r.Thorough() {
				d = depth - 1
			}
			x := &vfExplore{R: r, Dir: dir, Cfg: c.opts, Prefix: st.prefix, Depth: d, Enabled: func([]vfOp) []vfOp { return alphabet }}
			x.Visit = func(parent, cur *vfExec) { vfC03Visit(r, c.name, st.name, len(st.prefix), parent, cur, states, &smu) }
			x.Run()
		}
	}
	// capacity families: n children with names of a given length, each a single execution
	for _, c := range cfgs {
		for _, nameLen := range []int{1, 7, 8, 30, 120, 250} {
			for _, n := range []int{1, 8, 16, 31, 32, 33, 40} {
				var h []vfOp
				h = append(h, vfOp{Op: "mkgroup", Path: "/a"})
				for i := 0; i < n; i++ {
					const abc = "abcdefghijklmnopqrstuvwxyzABCDEFGHIJKLMNOPQRSTUVWXYZ"
					name := string(abc[i])
					if nameLen > 1 {
						name += strings.Repeat("x", nameLen-1)
					}
					h = append(h, vfOp{Op: "mkds", Path: "/a/" + name, Type: "u8", Dims: []uint64{1}})
				}
				cur := vfRun(dir, c.opts, h, true)
				par := &vfExec{}
				vfC03Visit(r, c.name, fmt.Sprintf("capacity(n=%d,len=%d)", n, nameLen), 0, par, cur, states, &smu)
				r.Transitions(1)
			}
		}
		// nesting chain depth 6
		var h []vfOp
		p := ""
		for i := 0; i < 6; i++ {
			p += fmt.Sprintf("/g%d", i)
			h = append(h, vfOp{Op: "mkgroup", Path: p})
		}
		h = append(h, vfOp{Op: "mkds", Path: p + "/leaf", Type: "i32", Dims: []uint64{2}})
		cur := vfRun(dir, c.opts, h, true)
		vfC03Visit(r, c.name, "nesting-6", 0, &vfExec{}, cur, states, &smu)
		r.Transitions(1)
	}
	// many-ancestor-links family: k groups, each holding as many hard links to itself as a group
	// has room for (31 beside nothing else): hundreds of cycle cuts in one Open of a file that is
	// two levels deep; every link must be listed
	for _, k := range []int{1, 3, 9} {
		var h []vfOp
		for g := 0; g < k; g++ {
			gp := fmt.Sprintf("/m%d", g)
			h = append(h, vfOp{Op: "mkgroup", Path: gp})
			for l := 0; l < 31; l++ {
				h = append(h, vfOp{Op: "hardlink", Path: fmt.Sprintf("%s/l%02d", gp, l), Target: gp})
			}
		}
		ex := vfRun(dir, nil, h, true)
		r.Transitions(1)
		r.Case(fmt.Sprintf("many-ancestor-links/%d", k))
		detail := map[string]any{"family": "many-ancestor-links", "groups": k, "self_links_per_group": 31}
		accepted := 0
		for _, e := range ex.Errs {
			if e == nil {
				accepted++
			}
		}
		detail["accepted_operations"] = accepted
		if ex.Closed == nil {
			detail["open_error"] = fmt.Sprint(ex.ClosedErr)
			r.Fail("many-ancestor-links/file-unopenable", detail)
			continue
		}
		missing := 0
		for i, o := range h {
			if o.Op == "hardlink" && ex.Errs[i] == nil && ex.Closed.Get(o.Path) == nil {
				missing++
			}
		}
		if missing > 0 {
			detail["links_missing"] = missing
			r.Fail("many-ancestor-links/links-missing", detail)
		} else {
			r.Outcome("many-ancestor-links-ok")
		}
	}
	// link-object capacity family: soft-link and external-link objects whose names bring their
	// own object header to every size up to the single-chunk limit, then a hard link to the link
	// object (its reference count message needs 8 more bytes of header): a hard link that is
	// refused must leave no name behind, one that is accepted must resolve to the link object
	{
		type lj struct {
			kind string
			n    int
			sb   string
			cfg  []interface{}
		}
		var jobs []lj
		for _, kind := range []string{"softlink", "extlink"} {
			for n := 190; n <= 250; n++ {
				jobs = append(jobs, lj{kind, n, "sb2", nil}, lj{kind, n, "sb0", []interface{}{WithSuperblockVersion(SuperblockV0)}})
			}
		}
		vkit.ParallelFor(len(jobs), func(i int) {
			j := jobs[i]
			name := "/" + strings.Repeat("k", j.n)
			h := []vfOp{{Op: "mkgroup", Path: "/a"}, {Op: j.kind, Path: name, Target: "/a"}, {Op: "hardlink", Path: "/hz", Target: name}}
			ex := vfRun(dir, j.cfg, h, true)
			r.Transitions(1)
			r.Case(fmt.Sprintf("link-capacity/%s/%s/name-length-%d", j.sb, j.kind, j.n))
			detail := map[string]any{"family": "link-capacity", "config": j.sb, "link_kind": j.kind, "name_length": j.n, "history": vfOpsString(h),
				"hardlink_error": fmt.Sprint(ex.Errs[2])}
			if ex.Errs[1] != nil {
				r.Outcome("link-capacity:link-object-refused")
				return // the long link itself was refused: nothing to link to
			}
			if ex.Closed == nil {
				detail["open_error"] = fmt.Sprint(ex.ClosedErr)
				r.Fail("link-capacity/"+j.kind+"/file-unopenable", detail)
				return
			}
			hz := ex.Closed.Get("/hz")
			if hz == nil {
				hz = ex.Closed.Get("/hz/")
			}
			switch {
			case ex.Errs[2] != nil && hz != nil:
				r.Fail("link-capacity/"+j.kind+"/refused-hard-link-left-its-name-behind", detail)
			case ex.Errs[2] == nil && hz == nil:
				r.Fail("link-capacity/"+j.kind+"/accepted-hard-link-missing", detail)
			case ex.Errs[2] != nil:
				r.Outcome("link-capacity:refused-cleanly")
			default:
				r.Outcome("link-capacity:accepted")
			}
		})
	}
	r.States(int64(len(states)))
	r.Sample(map[string]any{"sequence": "mkgroup(/a); mkgroup(/a/a); hardlink(/a/h->/a/a)", "expected_walk": []string{"/", "/a/", "/a/a/", "/a/h/"}})
	r.Assume("soft and external links are expected to be visible at their path (any representation that is not a group/dataset of its own)")
}

// vfC03Problems evaluates one execution against the tree model. Problems are returned as
// "what@path" so that the visitor can report only those that the last operation introduced.
func vfC03Problems(ex *vfExec) (problems []string, undef bool) {
	m := vfNewNS()
	n := len(ex.Hist)
	for i, o := range ex.Hist {
		rej, why := m.mustReject(o)
		err := ex.Errs[i]
		if ex.Panics[i] {
			problems = append(problems, fmt.Sprintf("panic@%s#%d", o.Op, i))
			m.undef = true
			continue
		}
		if rej {
			if err == nil {
				problems = append(problems, fmt.Sprintf("%s-accepted(%s)#%d", why, o.Op, i))
				m.undef = true
			}
			continue
		}
		if err == nil {
			m.apply(o)
		}
		// a valid call that fails is not this property's business (capacity limits etc.)
	}
	_ = n
	if ex.Tree == nil {
		return append(problems, "file-unopenable"), m.undef
	}
	// no name twice within a group (always checked, even when the model is undefined)
	for p, ob := range ex.Tree.Objs {
		if ob.Kind != "group" {
			continue
		}
		seen := map[string]bool{}
		for _, ch := range ob.Children {
			if seen[ch] {
				problems = append(problems, "name-twice-in-group@"+p+ch)
			}
			seen[ch] = true
		}
	}
	if m.undef {
		return problems, true
	}
	exp := m.expected()
	got := map[string]string{}
	for p, ob := range ex.Tree.Objs {
		if p == "/" {
			continue
		}
		got[strings.TrimSuffix(p, "/")] = ob.Kind
	}
	// a path below a missing path is missing by implication: report the topmost one only
	missingAbove := func(p string) bool {
		for q := range exp {
			if q != p && strings.HasPrefix(p, q+"/") {
				if _, ok := got[q]; !ok {
					return true
				}
			}
		}
		return false
	}
	for p, k := range exp {
		g, ok := got[p]
		node := m.nodes[p]
		if !ok && missingAbove(p) {
			continue
		}
		switch {
		case k == "softlink" || k == "extlink":
			if !ok {
				problems = append(problems, k+"-not-visible@"+p)
			} else if g == "group" || g == "dataset" {
				problems = append(problems, k+"-surfaces-as-"+g+"@"+p)
			}
		case !ok:
			what := "missing-" + k
			if node.kind == "hardlink" {
				what = "missing-hardlink-to-" + k
			}
			problems = append(problems, what+"@"+p)
		case strings.TrimSuffix(k, "*") != g:
			problems = append(problems, "kind-"+k+"-read-as-"+g+"@"+p)
		}
	}
	for p := range got {
		if _, ok := exp[p]; !ok {
			// paths below a cyclic link are not demanded either way
			below := false
			for q, k := range exp {
				if k == "group*" && strings.HasPrefix(p, q+"/") {
					below = true
				}
			}
			if !below {
				problems = append(problems, "extra-path@"+p)
			}
		}
	}
	// hard links resolve to the same object as their target
	for p, node := range m.nodes {
		if node.kind != "hardlink" {
			continue
		}
		lo, to := ex.Tree.Get(p), ex.Tree.Get(node.target)
		if lo == nil || to == nil {
			continue
		}
		if lo.Addr != to.Addr {
			problems = append(problems, "hardlink-different-object@"+p)
		} else if lo.Kind == "dataset" && lo.Content() != to.Content() {
			problems = append(problems, "hardlink-different-content@"+p)
		} else if lo.Kind == "group" && exp[p] != "group*" && fmt.Sprint(lo.Children) != fmt.Sprint(to.Children) {
			problems = append(problems, "hardlink-to-group-different-children@"+p)
		}
	}
	return problems, false
}

func vfC03Visit(r *vkit.Run, cfg, start string, nprefix int, parent, cur *vfExec, states map[string]struct{}, smu *sync.Mutex) {
	n := len(cur.Hist)
	last := cur.Hist[n-1]
	probs, _ := vfC03Problems(cur)
	var pprobs []string
	if len(parent.Hist) == n-1 && (parent.Tree != nil || parent.OpenErr != nil) {
		pprobs, _ = vfC03Problems(parent)
	}
	old := map[string]bool{}
	for _, p := range pprobs {
		old[p] = true
	}
	hs := cfg + "/" + start + ": " + vfOpsString(cur.Hist[nprefix:])
	if cur.Errs[n-1] == nil {
		r.Case(hs)
	} else {
		r.Case("")
	}
	if cur.Tree != nil {
		smu.Lock()
		states[strings.Join(cur.Tree.Order, " ")] = struct{}{}
		smu.Unlock()
	}
	var fresh []string
	for _, p := range probs {
		if old[p] {
			continue
		}
		what := p
		if i := strings.IndexAny(p, "@#"); i >= 0 {
			what = p[:i]
		}
		fresh = append(fresh, what)
	}
	if len(fresh) == 0 {
		r.Outcome("ok")
		return
	}
	sort.Strings(fresh)
	fresh = vfUniq(fresh)
	detail := map[string]any{"config": cfg, "start": start, "ops": cur.Hist, "history": vfOpsString(cur.Hist), "problems_introduced_by_last_op": fresh, "all_problems": probs}
	if cur.Tree != nil {
		detail["walk"] = cur.Tree.Order
	} else {
		detail["open_error"] = fmt.Sprint(cur.OpenErr)
	}
	for _, f := range fresh {
		r.Fail(last.Op+"/"+f, detail)
	}
	r.Outcome("mismatch")
}
