//go:build verif

package hdf5

import (
	"fmt"
	"os"
	"path/filepath"
	"sort"
	"strings"
	"sync/atomic"
	"testing"

	"github.com/scigolib/hdf5/internal/core"
	"github.com/scigolib/hdf5/internal/verif/vkit"
	"github.com/scigolib/hdf5/internal/verif/vos"
)

// C17 — truncated files and failing I/O produce errors, never different answers.

type vfBaseFile struct {
	name  string
	bytes []byte
	tree  *vfTree // intact dump
	// focus, if non-nil, restricts deviations to these byte ranges [lo,hi) (C07: larger
	// reference files of which only the structures carrying a new feature are mutated)
	focus [][2]int
}

// vfLibBaseFiles builds the library-written base files (one per feature).
func vfLibBaseFiles(t *testing.T, dir string) []vfBaseFile {
	type spec struct {
		name string
		cfg  []interface{}
		ops  []vfOp
	}
	attrs := func(path string, n int) []vfOp {
		var o []vfOp
		for i := 0; i < n; i++ {
			o = append(o, vfOp{Op: "attr", Path: path, Name: fmt.Sprintf("a%02d", i), Value: []string{"i64", "s40", "f64x3"}[i%3]})
		}
		return o
	}
	mk := func(p, ty string, dims []uint64) vfOp { return vfOp{Op: "mkds", Path: p, Type: ty, Dims: dims} }
	specs := []spec{
		{"lib-sb2-contiguous+compact-attrs", nil, append([]vfOp{mk("/d", "f64", []uint64{4}), {Op: "write", Path: "/d", Pat: 1}}, attrs("/d", 3)...)},
		{"lib-sb0-groups", []interface{}{WithSuperblockVersion(SuperblockV0)}, []vfOp{{Op: "mkgroup", Path: "/g"}, {Op: "mkgroup", Path: "/g/h"}, mk("/g/h/d", "i32", []uint64{2, 3}), {Op: "write", Path: "/g/h/d", Pat: 2}, {Op: "attr", Path: "/g", Name: "ga", Value: "i32a"}}},
		{"lib-sb3-two-datasets", []interface{}{WithSuperblockVersion(SuperblockV3)}, []vfOp{mk("/a", "i64", []uint64{3}), {Op: "write", Path: "/a", Pat: 1}, mk("/b", "str4", []uint64{2}), {Op: "write", Path: "/b", Pat: 1}}},
		{"lib-sb2-dense-attrs", nil, append([]vfOp{mk("/d", "i32", []uint64{2}), {Op: "write", Path: "/d", Pat: 1}}, attrs("/d", 9)...)},
		{"lib-sb2-chunked", nil, []vfOp{{Op: "mkds", Path: "/c", Type: "f64", Dims: []uint64{5}, Chunk: []uint64{2}}, {Op: "write", Path: "/c", Pat: 1}, {Op: "mkds", Path: "/c2", Type: "i32", Dims: []uint64{3, 4}, Chunk: []uint64{2, 3}}, {Op: "write", Path: "/c2", Pat: 2}}},
		{"lib-sb2-group-dense-attrs", nil, append([]vfOp{{Op: "mkgroup", Path: "/g"}, mk("/g/d", "i32", []uint64{2})}, attrs("/g", 9)...)},
		{"lib-sb2-links", nil, []vfOp{{Op: "mkgroup", Path: "/g"}, mk("/g/d", "f32", []uint64{3}), {Op: "write", Path: "/g/d", Pat: 1}, {Op: "hardlink", Path: "/hd", Target: "/g/d"}, {Op: "hardlink", Path: "/hg", Target: "/g"}}},
	}
	var out []vfBaseFile
	for _, s := range specs {
		w, err := vfNewWorld(dir, s.cfg...)
		if err != nil {
			t.Fatalf("base %s: %v", s.name, err)
		}
		for _, o := range s.ops {
			if e, _ := w.Apply(o); e != nil {
				t.Fatalf("base %s: %s: %v", s.name, o, e)
			}
		}
		if err := w.Close(); err != nil {
			t.Fatalf("base %s close: %v", s.name, err)
		}
		b, _ := os.ReadFile(w.Path)
		tr, err := vfDumpFile(w.Path)
		os.Remove(w.Path)
		if err != nil {
			t.Fatalf("base %s dump: %v", s.name, err)
		}
		out = append(out, vfBaseFile{s.name, b, tr, nil})
	}
	return out
}

// vfCorpusBaseFiles picks small reference files by greedy feature cover: a file's features
// are what the reader meets while traversing it (object header versions, the message types
// of every object, layout classes, datatype classes, filters, group styles, which reads
// work); files are added in the order of most new features (ties: smaller file, then name)
// until max files are chosen or no file adds a feature.
type vfCorpusCand struct {
	fn   string
	size int64
	tr   *vfTree
	feat map[string]bool
	// objFeat: object header address -> features that object contributes
	objFeat map[uint64][]string
}

// vfCorpusScan opens every reference file of minSize..maxSize bytes and records its features.
func vfCorpusScan(minSize, maxSize int64) []vfCorpusCand {
	var files []string
	for _, pat := range []string{"testdata/*.h5", "testdata/reference/*.h5", "testdata/hdf5_official/*.h5"} {
		m, _ := filepath.Glob(pat)
		files = append(files, m...)
	}
	sort.Strings(files)
	var cands []vfCorpusCand
	for _, fn := range files {
		st, err := os.Stat(fn)
		if err != nil || st.Size() < minSize || st.Size() > maxSize {
			continue
		}
		var tr *vfTree
		feat := map[string]bool{}
		objFeat := map[uint64][]string{}
		func() {
			defer func() { recover() }()
			f, err := Open(fn)
			if err != nil {
				return
			}
			defer f.Close()
			// a file with a dataset of more than 2^20 elements is not a base (its full read
			// would cost gigabytes in every one of its mutants)
			huge := false
			f.Walk(func(p string, obj Object) {
				if d, ok := obj.(*Dataset); ok {
					func() {
						defer func() { recover() }()
						if hdr, err := core.ReadObjectHeader(f.osFile, d.address, f.sb); err == nil {
							if di, err := core.ReadDatasetInfo(hdr, f.sb); err == nil && di.Dataspace != nil {
								n := uint64(1)
								for _, x := range di.Dataspace.Dimensions {
									if x != 0 && n > (1<<40)/x {
										n = 1 << 40
										break
									}
									n *= x
								}
								if n > 1<<20 {
									huge = true
								}
							}
						}
					}()
				}
			})
			if huge {
				return
			}
			tr = vfDumpOpen(f)
			feat[fmt.Sprintf("superblock-v%d", f.sb.Version)] = true
			f.Walk(func(p string, obj Object) {
				var addr uint64
				switch x := obj.(type) {
				case *Group:
					addr = x.address
				case *Dataset:
					addr = x.address
				default:
					return
				}
				func() {
					defer func() { recover() }()
					hdr, err := core.ReadObjectHeader(f.osFile, addr, f.sb)
					if err != nil {
						return
					}
					add := func(k string) {
						feat[k] = true
						objFeat[addr] = append(objFeat[addr], k)
					}
					ncont := 0
					for _, m := range hdr.Messages {
						if uint16(m.Type) == 0x10 {
							// a header continued more than once: one continuation can then be made
							// to name a block another one has already led to
							if ncont++; ncont == 2 {
								add(fmt.Sprintf("ohdr-v%d/continued-more-than-once", hdr.Version))
							}
						}
						add(fmt.Sprintf("ohdr-v%d/msg-%#x", hdr.Version, uint16(m.Type)))
						if uint16(m.Type) == 0x0B {
							if fp, err := core.ParseFilterPipelineMessage(m.Data); err == nil && fp != nil {
								for _, fl := range fp.Filters {
									add(fmt.Sprintf("filter-%d", fl.ID))
								}
							}
						}
					}
					if _, ok := obj.(*Dataset); ok {
						if di, err := core.ReadDatasetInfo(hdr, f.sb); err == nil {
							if di.Layout != nil {
								add(fmt.Sprintf("layout-class-%d", di.Layout.Class))
							}
							if di.Datatype != nil {
								add(fmt.Sprintf("datatype-class-%d", di.Datatype.Class))
							}
						}
					}
				}()
			})
		}()
		if tr == nil || len(tr.Objs) < 2 {
			continue
		}
		readable := false
		for _, o := range tr.Objs {
			if o.Kind == "dataset" {
				for i, v := range []string{o.Read, o.Strings, o.Compound} {
					if v != "ERR" && v != "PANIC" {
						feat[fmt.Sprintf("typed-read-%d-works", i)] = true
						readable = true
					}
				}
				if o.VLen != "" {
					feat["variable-length-elements"] = true
				}
			}
			if len(o.Attrs) > 0 {
				feat["attributes"] = true
				readable = true
				// the datatype class of attribute values (variable-length values are resolved
				// through another structure, the global heap, when they are read)
				for _, a := range o.Attrs {
					if i := strings.IndexByte(a.Type, '/'); i > 0 {
						feat["attribute-"+a.Type[:i]] = true
					}
				}
			}
		}
		if !readable {
			continue
		}
		// further features from the read trace (only when the os->vos seam is compiled in):
		// which kinds of signed structures the complete traversal reads (global heap
		// collections, fractal heaps, v2 B-trees, chunk B-trees, ...); the first structure of
		// each kind counts as an "object" whose first bytes can be focused
		func() {
			defer func() { recover() }()
			b, err := os.ReadFile(fn)
			if err != nil {
				return
			}
			pl := &vos.Plan{Trace: true}
			vos.SetPlan(fn, pl)
			defer vos.SetPlan(fn, nil)
			vfC07Drive(fn)
			seen := map[string]bool{}
			for _, rd := range pl.Reads {
				if rd[0] < 0 || rd[0]+4 > int64(len(b)) {
					continue
				}
				sig := string(b[rd[0] : rd[0]+4])
				for _, known := range vfSignatures {
					if sig == known && !seen[sig] && known != "\x89HDF" {
						seen[sig] = true
						k := "reads-structure-" + sig
						feat[k] = true
						objFeat[uint64(rd[0])] = append(objFeat[uint64(rd[0])], k)
					}
				}
			}
		}()
		cands = append(cands, vfCorpusCand{fn, st.Size(), tr, feat, objFeat})
	}
	return cands
}

// vfCorpusBaseFiles picks small reference files by greedy feature cover: a file's features
// are what the reader meets while traversing it (superblock and object header versions, the
// message types of every object, layout classes, datatype classes, which reads work); files
// are added in the order of most new features (ties: smaller file, then name) until max files
// are chosen or no file adds a feature.
func vfCorpusBaseFiles(max int, maxSize int64) []vfBaseFile {
	out, _ := vfCorpusCover(vfCorpusScan(512, maxSize), max, map[string]bool{})
	return out
}

func vfCorpusCover(cands []vfCorpusCand, max int, covered map[string]bool) ([]vfBaseFile, []vfCorpusCand) {
	var out []vfBaseFile
	var chosen []vfCorpusCand
	used := map[string]bool{}
	for len(out) < max {
		best, bestGain := -1, 0
		for i, c := range cands {
			if used[c.fn] {
				continue
			}
			gain := 0
			for k := range c.feat {
				if !covered[k] {
					gain++
				}
			}
			if gain > bestGain || (gain == bestGain && gain > 0 && c.size < cands[best].size) {
				best, bestGain = i, gain
			}
		}
		if best < 0 || bestGain == 0 {
			break
		}
		c := cands[best]
		used[c.fn] = true
		// focus: the headers of the objects that carry features not covered before
		// (greedy again: the object with the most still-uncovered features first, at most 3
		// objects, 256 bytes from the start of each object header)
		var focus [][2]int
		got := map[string]bool{}
		var addrs []uint64
		for a := range c.objFeat {
			addrs = append(addrs, a)
		}
		sort.Slice(addrs, func(i, j int) bool { return addrs[i] < addrs[j] })
		for len(focus) < 3 {
			var bestA uint64
			bestN := 0
			for _, a := range addrs {
				n := 0
				for _, k := range c.objFeat[a] {
					if !covered[k] && !got[k] {
						n++
					}
				}
				if n > bestN {
					bestA, bestN = a, n
				}
			}
			if bestN == 0 {
				break
			}
			for _, k := range c.objFeat[bestA] {
				got[k] = true
			}
			lo, hi := int(bestA), int(bestA)+256
			if hi > int(c.size) {
				hi = int(c.size)
			}
			focus = append(focus, [2]int{lo, hi})
		}
		sort.Slice(focus, func(i, j int) bool { return focus[i][0] < focus[j][0] })
		for k := range c.feat {
			covered[k] = true
		}
		b, _ := os.ReadFile(c.fn)
		out = append(out, vfBaseFile{"corpus:" + filepath.Base(c.fn), b, c.tr, focus})
		chosen = append(chosen, c)
	}
	return out, chosen
}

// vfCompareDegraded compares the dump of a damaged/faulted file with the intact dump:
// every answer must be an error or identical; nothing may be silently missing.
func vfCompareDegraded(intact, got *vfTree) []string {
	var problems []string
	if got == nil {
		return nil // Open failed: an error
	}
	for p, g := range got.Objs {
		in := intact.Objs[p]
		if in == nil {
			problems = append(problems, "object-that-does-not-exist-in-intact-file")
			continue
		}
		if g.Kind != in.Kind {
			problems = append(problems, "object-kind-differs")
			continue
		}
		fld := func(name, gv, iv string) {
			if gv == "PANIC" || strings.Contains(gv, "PANIC") {
				problems = append(problems, name+"-panics")
			} else if gv != "ERR" && gv != iv {
				problems = append(problems, name+"-returns-different-value")
			}
		}
		if g.Kind == "dataset" {
			fld("info", g.Info, in.Info)
			fld("shape", g.Shape, in.Shape)
			fld("read", g.Read, in.Read)
			fld("readstrings", g.Strings, in.Strings)
			fld("readcompound", g.Compound, in.Compound)
			if in.Partial[0] != "" && g.Partial[0] != "" {
				fld("readslice", g.Partial[0], in.Partial[0])
				fld("readslice-retried-on-the-same-handle", g.Partial[1], in.Partial[1])
				fld("chunk-iteration", g.Partial[2], in.Partial[2])
			}
		}
		if g.Kind == "group" && fmt.Sprint(g.Children) != fmt.Sprint(in.Children) {
			if len(g.Children) < len(in.Children) {
				problems = append(problems, "group-members-silently-omitted")
			} else {
				problems = append(problems, "group-members-differ")
			}
		}
		if !g.AttrErr {
			if len(g.Attrs) < len(in.Attrs) && !in.AttrErr {
				problems = append(problems, "attributes-silently-omitted")
			} else if !in.AttrErr {
				for i := range g.Attrs {
					if i < len(in.Attrs) && g.Attrs[i].String() != in.Attrs[i].String() {
						// a value that became an error is fine
						a, b := g.Attrs[i], in.Attrs[i]
						if a.Name == b.Name && a.Type == b.Type && a.Dims == b.Dims && a.Raw == b.Raw && a.Value == "ERR" {
							continue
						}
						if a.Value == "PANIC" {
							problems = append(problems, "attribute-readvalue-panics")
						} else {
							problems = append(problems, "attribute-returns-different-value")
						}
					}
				}
			}
		}
	}
	sort.Strings(problems)
	return vfUniq(problems)
}

var vfC17Counter int64

func TestVerif_C17(t *testing.T) {
	r := vkit.Start(t, "C17", "fault_enumeration")
	defer r.Finish()
	dir := vkit.Scratch(t)
	vfDumpPartial = true // the traversal includes ReadSlice (twice on the same handle) and a full chunk iteration
	defer func() { vfDumpPartial = false }()
	bases := vfLibBaseFiles(t, dir)
	nCorpus, maxSize := 12, int64(16384)
	if r.Thorough() {
		nCorpus, maxSize = 30, 32768
	}
	bases = append(bases, vfCorpusBaseFiles(nCorpus, maxSize)...)
	var names []string
	for _, b := range bases {
		names = append(names, fmt.Sprintf("%s(%dB)", b.name, len(b.bytes)))
	}
	r.Set("base_files", names)

	// is the os->vos redirection active in this build?
	vosActive := false
	{
		p := filepath.Join(dir, "probe.h5")
		os.WriteFile(p, bases[0].bytes, 0o644)
		pl := &vos.Plan{FailAt: 1, Kind: "read"}
		vos.SetPlan(p, pl)
		_, err := Open(p)
		_, fired, _, _ := pl.Counts()
		vosActive = err != nil && fired > 0
		vos.SetPlan(p, nil)
		os.Remove(p)
	}
	r.Set("io_fault_seam_active", vosActive)
	if !vosActive {
		r.Cap("the os->vos import redirection is not active in this build (instrumentation degraded): only truncation is enumerated")
	}
	r.Rule("base files: 7 library-written files (one per feature) and small reference-library files with distinct feature signatures; (a) every truncation length 0..size-1 of every base file; (b) for every base file and every k, the k-th ReadAt of the full read-API traversal (Open, Walk, Info, Read, ReadSlice of the full extent twice on the same handle, full chunk iteration, ReadStrings, ReadCompound, Attributes+ReadValue) failing outright, and returning short with EOF; (c) for a 20-call write history (groups, contiguous and chunked datasets, compact and dense attributes, a hard link, variable-length data rolling over a heap collection) under superblock 2 and 0, every k-th WriteAt / ReadAt / Sync failing (outright, and short for writes): the API call in which the fault fires must return an error, nothing may panic, Close must return. In (a),(b) every answer must be an error or identical to the intact file's and no member or attribute may be silently missing; non-trivial = the damaged file still opened")

	// (a) truncation
	for _, b := range bases {
		b := b
		vkit.ParallelFor(len(b.bytes), func(L int) {
			if r.Expired() {
				r.Cap("time budget (truncation)")
				return
			}
			p := filepath.Join(dir, fmt.Sprintf("t%d.h5", atomic.AddInt64(&vfC17Counter, 1)))
			os.WriteFile(p, b.bytes[:L], 0o644)
			defer os.Remove(p)
			var got *vfTree
			detail := map[string]any{"base": b.name, "truncated_to": L, "size": len(b.bytes)}
			if r.Guard("truncation/", detail, func() { got, _ = vfDumpFile(p) }) {
				r.Case(fmt.Sprintf("%s@%d", b.name, L))
				return
			}
			if got == nil {
				r.Case("")
				r.Outcome("open-error")
				return
			}
			r.Case(fmt.Sprintf("%s@%d", b.name, L))
			probs := vfCompareDegraded(b.tree, got)
			if len(probs) == 0 {
				r.Outcome("error-or-identical")
				return
			}
			kind := "lib"
			if strings.HasPrefix(b.name, "corpus:") {
				kind = "corpus"
			}
			for _, pr := range probs {
				r.Fail(fmt.Sprintf("truncation/%s/%s", kind, pr), detail)
			}
			r.Outcome("different-answer")
		})
	}
	if vosActive {
		vfC17ReadFaults(r, dir, bases)
		vfC17WriteFaults(r, dir)
	}
}

func vfC17ReadFaults(r *vkit.Run, dir string, bases []vfBaseFile) {
	for _, b := range bases {
		b := b
		// count the ReadAt calls of an intact traversal
		p0 := filepath.Join(dir, fmt.Sprintf("r%d.h5", atomic.AddInt64(&vfC17Counter, 1)))
		os.WriteFile(p0, b.bytes, 0o644)
		pl := &vos.Plan{Kind: "read"}
		vos.SetPlan(p0, pl)
		tr, _ := vfDumpFile(p0)
		n, _, _, _ := pl.Counts()
		vos.SetPlan(p0, nil)
		os.Remove(p0)
		if tr == nil || tr.String() != b.tree.String() {
			r.Fail("harness/vos-traversal-differs-from-plain-traversal", map[string]any{"base": b.name})
			continue
		}
		r.Add("read_calls_enumerated", int64(n))
		type job struct {
			k     int
			short bool
		}
		var jobs []job
		for k := 1; k <= n; k++ {
			jobs = append(jobs, job{k, false}, job{k, true})
		}
		vkit.ParallelFor(len(jobs), func(i int) {
			if r.Expired() {
				r.Cap("time budget (read faults)")
				return
			}
			j := jobs[i]
			p := filepath.Join(dir, fmt.Sprintf("r%d.h5", atomic.AddInt64(&vfC17Counter, 1)))
			os.WriteFile(p, b.bytes, 0o644)
			defer os.Remove(p)
			pl := &vos.Plan{Kind: "read", FailAt: j.k, Short: j.short}
			vos.SetPlan(p, pl)
			defer vos.SetPlan(p, nil)
			mode := "error"
			if j.short {
				mode = "short"
			}
			detail := map[string]any{"base": b.name, "failing_readat": j.k, "of": n, "mode": mode}
			var got *vfTree
			if r.Guard("read-fault/", detail, func() { got, _ = vfDumpFile(p) }) {
				r.Case(fmt.Sprintf("%s#%d/%s", b.name, j.k, mode))
				return
			}
			r.Case(fmt.Sprintf("%s#%d/%s", b.name, j.k, mode))
			if got == nil {
				r.Outcome("open-error")
				return
			}
			probs := vfCompareDegraded(b.tree, got)
			if len(probs) == 0 {
				r.Outcome("error-or-identical")
				return
			}
			kind := "lib"
			if strings.HasPrefix(b.name, "corpus:") {
				kind = "corpus"
			}
			for _, pr := range probs {
				r.Fail(fmt.Sprintf("read-fault-%s/%s/%s", mode, kind, pr), detail)
			}
			r.Outcome("different-answer")
		})
	}
}

func vfC17WriteFaults(r *vkit.Run, dir string) {
	hist := []vfOp{
		{Op: "mkgroup", Path: "/g"},
		{Op: "mkds", Path: "/g/d", Type: "f64", Dims: []uint64{4}},
		{Op: "write", Path: "/g/d", Pat: 1},
		{Op: "attr", Path: "/g/d", Name: "a", Value: "s40"},
		{Op: "mkds", Path: "/c", Type: "i32", Dims: []uint64{5}, Chunk: []uint64{2}},
		{Op: "write", Path: "/c", Pat: 2},
		{Op: "hardlink", Path: "/l", Target: "/g/d"},
	}
	for i := 0; i < 9; i++ {
		hist = append(hist, vfOp{Op: "attr", Path: "/c", Name: fmt.Sprintf("k%d", i), Value: "i64"})
	}
	// variable-length data: three 2000-byte elements roll over from one global heap collection
	// to the next inside Write (the full collection is written then), a second dataset shares
	// the open collection, the rest is written at Close
	hist = append(hist, vfOp{Op: "mkds", Path: "/v", Type: "vstr", Dims: []uint64{3}}, vfOp{Op: "write", Path: "/v", Pat: 3},
		vfOp{Op: "mkds", Path: "/v2", Type: "vstr", Dims: []uint64{2}}, vfOp{Op: "write", Path: "/v2", Pat: 1})
	for _, sb := range []uint8{2, 0} {
		// intact run: count calls
		var finalDump func() string
		run := func(pl *vos.Plan) (createErr error, errs []error, panics []bool, closeErr error, closePanic bool, final string) {
			p := filepath.Join(dir, fmt.Sprintf("w%d.h5", atomic.AddInt64(&vfC17Counter, 1)))
			defer os.Remove(p)
			defer func() {
				vos.SetPlan(p, nil)
				if tr, err := vfDumpFile(p); err == nil {
					final = tr.String()
				} else {
					final = "<unopenable>"
				}
			}()
			vos.SetPlan(p, pl)
			defer vos.SetPlan(p, nil)
			pl.SetTag(-1)
			var fw *FileWriter
			func() {
				defer func() {
					if pp := recover(); pp != nil {
						createErr = fmt.Errorf("PANIC: %v", pp)
					}
				}()
				fw, createErr = CreateForWrite(p, CreateTruncate, WithSuperblockVersion(sb))
			}()
			if createErr != nil || fw == nil {
				return
			}
			w := &vfWorld{Path: p, FW: fw, DS: map[string]*DatasetWriter{}, DSType: map[string]string{}, DSDims: map[string][]uint64{}, GR: map[string]*GroupWriter{}}
			for i, o := range hist {
				pl.SetTag(i)
				e, pn := w.Apply(o)
				errs = append(errs, e)
				panics = append(panics, pn)
			}
			pl.SetTag(len(hist))
			func() {
				defer func() {
					if pp := recover(); pp != nil {
						closePanic = true
					}
				}()
				closeErr = fw.Close()
			}()
			return
		}
		base := &vos.Plan{}
		ce, errs, _, _, _, intactFinal := run(base)
		_ = finalDump
		if ce != nil {
			r.Fail("harness/write-history-fails-without-faults", map[string]any{"error": ce.Error()})
			continue
		}
		for i, e := range errs {
			if e != nil {
				r.Fail("harness/write-history-fails-without-faults", map[string]any{"op": hist[i].String(), "error": e.Error()})
			}
		}
		total, _, _, _ := base.Counts()
		r.Add("write_history_io_calls_enumerated", int64(total))
		type job struct {
			k     int
			short bool
		}
		var jobs []job
		for k := 1; k <= total; k++ {
			jobs = append(jobs, job{k, false}, job{k, true})
		}
		vkit.ParallelFor(len(jobs), func(ji int) {
			if r.Expired() {
				r.Cap("time budget (write faults)")
				return
			}
			j := jobs[ji]
			pl := &vos.Plan{FailAt: j.k, Short: j.short}
			ce, errs, panics, _, closePanic, final := run(pl)
			_, fired, firedIn, firedOp := pl.Counts()
			mode := "error"
			if j.short {
				mode = "short"
			}
			r.Case(fmt.Sprintf("sb%d/io#%d/%s", sb, j.k, mode))
			detail := map[string]any{"superblock": sb, "failing_io_call": j.k, "of": total, "mode": mode, "io_kind": firedOp, "fired_during_call": firedIn}
			if fired == 0 {
				r.Outcome("fault-not-reached")
				return
			}
			opName := "CreateForWrite"
			var opErr error
			opPanic := false
			switch {
			case firedIn == -1:
				opErr = ce
				opPanic = ce != nil && strings.HasPrefix(ce.Error(), "PANIC")
			case firedIn >= 0 && firedIn < len(hist):
				opName = hist[firedIn].Op
				if firedIn < len(errs) {
					opErr, opPanic = errs[firedIn], panics[firedIn]
				}
			default:
				opName = "Close"
				r.Outcome("fault-in-close")
				if closePanic {
					r.Fail("write-fault/Close/panic", detail)
				}
				return
			}
			detail["api_call"] = opName
			for i := range panics {
				if panics[i] {
					detail["panic"] = fmt.Sprint(errs[i])
					r.Fail(fmt.Sprintf("write-fault/%s/panic", hist[i].Op), detail)
				}
			}
			if opPanic && firedIn == -1 {
				r.Fail("write-fault/CreateForWrite/panic", detail)
			}
			if closePanic {
				r.Fail("write-fault/Close-after-fault/panic", detail)
			}
			if opErr == nil {
				// A failed read that the call recovers from is fine when the result is exactly
				// what it is with working I/O; a failed write or sync must be reported.
				if firedOp == "read" && final == intactFinal {
					r.Outcome("read-failure-tolerated-same-result")
					return
				}
				r.Fail(fmt.Sprintf("write-fault/%s/%s-%s-failure-not-reported", opName, firedOp, mode), detail)
				r.Outcome("failure-swallowed")
				return
			}
			r.Outcome("failure-reported")
		})
	}
}
