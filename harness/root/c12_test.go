//go:build verif

package hdf5

import (
	"bytes"
	"reflect"
	"encoding/binary"
	"fmt"
	"hash/crc32"
	"math"
	"os"
	"path/filepath"
	"sort"
	"strings"
	"sync/atomic"
	"testing"

	"github.com/scigolib/hdf5/internal/core"
	"github.com/scigolib/hdf5/internal/verif/vkit"
)

// C12 — variable-length data round-trips through the global heap.

// vfGCOL is an independent decoder of one global heap collection (format spec III.E).
type vfGCOL struct {
	addr, size uint64
	objs       map[uint16][]byte
	problems   []string
}

func vfParseGCOL(file []byte, addr uint64) *vfGCOL {
	g := &vfGCOL{addr: addr, objs: map[uint16][]byte{}}
	bad := func(f string, a ...any) *vfGCOL { g.problems = append(g.problems, fmt.Sprintf(f, a...)); return g }
	if addr+16 > uint64(len(file)) {
		return bad("collection-header-outside-file")
	}
	b := file[addr:]
	if string(b[0:4]) != "GCOL" {
		return bad("bad-signature")
	}
	if b[4] != 1 {
		bad("version-not-1")
	}
	if b[5] != 0 || b[6] != 0 || b[7] != 0 {
		bad("reserved-bytes-nonzero")
	}
	g.size = binary.LittleEndian.Uint64(b[8:16])
	if g.size < 4096 {
		bad("collection-smaller-than-4096")
	}
	if addr+g.size > uint64(len(file)) {
		return bad("collection-extends-beyond-file")
	}
	off := uint64(16)
	sawFree := false
	for off+16 <= g.size {
		idx := binary.LittleEndian.Uint16(b[off : off+2])
		// refcount := b[off+2:off+4]
		if binary.LittleEndian.Uint32(b[off+4:off+8]) != 0 {
			bad("object-reserved-nonzero")
		}
		sz := binary.LittleEndian.Uint64(b[off+8 : off+16])
		if idx == 0 {
			// free space object: size is the remaining space, with or without its own header
			remaining := g.size - off
			if sz != remaining && sz != remaining-16 {
				bad("free-space-size-inconsistent")
			}
			sawFree = true
			break
		}
		if _, dup := g.objs[idx]; dup {
			bad("duplicate-object-index")
		}
		if off+16+sz > g.size {
			return bad("object-extends-beyond-collection")
		}
		g.objs[idx] = b[off+16 : off+16+sz]
		adv := 16 + sz
		if adv%8 != 0 {
			adv += 8 - adv%8
		}
		off += adv
		if off%8 != 0 {
			bad("object-not-8-aligned")
		}
	}
	if !sawFree && g.size-off >= 16 {
		// remaining space large enough for a free-space object but none present (all zero?)
		allZero := true
		for _, c := range b[off:g.size] {
			if c != 0 {
				allZero = false
			}
		}
		if !allZero {
			bad("trailing-garbage")
		}
	}
	return g
}

type vfVLType struct {
	name string
	dt   Datatype
	// mk returns the Go value to Write for the given element lengths (in base elements or
	// bytes for strings) and the expected raw bytes of each element.
	mk   func(lens []int, content int) (interface{}, [][]byte)
	base core.DatatypeClass
	bsz  uint32
}

func vfVLContentByte(e, j, content int) byte {
	switch content {
	case 1: // embedded NUL
		if j%5 == 2 {
			return 0
		}
		return byte('A' + (e+j)%26)
	case 2: // multi-byte UTF-8 ("é" = C3 A9) repeated
		if j%2 == 0 {
			return 0xC3
		}
		return 0xA9
	default:
		return byte('a' + (e*7+j)%26)
	}
}

func vfVLTypes() []vfVLType {
	str := vfVLType{name: "vlen-string", dt: VLenString, base: core.DatatypeString, bsz: 1, mk: func(lens []int, content int) (interface{}, [][]byte) {
		v := make([]string, len(lens))
		raw := make([][]byte, len(lens))
		for e, l := range lens {
			b := make([]byte, l)
			for j := range b {
				b[j] = vfVLContentByte(e, j, content)
			}
			v[e] = string(b)
			raw[e] = b
		}
		return v, raw
	}}
	num := func(name string, dt Datatype, cls core.DatatypeClass, sz int, put func(b []byte, e, j int)) vfVLType {
		return vfVLType{name: name, dt: dt, base: cls, bsz: uint32(sz), mk: nil}
	}
	_ = num
	i32 := vfVLType{name: "vlen-int32", dt: VLenInt32, base: core.DatatypeFixed, bsz: 4, mk: func(lens []int, _ int) (interface{}, [][]byte) {
		v := make([][]int32, len(lens))
		raw := make([][]byte, len(lens))
		for e, l := range lens {
			v[e] = make([]int32, l)
			for j := range v[e] {
				v[e][j] = int32(-(e*1000 + j + 1))
				raw[e] = binary.LittleEndian.AppendUint32(raw[e], uint32(v[e][j]))
			}
		}
		return v, raw
	}}
	i64 := vfVLType{name: "vlen-int64", dt: VLenInt64, base: core.DatatypeFixed, bsz: 8, mk: func(lens []int, _ int) (interface{}, [][]byte) {
		v := make([][]int64, len(lens))
		raw := make([][]byte, len(lens))
		for e, l := range lens {
			v[e] = make([]int64, l)
			for j := range v[e] {
				v[e][j] = int64(-(e*1000 + j + 1)) << 33
				raw[e] = binary.LittleEndian.AppendUint64(raw[e], uint64(v[e][j]))
			}
		}
		return v, raw
	}}
	u32 := vfVLType{name: "vlen-uint32", dt: VLenUint32, base: core.DatatypeFixed, bsz: 4, mk: func(lens []int, _ int) (interface{}, [][]byte) {
		v := make([][]uint32, len(lens))
		raw := make([][]byte, len(lens))
		for e, l := range lens {
			v[e] = make([]uint32, l)
			for j := range v[e] {
				v[e][j] = 4000000000 + uint32(e*1000+j)
				raw[e] = binary.LittleEndian.AppendUint32(raw[e], v[e][j])
			}
		}
		return v, raw
	}}
	u64 := vfVLType{name: "vlen-uint64", dt: VLenUint64, base: core.DatatypeFixed, bsz: 8, mk: func(lens []int, _ int) (interface{}, [][]byte) {
		v := make([][]uint64, len(lens))
		raw := make([][]byte, len(lens))
		for e, l := range lens {
			v[e] = make([]uint64, l)
			for j := range v[e] {
				v[e][j] = 1<<63 + uint64(e*1000+j)
				raw[e] = binary.LittleEndian.AppendUint64(raw[e], v[e][j])
			}
		}
		return v, raw
	}}
	f32 := vfVLType{name: "vlen-float32", dt: VLenFloat32, base: core.DatatypeFloat, bsz: 4, mk: func(lens []int, _ int) (interface{}, [][]byte) {
		v := make([][]float32, len(lens))
		raw := make([][]byte, len(lens))
		for e, l := range lens {
			v[e] = make([]float32, l)
			for j := range v[e] {
				v[e][j] = float32(e) + float32(j)/8
				// every fourth value is a bit pattern with a meaning of its own: signalling and
				// quiet NaNs with payloads, -0, the smallest subnormal, infinity
				if j%4 == 1 {
					v[e][j] = math.Float32frombits([]uint32{0x7fa00000, 0x7f800001, 0xffbfffff, 0x7fc00001, 0x80000000, 0x00000001, 0xff800000}[(e+j/4)%7])
				}
				raw[e] = binary.LittleEndian.AppendUint32(raw[e], math.Float32bits(v[e][j]))
			}
		}
		return v, raw
	}}
	f64 := vfVLType{name: "vlen-float64", dt: VLenFloat64, base: core.DatatypeFloat, bsz: 8, mk: func(lens []int, _ int) (interface{}, [][]byte) {
		v := make([][]float64, len(lens))
		raw := make([][]byte, len(lens))
		for e, l := range lens {
			v[e] = make([]float64, l)
			for j := range v[e] {
				v[e][j] = float64(e) + float64(j)/8
				if j%4 == 1 {
					v[e][j] = math.Float64frombits([]uint64{0x7ff4000000000000, 0x7ff0000000000001, 0xfff7ffffffffffff, 0x7ff8000000000001, 0x8000000000000000, 0x0000000000000001, 0xfff0000000000000}[(e+j/4)%7])
				}
				raw[e] = binary.LittleEndian.AppendUint64(raw[e], math.Float64bits(v[e][j]))
			}
		}
		return v, raw
	}}
	return []vfVLType{str, i32, i64, u32, u64, f32, f64}
}

var vfC12Counter int64

type vfC12Case struct {
	T       vfVLType
	SB      uint8
	Chunked bool
	Lens    []int
	Content int
	// session shape: First (if non-nil) is written to the same dataset before Lens
	// (overwrite); After are further variable-length datasets created and written in the
	// same session after /v; Plain adds a fixed-size dataset created and written after /v.
	First []int
	After [][]int
	Plain bool
}

func (c vfC12Case) String() string {
	lay := "contiguous"
	if c.Chunked {
		lay = "chunked"
	}
	ls := fmt.Sprint(c.Lens)
	if len(c.Lens) > 6 {
		ls = fmt.Sprintf("%dx%d", len(c.Lens), c.Lens[0])
	}
	tail := ""
	if c.First != nil {
		tail += fmt.Sprintf(" first=%v", c.First)
	}
	if c.After != nil {
		tail += fmt.Sprintf(" after=%v", c.After)
	}
	if c.Plain {
		tail += " plain-neighbour"
	}
	return fmt.Sprintf("%s sb%d %s lens=%s content%d%s", c.T.name, c.SB, lay, ls, c.Content, tail)
}

// vfC12Run returns the list of problems (finding-key suffixes) for one case.
// vfScribble overwrites the caller's side of a value that has been handed to Write (the
// elements of every inner slice): once Write has returned, the buffers belong to the caller
// again, and what reaches the file must not depend on what happens to them afterwards.
func vfScribble(v interface{}) {
	rv := reflect.ValueOf(v)
	if rv.Kind() != reflect.Slice {
		return
	}
	for i := 0; i < rv.Len(); i++ {
		in := rv.Index(i)
		if in.Kind() != reflect.Slice {
			continue
		}
		for j := 0; j < in.Len(); j++ {
			e := in.Index(j)
			switch e.Kind() {
			case reflect.Int8, reflect.Int16, reflect.Int32, reflect.Int64:
				e.SetInt(0x5A)
			case reflect.Uint8, reflect.Uint16, reflect.Uint32, reflect.Uint64:
				e.SetUint(0x5A)
			case reflect.Float32, reflect.Float64:
				e.SetFloat(-90.5)
			}
		}
	}
}

func vfC12Run(dir string, c vfC12Case) (problems []string, detail map[string]any) {
	detail = map[string]any{"case": c.String()}
	p := filepath.Join(dir, fmt.Sprintf("c12-%d.h5", atomic.AddInt64(&vfC12Counter, 1)))
	defer os.Remove(p)
	fw, err := CreateForWrite(p, CreateTruncate, WithSuperblockVersion(c.SB))
	if err != nil {
		return []string{"create-file-failed"}, detail
	}
	n := len(c.Lens)
	var opts []DatasetOption
	if c.Chunked {
		ch := uint64(2)
		if n < 2 {
			ch = 1
		}
		opts = append(opts, WithChunkDims([]uint64{ch}))
	}
	ds, err := fw.CreateDataset("/v", c.T.dt, []uint64{uint64(n)}, opts...)
	if err != nil {
		fw.Close()
		detail["error"] = err.Error()
		return []string{"create-dataset-rejected"}, detail
	}
	if c.First != nil {
		first := append([]int{}, c.First...)
		for len(first) < n {
			first = append(first, 3)
		}
		fd, _ := c.T.mk(first[:n], 0)
		if err := ds.Write(fd); err != nil {
			fw.Close()
			detail["error"] = err.Error()
			return []string{"first-write-rejected"}, detail
		}
		vfScribble(fd)
	}
	data, raws := c.T.mk(c.Lens, c.Content)
	if err := ds.Write(data); err != nil {
		fw.Close()
		detail["error"] = err.Error()
		return []string{"write-rejected"}, detail
	}
	vfScribble(data)
	for k, al := range c.After {
		ads, err := fw.CreateDataset(fmt.Sprintf("/w%d", k), c.T.dt, []uint64{uint64(len(al))})
		if err != nil {
			fw.Close()
			detail["error"] = err.Error()
			return []string{"later-create-rejected"}, detail
		}
		ad, _ := c.T.mk(al, 2)
		if err := ads.Write(ad); err != nil {
			fw.Close()
			detail["error"] = err.Error()
			return []string{"later-write-rejected"}, detail
		}
		vfScribble(ad)
	}
	if c.Plain {
		pds, err := fw.CreateDataset("/plain", Int32, []uint64{4})
		if err == nil {
			err = pds.Write([]int32{-1, -1, -1, -1})
		}
		if err != nil {
			fw.Close()
			detail["error"] = err.Error()
			return []string{"plain-neighbour-rejected"}, detail
		}
	}
	if err := fw.Close(); err != nil {
		detail["error"] = err.Error()
		return []string{"close-failed"}, detail
	}
	file, _ := os.ReadFile(p)
	f, err := Open(p)
	if err != nil {
		detail["error"] = err.Error()
		return []string{"reopen-failed"}, detail
	}
	defer f.Close()
	var d *Dataset
	f.Walk(func(path string, o Object) {
		if x, ok := o.(*Dataset); ok && path == "/v" {
			d = x
		}
	})
	if d == nil {
		return []string{"dataset-not-found"}, detail
	}
	hdr, err := core.ReadObjectHeader(f.osFile, d.address, f.sb)
	if err != nil {
		return []string{"header-unreadable"}, detail
	}
	info, err := core.ReadDatasetInfo(hdr, f.sb)
	if err != nil {
		detail["error"] = err.Error()
		problems = append(problems, "info-error")
	} else {
		if info.Datatype.Class != core.DatatypeVarLen {
			detail["class"] = int(info.Datatype.Class)
			problems = append(problems, "not-recognised-as-variable-length")
		} else {
			isStr := info.Datatype.IsVariableString()
			if isStr != (c.T.name == "vlen-string") {
				problems = append(problems, "vlen-kind-string-vs-sequence-wrong")
			}
			// base type: nested datatype message in Properties
			if base, err := core.ParseDatatypeMessage(info.Datatype.Properties); err != nil {
				problems = append(problems, "base-type-unparsable")
			} else if base.Class != c.T.base || base.Size != c.T.bsz {
				detail["base"] = fmt.Sprintf("class%d size%d", base.Class, base.Size)
				problems = append(problems, "base-type-differs")
			} else if base.Class == core.DatatypeFixed {
				// signedness (bit 3 of the class bit field) and byte order (bit 0) of the base type
				wantSigned := c.T.name == "vlen-int32" || c.T.name == "vlen-int64"
				if gotSigned := base.ClassBitField&0x08 != 0; gotSigned != wantSigned {
					detail["base_bit_field"] = fmt.Sprintf("%#x", base.ClassBitField)
					problems = append(problems, "base-type-signedness-differs")
				}
				if base.ClassBitField&0x01 != 0 {
					problems = append(problems, "base-type-byte-order-differs")
				}
			}
		}
		if fmt.Sprint(info.Dataspace.Dimensions) != fmt.Sprint([]uint64{uint64(n)}) {
			problems = append(problems, "shape-differs")
		}
	}
	// library element readers
	if c.T.name == "vlen-string" {
		gs, err := d.ReadStrings()
		if err == nil {
			want := data.([]string)
			ok := len(gs) == len(want)
			for i := 0; ok && i < len(want); i++ {
				if gs[i] != want[i] {
					ok = false
					detail["index"], detail["want_len"], detail["got_len"] = i, len(want[i]), len(gs[i])
					if strings.HasPrefix(want[i], gs[i]) && c.Content == 1 {
						problems = append(problems, "readstrings-cut-at-embedded-NUL")
					} else {
						problems = append(problems, "readstrings-values-differ")
					}
				}
			}
			if len(gs) != len(want) {
				problems = append(problems, "readstrings-count-differs")
			}
		} else {
			detail["readstrings_error"] = err.Error()
		}
		detail["readstrings_ok"] = err == nil
		if err != nil {
			problems = append(problems, "library-offers-no-reader-for-the-elements")
		}
	} else {
		if gs, err := d.ReadStrings(); err == nil {
			detail["strings"] = fmt.Sprintf("%.80q", gs)
			problems = append(problems, "readstrings-returns-values-for-sequence")
		}
		// there is no element reader for variable-length sequences in the read API at all
		problems = append(problems, "library-offers-no-reader-for-the-elements")
	}
	if v, err := d.Read(); err == nil {
		detail["read"] = fmt.Sprint(v)
		problems = append(problems, "read-returns-numbers-for-vlen")
	}
	// independent decode (contiguous only: raw element bytes at the layout's data address)
	if !c.Chunked && info != nil && info.Layout != nil {
		addr := info.Layout.DataAddress
		if addr+uint64(16*n) > uint64(len(file)) {
			problems = append(problems, "element-array-outside-file")
		} else {
			cols := map[uint64]*vfGCOL{}
			for e := 0; e < n; e++ {
				el := file[addr+uint64(16*e) : addr+uint64(16*e)+16]
				// spec layout: length(4) address(8) index(4)
				slen := binary.LittleEndian.Uint32(el[0:4])
				saddr := binary.LittleEndian.Uint64(el[4:12])
				sidx := binary.LittleEndian.Uint32(el[12:16])
				// library layout: address(8) index(4) pad(4)
				laddr := binary.LittleEndian.Uint64(el[0:8])
				lidx := binary.LittleEndian.Uint32(el[8:12])
				var caddr uint64
				var cidx uint32
				specOK := saddr < uint64(len(file)) && saddr+4 <= uint64(len(file)) && string(file[saddr:saddr+4]) == "GCOL"
				libOK := laddr < uint64(len(file)) && laddr+4 <= uint64(len(file)) && string(file[laddr:laddr+4]) == "GCOL"
				wantLen := len(raws[e]) / int(c.T.bsz)
				switch {
				case len(raws[e]) == 0 && saddr == 0 && laddr == 0:
					continue // empty element may be a null reference
				case specOK && (int(slen) == wantLen):
					caddr, cidx = saddr, sidx
				case libOK:
					problems = append(problems, "element-reference-lacks-length-field")
					caddr, cidx = laddr, lidx
				case specOK:
					problems = append(problems, "element-length-field-wrong")
					caddr, cidx = saddr, sidx
				default:
					problems = append(problems, "element-reference-unresolvable")
					continue
				}
				g := cols[caddr]
				if g == nil {
					g = vfParseGCOL(file, caddr)
					cols[caddr] = g
				}
				ob, ok := g.objs[uint16(cidx)]
				if !ok {
					problems = append(problems, "heap-object-missing")
					continue
				}
				if string(ob) != string(raws[e]) {
					// a string may be stored with a terminating NUL
					if c.T.name == "vlen-string" && string(ob) == string(raws[e])+"\x00" {
						continue
					}
					detail["element"], detail["want_len"], detail["got_len"] = e, len(raws[e]), len(ob)
					problems = append(problems, "heap-object-bytes-differ")
				}
			}
			var addrs []uint64
			for a := range cols {
				addrs = append(addrs, a)
			}
			sort.Slice(addrs, func(i, j int) bool { return addrs[i] < addrs[j] })
			for i, a := range addrs {
				g := cols[a]
				for _, pr := range g.problems {
					problems = append(problems, "gcol/"+pr)
				}
				if i+1 < len(addrs) && a+g.size > addrs[i+1] {
					problems = append(problems, "gcol/collections-overlap")
				}
				// the library's own heap reader (what its attribute and reference-file readers use)
				// must return, for every object the independent decoder found, exactly those
				// bytes — or an error for the whole collection
				if len(g.problems) == 0 {
					lib, err := core.ReadGlobalHeapCollection(f.osFile, a, int(f.sb.OffsetSize))
					if err != nil {
						detail["library_heap_reader_error"] = err.Error()
						problems = append(problems, "library-heap-reader/error-on-well-formed-collection")
					} else {
						for idx, want := range g.objs {
							if idx == 0 {
								continue
							}
							ob, err := lib.GetObject(uint32(idx))
							switch {
							case err != nil:
								detail["library_heap_reader_index"], detail["want_len"] = idx, len(want)
								problems = append(problems, "library-heap-reader/object-not-found")
							case string(ob.Data) != string(want):
								detail["library_heap_reader_index"], detail["want_len"], detail["got_len"] = idx, len(want), len(ob.Data)
								problems = append(problems, "library-heap-reader/object-bytes-differ")
							}
						}
					}
				}
			}
			detail["collections"] = len(cols)
		}
	}
	// the later datasets of the session (/w0, /w1, ...) must hold their elements too: each
	// element reference resolved by the harness (independent view of the dump)
	for k, al := range c.After {
		var wd *Dataset
		f.Walk(func(path string, o Object) {
			if x, ok := o.(*Dataset); ok && path == fmt.Sprintf("/w%d", k) {
				wd = x
			}
		})
		if wd == nil {
			problems = append(problems, "later-dataset-not-found")
			continue
		}
		whdr, err := core.ReadObjectHeader(f.osFile, wd.address, f.sb)
		if err != nil {
			problems = append(problems, "later-dataset-header-unreadable")
			continue
		}
		wi, err := core.ReadDatasetInfo(whdr, f.sb)
		if err != nil || wi.Layout == nil || wi.Dataspace == nil {
			problems = append(problems, "later-dataset-info-error")
			continue
		}
		_, wraws := c.T.mk(al, 2)
		got := strings.Split(strings.TrimSuffix(vfVLenView(f.osFile, wi.Layout.DataAddress, wi.Dataspace.Dimensions), ","), ",")
		if len(got) != len(wraws) {
			detail["later_dataset"], detail["view"] = k, fmt.Sprint(got)
			problems = append(problems, "later-dataset-element-count-differs")
			continue
		}
		for e, raw := range wraws {
			want := fmt.Sprintf("%d:%08x", len(raw), crc32.ChecksumIEEE(raw))
			wantNul := fmt.Sprintf("%d:%08x", len(raw)+1, crc32.ChecksumIEEE(append(append([]byte{}, raw...), 0)))
			if got[e] != want && !(c.T.name == "vlen-string" && got[e] == wantNul) && !(len(raw) == 0 && got[e] == "null") {
				detail["later_dataset"], detail["element"], detail["got"], detail["want"] = k, e, got[e], want
				problems = append(problems, "later-dataset-element-differs")
				break
			}
		}
	}
	sort.Strings(problems)
	return vfUniq(problems), detail
}

// vfC12ReaderIDs: the library's heap reader on collections as the reference library leaves
// them after elements were rewritten or deleted: object indices that are not 1..n in order
// (gaps, descending, a single high index). Every index of every permutation of every subset
// of {1,2,3,4,7} with up to 4 objects is stored with its own content; GetObject(i) must hand
// back exactly the object stored under i, and an error for every index that is not stored.
func vfC12ReaderIDs(r *vkit.Run) {
	r.Rule("reader family: synthetic collections holding every ordered selection of up to 4 object indices from {1,2,3,4,7} (gaps, any order): GetObject(i) for i in 0..8 returns the object stored under i, or an error when none is")
	pool := []int{1, 2, 3, 4, 7}
	var n int64
	var rec func(cur []int, used map[int]bool)
	rec = func(cur []int, used map[int]bool) {
		if len(cur) > 0 {
			n++
			img := make([]byte, 4096)
			copy(img, "GCOL")
			img[4] = 1
			binary.LittleEndian.PutUint64(img[8:], 4096)
			pos := 16
			content := func(id int) []byte { return []byte(fmt.Sprintf("object-%d-%s", id, strings.Repeat("x", id))) }
			for _, id := range cur {
				d := content(id)
				binary.LittleEndian.PutUint16(img[pos:], uint16(id))
				binary.LittleEndian.PutUint16(img[pos+2:], 1)
				binary.LittleEndian.PutUint64(img[pos+8:], uint64(len(d)))
				copy(img[pos+16:], d)
				pos += 16 + (len(d)+7)&^7
			}
			binary.LittleEndian.PutUint64(img[pos+8:], uint64(4096-pos-16)) // free-space object (index 0)
			detail := map[string]any{"object_indices_in_storage_order": append([]int{}, cur...)}
			r.Case(fmt.Sprint("reader-ids ", cur))
			r.Guard("reader-ids/", detail, func() {
				gc, err := core.ReadGlobalHeapCollection(bytes.NewReader(img), 0, 8)
				if err != nil {
					detail["error"] = err.Error()
					r.Fail("reader-ids/collection-rejected", detail)
					return
				}
				ok := true
				for i := 0; i <= 8; i++ {
					ob, err := gc.GetObject(uint32(i))
					switch {
					case used[i] && (err != nil || ob == nil || !bytes.Equal(ob.Data, content(i))):
						detail["index"] = i
						r.Fail("reader-ids/stored-object-not-returned", detail)
						ok = false
					case !used[i] && i != 0 && err == nil && ob != nil && len(ob.Data) > 0:
						detail["index"], detail["returned"] = i, string(ob.Data)
						r.Fail("reader-ids/absent-index-returns-another-object", detail)
						ok = false
					}
				}
				if ok {
					r.Outcome("reader-ids-ok")
				}
			})
		}
		if len(cur) == 4 {
			return
		}
		for _, id := range pool {
			if !used[id] {
				used[id] = true
				rec(append(cur, id), used)
				used[id] = false
			}
		}
	}
	rec(nil, map[int]bool{})
	r.Set("reader_family_synthetic_collections", n)
}

func TestVerif_C12(t *testing.T) {
	r := vkit.Start(t, "C12", "exploration")
	defer r.Finish()
	vfC12ReaderIDs(r)
	dir := vkit.Scratch(t)
	types := vfVLTypes()
	alpha := []int{0, 1, 7, 8, 9, 4063, 4064, 4065, 4072, 4080, 4081, 65537}
	var cases []vfC12Case
	// all element lists of length 1..3 (quick: 1..2 plus a diagonal of 3) over the alphabet, strings
	var lists [][]int
	for _, a := range alpha {
		lists = append(lists, []int{a})
		for _, b := range alpha {
			lists = append(lists, []int{a, b})
			for _, c := range alpha {
				lists = append(lists, []int{a, b, c})
			}
		}
	}
	if !r.Thorough() {
		for _, a := range alpha {
			for _, b := range []int{0, 8, 4064} {
				lists = append(lists, []int{a, b, a})
			}
		}
	}
	for _, l := range lists {
		for _, sb := range []uint8{2, 3} {
			for _, ch := range []bool{false, true} {
				cases = append(cases, vfC12Case{T: types[0], SB: sb, Chunked: ch, Lens: l})
			}
		}
	}
	// content classes on a few lists
	for _, content := range []int{1, 2} {
		for _, l := range [][]int{{1}, {8}, {9, 0, 7}, {4064, 2}, {65537}} {
			cases = append(cases, vfC12Case{T: types[0], SB: 2, Lens: l, Content: content})
		}
	}
	// numeric base types: lengths in elements
	for _, ty := range types[1:] {
		for _, l := range [][]int{{0}, {1}, {2}, {0, 1}, {3, 0, 2}, {1016}, {1020, 1}, {509, 509}, {20000}} {
			for _, ch := range []bool{false, true} {
				cases = append(cases, vfC12Case{T: ty, SB: 2, Chunked: ch, Lens: l})
			}
		}
	}
	// roll-over families: n copies of one length
	ns := []int{254, 255, 256, 257}
	if r.Thorough() {
		ns = append(ns, 1000, 10000)
	}
	for _, n := range ns {
		for _, ln := range []int{0, 1, 8, 4063, 4072, 4081} {
			if ln > 100 && n > 257 {
				continue
			}
			l := make([]int, n)
			for i := range l {
				l[i] = ln
			}
			cases = append(cases, vfC12Case{T: types[0], SB: 2, Lens: l})
		}
	}
	// session families: /v followed by further variable-length writes in the same session
	// (sharing or not sharing /v's heap collection), /v overwritten, and a fixed-size
	// neighbour allocated behind /v's collections
	sess := [][]int{{1}, {0, 7}, {9, 8, 1}, {2000}, {4064}, {5000}, {65537}}
	for _, ty := range []vfVLType{types[0], types[1]} {
		for _, ch := range []bool{false, true} {
			for _, l := range sess {
				cases = append(cases, vfC12Case{T: ty, SB: 2, Chunked: ch, Lens: l, Plain: true})
				for _, a := range sess {
					cases = append(cases, vfC12Case{T: ty, SB: 2, Chunked: ch, Lens: l, After: [][]int{a}})
					cases = append(cases, vfC12Case{T: ty, SB: 2, Chunked: ch, Lens: l, First: a})
					cases = append(cases, vfC12Case{T: ty, SB: 2, Chunked: ch, Lens: l, After: [][]int{a, {3}}, Plain: true})
				}
			}
		}
	}
	// exact-fill session family: two datasets share one collection that ends up exactly full
	// (4080 bytes of objects), full to within 8 bytes, and 24 bytes short of full; a third small
	// dataset follows (its elements start the next collection)
	rep := func(n, l int) []int {
		out := make([]int, n)
		for i := range out {
			out[i] = l
		}
		return out
	}
	for _, second := range [][]int{rep(70, 8), append(rep(69, 8), 0), rep(69, 8)} {
		cases = append(cases, vfC12Case{T: types[0], SB: 2, Lens: rep(100, 8), After: [][]int{second, {3}}})
		cases = append(cases, vfC12Case{T: types[0], SB: 2, Lens: rep(100, 8), After: [][]int{second}, Plain: true})
		cases = append(cases, vfC12Case{T: types[0], SB: 2, Lens: second, First: []int{1}, After: [][]int{rep(100, 8)}})
	}
	// long-session family: seven datasets of 10^4 one-byte elements in one session — more than
	// 2^16 heap objects through one writer, so that any per-session 16-bit quantity wraps
	cases = append(cases, vfC12Case{T: types[0], SB: 2, Lens: rep(10000, 1), After: [][]int{rep(10000, 1), rep(10000, 1), rep(10000, 1), rep(10000, 1), rep(10000, 1), rep(10000, 1)}})
	r.Rule("variable-length strings: all element lists of length 1..3 over the length alphabet {0,1,7,8,9,4063,4064,4065,4072,4080,4081,65537} x superblock {2,3} x {contiguous, chunked}; content classes (ASCII, embedded NUL, multi-byte UTF-8); six numeric base types x 9 length lists x 2 layouts; roll-over families of 254..257 (thorough up to 10^4) equal elements; after reopen the datatype must be variable-length of the written base type, the library's element readers must return the elements or an error, and an independent decoder resolves every element reference into independently parsed heap collections (declared size, object sizes, alignment, unique indices, free-space record); the caller's inner slices are overwritten as soon as Write has returned (what reaches the file must not depend on them any more); every case is distinct; session families: 7 length lists for /v x {a later variable-length dataset with each of the 7 lists, /v written twice (first with each of the 7 lists), two later datasets plus a fixed-size neighbour, a fixed-size neighbour only} x {strings, int32 sequences} x 2 layouts; a long session of seven datasets of 10^4 elements (more than 2^16 heap objects through one writer)")
	vkit.ParallelFor(len(cases), func(i int) {
		if r.Expired() {
			r.Cap("time budget")
			return
		}
		c := cases[i]
		r.Case(c.String())
		r.Guard(c.T.name+"/", c.String(), func() {
			problems, detail := vfC12Run(dir, c)
			if ok, isb := detail["readstrings_ok"].(bool); isb {
				if ok {
					r.Outcome("library-reader-returned-elements")
				} else {
					r.Outcome("library-reader-returned-error")
				}
			}
			if len(problems) == 0 {
				r.Outcome("ok")
				return
			}
			kind := "string"
			if c.T.name != "vlen-string" {
				kind = "sequence"
			}
			lay := "contiguous"
			if c.Chunked {
				lay = "chunked"
			}
			for _, p := range problems {
				r.Fail(fmt.Sprintf("%s/%s/%s", kind, lay, p), detail)
			}
			r.Outcome("problems")
		})
	})
	r.Sample(cases[0].String())
	r.Sample(cases[len(cases)/2].String())
	r.Sample(cases[len(cases)-1].String())
	r.Assume("the free-space object of a heap collection may record its size with or without its own 16-byte header (both readings of the format text are accepted)")
}
