//go:build verif

package hdf5

import (
	"fmt"
	"math"
	"os"
	"path/filepath"
	"strings"
	"sync/atomic"
)

// ---------------------------------------------------------------------------------------
// Operation scripts: a small, serialisable alphabet over the public write API, and an
// interpreter that applies it to a real FileWriter. Every explored history is a []vfOp; a
// replay artefact is just that list.
// ---------------------------------------------------------------------------------------

type vfOp struct {
	Op     string   `json:"op"`               // mkds mkgroup write attr delattr hardlink softlink extlink resize densegroup
	Path   string   `json:"path,omitempty"`   // object the op is aimed at (link path for links)
	Target string   `json:"target,omitempty"` // link target
	Type   string   `json:"type,omitempty"`   // dataset element type name (vfTypes)
	Dims   []uint64 `json:"dims,omitempty"`
	Chunk  []uint64 `json:"chunk,omitempty"`
	Max    []uint64 `json:"max,omitempty"`
	Name   string   `json:"name,omitempty"`  // attribute name
	Value  string   `json:"value,omitempty"` // attribute value kind (vfAttrValues)
	Pat    int      `json:"pat,omitempty"`   // data pattern
}

func (o vfOp) String() string {
	switch o.Op {
	case "mkds":
		s := fmt.Sprintf("mkds(%s,%s,%v", o.Path, o.Type, o.Dims)
		if len(o.Chunk) > 0 {
			s += fmt.Sprintf(",chunk=%v", o.Chunk)
		}
		if len(o.Max) > 0 {
			s += fmt.Sprintf(",max=%v", o.Max)
		}
		return s + ")"
	case "write":
		return fmt.Sprintf("write(%s,p%d)", o.Path, o.Pat)
	case "attr":
		return fmt.Sprintf("attr(%s,%q,%s)", o.Path, vfShort(o.Name), o.Value)
	case "delattr":
		return fmt.Sprintf("delattr(%s,%q)", o.Path, vfShort(o.Name))
	case "resize":
		return fmt.Sprintf("resize(%s,%v)", o.Path, o.Dims)
	case "hardlink", "softlink", "extlink":
		return fmt.Sprintf("%s(%s->%s)", o.Op, o.Path, o.Target)
	default:
		return fmt.Sprintf("%s(%s)", o.Op, o.Path)
	}
}

func vfShort(s string) string {
	if len(s) > 12 {
		return fmt.Sprintf("%s…(%d)", s[:8], len(s))
	}
	return s
}

func vfOpsString(ops []vfOp) string {
	parts := make([]string, len(ops))
	for i, o := range ops {
		parts[i] = o.String()
	}
	return strings.Join(parts, "; ")
}

// attribute values by kind name
func vfAttrValue(kind string) interface{} {
	switch kind {
	case "i32a":
		return int32(1)
	case "i32b":
		return int32(-2)
	case "u8":
		return uint8(200)
	case "i64":
		return int64(-1 << 40)
	case "u16":
		return uint16(65535)
	case "u32":
		return uint32(4000000000)
	case "u64":
		return uint64(1<<63 + 5)
	case "f32":
		return float32(-1.5)
	case "f64":
		return float64(3.25)
	case "s1":
		return "x"
	case "s40":
		return "0123456789abcdefghijABCDEFGHIJ0123456789"
	case "s120":
		return strings.Repeat("L", 120)
	case "s200":
		return strings.Repeat("H", 200)
	case "f64x3":
		return []float64{1, 2, 3}
	case "i32x1":
		return []int32{5}
	case "i32x5":
		return []int32{1, -2, 3, -4, 5}
	case "nil":
		return nil
	case "badtype":
		return map[string]int{"a": 1}
	case "empty":
		return []int32{}
	}
	panic("unknown attr value kind " + kind)
}

// element types for datasets
type vfElemType struct {
	Name string
	DT   Datatype
	Opts []DatasetOption
	Size int // bytes per element
	// Make returns the Go slice for Write holding n elements of pattern pat.
	Make func(n int, pat int) interface{}
}

func vfPatVal(i, pat int) int64 { return int64(pat)*1000 + int64(i) + 1 }

var vfTypes = map[string]*vfElemType{
	"i32": {Name: "i32", DT: Int32, Size: 4, Make: func(n, pat int) interface{} {
		v := make([]int32, n)
		for i := range v {
			v[i] = int32(vfPatVal(i, pat))
		}
		return v
	}},
	"f64": {Name: "f64", DT: Float64, Size: 8, Make: func(n, pat int) interface{} {
		v := make([]float64, n)
		for i := range v {
			v[i] = float64(vfPatVal(i, pat)) + 0.5
		}
		return v
	}},
	"i64": {Name: "i64", DT: Int64, Size: 8, Make: func(n, pat int) interface{} {
		v := make([]int64, n)
		for i := range v {
			v[i] = -vfPatVal(i, pat)
		}
		return v
	}},
	"f32": {Name: "f32", DT: Float32, Size: 4, Make: func(n, pat int) interface{} {
		v := make([]float32, n)
		for i := range v {
			v[i] = float32(vfPatVal(i, pat)) + 0.25
		}
		return v
	}},
	"u8": {Name: "u8", DT: Uint8, Size: 1, Make: func(n, pat int) interface{} {
		v := make([]uint8, n)
		for i := range v {
			v[i] = uint8(vfPatVal(i, pat))
		}
		return v
	}},
	"u32": {Name: "u32", DT: Uint32, Size: 4, Make: func(n, pat int) interface{} {
		v := make([]uint32, n)
		for i := range v {
			v[i] = uint32(4000000000) + uint32(vfPatVal(i, pat))
		}
		return v
	}},
	"str4": {Name: "str4", DT: String, Size: 4, Opts: []DatasetOption{WithStringSize(4)}, Make: func(n, pat int) interface{} {
		v := make([]string, n)
		for i := range v {
			v[i] = fmt.Sprintf("%c%02d", 'a'+pat%26, i%100)
		}
		return v
	}},
}

// expected float64 values for Read() of a numeric pattern
func vfExpectFloat(typ string, n, pat int) []float64 {
	out := make([]float64, n)
	for i := range out {
		switch typ {
		case "i32", "u8":
			if typ == "u8" {
				out[i] = float64(uint8(vfPatVal(i, pat)))
			} else {
				out[i] = float64(int32(vfPatVal(i, pat)))
			}
		case "i64":
			out[i] = float64(-vfPatVal(i, pat))
		case "f64":
			out[i] = float64(vfPatVal(i, pat)) + 0.5
		case "f32":
			out[i] = float64(float32(vfPatVal(i, pat)) + 0.25)
		default:
			out[i] = math.NaN()
		}
	}
	return out
}

func vfProd(d []uint64) int {
	n := 1
	for _, x := range d {
		n *= int(x)
	}
	return n
}

// vfWorld is a live FileWriter plus the handles the script has created.
type vfWorld struct {
	Path   string
	FW     *FileWriter
	DS     map[string]*DatasetWriter
	DSType map[string]string
	DSDims map[string][]uint64
	GR     map[string]*GroupWriter
	closed bool
}

var vfFileCounter int64

func vfNewWorld(dir string, opts ...interface{}) (*vfWorld, error) {
	p := filepath.Join(dir, fmt.Sprintf("w%d.h5", atomic.AddInt64(&vfFileCounter, 1)))
	fw, err := CreateForWrite(p, CreateTruncate, opts...)
	if err != nil {
		return nil, err
	}
	return &vfWorld{Path: p, FW: fw, DS: map[string]*DatasetWriter{}, DSType: map[string]string{}, DSDims: map[string][]uint64{}, GR: map[string]*GroupWriter{}}, nil
}

func (w *vfWorld) Close() error {
	w.closed = true
	return w.FW.Close()
}

func (w *vfWorld) Remove() {
	if !w.closed {
		_ = w.FW.Close()
	}
	_ = os.Remove(w.Path)
}

// Apply executes one op. A panic is returned as an error with "PANIC:" prefix and panicked=true.
func (w *vfWorld) Apply(o vfOp) (err error, panicked bool) {
	defer func() {
		if p := recover(); p != nil {
			err = fmt.Errorf("PANIC: %v", p)
			panicked = true
		}
	}()
	switch o.Op {
	case "mkds":
		t := vfTypes[o.Type]
		if t == nil {
			return fmt.Errorf("harness: unknown type %q", o.Type), false
		}
		opts := append([]DatasetOption{}, t.Opts...)
		if len(o.Chunk) > 0 {
			opts = append(opts, WithChunkDims(o.Chunk))
		}
		if len(o.Max) > 0 {
			opts = append(opts, WithMaxDims(o.Max))
		}
		ds, e := w.FW.CreateDataset(o.Path, t.DT, o.Dims, opts...)
		if e != nil {
			return e, false
		}
		if _, exists := w.DS[o.Path]; !exists {
			w.DS[o.Path] = ds
			w.DSType[o.Path] = o.Type
			w.DSDims[o.Path] = append([]uint64{}, o.Dims...)
		}
		return nil, false
	case "mkgroup":
		g, e := w.FW.CreateGroup(o.Path)
		if e != nil {
			return e, false
		}
		if _, exists := w.GR[o.Path]; !exists {
			w.GR[o.Path] = g
		}
		return nil, false
	case "write":
		ds := w.DS[o.Path]
		if ds == nil {
			return fmt.Errorf("harness: no dataset handle %q", o.Path), false
		}
		t := vfTypes[w.DSType[o.Path]]
		return ds.Write(t.Make(vfProd(w.DSDims[o.Path]), o.Pat)), false
	case "attr":
		if ds := w.DS[o.Path]; ds != nil {
			return ds.WriteAttribute(o.Name, vfAttrValue(o.Value)), false
		}
		if g := w.GR[o.Path]; g != nil {
			return g.WriteAttribute(o.Name, vfAttrValue(o.Value)), false
		}
		return fmt.Errorf("harness: no handle %q", o.Path), false
	case "delattr":
		if ds := w.DS[o.Path]; ds != nil {
			return ds.DeleteAttribute(o.Name), false
		}
		return fmt.Errorf("harness: no dataset handle %q", o.Path), false
	case "resize":
		ds := w.DS[o.Path]
		if ds == nil {
			return fmt.Errorf("harness: no dataset handle %q", o.Path), false
		}
		e := ds.Resize(o.Dims)
		if e == nil {
			w.DSDims[o.Path] = append([]uint64{}, o.Dims...)
		}
		return e, false
	case "hardlink":
		return w.FW.CreateHardLink(o.Path, o.Target), false
	case "softlink":
		return w.FW.CreateSoftLink(o.Path, o.Target), false
	case "extlink":
		return w.FW.CreateExternalLink(o.Path, "other.h5", o.Target), false
	case "densegroup":
		return w.FW.CreateDenseGroup(o.Path, map[string]string{"x": o.Target}), false
	case "close":
		return w.Close(), false
	}
	return fmt.Errorf("harness: unknown op %q", o.Op), false
}
