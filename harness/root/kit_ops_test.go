//go:build verif

package hdf5

import (
	"fmt"
	"math"
	"os"
	"path/filepath"
	"sort"
	"strings"
	"sync/atomic"
	"time"

	"github.com/scigolib/hdf5/internal/core"
	"github.com/scigolib/hdf5/internal/structures"
)

// ---------------------------------------------------------------------------------------
// Operation scripts: a small, serialisable alphabet over the public write API, and an
// interpreter that applies it to a real FileWriter. Every explored history is a []vfOp; a
// replay artefact is just that list.
// ---------------------------------------------------------------------------------------

type vfOp struct {
	Op     string   `json:"op"`               // mkds mkgroup write attr delattr hardlink softlink extlink resize densegroup
	Path   string   `json:"path,omitempty"`   // object the op is aimed at (link path for links)
	Target string   `json:"target,omitempty"` // link target
	Type   string   `json:"type,omitempty"`   // dataset element type name (vfTypes)
	Dims   []uint64 `json:"dims,omitempty"`
	Chunk  []uint64 `json:"chunk,omitempty"`
	Max    []uint64 `json:"max,omitempty"`
	Name   string   `json:"name,omitempty"`  // attribute name
	Value  string   `json:"value,omitempty"` // attribute value kind (vfAttrValues)
	Pat    int      `json:"pat,omitempty"`   // data pattern
	Bad    string   `json:"bad,omitempty"`   // for Op "bad": which call designed to fail (vfBadCalls)
}

func (o vfOp) String() string {
	switch o.Op {
	case "mkds":
		s := fmt.Sprintf("mkds(%s,%s,%v", o.Path, o.Type, o.Dims)
		if len(o.Chunk) > 0 {
			s += fmt.Sprintf(",chunk=%v", o.Chunk)
		}
		if len(o.Max) > 0 {
			s += fmt.Sprintf(",max=%v", o.Max)
		}
		return s + ")"
	case "write":
		return fmt.Sprintf("write(%s,p%d)", o.Path, o.Pat)
	case "attr":
		return fmt.Sprintf("attr(%s,%q,%s)", o.Path, vfShort(o.Name), o.Value)
	case "delattr":
		return fmt.Sprintf("delattr(%s,%q)", o.Path, vfShort(o.Name))
	case "resize":
		return fmt.Sprintf("resize(%s,%v)", o.Path, o.Dims)
	case "hardlink", "softlink", "extlink":
		return fmt.Sprintf("%s(%s->%s)", o.Op, o.Path, o.Target)
	case "bad":
		return fmt.Sprintf("bad:%s(%s)", o.Bad, o.Path)
	case "toggle":
		return fmt.Sprintf("toggle:%s", o.Bad)
	default:
		return fmt.Sprintf("%s(%s)", o.Op, o.Path)
	}
}

func vfShort(s string) string {
	if len(s) > 12 {
		return fmt.Sprintf("%s…(%d)", s[:8], len(s))
	}
	return s
}

func vfOpsString(ops []vfOp) string {
	parts := make([]string, len(ops))
	for i, o := range ops {
		parts[i] = o.String()
	}
	return strings.Join(parts, "; ")
}

// vfScribbleFlat overwrites a numeric slice that has been handed to Write.
func vfScribbleFlat(v interface{}) {
	switch x := v.(type) {
	case []int32:
		for i := range x {
			x[i] = 0x5A5A5A5A
		}
	case []int64:
		for i := range x {
			x[i] = 0x5A5A5A5A5A5A5A5A
		}
	case []uint8:
		for i := range x {
			x[i] = 0x5A
		}
	case []uint32:
		for i := range x {
			x[i] = 0x5A5A5A5A
		}
	case []float32:
		for i := range x {
			x[i] = -90.5
		}
	case []float64:
		for i := range x {
			x[i] = -90.5
		}
	}
}

// attribute values by kind name
func vfAttrValue(kind string) interface{} {
	switch kind {
	case "i32a":
		return int32(1)
	case "i32b":
		return int32(-2)
	case "u8":
		return uint8(200)
	case "i64":
		return int64(-1 << 40)
	case "i64b":
		return int64(77)
	case "f32b":
		return float32(2.75)
	case "u16":
		return uint16(65535)
	case "u32":
		return uint32(4000000000)
	case "u64":
		return uint64(1<<63 + 5)
	case "f32":
		return float32(-1.5)
	case "f64":
		return float64(3.25)
	case "s1":
		return "x"
	case "s40":
		// 40 bytes, 35 characters: multi-byte UTF-8 so that byte and character counts differ
		return "0123456789abcdefghijABCDEFGHIJé温°xyz"
	case "s120":
		return strings.Repeat("L", 120)
	case "s200":
		return strings.Repeat("H", 200)
	case "f64x3":
		return []float64{1, 2, 3}
	case "i32x1":
		return []int32{5}
	case "i32x5":
		return []int32{1, -2, 3, -4, 5}
	case "f64x9000":
		// 72 KB: fits neither an object header nor the 64 KiB attribute heap (always refused)
		return make([]float64, 9000)
	case "nil":
		return nil
	case "badtype":
		return map[string]int{"a": 1}
	case "empty":
		return []int32{}
	}
	if strings.HasPrefix(kind, "str:") {
		var n int
		fmt.Sscanf(kind, "str:%d", &n)
		return strings.Repeat("q", n)
	}
	panic("unknown attr value kind " + kind)
}

// element types for datasets
type vfElemType struct {
	Name string
	DT   Datatype
	Opts []DatasetOption
	Size int // bytes per element
	// Make returns the Go slice for Write holding n elements of pattern pat.
	Make func(n int, pat int) interface{}
}

func vfPatVal(i, pat int) int64 { return int64(pat)*1000 + int64(i) + 1 }

var vfTypes = map[string]*vfElemType{
	"i32": {Name: "i32", DT: Int32, Size: 4, Make: func(n, pat int) interface{} {
		v := make([]int32, n)
		for i := range v {
			v[i] = int32(vfPatVal(i, pat))
		}
		return v
	}},
	"f64": {Name: "f64", DT: Float64, Size: 8, Make: func(n, pat int) interface{} {
		v := make([]float64, n)
		for i := range v {
			v[i] = float64(vfPatVal(i, pat)) + 0.5
		}
		return v
	}},
	"i64": {Name: "i64", DT: Int64, Size: 8, Make: func(n, pat int) interface{} {
		v := make([]int64, n)
		for i := range v {
			v[i] = -vfPatVal(i, pat)
		}
		return v
	}},
	"f32": {Name: "f32", DT: Float32, Size: 4, Make: func(n, pat int) interface{} {
		v := make([]float32, n)
		for i := range v {
			v[i] = float32(vfPatVal(i, pat)) + 0.25
		}
		return v
	}},
	"u8": {Name: "u8", DT: Uint8, Size: 1, Make: func(n, pat int) interface{} {
		v := make([]uint8, n)
		for i := range v {
			v[i] = uint8(vfPatVal(i, pat))
		}
		return v
	}},
	"u32": {Name: "u32", DT: Uint32, Size: 4, Make: func(n, pat int) interface{} {
		v := make([]uint32, n)
		for i := range v {
			v[i] = uint32(4000000000) + uint32(vfPatVal(i, pat))
		}
		return v
	}},
	// variable-length strings (global heap): pattern 1 short elements, pattern 2 a first
	// element larger than a default heap collection, pattern 3 elements of 2000 bytes
	"vstr": {Name: "vstr", DT: VLenString, Size: 16, Make: func(n, pat int) interface{} {
		v := make([]string, n)
		for i := range v {
			switch {
			case pat == 2 && i == 0:
				v[i] = strings.Repeat("Q", 6000)
			case pat == 3:
				v[i] = strings.Repeat(string(rune('r'+i%4)), 2000)
			default:
				v[i] = fmt.Sprintf("v%d-%d", pat, i)
			}
		}
		return v
	}},
	"str4": {Name: "str4", DT: String, Size: 4, Opts: []DatasetOption{WithStringSize(4)}, Make: func(n, pat int) interface{} {
		v := make([]string, n)
		for i := range v {
			v[i] = fmt.Sprintf("%c%02d", 'a'+pat%26, i%100)
		}
		return v
	}},
}

// expected float64 values for Read() of a numeric pattern
func vfExpectFloat(typ string, n, pat int) []float64 {
	out := make([]float64, n)
	for i := range out {
		switch typ {
		case "i32", "u8":
			if typ == "u8" {
				out[i] = float64(uint8(vfPatVal(i, pat)))
			} else {
				out[i] = float64(int32(vfPatVal(i, pat)))
			}
		case "i64":
			out[i] = float64(-vfPatVal(i, pat))
		case "f64":
			out[i] = float64(vfPatVal(i, pat)) + 0.5
		case "f32":
			out[i] = float64(float32(vfPatVal(i, pat)) + 0.25)
		default:
			out[i] = math.NaN()
		}
	}
	return out
}

func vfProd(d []uint64) int {
	n := 1
	for _, x := range d {
		n *= int(x)
	}
	return n
}

// vfWorld is a live FileWriter plus the handles the script has created.
type vfWorld struct {
	Path   string
	FW     *FileWriter
	DS     map[string]*DatasetWriter
	DSType map[string]string
	DSDims map[string][]uint64
	GR     map[string]*GroupWriter
	closed bool
	resizeBuf map[string][]uint64 // one extent slice per dataset, reused by every resize op
}

var vfFileCounter int64

func vfNewWorld(dir string, opts ...interface{}) (*vfWorld, error) {
	p := filepath.Join(dir, fmt.Sprintf("w%d.h5", atomic.AddInt64(&vfFileCounter, 1)))
	fw, err := CreateForWrite(p, CreateTruncate, opts...)
	if err != nil {
		return nil, err
	}
	return &vfWorld{Path: p, FW: fw, DS: map[string]*DatasetWriter{}, DSType: map[string]string{}, DSDims: map[string][]uint64{}, GR: map[string]*GroupWriter{}}, nil
}

func (w *vfWorld) Close() error {
	w.closed = true
	return w.FW.Close()
}

func (w *vfWorld) Remove() {
	if !w.closed {
		_ = w.FW.Close()
	}
	_ = os.Remove(w.Path)
}

// Apply executes one op. A panic is returned as an error with "PANIC:" prefix and panicked=true.
func (w *vfWorld) Apply(o vfOp) (err error, panicked bool) {
	defer func() {
		if p := recover(); p != nil {
			err = fmt.Errorf("PANIC: %v", p)
			panicked = true
		}
	}()
	switch o.Op {
	case "mkds":
		t := vfTypes[o.Type]
		if t == nil {
			return fmt.Errorf("harness: unknown type %q", o.Type), false
		}
		opts := append([]DatasetOption{}, t.Opts...)
		if len(o.Chunk) > 0 {
			opts = append(opts, WithChunkDims(o.Chunk))
		}
		if len(o.Max) > 0 {
			opts = append(opts, WithMaxDims(o.Max))
		}
		ds, e := w.FW.CreateDataset(o.Path, t.DT, o.Dims, opts...)
		if e != nil {
			return e, false
		}
		if _, exists := w.DS[o.Path]; !exists {
			w.DS[o.Path] = ds
			w.DSType[o.Path] = o.Type
			w.DSDims[o.Path] = append([]uint64{}, o.Dims...)
		}
		return nil, false
	case "mkgroup":
		g, e := w.FW.CreateGroup(o.Path)
		if e != nil {
			return e, false
		}
		if _, exists := w.GR[o.Path]; !exists {
			w.GR[o.Path] = g
		}
		return nil, false
	case "reopen":
		// end the session and start a new one on the same file: handles of the datasets known
		// so far are re-acquired with OpenDataset (they then carry a parsed, cached header);
		// group handles cannot be re-acquired and are dropped
		if e := w.FW.Close(); e != nil {
			return fmt.Errorf("reopen: close: %w", e), false
		}
		fw, e := OpenForWrite(w.Path, OpenReadWrite)
		if e != nil {
			return fmt.Errorf("reopen: %w", e), false
		}
		w.FW = fw
		w.GR = map[string]*GroupWriter{}
		paths := make([]string, 0, len(w.DS))
		for p := range w.DS {
			paths = append(paths, p)
		}
		sort.Strings(paths)
		for _, p := range paths {
			ds, e := fw.OpenDataset(p)
			if e != nil {
				delete(w.DS, p)
				continue
			}
			w.DS[p] = ds
		}
		return nil, false
	case "write":
		ds := w.DS[o.Path]
		if ds == nil {
			return fmt.Errorf("harness: no dataset handle %q", o.Path), false
		}
		t := vfTypes[w.DSType[o.Path]]
		data := t.Make(vfProd(w.DSDims[o.Path]), o.Pat)
		err := ds.Write(data)
		// the buffer is the caller's again: what reaches the file (now or at Close) must not
		// depend on it any more
		vfScribbleFlat(data)
		return err, false
	case "attr":
		if ds := w.DS[o.Path]; ds != nil {
			return ds.WriteAttribute(o.Name, vfAttrValue(o.Value)), false
		}
		if g := w.GR[o.Path]; g != nil {
			return g.WriteAttribute(o.Name, vfAttrValue(o.Value)), false
		}
		return fmt.Errorf("harness: no handle %q", o.Path), false
	case "delattr":
		if ds := w.DS[o.Path]; ds != nil {
			return ds.DeleteAttribute(o.Name), false
		}
		return fmt.Errorf("harness: no dataset handle %q", o.Path), false
	case "resize":
		ds := w.DS[o.Path]
		if ds == nil {
			return fmt.Errorf("harness: no dataset handle %q", o.Path), false
		}
		// the caller's idiom of an append loop: one extent slice per dataset, changed in place and
		// handed to every Resize (the handle must not depend on what the caller does with it)
		if w.resizeBuf == nil {
			w.resizeBuf = map[string][]uint64{}
		}
		buf := w.resizeBuf[o.Path]
		if len(buf) != len(o.Dims) {
			buf = make([]uint64, len(o.Dims))
			w.resizeBuf[o.Path] = buf
		}
		copy(buf, o.Dims)
		e := ds.Resize(buf)
		if e == nil {
			w.DSDims[o.Path] = append([]uint64{}, o.Dims...)
		}
		return e, false
	case "hardlink":
		return w.FW.CreateHardLink(o.Path, o.Target), false
	case "softlink":
		return w.FW.CreateSoftLink(o.Path, o.Target), false
	case "extlink":
		return w.FW.CreateExternalLink(o.Path, "other.h5", o.Target), false
	case "densegroup":
		return w.FW.CreateDenseGroup(o.Path, map[string]string{"x": o.Target}), false
	case "bad":
		return vfApplyBad(w, o), false
	case "toggle":
		return vfApplyToggle(w, o), false
	case "close":
		return w.Close(), false
	}
	return fmt.Errorf("harness: unknown op %q", o.Op), false
}

// vfBadCalls is the catalogue of calls chosen to fail at a validation or capacity point.
// Path names the object the call is aimed at where one is needed.
var vfBadCalls = []string{
	"mkds-empty-name", "mkds-relative-name", "mkds-zero-dim", "mkds-no-dims", "mkds-chunk-rank-mismatch", "mkds-chunk-zero",
	// shapes whose byte size does not fit 64 bits (whether they are refused is not the point:
	// if they are, nothing may be left behind)
	"mkds-size-overflow-contiguous", "mkds-size-overflow-chunked", "mkds-size-overflow-chunked-2d",
	// ... and one that fits 64 bits but no file (2^63 bytes)
	"mkds-size-beyond-any-file",
	"mkds-maxdims-below-dims", "mkds-maxdims-without-chunks", "mkds-maxdims-rank-mismatch", "mkds-string-without-size",
	"mkds-array-without-dims", "mkds-enum-mismatch", "mkds-opaque-without-tag", "mkds-unknown-type", "mkds-duplicate", "mkds-missing-parent",
	"mkgroup-empty", "mkgroup-relative", "mkgroup-root", "mkgroup-duplicate", "mkgroup-missing-parent", "mkgroup-over-dataset-name",
	"attr-nil", "attr-unsupported-type", "attr-empty-slice", "attr-2d-slice", "attr-on-group-unsupported",
	"attr-value-oversize", "attr-name-oversize", "attr-value-near-heap-capacity-a", "attr-value-near-heap-capacity-b",
	"delattr-absent", "write-wrong-length", "write-wrong-type", "writeraw-wrong-size", "write-nil",
	"resize-not-resizable", "resize-beyond-max", "resize-rank-mismatch", "resize-zero",
	"hardlink-missing-target", "hardlink-duplicate-name", "hardlink-missing-parent", "hardlink-relative", "hardlink-to-root-path",
	"softlink-relative-target", "softlink-duplicate-name", "extlink-empty-file", "extlink-duplicate-name",
	"densegroup-missing-target", "densegroup-duplicate-name", "compound-nil-type", "opendataset-in-create-session",
}

func vfApplyBad(w *vfWorld, o vfOp) error {
	fw := w.FW
	x := w.DS[o.Path] // may be nil
	one := []uint64{2}
	switch o.Bad {
	case "mkds-empty-name":
		_, e := fw.CreateDataset("", Int32, one)
		return e
	case "mkds-relative-name":
		_, e := fw.CreateDataset("rel", Int32, one)
		return e
	case "mkds-zero-dim":
		_, e := fw.CreateDataset("/bad", Int32, []uint64{2, 0})
		return e
	case "mkds-size-overflow-contiguous":
		_, e := fw.CreateDataset("/bad", Int32, []uint64{1 << 62})
		return e
	case "mkds-size-beyond-any-file":
		_, e := fw.CreateDataset("/bad", Uint8, []uint64{1 << 63})
		return e
	case "mkds-size-overflow-chunked":
		_, e := fw.CreateDataset("/bad", Int32, []uint64{1 << 62}, WithChunkDims([]uint64{16}))
		return e
	case "mkds-size-overflow-chunked-2d":
		_, e := fw.CreateDataset("/bad", Float64, []uint64{1 << 31, 1 << 31}, WithChunkDims([]uint64{4, 4}), WithMaxDims([]uint64{Unlimited, 1 << 31}))
		return e
	case "mkds-no-dims":
		_, e := fw.CreateDataset("/bad", Int32, nil)
		return e
	case "mkds-chunk-rank-mismatch":
		_, e := fw.CreateDataset("/bad", Int32, []uint64{4}, WithChunkDims([]uint64{2, 2}))
		return e
	case "mkds-chunk-zero":
		_, e := fw.CreateDataset("/bad", Int32, []uint64{4}, WithChunkDims([]uint64{0}))
		return e
	case "mkds-maxdims-below-dims":
		_, e := fw.CreateDataset("/bad", Int32, []uint64{4}, WithChunkDims([]uint64{2}), WithMaxDims([]uint64{3}))
		return e
	case "mkds-maxdims-without-chunks":
		_, e := fw.CreateDataset("/bad", Int32, []uint64{4}, WithMaxDims([]uint64{8}))
		return e
	case "mkds-maxdims-rank-mismatch":
		_, e := fw.CreateDataset("/bad", Int32, []uint64{4}, WithChunkDims([]uint64{2}), WithMaxDims([]uint64{8, 8}))
		return e
	case "mkds-string-without-size":
		_, e := fw.CreateDataset("/bad", String, one)
		return e
	case "mkds-array-without-dims":
		_, e := fw.CreateDataset("/bad", ArrayInt32, one)
		return e
	case "mkds-enum-mismatch":
		_, e := fw.CreateDataset("/bad", EnumInt8, one, WithEnumValues([]string{"A", "B"}, []int64{1}))
		return e
	case "mkds-opaque-without-tag":
		_, e := fw.CreateDataset("/bad", Opaque, one)
		return e
	case "mkds-unknown-type":
		_, e := fw.CreateDataset("/bad", Datatype(9999), one)
		return e
	case "mkds-duplicate":
		_, e := fw.CreateDataset(o.Path, Int32, one)
		return e
	case "mkds-missing-parent":
		_, e := fw.CreateDataset("/nope/x", Int32, one)
		return e
	case "mkgroup-empty":
		_, e := fw.CreateGroup("")
		return e
	case "mkgroup-relative":
		_, e := fw.CreateGroup("rel")
		return e
	case "mkgroup-root":
		_, e := fw.CreateGroup("/")
		return e
	case "mkgroup-duplicate", "mkgroup-over-dataset-name":
		_, e := fw.CreateGroup(o.Path)
		return e
	case "mkgroup-missing-parent":
		_, e := fw.CreateGroup("/nope/g")
		return e
	case "attr-nil":
		return vfAttrOn(w, o.Path, "badattr", nil)
	case "attr-unsupported-type":
		return vfAttrOn(w, o.Path, "badattr", map[string]int{"a": 1})
	case "attr-empty-slice":
		return vfAttrOn(w, o.Path, "badattr", []int32{})
	case "attr-2d-slice":
		return vfAttrOn(w, o.Path, "badattr", [][]int32{{1}, {2}})
	case "attr-value-oversize":
		// an encoded attribute message larger than 64 KiB
		return vfAttrOn(w, o.Path, "badattr", make([]float64, 8200))
	case "attr-value-near-heap-capacity-a":
		// fits the 64 KiB attribute heap alone, but not together with a few small attributes
		return vfAttrOn(w, o.Path, "badattr", strings.Repeat("c", 65330))
	case "attr-value-near-heap-capacity-b":
		return vfAttrOn(w, o.Path, "badattr", strings.Repeat("c", 65460))
	case "attr-name-oversize":
		return vfAttrOn(w, o.Path, strings.Repeat("n", 65000), int32(1))
	case "attr-on-group-unsupported":
		return vfAttrOn(w, o.Path, "badattr", struct{ A int }{1})
	case "delattr-absent":
		if x == nil {
			return fmt.Errorf("harness: no dataset")
		}
		return x.DeleteAttribute("no-such-attribute")
	case "write-wrong-length":
		if x == nil {
			return fmt.Errorf("harness: no dataset")
		}
		t := vfTypes[w.DSType[o.Path]]
		return x.Write(t.Make(vfProd(w.DSDims[o.Path])+1, 7))
	case "write-wrong-type":
		if x == nil {
			return fmt.Errorf("harness: no dataset")
		}
		return x.Write([]string{"not", "numbers"})
	case "writeraw-wrong-size":
		if x == nil {
			return fmt.Errorf("harness: no dataset")
		}
		return x.WriteRaw([]byte{1, 2, 3})
	case "write-nil":
		if x == nil {
			return fmt.Errorf("harness: no dataset")
		}
		return x.Write(nil)
	case "resize-not-resizable", "resize-beyond-max":
		if x == nil {
			return fmt.Errorf("harness: no dataset")
		}
		d := append([]uint64{}, w.DSDims[o.Path]...)
		d[0] = 1000
		return x.Resize(d)
	case "resize-rank-mismatch":
		if x == nil {
			return fmt.Errorf("harness: no dataset")
		}
		return x.Resize(append(append([]uint64{}, w.DSDims[o.Path]...), 2))
	case "resize-zero":
		if x == nil {
			return fmt.Errorf("harness: no dataset")
		}
		d := append([]uint64{}, w.DSDims[o.Path]...)
		d[0] = 0
		return x.Resize(d)
	case "hardlink-missing-target":
		return fw.CreateHardLink("/badlink", "/no/such/target")
	case "hardlink-duplicate-name":
		return fw.CreateHardLink(o.Path, o.Path)
	case "hardlink-missing-parent":
		return fw.CreateHardLink("/nope/l", o.Path)
	case "hardlink-relative":
		return fw.CreateHardLink("rel", o.Path)
	case "hardlink-to-root-path":
		return fw.CreateHardLink("/", o.Path)
	case "softlink-relative-target":
		return fw.CreateSoftLink("/badsoft", "relative/target")
	case "softlink-duplicate-name":
		return fw.CreateSoftLink(o.Path, "/somewhere")
	case "extlink-empty-file":
		return fw.CreateExternalLink("/badext", "", "/obj")
	case "extlink-duplicate-name":
		return fw.CreateExternalLink(o.Path, "other.h5", "/obj")
	case "densegroup-missing-target":
		return fw.CreateDenseGroup("/baddense", map[string]string{"x": "/no/such"})
	case "densegroup-duplicate-name":
		return fw.CreateDenseGroup(o.Path, map[string]string{})
	case "compound-nil-type":
		_, e := fw.CreateCompoundDataset("/badc", nil, one)
		return e
	case "opendataset-in-create-session":
		_, e := fw.OpenDataset("/no-such-dataset")
		return e
	}
	return fmt.Errorf("harness: unknown bad call %q", o.Bad)
}

func vfAttrOn(w *vfWorld, path, name string, v interface{}) error {
	if ds := w.DS[path]; ds != nil {
		return ds.WriteAttribute(name, v)
	}
	if g := w.GR[path]; g != nil {
		return g.WriteAttribute(name, v)
	}
	return fmt.Errorf("harness: no handle %q", path)
}

// vfToggles are the rebalancing controls that may be called at any time (C19).
var vfToggles = []string{"DisableRebalancing", "EnableRebalancing", "EnableLazyRebalancing", "DisableLazyRebalancing",
	"EnableIncrementalRebalancing", "StopIncrementalRebalancing", "ForceBatchRebalance", "RebalanceAllBTrees", "RebalanceAttributeBTree"}

func vfApplyToggle(w *vfWorld, o vfOp) error {
	fw := w.FW
	switch o.Bad {
	case "DisableRebalancing":
		fw.DisableRebalancing()
	case "EnableRebalancing":
		fw.EnableRebalancing()
	case "EnableLazyRebalancing":
		return fw.EnableLazyRebalancing(structures.LazyRebalancingConfig{Enabled: true, Threshold: 0.05, MaxDelay: time.Nanosecond, BatchSize: 1})
	case "DisableLazyRebalancing":
		return fw.DisableLazyRebalancing()
	case "EnableIncrementalRebalancing":
		return fw.EnableIncrementalRebalancing(structures.IncrementalRebalancingConfig{Enabled: true, Budget: time.Microsecond, Interval: time.Microsecond})
	case "StopIncrementalRebalancing":
		return fw.StopIncrementalRebalancing()
	case "ForceBatchRebalance":
		return fw.ForceBatchRebalance()
	case "RebalanceAllBTrees":
		return fw.RebalanceAllBTrees()
	case "RebalanceAttributeBTree":
		if ds := w.DS[o.Path]; ds != nil {
			return ds.RebalanceAttributeBTree()
		}
	}
	return nil
}

// vfHeaderMessageBytes returns the number of message bytes (4-byte message header + data,
// v2 layout) in the object header at path of the file written so far.
func vfHeaderMessageBytes(w *vfWorld, path string) int {
	f, err := Open(w.Path)
	if err != nil {
		return -1
	}
	defer f.Close()
	total := -1
	f.Walk(func(p string, o Object) {
		var addr uint64
		switch x := o.(type) {
		case *Dataset:
			addr = x.address
		case *Group:
			addr = x.address
		}
		if strings.TrimSuffix(p, "/") == path && addr != 0 {
			if h, err := core.ReadObjectHeader(f.osFile, addr, f.sb); err == nil {
				total = 0
				for _, m := range h.Messages {
					total += 4 + len(m.Data)
				}
			}
		}
	})
	return total
}

// vfHeaderFillStates finds, for every reachable total T in [lo,hi], a short history that
// brings the object header of a fresh dataset /x to exactly T message bytes (one string
// attribute of tuned length, optionally a second small one), so that capacity edges of the
// single-chunk header (255) can be approached from every distance.
func vfHeaderFillStates(dir string, mk vfOp, lo, hi int) map[int][]vfOp {
	out := map[int][]vfOp{}
	try := func(ops []vfOp) {
		w, err := vfNewWorld(dir)
		if err != nil {
			return
		}
		defer w.Remove()
		if e, _ := w.Apply(mk); e != nil {
			return
		}
		for _, o := range ops {
			if e, _ := w.Apply(o); e != nil {
				return
			}
		}
		t := vfHeaderMessageBytes(w, mk.Path)
		if t >= lo && t <= hi {
			if _, ok := out[t]; !ok {
				out[t] = append([]vfOp{mk}, ops...)
			}
		}
	}
	for n := 1; n <= 230; n++ {
		try([]vfOp{{Op: "attr", Path: mk.Path, Name: "h", Value: fmt.Sprintf("str:%d", n)}})
		try([]vfOp{{Op: "attr", Path: mk.Path, Name: "h", Value: fmt.Sprintf("str:%d", n)}, {Op: "attr", Path: mk.Path, Name: "k", Value: "u8"}})
		try([]vfOp{{Op: "attr", Path: mk.Path, Name: "hh", Value: fmt.Sprintf("str:%d", n)}, {Op: "attr", Path: mk.Path, Name: "k", Value: "i64"}})
	}
	return out
}
