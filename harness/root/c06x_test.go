//go:build verif

package hdf5

import (
	"encoding/binary"
	"fmt"
	"math"
	"os"
	"path/filepath"
	"sort"
	"strings"

	"github.com/scigolib/hdf5/internal/core"
	"github.com/scigolib/hdf5/internal/verif/h5ref"
	"github.com/scigolib/hdf5/internal/verif/vkit"
)

// ---------------------------------------------------------------------------------------
// Second-decoder family of C06. The shipped h5dump outputs cover only part of the corpus;
// for every corpus file that the independent decoder (h5ref, validated in C05 against the
// specification and with zero deviations on these files) decodes completely, the values the
// library's reader returns without error are compared with the decoder's: object kinds,
// dataset values (numbers, strings), attribute name sets and attribute values (numbers, fixed
// and variable-length strings). The decoder stands in for the reference report where none is
// shipped; it asserts nothing where it is not certain (errors, unsupported features, classes
// it does not convert).
// ---------------------------------------------------------------------------------------

type vfC06XAttr struct {
	name string
	val  any
	err  error
}

type vfC06XObj struct {
	attrs   []vfC06XAttr
	attrsOK bool
}

func vfC06XLibAttrs(path string) (objs map[string]*vfC06XObj, ok bool) {
	defer func() {
		if p := recover(); p != nil {
			objs, ok = nil, false
		}
	}()
	f, err := Open(path)
	if err != nil {
		return nil, false
	}
	defer f.Close()
	objs = map[string]*vfC06XObj{}
	count := 0
	f.Walk(func(p string, obj Object) {
		count++
		if count > 20000 {
			panic("too many objects")
		}
		key := p
		if len(key) > 1 {
			key = strings.TrimSuffix(key, "/")
		}
		if _, dup := objs[key]; dup {
			return
		}
		o := &vfC06XObj{}
		objs[key] = o
		var get func() ([]*core.Attribute, error)
		switch x := obj.(type) {
		case *Group:
			get = x.Attributes
		case *Dataset:
			get = x.Attributes
		default:
			return
		}
		func() {
			defer func() { _ = recover() }()
			as, err := get()
			if err != nil {
				return
			}
			o.attrsOK = true
			for _, a := range as {
				xa := vfC06XAttr{name: a.Name}
				func() {
					defer func() {
						if p := recover(); p != nil {
							xa.err = fmt.Errorf("panic: %v", p)
						}
					}()
					xa.val, xa.err = a.ReadValue()
				}()
				o.attrs = append(o.attrs, xa)
			}
		}()
	})
	return objs, true
}

// vfC06XWant renders the decoder's attribute value as one exact token per element (nil = the
// decoder does not convert this class).
func vfC06XWant(a *h5ref.Attr) (want []string, class string) {
	t := a.Type
	if t == nil || a.Raw == nil {
		return nil, ""
	}
	var bo binary.ByteOrder = binary.LittleEndian
	if t.BigEndian {
		bo = binary.BigEndian
	}
	switch {
	case (t.Class == 0 || t.Class == 1) && (t.Size == 4 || t.Size == 8):
		if t.Class == 0 && (t.Precision != t.Size*8 || t.BitOffset != 0) {
			return nil, ""
		}
		n := len(a.Raw) / t.Size
		want = make([]string, n)
		for i := 0; i < n; i++ {
			p := a.Raw[i*t.Size:]
			switch {
			case t.Class == 1 && t.Size == 8:
				want[i] = vfC06XFloat(math.Float64frombits(bo.Uint64(p)))
			case t.Class == 1:
				want[i] = vfC06XFloat(float64(math.Float32frombits(bo.Uint32(p))))
			case t.Size == 4 && t.Signed:
				want[i] = fmt.Sprint(int32(bo.Uint32(p)))
			case t.Size == 4:
				want[i] = fmt.Sprint(bo.Uint32(p))
			case t.Signed:
				want[i] = fmt.Sprint(int64(bo.Uint64(p)))
			default:
				want[i] = fmt.Sprint(bo.Uint64(p))
			}
		}
		if t.Class == 1 {
			return want, fmt.Sprintf("float%d", t.Size*8)
		}
		return want, fmt.Sprintf("int%d", t.Size*8)
	case t.Class == 3 && t.Size > 0:
		n := len(a.Raw) / t.Size
		want = make([]string, n)
		for i := 0; i < n; i++ {
			b := a.Raw[i*t.Size : (i+1)*t.Size]
			if t.Pad == 2 {
				want[i] = strings.TrimRight(string(b), " ")
			} else {
				if j := strings.IndexByte(string(b), 0); j >= 0 {
					b = b[:j]
				}
				want[i] = string(b)
			}
		}
		return want, "fixed-string"
	case t.Class == 9 && t.VLenString:
		els, note := a.VLen()
		if els == nil || note != "" {
			return nil, ""
		}
		want = make([]string, len(els))
		for i, b := range els {
			if j := strings.IndexByte(string(b), 0); j >= 0 {
				b = b[:j]
			}
			want[i] = string(b)
		}
		return want, "vlen-string"
	}
	return nil, ""
}

func vfC06XClip(s string) string {
	if len(s) > 200 {
		return s[:200] + "…"
	}
	return s
}

func vfC06XFloat(v float64) string {
	if math.IsNaN(v) {
		return "NaN"
	}
	return fmt.Sprintf("%016x", math.Float64bits(v))
}

func vfC06XGot(v any) []string {
	fl := vfC06Flatten(v)
	out := make([]string, len(fl))
	for i, e := range fl {
		switch x := e.(type) {
		case float32:
			out[i] = vfC06XFloat(float64(x))
		case float64:
			out[i] = vfC06XFloat(x)
		case string:
			out[i] = x
		default:
			out[i] = fmt.Sprint(x)
		}
	}
	return out
}

func vfC06CrossDecoder(r *vkit.Run) {
	r.Rule("second-decoder family: every corpus file (same directories; at most 4 MiB; not a deliberately damaged or multi-file member) that the independent decoder h5ref decodes without error or deviation is read (objects and attributes that use a feature the decoder does not implement carry a note and are not compared) with the library's reader; object kinds, dataset values (Read, ReadStrings), attribute name sets and attribute values (4/8-byte integers and floats, fixed strings, variable-length strings) that the reader returns without error must equal the decoder's, and a dataset whose values live in external files that are not shipped must not read as values; every compared dataset and attribute is a case")
	var files []string
	seen := map[string]bool{}
	for _, pat := range []string{"testdata/hdf5_official/*", "testdata/reference/*", "testdata/c-library-corpus/*", "testdata/c-library-corpus/*/*", "testdata/*"} {
		m, _ := filepath.Glob(pat)
		sort.Strings(m)
		for _, fn := range m {
			ext := filepath.Ext(fn)
			if (ext == ".h5" || ext == ".hdf5") && !seen[fn] {
				seen[fn] = true
				files = append(files, fn)
			}
		}
	}
	type fileRes struct {
		name  string
		skip  string
		lib   map[string]*vfC05LibObj
		attrs map[string]*vfC06XObj
		res   *h5ref.Result
	}
	results := make([]*fileRes, len(files))
	vkit.ParallelFor(len(files), func(i int) {
		fn := files[i]
		fr := &fileRes{name: fn}
		results[i] = fr
		base := filepath.Base(fn)
		if _, bad := vfC05NotReference[base]; bad || vfC05MultiFile(base) {
			fr.skip = "not plain reference output"
			return
		}
		info, err := os.Stat(fn)
		if err != nil || info.Size() == 0 || info.IsDir() {
			fr.skip = "empty"
			return
		}
		if info.Size() > 4<<20 {
			fr.skip = "larger than 4 MiB"
			return
		}
		b, err := os.ReadFile(fn)
		if err != nil {
			fr.skip = "unreadable"
			return
		}
		res := h5ref.Decode(b)
		if len(res.Errors) > 0 || len(res.Deviations) > 0 {
			fr.skip = "decoder not certain (error or deviation)"
			return
		}
		fr.res = res
		var ok bool
		if fr.lib, ok = vfC05LibView(fn); !ok {
			fr.skip = "library reader refuses the file"
			return
		}
		if fr.attrs, ok = vfC06XLibAttrs(fn); !ok {
			fr.skip = "library reader refuses the file"
		}
	})
	stats := map[string]int64{}
	skipped := map[string]int64{}
	for _, fr := range results {
		stats["files"]++
		if fr.skip != "" {
			skipped[fr.skip]++
			continue
		}
		stats["files_compared"]++
		res := fr.res
		var paths []string
		for p := range fr.lib {
			paths = append(paths, p)
		}
		sort.Strings(paths)
		for _, p := range paths {
			lo, ro := fr.lib[p], res.Objects[p]
			if ro == nil || ro.Cycle {
				continue
			}
			detail := map[string]any{"file": fr.name, "object": p}
			if ro.Kind != lo.kind && (ro.Kind == "group" || ro.Kind == "dataset" || ro.Kind == "datatype") {
				detail["library"], detail["decoder"] = lo.kind, ro.Kind
				r.Case(fr.name+"|"+p+"|kind")
				r.Fail("second-decoder/object-kind-differs/"+ro.Kind+"-as-"+lo.kind, detail)
				continue
			}
			if lo.kind == "dataset" {
				// element values that live in other files (External Data Files message): the files
				// are not shipped, so whatever a read returns without error is not what the
				// reference library reports
				if ro.Layout == "external" && (lo.readOK && len(lo.read) > 0 || lo.strsOK && len(lo.strs) > 0) {
					r.Case(fr.name + "|" + p + "|external-storage")
					detail["values_returned"] = len(lo.read) + len(lo.strs)
					r.Fail("second-decoder/external-storage-read-as-values|"+filepath.Base(fr.name)+"|"+p, detail)
					continue
				}
				if lo.readOK {
					if want, ok := vfC05RawToFloat(ro); ok {
						r.Case(fr.name+"|"+p+"|read")
						stats["datasets_numeric_compared"]++
						stats["elements_compared"] += int64(len(want))
						bad := -1
						if len(want) != len(lo.read) {
							bad = len(want)
						} else {
							for i := range want {
								if math.Float64bits(want[i]) != math.Float64bits(lo.read[i]) && !(math.IsNaN(want[i]) && math.IsNaN(lo.read[i])) {
									bad = i
									break
								}
							}
						}
						if bad >= 0 {
							detail["first_differing_element"], detail["library_count"], detail["decoder_count"], detail["type"], detail["layout"], detail["filters"] = bad, len(lo.read), len(want), ro.TypeDesc, ro.Layout, ro.Filters
							r.Fail("second-decoder/dataset-values-differ/"+ro.Layout, detail)
						} else {
							r.Outcome("dataset-equal")
						}
					}
				}
				if lo.strsOK {
					if want, ok := vfC05RawToStrings(ro); ok {
						r.Case(fr.name+"|"+p+"|strings")
						stats["datasets_string_compared"]++
						stats["elements_compared"] += int64(len(want))
						if fmt.Sprintf("%q", want) != fmt.Sprintf("%q", lo.strs) {
							detail["library"], detail["decoder"], detail["type"] = vfC06XClip(fmt.Sprintf("%q", lo.strs)), vfC06XClip(fmt.Sprintf("%q", want)), ro.TypeDesc
							r.Fail("second-decoder/dataset-strings-differ", detail)
						} else {
							r.Outcome("dataset-equal")
						}
					}
				}
			}
			// attributes
			xo := fr.attrs[p]
			if xo == nil || !xo.attrsOK || ro.AttrNote != "" {
				continue
			}
			ref := map[string]*h5ref.Attr{}
			var refNames, libNames []string
			for i := range ro.Attrs {
				ref[ro.Attrs[i].Name] = &ro.Attrs[i]
				refNames = append(refNames, ro.Attrs[i].Name)
			}
			for _, a := range xo.attrs {
				libNames = append(libNames, a.name)
			}
			sort.Strings(refNames)
			sort.Strings(libNames)
			r.Case(fr.name+"|"+p+"|attribute-names")
			stats["attribute_sets_compared"]++
			if fmt.Sprintf("%q", refNames) != fmt.Sprintf("%q", libNames) {
				have := map[string]bool{}
				for _, n := range libNames {
					have[n] = true
				}
				reported := false
				for _, n := range refNames {
					if have[n] {
						continue
					}
					reported = true
					ra := ref[n]
					label := "second-decoder/attribute-silently-missing"
					if ra.MsgVersion >= 2 && ra.MsgFlags&1 != 0 {
						label = "attr-msg-v2-misparsed-error-swallowed"
					}
					r.Fail(label+"|"+filepath.Base(fr.name)+"|"+p+"@"+n+"|exists(second-decoder)", map[string]any{"file": fr.name, "object": p, "attribute": n, "attribute_message_version": ra.MsgVersion, "attribute_message_flags": ra.MsgFlags, "type": ra.TypeDesc, "library_lists": vfC06XClip(fmt.Sprintf("%q", libNames))})
				}
				if !reported {
					r.Fail("second-decoder/attribute-names-differ|"+filepath.Base(fr.name)+"|"+p, map[string]any{"file": fr.name, "object": p, "library": vfC06XClip(fmt.Sprintf("%q", libNames)), "decoder": vfC06XClip(fmt.Sprintf("%q", refNames))})
				}
				continue
			}
			r.Outcome("attribute-names-equal")
			for _, a := range xo.attrs {
				ra := ref[a.name]
				if ra == nil || a.err != nil || ra.Note != "" {
					if a.err != nil {
						stats["attribute_reads_refused_by_library"]++
					}
					continue
				}
				want, class := vfC06XWant(ra)
				if want == nil {
					stats["attributes_of_classes_not_converted"]++
					continue
				}
				got := vfC06XGot(a.val)
				r.Case(fr.name+"|"+p+"@"+a.name)
				stats["attributes_compared/"+class]++
				stats["elements_compared"] += int64(len(want))
				if fmt.Sprintf("%q", want) != fmt.Sprintf("%q", got) {
					first, ndiff, signedView := -1, 0, ra.Type.Class == 0 && !ra.Type.Signed && len(want) == len(got)
					for i := 0; i < len(want) || i < len(got); i++ {
						if i < len(want) && i < len(got) && want[i] == got[i] {
							continue
						}
						ndiff++
						if first < 0 {
							first = i
						}
						if signedView {
							// the same bits taken as a signed number?
							var u uint64
							var sv int64
							if _, err := fmt.Sscan(want[i], &u); err != nil {
								signedView = false
							} else if _, err := fmt.Sscan(got[i], &sv); err != nil {
								signedView = false
							} else if !(ra.Type.Size == 4 && int64(int32(uint32(u))) == sv || ra.Type.Size == 8 && int64(u) == sv) {
								signedView = false
							}
						}
					}
					d := map[string]any{"file": fr.name, "object": p, "attribute": a.name, "type": ra.TypeDesc, "dims": ra.Dims, "first_differing_element": first, "differing_elements": ndiff, "elements": len(want)}
					if first < len(got) {
						d["library_value"] = vfC06XClip(got[first])
					}
					if first < len(want) {
						d["decoder_value"] = vfC06XClip(want[first])
					}
					label := "second-decoder/attribute-value-differs/" + class
					if signedView {
						label = "attr-unsigned-read-as-signed"
					}
					r.Fail(label+"|"+filepath.Base(fr.name)+"|"+p+"@"+a.name+"|values(second-decoder)", d)
				} else {
					r.Outcome("attribute-equal")
				}
			}
		}
	}
	r.Set("second_decoder", stats)
	r.Set("second_decoder_files_skipped", skipped)
}
