//go:build verif

package hdf5

// C18 (a): independent file handles used from different goroutines. The only state shared
// between handles is the buffer pool of internal/utils, which the generated instrumentation
// turns into vsync.Pool (deterministic adversarial LIFO + poison). The threads below run under
// the controlled scheduler (internal/verif/vsched); their scheduling points are the pool
// operations, so every order in which the handles can take and release pooled buffers (within
// the preemption bound) is executed, in a plain and in a -race build.

import (
	"encoding/json"
	"fmt"
	"os"
	"path/filepath"
	"runtime"
	"sort"
	"strings"
	"testing"

	"github.com/scigolib/hdf5/internal/core"
	"github.com/scigolib/hdf5/internal/verif/vkit"
	"github.com/scigolib/hdf5/internal/verif/vsched"
	"github.com/scigolib/hdf5/internal/verif/vsync"
)

// vfC18Spec: what each thread does. "r:<file>" = Open+Walk+Read+Attributes (vfDumpFile) of a
// corpus file; "f:<file>" = an Open that is expected to fail; "ws:<n>" = a writer session creating
// fixed-length string datasets of element size n; "wd" = a writer session with
// attribute deletions, closed, reopened for modification, more deletions and writes; "w" = CreateForWrite + dataset + attributes + Close, then dump of the result.
type vfC18Spec struct {
	Threads []string `json:"threads"`
	Bound   int      `json:"bound"`
	Scratch string   `json:"scratch,omitempty"`
}

func (s vfC18Spec) id() string { return "handles/" + strings.Join(s.Threads, "+") }

type vfC18Inst struct {
	dumps []string
	errs  []string
}

// vfC18Write is the writer thread's work; returns the dump of the file it wrote.
func vfC18Write(path string) (string, error) {
	fw, err := CreateForWrite(path, CreateTruncate, WithIncrementalRebalancing(), WithSmartRebalancing())
	if err != nil {
		return "", err
	}
	ds, err := fw.CreateDataset("/d", Float64, []uint64{4})
	if err != nil {
		_ = fw.Close()
		return "", err
	}
	if err := ds.Write([]float64{1, 2, 3, 4}); err != nil {
		_ = fw.Close()
		return "", err
	}
	for i := 0; i < 3; i++ {
		if err := ds.WriteAttribute(fmt.Sprintf("a%d", i), int32(7+i)); err != nil {
			_ = fw.Close()
			return "", err
		}
	}
	if err := fw.Close(); err != nil {
		return "", err
	}
	return "written:" + path, nil
}

// vfC18Result turns a thread's raw result into the compared value: a writer's file is dumped
// afterwards, outside the exploration (stock pool), so that the writer thread itself consists
// of exactly the calls the property names.
func vfC18Result(res string) string {
	if !strings.HasPrefix(res, "written:") {
		return res
	}
	vsync.SetAdversarial(false)
	t, err := vfDumpFile(strings.TrimPrefix(res, "written:"))
	if err != nil {
		return "ERR:unreadable"
	}
	return t.String()
}

// vfC18WriteDel is a writer session with attribute deletions: three compact attributes, the
// first one deleted (not the last message of the header), another written, the file closed;
// then the file reopened for modification, the dataset handle re-acquired, the middle
// attribute deleted and one more written.
func vfC18WriteDel(path string) (string, error) {
	fw, err := CreateForWrite(path, CreateTruncate)
	if err != nil {
		return "", err
	}
	ds, err := fw.CreateDataset("/d", Float64, []uint64{4})
	if err != nil {
		_ = fw.Close()
		return "", err
	}
	if err := ds.Write([]float64{1, 2, 3, 4}); err != nil {
		_ = fw.Close()
		return "", err
	}
	for i := 0; i < 3; i++ {
		if err := ds.WriteAttribute(fmt.Sprintf("a%d", i), int32(7+i)); err != nil {
			_ = fw.Close()
			return "", err
		}
	}
	if err := ds.DeleteAttribute("a0"); err != nil {
		_ = fw.Close()
		return "", err
	}
	if err := ds.WriteAttribute("b", "after-delete"); err != nil {
		_ = fw.Close()
		return "", err
	}
	if err := fw.Close(); err != nil {
		return "", err
	}
	fw, err = OpenForWrite(path, OpenReadWrite)
	if err != nil {
		return "", err
	}
	ds, err = fw.OpenDataset("/d")
	if err != nil {
		_ = fw.Close()
		return "", err
	}
	if err := ds.DeleteAttribute("a1"); err != nil {
		_ = fw.Close()
		return "", err
	}
	if err := ds.WriteAttribute("c", int32(42)); err != nil {
		_ = fw.Close()
		return "", err
	}
	if err := fw.Close(); err != nil {
		return "", err
	}
	return "written:" + path, nil
}

// vfC18WriteStrings is a writer session that creates fixed-length string datasets of the
// given element size (contiguous and chunked) — element types whose description comes from
// the package-level datatype registry.
func vfC18WriteStrings(path string, size int) (string, error) {
	fw, err := CreateForWrite(path, CreateTruncate)
	if err != nil {
		return "", err
	}
	vals := make([]string, 4)
	for i := range vals {
		vals[i] = strings.Repeat(string(rune('a'+i)), size)
	}
	for _, spec := range []struct {
		name string
		opts []DatasetOption
	}{{"/s", []DatasetOption{WithStringSize(uint32(size))}}, {"/sc", []DatasetOption{WithStringSize(uint32(size)), WithChunkDims([]uint64{2})}}} {
		ds, err := fw.CreateDataset(spec.name, String, []uint64{4}, spec.opts...)
		if err != nil {
			_ = fw.Close()
			return "", err
		}
		if err := ds.Write(vals); err != nil {
			_ = fw.Close()
			return "", err
		}
	}
	if err := fw.Close(); err != nil {
		return "", err
	}
	return "written:" + path, nil
}

func vfC18Do(what string, idx int, scratch string) (string, error) {
	if strings.HasPrefix(what, "ws:") {
		var size int
		fmt.Sscanf(what, "ws:%d", &size)
		return vfC18WriteStrings(filepath.Join(scratch, fmt.Sprintf("c18ws%d.h5", idx)), size)
	}
	if what == "w" {
		return vfC18Write(filepath.Join(scratch, fmt.Sprintf("c18w%d.h5", idx)))
	}
	if what == "wd" {
		return vfC18WriteDel(filepath.Join(scratch, fmt.Sprintf("c18wd%d.h5", idx)))
	}
	if strings.HasPrefix(what, "f:") {
		// an Open that is expected to fail (not an HDF5 file, too short, truncated): the error
		// paths hold pooled buffers too
		f, err := Open(strings.TrimPrefix(what, "f:"))
		if err != nil {
			return "open-error", nil
		}
		defer f.Close()
		return vfDumpOpen(f).String(), nil
	}
	t, err := vfDumpFile(strings.TrimPrefix(what, "r:"))
	if err != nil {
		return "", err
	}
	return t.String(), nil
}

func vfC18Case(spec vfC18Spec, cur **vfC18Inst, seq map[string]string) vsched.Case {
	setup := func() func() {
		in := &vfC18Inst{dumps: make([]string, len(spec.Threads)), errs: make([]string, len(spec.Threads))}
		*cur = in
		return func() {
			for i, w := range spec.Threads {
				i, w := i, w
				vsched.Go(fmt.Sprintf("handle%d", i), func() {
					d, err := vfC18Do(w, i, spec.Scratch)
					in.dumps[i] = d
					if err != nil {
						in.errs[i] = "ERR"
					}
				})
			}
		}
	}
	after := func(o *vsched.Outcome) []vsched.Finding {
		in := *cur
		var fs []vsched.Finding
		if o.Status != "done" || len(o.Panics) > 0 {
			return fs
		}
		if vsync.PoolDoublePuts > 0 {
			fs = append(fs, vsched.Finding{Key: "pooled-buffer-released-twice/handles", Detail: map[string]any{"double_releases": vsync.PoolDoublePuts}})
		}
		for i, w := range spec.Threads {
			if in.errs[i] != "" || vfC18Result(in.dumps[i]) != seq[w] {
				fs = append(fs, vsched.Finding{Key: "result-differs-from-sequential/handles",
					Detail: map[string]any{"thread": i, "what": w, "err": in.errs[i], "got": vfC18Short(in.dumps[i]), "want": vfC18Short(seq[w])}})
				break
			}
		}
		return fs
	}
	return vsched.Case{Group: "handles", ID: spec.id(), Spec: spec,
		Cfg:   vsched.Config{Name: spec.id(), MaxTicks: 0, Horizon: 400, MaxBound: spec.Bound},
		Setup: setup, After: after}
}

func vfC18Short(s string) string {
	if len(s) > 600 {
		return s[:600] + "…"
	}
	return s
}

// vfC18Seq computes the sequential reference of every distinct thread job (stock pool).
func vfC18Seq(spec vfC18Spec) map[string]string {
	seq := map[string]string{}
	vsync.SetAdversarial(false)
	for i, w := range spec.Threads {
		if _, ok := seq[w]; ok {
			continue
		}
		d, err := vfC18Do(w, 100+i, spec.Scratch)
		if err != nil {
			d = "ERR:" + err.Error()
		}
		seq[w] = vfC18Result(d)
	}
	return seq
}

// vfC18Readable reports whether every dataset of the file is small enough to be read in full
// (the dump reads whole datasets; a corpus file with 2^32-element dimensions is not a C18 case).
func vfC18Readable(path string) (ok bool) {
	defer func() {
		if recover() != nil {
			ok = false
		}
	}()
	f, err := Open(path)
	if err != nil {
		return false
	}
	defer f.Close()
	ok = true
	f.Walk(func(p string, obj Object) {
		d, isDS := obj.(*Dataset)
		if !isDS {
			return
		}
		hdr, err := core.ReadObjectHeader(d.file.osFile, d.address, d.file.sb)
		if err != nil {
			return
		}
		di, err := core.ReadDatasetInfo(hdr, d.file.sb)
		if err != nil || di.Dataspace == nil {
			return
		}
		n := uint64(1)
		for _, x := range di.Dataspace.Dimensions {
			if x > 1<<22 || n*x > 1<<22 {
				ok = false
				return
			}
			n *= x
		}
	})
	return ok
}

func vfC18ModeName() string {
	if vsched.RaceEnabled {
		return "race"
	}
	return "plain"
}

func vfC18Corpus() []string {
	var files []string
	_ = filepath.Walk("testdata", func(p string, info os.FileInfo, err error) error {
		if err == nil && !info.IsDir() && (strings.HasSuffix(p, ".h5") || strings.HasSuffix(p, ".hdf5")) {
			files = append(files, p)
		}
		return nil
	})
	sort.Strings(files)
	return files
}

func TestVerif_C18(t *testing.T) {
	var cur *vfC18Inst
	if rep := vsched.ReplayRequest(); rep != nil {
		if rep.Pkg != "root" {
			return
		}
		var spec vfC18Spec
		if err := json.Unmarshal(rep.Spec, &spec); err != nil {
			t.Fatal(err)
		}
		_ = os.MkdirAll(spec.Scratch, 0o755)
		vsched.ServeReplay(rep, vfC18Case(spec, &cur, vfC18Seq(spec)))
		return
	}
	r := vkit.Start(t, "C18", "model_checking")
	defer r.Finish()
	if !vsched.Instrumented("utils") || !vsched.Instrumented("structures") {
		t.Fatalf("C18 needs the instrumented build (VERIF_SCHED=1)")
	}
	scratch := vkit.Scratch(t)
	d := vsched.NewDriver(r, "root")
	defer d.Finish()
	r.Rule("independent handles: 2-3 threads, each Open+Walk+Read+Attributes of a small corpus file (same file / different files) or one writer " +
		"(CreateForWrite with incremental+smart rebalancing options, dataset, 3 attributes, Close, dump) next to a reader; every schedule of the pool operations " +
		"(adversarial LIFO pool, poison on release) with <= B preemptions; plus every corpus file of the sample dumped single-threaded under the adversarial pool vs the stock pool")
	r.Assume("file reads of distinct read-only descriptors commute (pread); the scheduling points of independent handles are the operations on the shared buffer pool")

	if vp := vkit.ReplayPath(); vp != "" {
		var det struct {
			Replay vsched.Replay `json:"replay"`
		}
		if _, err := vkit.LoadReplay(vp, &det); err == nil && det.Replay.Pkg == "root" {
			keys, out := vsched.ReplayInFreshProcess(det.Replay)
			fmt.Printf("NOTE replay of %s in a fresh process: keys=%q\n", det.Replay.Case, keys)
			for _, k := range keys {
				r.Fail(k, map[string]any{"replay": det.Replay, "output": out})
			}
		}
		return
	}

	// --- (1) single-threaded: adversarial pool == stock pool over the corpus sample ---
	corpus := vfC18Corpus()
	// tiny files (<= 4 KiB) are always dumped under both pools: the handle files of part (2) are
	// chosen among them (same choice in the plain and in the -race pass); the plain pass adds
	// every file of testdata/ itself and an evenly spaced selection of the sub-corpora
	// (thorough: the whole corpus).
	isTiny := func(f string) bool {
		st, err := os.Stat(f)
		return err == nil && st.Size() <= 4096
	}
	var sample []string
	step := len(corpus)/90 + 1
	for i, f := range corpus {
		switch {
		case isTiny(f):
			sample = append(sample, f)
		case vsched.RaceEnabled:
		case r.Thorough() || strings.Count(f, "/") == 1 || i%step == 0:
			sample = append(sample, f)
		}
	}
	type cnt struct {
		name string
		ops  int64
	}
	var small []cnt
	diff := 0
	for _, f := range sample {
		if os.Getenv("VERIF_C18_DEBUG") != "" {
			var ms runtime.MemStats
			runtime.ReadMemStats(&ms)
			fmt.Fprintf(os.Stderr, "dump %s heap=%dMB\n", f, ms.HeapAlloc>>20)
		}
		vsync.SetAdversarial(false)
		if !vfC18Readable(f) {
			r.Add("corpus_files_skipped_unreadable_or_huge_"+vfC18ModeName(), 1)
			continue
		}
		a, errA := vfDumpFile(f)
		vsync.SetAdversarial(true)
		g0 := vsync.PoolGets + vsync.PoolPuts
		b, errB := vfDumpFile(f)
		ops := vsync.PoolGets + vsync.PoolPuts - g0
		vsync.SetAdversarial(false)
		r.Case("pool:" + f)
		if (errA == nil) != (errB == nil) || (errA == nil && a.String() != b.String()) {
			diff++
			r.Fail("result-differs-from-sequential/handles:adversarial-pool-single-thread", map[string]any{"file": f,
				"stock": vfC18Short(a.String()), "adversarial": vfC18Short(b.String())})
			continue
		}
		if errA == nil && len(a.Objs) >= 2 && isTiny(f) {
			small = append(small, cnt{f, ops})
		}
	}
	mode := "plain"
	if vsched.RaceEnabled {
		mode = "race"
	}
	r.Set("corpus_files_dumped_under_both_pools_"+mode, len(sample))
	r.Set("corpus_files_total", fmt.Sprint(len(corpus)))
	r.Outcome(fmt.Sprintf("pool-differential:differences=%d", diff))
	r.Add("adversarial_pool_reuses_"+mode, vsync.PoolReuses)

	// --- (2) interleavings ---
	// the files with the fewest pool operations (the horizon is 400 transitions per execution)
	sort.Slice(small, func(i, j int) bool {
		if small[i].ops != small[j].ops {
			return small[i].ops < small[j].ops
		}
		return small[i].name < small[j].name
	})
	if len(small) < 2 {
		t.Fatalf("corpus has no small files")
	}
	x, y := small[0], small[1]
	for _, c := range small[1:] { // a second file with other content (the corpora share some files)
		if filepath.Base(c.name) != filepath.Base(x.name) {
			y = c
			break
		}
	}
	r.Set("handle_files", []string{fmt.Sprintf("%s (%d pool ops)", x.name, x.ops), fmt.Sprintf("%s (%d pool ops)", y.name, y.ops)})
	// the -race pass of the quick tier explores one preemption less: every schedule already
	// contains every access of every thread, and the detector judges all pairs that the
	// program's own synchronisation (pool hand-overs) leaves unordered in that schedule
	bound := 2
	if r.Thorough() {
		bound = 3
	}
	_ = vsched.RaceEnabled
	// a file written by the library itself is the third reader target
	own := filepath.Join(scratch, "c18own.h5")
	if _, err := vfC18Write(own); err != nil {
		t.Fatalf("cannot write the library-made file: %v", err)
	}
	vsync.SetAdversarial(true)
	g0 := vsync.PoolGets + vsync.PoolPuts
	_, _ = vfDumpFile(own)
	r.Set("handle_file_own_pool_ops", fmt.Sprint(vsync.PoolGets+vsync.PoolPuts-g0))
	vsync.SetAdversarial(false)
	// files on which Open fails: empty, shorter than the signature, not HDF5, a real file cut in half
	bad := map[string][]byte{"empty": {}, "short7": []byte("\x89HDF\r\n\x1a"), "text": []byte(strings.Repeat("not an hdf5 file\n", 40))}
	if xb, err := os.ReadFile(x.name); err == nil {
		bad["half"] = xb[:len(xb)/2]
	}
	var badNames []string
	for n := range bad {
		badNames = append(badNames, n)
	}
	sort.Strings(badNames)
	badPath := func(n string) string { return filepath.Join(scratch, "c18bad-"+n+".h5") }
	for _, n := range badNames {
		if err := os.WriteFile(badPath(n), bad[n], 0o644); err != nil {
			t.Fatal(err)
		}
	}
	// single-threaded: one to three failing opens, then a reader, under the adversarial pool
	{
		vsync.SetAdversarial(false)
		want, errW := vfDumpFile(x.name)
		for _, n := range badNames {
			for k := 1; k <= 3; k++ {
				vsync.SetAdversarial(true)
				vsync.PoolDoublePuts = 0
				for i := 0; i < k; i++ {
					_, _ = vfC18Do("f:"+badPath(n), 0, scratch)
				}
				got, errG := vfDumpFile(x.name)
				dbl := vsync.PoolDoublePuts
				vsync.SetAdversarial(false)
				r.Case(fmt.Sprintf("failed-open:%s x%d then read", n, k))
				if dbl > 0 {
					r.Fail("pooled-buffer-released-twice/handles:single-thread", map[string]any{"bad_file": n, "failed_opens": k})
				}
				if (errW == nil) != (errG == nil) || (errW == nil && want.String() != got.String()) {
					r.Fail("result-differs-from-sequential/handles:failed-open-then-read", map[string]any{"bad_file": n, "failed_opens": k})
				}
			}
		}
	}
	// single-threaded: the writer sessions under the adversarial pool (a buffer released while
	// still referenced is poisoned at once) must produce the same file as under the stock pool
	for _, w := range []string{"w", "wd"} {
		vsync.SetAdversarial(false)
		want, errW := vfC18Do(w, 200, scratch)
		want = vfC18Result(want)
		vsync.SetAdversarial(true)
		vsync.PoolDoublePuts = 0
		got, errG := vfC18Do(w, 201, scratch)
		dbl := vsync.PoolDoublePuts
		vsync.SetAdversarial(false)
		got = vfC18Result(got)
		r.Case("writer-session-under-adversarial-pool:" + w)
		if dbl > 0 {
			r.Fail("pooled-buffer-released-twice/handles:single-thread", map[string]any{"writer": w})
		}
		if (errW == nil) != (errG == nil) || want != got {
			r.Fail("result-differs-from-sequential/handles:writer-adversarial-pool-single-thread", map[string]any{"writer": w, "stock": vfC18Short(want), "adversarial": vfC18Short(got), "err_stock": fmt.Sprint(errW), "err_adversarial": fmt.Sprint(errG)})
		}
	}
	specs := []vfC18Spec{
		{Threads: []string{"ws:3", "ws:7"}, Bound: bound - 1},
		{Threads: []string{"wd", "r:" + x.name}, Bound: bound - 1},
		{Threads: []string{"f:" + badPath("empty"), "r:" + x.name}, Bound: bound},
		{Threads: []string{"f:" + badPath("short7"), "r:" + x.name}, Bound: bound},
		{Threads: []string{"f:" + badPath("text"), "r:" + x.name}, Bound: bound},
		{Threads: []string{"f:" + badPath("half"), "r:" + x.name}, Bound: bound},
		{Threads: []string{"r:" + x.name, "r:" + x.name}, Bound: bound},
		{Threads: []string{"r:" + x.name, "r:" + y.name}, Bound: bound},
		{Threads: []string{"r:" + own, "r:" + x.name}, Bound: bound - 1},
		{Threads: []string{"w", "r:" + x.name}, Bound: bound},
		{Threads: []string{"w", "r:" + x.name, "r:" + y.name}, Bound: bound - 1},
		{Threads: []string{"r:" + x.name, "r:" + x.name, "r:" + y.name}, Bound: bound - 1},
	}
	before := runtime.NumGoroutine()
	rounds := 1
	if r.Thorough() {
		rounds = 2 // first everything at the quick bounds, then one preemption more
	}
	for round := 0; round < rounds; round++ {
		for _, spec := range specs {
			if r.Expired() {
				r.Cap(fmt.Sprintf("time budget: not all handle combinations explored (round %d)", round))
				break
			}
			spec.Scratch = scratch
			if r.Thorough() && round == 0 {
				spec.Bound--
			}
			d.Run(vfC18Case(spec, &cur, vfC18Seq(spec)))
		}
	}
	// Close stops all background work: no goroutine was spawned by any writer (scheduler
	// thread table: only the harness threads exist) and none is left in the process.
	if after := runtime.NumGoroutine(); after > before {
		r.Fail("goroutine-outlives-stop@FileWriter.Close", map[string]any{"before": before, "after": after})
	}
	r.Set("preemption_bound_handles", fmt.Sprint(bound))
	r.Sample(map[string]any{"case": specs[1].id()})
}
