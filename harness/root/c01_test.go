//go:build verif

package hdf5

import (
	"encoding/binary"
	"fmt"
	"math"
	"os"
	"path/filepath"
	"strings"
	"sync/atomic"
	"testing"

	"github.com/scigolib/hdf5/internal/core"
	"github.com/scigolib/hdf5/internal/verif/vkit"
)

// C01 — dataset write -> close -> reopen -> read returns exactly what was written.
// Exhaustive over an explicit grid of type x superblock x layout x shape x chunk shape x
// data pattern x path. Reference = the written Go slice.

type vfDT struct {
	name   string
	dt     Datatype
	opts   []DatasetOption
	class  core.DatatypeClass
	size   uint32 // datatype size in bytes
	signed int    // -1 n/a
	per    int    // Go slice entries per dataset element (array types > 1)
	// gen returns the slice to Write for n dataset elements, the values Read() may return
	// (nil: no numeric reading exists) and the strings ReadStrings() may return (nil: none).
	gen func(n, pat int) (data interface{}, nums []float64, strs []string)
}

// integer patterns: 0 index-coded, 1 extremes, 2 alternating bytes
func vfIntPat(i, pat int, bits uint, signed bool) uint64 {
	mask := uint64(1)<<bits - 1
	if bits == 64 {
		mask = ^uint64(0)
	}
	switch pat {
	case 0:
		v := uint64(i + 1)
		if signed && i%2 == 1 {
			v = uint64(-int64(i + 1))
		}
		return v & mask
	case 1:
		ext := []uint64{0, 1, mask, mask >> 1, mask>>1 + 1, 0x80000000 & mask, 0xFFFFFFFF & mask, mask - 1, uint64(1) << 53 & mask, (uint64(1)<<53 + 1) & mask}
		return ext[i%len(ext)]
	default:
		return (0xAA55AA55AA55AA55 >> uint(i%8)) & mask
	}
}

func vfFloatPat64(i, pat int) float64 {
	switch pat {
	case 0:
		return float64(i) + 0.5
	case 1:
		ext := []uint64{0, 0x8000000000000000, 0x7FF0000000000000, 0xFFF0000000000000, 1, 0x7FEFFFFFFFFFFFFF, 0x7FF8000000000001, 0x7FF0000000000001, 0xFFF8000000ABCDEF, 0x3FF0000000000000}
		return math.Float64frombits(ext[i%len(ext)])
	default:
		return math.Float64frombits(0xAA55AA55AA55AA55 >> uint(i%8))
	}
}

func vfFloatPat32(i, pat int) float32 {
	switch pat {
	case 0:
		return float32(i) + 0.25
	case 1:
		ext := []uint32{0, 0x80000000, 0x7F800000, 0xFF800000, 1, 0x7F7FFFFF, 0x7FC00001, 0x7F800001, 0xFFC0ABCD, 0x3F800000}
		return math.Float32frombits(ext[i%len(ext)])
	default:
		return math.Float32frombits(0xAA55AA55 >> uint(i%8))
	}
}

func vfIntType(name string, dt Datatype, bits uint, signed bool, per int, opts ...DatasetOption) *vfDT {
	sg := 0
	if signed {
		sg = 1
	}
	t := &vfDT{name: name, dt: dt, opts: opts, class: core.DatatypeFixed, size: uint32(bits / 8), signed: sg, per: per}
	t.gen = func(n, pat int) (interface{}, []float64, []string) {
		m := n * per
		nums := make([]float64, m)
		raw := make([]uint64, m)
		for i := range raw {
			raw[i] = vfIntPat(i, pat, bits, signed)
			if signed {
				switch bits {
				case 8:
					nums[i] = float64(int8(raw[i]))
				case 16:
					nums[i] = float64(int16(raw[i]))
				case 32:
					nums[i] = float64(int32(raw[i]))
				default:
					nums[i] = float64(int64(raw[i]))
				}
			} else {
				nums[i] = float64(raw[i])
			}
		}
		var data interface{}
		switch {
		case bits == 8 && signed:
			v := make([]int8, m)
			for i := range v {
				v[i] = int8(raw[i])
			}
			data = v
		case bits == 8:
			v := make([]uint8, m)
			for i := range v {
				v[i] = uint8(raw[i])
			}
			data = v
		case bits == 16 && signed:
			v := make([]int16, m)
			for i := range v {
				v[i] = int16(raw[i])
			}
			data = v
		case bits == 16:
			v := make([]uint16, m)
			for i := range v {
				v[i] = uint16(raw[i])
			}
			data = v
		case bits == 32 && signed:
			v := make([]int32, m)
			for i := range v {
				v[i] = int32(raw[i])
			}
			data = v
		case bits == 32:
			v := make([]uint32, m)
			for i := range v {
				v[i] = uint32(raw[i])
			}
			data = v
		case signed:
			v := make([]int64, m)
			for i := range v {
				v[i] = int64(raw[i])
			}
			data = v
		default:
			data = raw
		}
		return data, nums, nil
	}
	return t
}

func vfTypesC01() []*vfDT {
	ts := []*vfDT{
		vfIntType("int8", Int8, 8, true, 1), vfIntType("int16", Int16, 16, true, 1), vfIntType("int32", Int32, 32, true, 1), vfIntType("int64", Int64, 64, true, 1),
		vfIntType("uint8", Uint8, 8, false, 1), vfIntType("uint16", Uint16, 16, false, 1), vfIntType("uint32", Uint32, 32, false, 1), vfIntType("uint64", Uint64, 64, false, 1),
	}
	ts = append(ts, &vfDT{name: "float32", dt: Float32, class: core.DatatypeFloat, size: 4, signed: -1, per: 1, gen: func(n, pat int) (interface{}, []float64, []string) {
		v := make([]float32, n)
		nums := make([]float64, n)
		for i := range v {
			v[i] = vfFloatPat32(i, pat)
			nums[i] = float64(v[i])
		}
		return v, nums, nil
	}})
	ts = append(ts, &vfDT{name: "float64", dt: Float64, class: core.DatatypeFloat, size: 8, signed: -1, per: 1, gen: func(n, pat int) (interface{}, []float64, []string) {
		v := make([]float64, n)
		for i := range v {
			v[i] = vfFloatPat64(i, pat)
		}
		return v, append([]float64{}, v...), nil
	}})
	strGen := func(size int) func(n, pat int) (interface{}, []float64, []string) {
		return func(n, pat int) (interface{}, []float64, []string) {
			v := make([]string, n)
			for i := range v {
				s := fmt.Sprintf("%c%d", 'a'+(i+pat)%26, i)
				if pat == 1 {
					s = strings.Repeat(string(rune('A'+i%26)), size) // exactly fills the field
				}
				if pat == 2 && i%2 == 0 {
					s = ""
				}
				// bytes, not text: Latin-1 and arbitrary high bytes (not well-formed UTF-8), and
				// multi-byte UTF-8 that the field size cuts in the middle of a character
				if pat == 2 && i%4 == 1 {
					s = "\xe9\xff\xfe\x01z"
				}
				if pat == 0 && i%3 == 2 {
					s = "ab\u00e9\u6e29\u00b0"[i%2:]
				}
				if len(s) > size {
					s = s[:size]
				}
				v[i] = s
			}
			return v, nil, append([]string{}, v...)
		}
	}
	ts = append(ts, &vfDT{name: "string1", dt: String, opts: []DatasetOption{WithStringSize(1)}, class: core.DatatypeString, size: 1, signed: -1, per: 1, gen: strGen(1)})
	ts = append(ts, &vfDT{name: "string5", dt: String, opts: []DatasetOption{WithStringSize(5)}, class: core.DatatypeString, size: 5, signed: -1, per: 1, gen: strGen(5)})
	ts = append(ts, &vfDT{name: "opaque3", dt: Opaque, opts: []DatasetOption{WithOpaqueTag("tag", 3)}, class: core.DatatypeOpaque, size: 3, signed: -1, per: 1, gen: func(n, pat int) (interface{}, []float64, []string) {
		v := make([]byte, n*3)
		for i := range v {
			v[i] = byte(vfIntPat(i, pat, 8, false))
		}
		return v, nil, nil
	}})
	a := vfIntType("array-int32[2]", ArrayInt32, 32, true, 2, WithArrayDims([]uint64{2}))
	a.class, a.size, a.signed = core.DatatypeArray, 8, -1
	ts = append(ts, a)
	af := &vfDT{name: "array-float64[2,2]", dt: ArrayFloat64, opts: []DatasetOption{WithArrayDims([]uint64{2, 2})}, class: core.DatatypeArray, size: 32, signed: -1, per: 4, gen: func(n, pat int) (interface{}, []float64, []string) {
		v := make([]float64, n*4)
		for i := range v {
			v[i] = vfFloatPat64(i, pat)
		}
		return v, append([]float64{}, v...), nil
	}}
	ts = append(ts, af)
	e8 := vfIntType("enum-int8", EnumInt8, 8, true, 1, WithEnumValues([]string{"A", "B", "C"}, []int64{0, 1, -1}))
	e8.class, e8.signed = core.DatatypeEnum, -1
	e16 := vfIntType("enum-uint16", EnumUint16, 16, false, 1, WithEnumValues([]string{"LO", "HI"}, []int64{0, 65535}))
	e16.class, e16.signed = core.DatatypeEnum, -1
	ts = append(ts, e8, e16)
	ref := vfIntType("objref", ObjectReference, 64, false, 1)
	ref.class, ref.signed = core.DatatypeReference, -1
	gen := ref.gen
	ref.gen = func(n, pat int) (interface{}, []float64, []string) {
		d, _, _ := gen(n, pat)
		return d, nil, nil // references have no numeric reading
	}
	ts = append(ts, ref)
	return ts
}

type vfLayoutCase struct {
	dims   []uint64
	chunk  []uint64 // nil = contiguous
	filter string   // "", gzip, shuffle+gzip, fletcher32, shuffle+gzip+fletcher32 (chunked only)
}

func (l vfLayoutCase) String() string {
	if l.chunk == nil {
		return fmt.Sprintf("%v contiguous", l.dims)
	}
	if l.filter != "" {
		return fmt.Sprintf("%v chunk%v %s", l.dims, l.chunk, l.filter)
	}
	return fmt.Sprintf("%v chunk%v", l.dims, l.chunk)
}

// vfAllLayouts: ranks 1..maxRank, extents from the set, <= maxElems elements, every chunk
// shape with per-dimension extent in {1,2,3,full} (deduplicated, <= dim).
func vfAllLayouts(maxRank, maxElems int, extents []uint64) []vfLayoutCase {
	var out []vfLayoutCase
	var recDims func(cur []uint64)
	recDims = func(cur []uint64) {
		if len(cur) > 0 {
			if vfProd(cur) > maxElems {
				return
			}
			d := append([]uint64{}, cur...)
			out = append(out, vfLayoutCase{dims: d})
			var recChunk func(c []uint64)
			recChunk = func(c []uint64) {
				if len(c) == len(d) {
					out = append(out, vfLayoutCase{dims: d, chunk: append([]uint64{}, c...)})
					return
				}
				seen := map[uint64]bool{}
				for _, e := range []uint64{1, 2, 3, d[len(c)]} {
					if e > d[len(c)] || seen[e] {
						continue
					}
					seen[e] = true
					recChunk(append(c, e))
				}
			}
			recChunk(nil)
		}
		if len(cur) == maxRank {
			return
		}
		for _, e := range extents {
			recDims(append(append([]uint64{}, cur...), e))
		}
	}
	recDims(nil)
	return out
}

var vfC01Counter int64

// vfC01Cap records, per element type, which typed reads exist: those that succeed on the
// simplest configuration (contiguous, superblock 2, shape [5]). In every other configuration
// of the same type these reads must succeed too ("an error only where no typed read exists").
var vfC01Cap = map[string][2]bool{}

type vfC01Case struct {
	T    *vfDT
	SB   uint8
	L    vfLayoutCase
	Pat  int
	Path string
}

func (c vfC01Case) String() string {
	return fmt.Sprintf("%s sb%d %s pat%d %s", c.T.name, c.SB, c.L, c.Pat, c.Path)
}

// vfC01Run executes one grid point; returns "" or a failure class, plus detail.
func vfC01Run(dir string, c vfC01Case) (skipped bool, fail string, detail map[string]any) {
	detail = map[string]any{"case": c.String(), "type": c.T.name, "superblock": c.SB, "dims": c.L.dims, "chunk": c.L.chunk, "pattern": c.Pat, "path": c.Path}
	p := filepath.Join(dir, fmt.Sprintf("c01-%d.h5", atomic.AddInt64(&vfC01Counter, 1)))
	defer os.Remove(p)
	fw, err := CreateForWrite(p, CreateTruncate, WithSuperblockVersion(c.SB))
	if err != nil {
		return false, "create-file-failed", detail
	}
	closed := false
	defer func() {
		if !closed {
			_ = fw.Close()
		}
	}()
	if strings.HasPrefix(c.Path, "/g/") {
		if _, err := fw.CreateGroup("/g"); err != nil {
			detail["error"] = err.Error()
			return false, "create-group-failed", detail
		}
	}
	opts := append([]DatasetOption{}, c.T.opts...)
	if c.L.chunk != nil {
		opts = append(opts, WithChunkDims(c.L.chunk))
		for _, f := range strings.Split(c.L.filter, "+") {
			switch f {
			case "gzip":
				opts = append(opts, WithGZIPCompression(6))
			case "shuffle":
				opts = append(opts, WithShuffle())
			case "fletcher32":
				opts = append(opts, WithFletcher32())
			}
		}
	}
	ds, err := fw.CreateDataset(c.Path, c.T.dt, c.L.dims, opts...)
	if err != nil {
		// not supported in this configuration: outside the grid
		detail["error"] = err.Error()
		return true, "", detail
	}
	n := vfProd(c.L.dims)
	data, nums, strs := c.T.gen(n, c.Pat)
	if c.Pat == 1 {
		// pattern 1 is written over an earlier complete write of the same dataset through the
		// same handle: the values of the last write are what the file must hold
		if earlier, _, _ := c.T.gen(n, 0); earlier != nil {
			_ = ds.Write(earlier)
		}
	}
	if err := ds.Write(data); err != nil {
		detail["error"] = err.Error()
		return true, "", detail
	}
	if err := fw.Close(); err != nil {
		closed = true
		detail["error"] = err.Error()
		return false, "close-failed", detail
	}
	closed = true
	f, err := Open(p)
	if err != nil {
		detail["error"] = err.Error()
		return false, "reopen-failed", detail
	}
	defer f.Close()
	var found *Dataset
	f.Walk(func(path string, obj Object) {
		if d, ok := obj.(*Dataset); ok && path == c.Path {
			found = d
		}
	})
	if found == nil {
		return false, "dataset-not-found-at-path", detail
	}
	// shape and element type
	hdr, err := core.ReadObjectHeader(f.osFile, found.address, f.sb)
	if err != nil {
		return false, "header-unreadable", detail
	}
	info, err := core.ReadDatasetInfo(hdr, f.sb)
	if err != nil {
		detail["error"] = err.Error()
		return false, "info-error", detail
	}
	if fmt.Sprint(info.Dataspace.Dimensions) != fmt.Sprint(c.L.dims) {
		detail["got_dims"] = info.Dataspace.Dimensions
		return false, "shape-differs", detail
	}
	if info.Datatype.Class != c.T.class || info.Datatype.Size != c.T.size {
		detail["got_type"] = fmt.Sprintf("class%d size%d", info.Datatype.Class, info.Datatype.Size)
		return false, "element-type-differs", detail
	}
	if c.T.signed >= 0 && int(info.Datatype.ClassBitField>>3&1) != c.T.signed {
		fail = "signedness-differs"
	}
	// Read()
	got, rerr := found.Read()
	if rerr == nil {
		switch {
		case nums == nil:
			detail["read"] = fmt.Sprint(got)
			return false, "read-returns-values-for-non-numeric-type", detail
		case len(got) != len(nums) && len(got) != n:
			detail["read_len"] = len(got)
			return false, "read-length-differs", detail
		default:
			for i := range got {
				if math.Float64bits(got[i]) != math.Float64bits(nums[i]) {
					detail["index"] = i
					detail["want"] = fmt.Sprintf("%v (%#x)", nums[i], math.Float64bits(nums[i]))
					detail["got"] = fmt.Sprintf("%v (%#x)", got[i], math.Float64bits(got[i]))
					detail["want_all"] = fmt.Sprint(nums)
					detail["got_all"] = fmt.Sprint(got)
					return false, vfC01MismatchShape(got, nums, c), detail
				}
			}
			if len(got) != len(nums) {
				return false, "read-length-differs", detail
			}
		}
	}
	// ReadStrings()
	gs, serr := found.ReadStrings()
	if serr == nil {
		if strs == nil {
			detail["strings"] = fmt.Sprintf("%q", gs)
			return false, "readstrings-returns-values-for-non-string-type", detail
		}
		if fmt.Sprintf("%q", gs) != fmt.Sprintf("%q", strs) {
			detail["want"] = fmt.Sprintf("%q", strs)
			detail["got"] = fmt.Sprintf("%q", gs)
			return false, "strings-differ", detail
		}
	}
	// ReadCompound() has nothing to return for these types
	if cv, cerr := found.ReadCompound(); cerr == nil {
		detail["compound"] = fmt.Sprint(cv)
		return false, "readcompound-returns-values-for-non-compound-type", detail
	}
	detail["read_ok"], detail["strings_ok"] = rerr == nil, serr == nil
	if cap, ok := vfC01Cap[c.T.name]; ok {
		if cap[0] && rerr != nil {
			detail["error"] = rerr.Error()
			return false, "read-error-although-typed-read-exists", detail
		}
		if cap[1] && serr != nil {
			detail["error"] = serr.Error()
			return false, "readstrings-error-although-typed-read-exists", detail
		}
	}
	if rerr != nil && serr != nil {
		detail["no_typed_read"] = true
	}
	return false, fail, detail
}

// vfC01MismatchShape names the shape of a wrong Read() answer so that different wrong
// answers get different finding keys.
func vfC01MismatchShape(got, want []float64, c vfC01Case) string {
	// same multiset? (misplacement) or different values?
	cnt := map[uint64]int{}
	for _, v := range want {
		cnt[math.Float64bits(v)]++
	}
	for _, v := range got {
		cnt[math.Float64bits(v)]--
	}
	perm := true
	for _, k := range cnt {
		if k != 0 {
			perm = false
		}
	}
	if perm {
		return "values-misplaced"
	}
	// sign reinterpretation?
	signflip := true
	for i := range got {
		if got[i] != want[i] {
			d := want[i] - got[i]
			if d != math.Pow(2, float64(c.T.size*8)) && d != math.Pow(2, float64(c.T.size*8/uint32(max(c.T.per, 1)))) {
				signflip = false
			}
		}
	}
	if signflip {
		return "unsigned-read-as-signed"
	}
	zeros := 0
	for i := range got {
		if got[i] != want[i] && got[i] == 0 {
			zeros++
		}
	}
	if zeros > 0 {
		return "values-lost-read-as-zero"
	}
	return "values-differ"
}

func TestVerif_C01(t *testing.T) {
	r := vkit.Start(t, "C01", "exploration")
	defer r.Finish()
	dir := vkit.Scratch(t)
	types := vfTypesC01()
	var cases []vfC01Case
	// (A) type-heavy grid
	layoutsA := []vfLayoutCase{
		{dims: []uint64{5}}, {dims: []uint64{5}, chunk: []uint64{5}}, {dims: []uint64{5}, chunk: []uint64{2}},
		{dims: []uint64{3, 5}}, {dims: []uint64{3, 5}, chunk: []uint64{2, 2}}, {dims: []uint64{3, 5}, chunk: []uint64{3, 1}},
		{dims: []uint64{2, 3, 4}}, {dims: []uint64{2, 3, 4}, chunk: []uint64{1, 2, 3}},
		{dims: []uint64{1}}, {dims: []uint64{1}, chunk: []uint64{1}},
		{dims: []uint64{3, 5}, chunk: []uint64{2, 2}, filter: "gzip"}, {dims: []uint64{3, 5}, chunk: []uint64{2, 2}, filter: "shuffle+gzip"},
		{dims: []uint64{3, 5}, chunk: []uint64{2, 2}, filter: "fletcher32"}, {dims: []uint64{5}, chunk: []uint64{2}, filter: "shuffle+gzip+fletcher32"},
		{dims: []uint64{5}, chunk: []uint64{5}, filter: "shuffle"},
	}
	if r.Thorough() {
		layoutsA = append(layoutsA, vfLayoutCase{dims: []uint64{2, 2, 3, 2}}, vfLayoutCase{dims: []uint64{2, 2, 3, 2}, chunk: []uint64{1, 2, 2, 1}}, vfLayoutCase{dims: []uint64{7, 7}, chunk: []uint64{3, 2}})
	}
	for _, ty := range types {
		for _, sb := range []uint8{2, 0, 3} {
			for _, l := range layoutsA {
				for pat := 0; pat < 3; pat++ {
					for _, path := range []string{"/d", "/g/d"} {
						if path == "/g/d" && pat != 0 {
							continue
						}
						cases = append(cases, vfC01Case{ty, sb, l, pat, path})
					}
				}
			}
		}
	}
	// (A') chunk indexes with thousands of entries ("many chunks per dimension"): 3000 chunks
	// in one dimension, 64 x 32 chunks in two, 10 x 12 x 14 in three
	for _, tn := range []string{"float64", "int8"} {
		for _, ty := range types {
			if ty.name != tn {
				continue
			}
			for _, sb := range []uint8{2, 0, 3} {
				for _, l := range []vfLayoutCase{{dims: []uint64{3000}, chunk: []uint64{1}}, {dims: []uint64{128, 64}, chunk: []uint64{2, 2}}, {dims: []uint64{10, 24, 14}, chunk: []uint64{1, 2, 1}}} {
					cases = append(cases, vfC01Case{ty, sb, l, 0, "/d"})
				}
			}
		}
	}
	// (B) layout-heavy grid for three element types
	maxRank, maxElems := 3, 64
	ext := []uint64{1, 2, 3, 5, 7}
	if r.Thorough() {
		maxRank, maxElems = 4, 600
	}
	layoutsB := vfAllLayouts(maxRank, maxElems, ext)
	byName := map[string]*vfDT{}
	for _, ty := range types {
		byName[ty.name] = ty
	}
	for _, tn := range []string{"int32", "float64", "uint16"} {
		for _, l := range layoutsB {
			sbs := []uint8{2, 0, 3}
			for _, sb := range sbs {
				cases = append(cases, vfC01Case{byName[tn], sb, l, 0, "/d"})
			}
		}
	}
	r.Rule(fmt.Sprintf("grid A: %d element types x superblock {0,2,3} x %d layouts (contiguous, single chunk, many chunks with partial edge chunks, rank 1-3) x 3 data patterns (index-coded, extreme values incl. NaN payloads / >2^31 / 2^53+1, alternating bytes) x path {/d,/g/d}; grid B: {int32,float64,uint16} x every shape of rank<=%d with extents from %v and <=%d elements x every chunk shape with per-dimension extent in {1,2,3,full}; each case = create, write, close, reopen, compare Info/Read/ReadStrings/ReadCompound with the written slice; cases the writer rejects are outside the grid (counted as skipped); every case is distinct", len(types), len(layoutsA), maxRank, ext, maxElems))
	caps := map[string]string{}
	for _, ty := range types {
		_, _, d := vfC01Run(dir, vfC01Case{ty, 2, vfLayoutCase{dims: []uint64{5}}, 0, "/d"})
		ro, _ := d["read_ok"].(bool)
		so, _ := d["strings_ok"].(bool)
		vfC01Cap[ty.name] = [2]bool{ro, so}
		caps[ty.name] = fmt.Sprintf("Read=%v ReadStrings=%v", ro, so)
	}
	r.Set("typed_reads_available", caps)
	var skipped int64
	vkit.ParallelFor(len(cases), func(i int) {
		if r.Expired() {
			r.Cap("time budget")
			return
		}
		c := cases[i]
		var sk bool
		var fail string
		var detail map[string]any
		if r.Guard(c.T.name+"/", c.String(), func() { sk, fail, detail = vfC01Run(dir, c) }) {
			r.Case(c.String())
			return
		}
		if sk {
			atomic.AddInt64(&skipped, 1)
			r.Case("")
			r.Outcome("rejected-by-writer")
			return
		}
		r.Case(c.String())
		if fail != "" {
			lay := "contiguous"
			if c.L.chunk != nil {
				lay = "chunked-single"
				for d := range c.L.dims {
					if c.L.chunk[d] < c.L.dims[d] {
						lay = "chunked-multi"
					}
				}
				if c.L.filter != "" {
					lay = "chunked-filtered"
				}
			}
			key := fmt.Sprintf("%s/sb%d/%s/%s", c.T.name, c.SB, lay, fail)
			if strings.Contains(fail, "error-although-typed-read-exists") {
				// a read that fails outright says nothing type- or version-specific
				key = fmt.Sprintf("%s/%s", lay, fail)
			}
			r.Fail(key, detail)
			r.Outcome(fail)
		} else if detail["no_typed_read"] == true {
			r.Outcome("no-typed-read-error")
		} else {
			r.Outcome("ok")
		}
	})
	// (C) compound datasets: struct{int32 id; float32 v; int64 big; string4 tag} and struct{float64 x}
	vfC01Compound(r, dir)
	r.Set("skipped_rejected_by_writer", skipped)
	r.Set("grid_points", len(cases))
	r.Sample(cases[0].String())
	r.Sample(cases[len(cases)/2].String())
	r.Sample(cases[len(cases)-1].String())
	_ = binary.LittleEndian
}

func vfC01Compound(r *vkit.Run, dir string) {
	i32, _ := core.CreateBasicDatatypeMessage(core.DatatypeFixed, 4)
	f32, _ := core.CreateBasicDatatypeMessage(core.DatatypeFloat, 4)
	i64, _ := core.CreateBasicDatatypeMessage(core.DatatypeFixed, 8)
	f64, _ := core.CreateBasicDatatypeMessage(core.DatatypeFloat, 8)
	s4, _ := core.CreateBasicDatatypeMessage(core.DatatypeString, 4)
	type ctype struct {
		name   string
		fields []core.CompoundFieldDef
	}
	cts := []ctype{
		{"{i32 id;f32 v;i64 big;str4 tag}", []core.CompoundFieldDef{{Name: "id", Offset: 0, Type: i32}, {Name: "v", Offset: 4, Type: f32}, {Name: "big", Offset: 8, Type: i64}, {Name: "tag", Offset: 16, Type: s4}}},
		{"{f64 x}", []core.CompoundFieldDef{{Name: "x", Offset: 0, Type: f64}}},
	}
	for _, ct := range cts {
		for _, sb := range []uint8{2, 0, 3} {
			for _, dims := range [][]uint64{{1}, {5}, {2, 3}} {
				for pat := 0; pat < 3; pat++ {
					name := fmt.Sprintf("compound%s sb%d %v pat%d", ct.name, sb, dims, pat)
					r.Case(name)
					r.Guard("compound/", name, func() {
						if fail, detail := vfC01CompoundCase(dir, ct.fields, sb, dims, pat); fail != "" {
							detail["case"] = name
							r.Fail(fmt.Sprintf("compound/sb%d/%s", sb, fail), detail)
						} else {
							r.Outcome("ok")
						}
					})
				}
			}
		}
	}
}

func vfC01CompoundCase(dir string, fields []core.CompoundFieldDef, sb uint8, dims []uint64, pat int) (string, map[string]any) {
	detail := map[string]any{}
	ct, err := core.CreateCompoundTypeFromFields(fields)
	if err != nil {
		detail["error"] = err.Error()
		return "create-type-failed", detail
	}
	p := filepath.Join(dir, fmt.Sprintf("c01c-%d.h5", atomic.AddInt64(&vfC01Counter, 1)))
	defer os.Remove(p)
	fw, err := CreateForWrite(p, CreateTruncate, WithSuperblockVersion(sb))
	if err != nil {
		return "create-file-failed", detail
	}
	ds, err := fw.CreateCompoundDataset("/c", ct, dims)
	if err != nil {
		_ = fw.Close()
		detail["error"] = err.Error()
		return "create-dataset-failed", detail
	}
	n := vfProd(dims)
	raw := make([]byte, 0, n*int(ct.Size))
	want := make([]map[string]string, n)
	for i := 0; i < n; i++ {
		want[i] = map[string]string{}
		for _, f := range fields {
			switch {
			case f.Type.Class == core.DatatypeFixed && f.Type.Size == 4:
				v := int32(vfIntPat(i, pat, 32, true))
				raw = binary.LittleEndian.AppendUint32(raw, uint32(v))
				want[i][f.Name] = fmt.Sprint(v)
			case f.Type.Class == core.DatatypeFixed && f.Type.Size == 8:
				v := int64(vfIntPat(i, pat, 64, true))
				raw = binary.LittleEndian.AppendUint64(raw, uint64(v))
				want[i][f.Name] = fmt.Sprint(v)
			case f.Type.Class == core.DatatypeFloat && f.Type.Size == 4:
				v := vfFloatPat32(i, pat)
				raw = binary.LittleEndian.AppendUint32(raw, math.Float32bits(v))
				want[i][f.Name] = fmt.Sprintf("f32:%08x", math.Float32bits(v))
			case f.Type.Class == core.DatatypeFloat && f.Type.Size == 8:
				v := vfFloatPat64(i, pat)
				raw = binary.LittleEndian.AppendUint64(raw, math.Float64bits(v))
				want[i][f.Name] = fmt.Sprintf("f64:%016x", math.Float64bits(v))
			default:
				sv := fmt.Sprintf("t%d", i%100)
				b := make([]byte, f.Type.Size)
				copy(b, sv)
				raw = append(raw, b...)
				want[i][f.Name] = sv
			}
		}
	}
	if err := ds.WriteRaw(raw); err != nil {
		_ = fw.Close()
		detail["error"] = err.Error()
		return "write-failed", detail
	}
	if err := fw.Close(); err != nil {
		return "close-failed", detail
	}
	f, err := Open(p)
	if err != nil {
		detail["error"] = err.Error()
		return "reopen-failed", detail
	}
	defer f.Close()
	var found *Dataset
	f.Walk(func(path string, obj Object) {
		if d, ok := obj.(*Dataset); ok && path == "/c" {
			found = d
		}
	})
	if found == nil {
		return "dataset-not-found-at-path", detail
	}
	got, err := found.ReadCompound()
	if err != nil {
		detail["error"] = err.Error()
		return "readcompound-error", detail
	}
	if len(got) != n {
		return "length-differs", detail
	}
	for i := range got {
		for _, fd := range fields {
			v, ok := got[i][fd.Name]
			if !ok {
				return "member-missing", detail
			}
			var gs string
			switch x := v.(type) {
			case float32:
				gs = fmt.Sprintf("f32:%08x", math.Float32bits(x))
			case float64:
				gs = fmt.Sprintf("f64:%016x", math.Float64bits(x))
			default:
				gs = fmt.Sprint(v)
			}
			if gs != want[i][fd.Name] {
				detail["index"], detail["member"], detail["want"], detail["got"] = i, fd.Name, want[i][fd.Name], gs
				return "member-value-differs(" + fmt.Sprintf("class%d-size%d", fd.Type.Class, fd.Type.Size) + ")", detail
			}
		}
	}
	if _, err := found.Read(); err == nil {
		return "read-returns-values-for-compound", detail
	}
	return "", detail
}
