//go:build verif

package hdf5

import (
	"fmt"
	"sync"
	"testing"
	"time"

	"github.com/scigolib/hdf5/internal/verif/vkit"
)

// C19 (part a) — rebalancing options never change content. Differential: the dump of a
// history under configuration K with toggles in it must equal the dump of the same history
// with the toggles removed under the default configuration.

func TestVerif_C19(t *testing.T) {
	r := vkit.Start(t, "C19", "model_checking")
	defer r.Finish()
	dir := vkit.Scratch(t)
	type cfg struct {
		name string
		opts []interface{}
	}
	cfgs := []cfg{
		{"rebalancing-off", []interface{}{WithBTreeRebalancing(false)}},
		{"lazy(0.01,1ns,1)", []interface{}{WithLazyRebalancing(LazyThreshold(0.01), LazyMaxDelay(time.Nanosecond), LazyBatchSize(1))}},
		{"lazy(0.2,default,100)", []interface{}{WithLazyRebalancing(LazyThreshold(0.2), LazyBatchSize(100))}},
		{"lazy(1.0)", []interface{}{WithLazyRebalancing(LazyThreshold(1.0))}},
		{"lazy+incremental(1us,1us)", []interface{}{WithLazyRebalancing(), WithIncrementalRebalancing(IncrementalBudget(time.Microsecond), IncrementalInterval(time.Microsecond))}},
		{"incremental(default)", []interface{}{WithLazyRebalancing(), WithIncrementalRebalancing()}},
		{"smart(default)", []interface{}{WithSmartRebalancing()}},
		{"smart(all-toggled)", []interface{}{WithSmartRebalancing(SmartAutoDetect(false), SmartAutoSwitch(false), SmartMinFileSize(1), SmartAllowedModes("lazy"), SmartOnModeChange(func(ModeDecision) {}))}},
		{"smart+rebalancing-off", []interface{}{WithSmartRebalancing(SmartAllowedModes("none", "incremental")), WithBTreeRebalancing(false)}},
		{"default+toggles", nil},
	}
	cA, cB := vfCollidingNames()
	depth := 3
	starts := []int{8, 9, 12, -1} // -1: ten attributes, nine deleted again (dense storage with one record left)
	if r.Thorough() {
		depth = 4
	}
	var alphabet []vfOp
	for _, n := range []string{"a", cA, cB} {
		for _, v := range []string{"i32a", "s40"} {
			alphabet = append(alphabet, vfOp{Op: "attr", Path: "/d", Name: n, Value: v})
		}
	}
	for _, n := range []string{"a", "fill00", "fill03", cA} {
		alphabet = append(alphabet, vfOp{Op: "delattr", Path: "/d", Name: n})
	}
	nContent := len(alphabet)
	for _, tg := range vfToggles {
		alphabet = append(alphabet, vfOp{Op: "toggle", Bad: tg, Path: "/d"})
	}
	r.Rule(fmt.Sprintf("configurations %d (rebalancing off, lazy with 3 parameter sets, lazy+incremental with 1us and default budget/interval, smart default / every option toggled / restricted modes, default) x start states with %v attributes (dense regime) x every sequence of length <= %d over %d content operations (attribute writes incl. colliding names, deletes) and %d rebalancing toggles; the closed file's dump must equal the dump of the same history with toggles removed under the default configuration; non-trivial = sequence with at least one delete or toggle", len(cfgs), starts, depth, nContent, len(vfToggles)))
	var refMu sync.Mutex
	refCache := map[string]string{}
	reference := func(k int, hist []vfOp, prefix []vfOp) string {
		var stripped []vfOp
		for _, o := range hist {
			if o.Op != "toggle" {
				stripped = append(stripped, o)
			}
		}
		key := fmt.Sprintf("%d|%s", k, vfOpsString(stripped[len(prefix):]))
		refMu.Lock()
		v, ok := refCache[key]
		refMu.Unlock()
		if ok {
			return v
		}
		ex := vfRun(dir, nil, stripped, true)
		r.Transitions(1)
		v = "<unopenable>"
		if ex.Closed != nil {
			v = ex.Closed.String()
		}
		refMu.Lock()
		refCache[key] = v
		refMu.Unlock()
		return v
	}
	for _, c := range cfgs {
		for _, k := range starts {
			c, k := c, k
			prefix := []vfOp{{Op: "mkds", Path: "/d", Type: "f64", Dims: []uint64{3}}, {Op: "mkds", Path: "/other", Type: "i32", Dims: []uint64{2}}, {Op: "write", Path: "/d", Pat: 1}}
			nfill := k
			if k < 0 {
				nfill = 10 // start state -1: dense storage emptied down to one attribute (fill00)
			}
			for i := 0; i < nfill; i++ {
				prefix = append(prefix, vfOp{Op: "attr", Path: "/d", Name: fmt.Sprintf("fill%02d", i), Value: []string{"i64", "s1", "f32"}[i%3]})
			}
			if k < 0 {
				for i := nfill - 1; i >= 1; i-- {
					prefix = append(prefix, vfOp{Op: "delattr", Path: "/d", Name: fmt.Sprintf("fill%02d", i)})
				}
			}
			d := depth
			// full depth for the default configuration with toggles, for rebalancing off, and for
			// one configuration of each family (lazy, lazy+incremental, smart); the other parameter
			// sets of a family one step less (quick tier: full depth only from 9 attributes)
			fullDepth := map[string]bool{"default+toggles": true, "rebalancing-off": true, "lazy(0.2,default,100)": true, "lazy+incremental(1us,1us)": true, "smart(default)": true}
			if !fullDepth[c.name] || (k != 9 && !(k == -1 && (c.name == "rebalancing-off" || c.name == "default+toggles")) && !r.Thorough()) {
				d = depth - 1
			}
			en := func(hist []vfOp) []vfOp {
				if c.name == "default+toggles" {
					return alphabet
				}
				return alphabet
			}
			x := &vfExplore{R: r, Dir: dir, Cfg: c.opts, Prefix: prefix, Depth: d, Enabled: en}
			x.Visit = func(parent, cur *vfExec) {
				// dump after Close of this very sequence
				nontrivial := false
				for _, o := range cur.Hist[len(prefix):] {
					if o.Op != "attr" {
						nontrivial = true
					}
				}
				hs := fmt.Sprintf("%s/k%d: %s", c.name, k, vfOpsString(cur.Hist[len(prefix):]))
				if nontrivial {
					r.Case(hs)
				} else {
					r.Case("")
				}
				last := cur.Hist[len(cur.Hist)-1]
				detail := map[string]any{"config": c.name, "start_attributes": k, "ops": cur.Hist[len(prefix):], "history": vfOpsString(cur.Hist[len(prefix):])}
				if cur.Panics[len(cur.Panics)-1] {
					detail["panic"] = fmt.Sprint(cur.LastErr())
					r.Fail(fmt.Sprintf("%s/panic", vfC19OpClass(last)), detail)
					return
				}
				got := "<unopenable>"
				if cur.Tree != nil {
					got = cur.Tree.String()
				}
				want := reference(k, cur.Hist, prefix)
				if got != want {
					detail["got"], detail["want"] = got, want
					cfgClass := "config"
					if c.name == "default+toggles" {
						cfgClass = "toggle"
					}
					r.Fail(fmt.Sprintf("%s/%s/content-differs-from-default-configuration", cfgClass, vfC19OpClass(last)), detail)
					r.Outcome("differs")
					return
				}
				r.Outcome("equal")
			}
			x.Run()
		}
	}
	r.States(int64(len(refCache)))
	r.Sample(map[string]any{"config": "lazy(0.01,1ns,1)", "start_attributes": 9, "sequence": "delattr(/d,fill00); toggle:ForceBatchRebalance; attr(/d,a,s40)"})
}

func vfC19OpClass(o vfOp) string {
	if o.Op == "toggle" {
		return "toggle:" + o.Bad
	}
	return o.Op
}
