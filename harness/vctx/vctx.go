//go:build verif

// Package vctx replaces "context" in the instrumented copies of the code under test (C18):
// the real contexts are used, and every cancellable context is declared to the scheduler so
// that readiness of its Done channel is modelled (cancel = a scheduling point that marks the
// context and its descendants as done, followed by the real cancel).
package vctx

import (
	"context"
	"reflect"

	"github.com/scigolib/hdf5/internal/verif/vsched"
)

type (
	Context    = context.Context
	CancelFunc = context.CancelFunc
)

var (
	Canceled         = context.Canceled
	DeadlineExceeded = context.DeadlineExceeded
)

func Background() Context { return context.Background() }
func TODO() Context       { return context.TODO() }

func key(c <-chan struct{}) uintptr {
	if c == nil {
		return 0
	}
	return reflect.ValueOf(c).Pointer()
}

// WithCancel is context.WithCancel, declared to the scheduler.
func WithCancel(parent Context) (Context, CancelFunc) {
	ctx, cancel := context.WithCancel(parent)
	done := ctx.Done()
	vsched.RegisterCtx(done, key(done), key(parent.Done()))
	return ctx, func() {
		if vsched.OpKey(vsched.KCancel, done, key(done)) {
			cancel()
		}
	}
}
