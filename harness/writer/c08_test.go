//go:build verif

package writer

import (
	"bytes"
	"compress/zlib"
	"fmt"
	"regexp"
	"runtime/debug"
	"sort"
	"strings"
	"sync"
	"testing"

	"github.com/scigolib/hdf5/internal/core"
	"github.com/scigolib/hdf5/internal/verif/vkit"
)

// C08 — filter pipelines are lossless, self-compatible and detect corruption.
//
// Grid (every point visited, nothing sampled):
//   pipelines : all ordered selections without repetition of <= 4 (quick <= 3) filter kinds
//               from {deflate, shuffle, fletcher32, lzf}, each kind with every parameter
//               value {deflate 1|6|9, shuffle 1|2|4|8}; plus the empty pipeline
//   lengths   : 0,1,2,3,4,5,7,8,9,15,16,17,31,32,33,255,256,257,4095,4096,4097,65537 (thorough: +1 MiB)
//   contents  : zeros, 0xFF, ramp, period-3, xorshift (fixed seed), one odd byte,
//               and for lengths > 4097 two blocks of xorshift bytes repeated with period
//               8192 / 8193 (the LZF window boundary)
//
// Oracles (statement of C08):
//   (1) writer: Remove(Apply(p)) == p
//   (2) cross implementation: core.ParseFilterPipelineMessage(EncodePipelineMessage()) gives
//       the same ids/flags/client data, and core's ApplyFilters(writer Apply(p)) == p, both with
//       a hand-built core description (same ids/flags/client data) and with the parsed one
//       (the latter only where the parsed description is the right one)
//   (3) corruption: outermost stored stage Fletcher-32 -> every single-byte change of the stored
//       chunk must be an error in BOTH decoders; Fletcher-32 as an inner stage -> error or
//       exactly the original payload. Additionally (multi-byte family named by the quantifier):
//       every transposition of two adjacent, non-congruent 16-bit words of the protected part.
//
// Where the writer's Apply returns an error the grid point is outside "accepted" (skipped).

type vfC08Item struct {
	kind  byte // 'd' deflate, 's' shuffle, 'f' fletcher32, 'l' lzf
	param int
}

func (it vfC08Item) String() string {
	switch it.kind {
	case 'd':
		return fmt.Sprintf("deflate(%d)", it.param)
	case 's':
		return fmt.Sprintf("shuffle(%d)", it.param)
	case 'f':
		return "fletcher32"
	default:
		return "lzf"
	}
}

func (it vfC08Item) filter() Filter {
	switch it.kind {
	case 'd':
		return NewGZIPFilter(it.param)
	case 's':
		return NewShuffleFilter(uint32(it.param))
	case 'f':
		return NewFletcher32Filter()
	default:
		return NewLZFFilter()
	}
}

type vfC08Pipe struct {
	items []vfC08Item
	name  string // "shuffle(4)>deflate(6)>fletcher32"
	kinds string // "s>d>f"
	hasF  bool
	outF  bool // fletcher32 is the outermost stored stage (last applied)
}

func vfC08Pipelines(maxLen int) []vfC08Pipe {
	params := map[byte][]int{'d': {1, 6, 9}, 's': {1, 2, 4, 8}, 'f': {0}, 'l': {0}}
	kinds := []byte{'d', 's', 'f', 'l'}
	var out []vfC08Pipe
	var rec func(cur []vfC08Item, used map[byte]bool)
	rec = func(cur []vfC08Item, used map[byte]bool) {
		p := vfC08Pipe{items: append([]vfC08Item(nil), cur...)}
		var ns, ks []string
		for _, it := range cur {
			ns = append(ns, it.String())
			ks = append(ks, string(it.kind))
			if it.kind == 'f' {
				p.hasF = true
			}
		}
		p.name = strings.Join(ns, ">")
		if p.name == "" {
			p.name = "(empty)"
		}
		p.kinds = strings.Join(ks, ">")
		p.outF = len(cur) > 0 && cur[len(cur)-1].kind == 'f'
		out = append(out, p)
		if len(cur) == maxLen {
			return
		}
		for _, k := range kinds {
			if used[k] {
				continue
			}
			used[k] = true
			for _, pv := range params[k] {
				rec(append(cur, vfC08Item{k, pv}), used)
			}
			used[k] = false
		}
	}
	rec(nil, map[byte]bool{})
	return out
}

func (p vfC08Pipe) build() (*FilterPipeline, *core.FilterPipelineMessage) {
	fp := NewFilterPipeline()
	cm := &core.FilterPipelineMessage{Version: 2, NumFilters: uint8(len(p.items))}
	for _, it := range p.items {
		f := it.filter()
		fp.AddFilter(f)
		flags, cd := f.Encode()
		cm.Filters = append(cm.Filters, core.Filter{ID: core.FilterID(f.ID()), Flags: flags,
			NumClientData: uint16(len(cd)), ClientData: append([]uint32(nil), cd...)})
	}
	return fp, cm
}

var vfC08ContentNames = []string{"zeros", "ff", "ramp", "period3", "xorshift", "one-odd-byte", "xorshift-period-8192", "xorshift-period-8193"}

func vfC08Xorshift(n int, seed uint64) []byte {
	b := make([]byte, n)
	x := seed
	for i := range b {
		x ^= x << 13
		x ^= x >> 7
		x ^= x << 17
		b[i] = byte(x >> 32)
	}
	return b
}

func vfC08Payload(n, content int) []byte {
	b := make([]byte, n)
	switch content {
	case 0:
	case 1:
		for i := range b {
			b[i] = 0xFF
		}
	case 2:
		for i := range b {
			b[i] = byte(i)
		}
	case 3:
		for i := range b {
			b[i] = []byte{0x11, 0x7E, 0xC3}[i%3]
		}
	case 4:
		return vfC08Xorshift(n, 0x9E3779B97F4A7C15)
	case 5:
		if n > 0 {
			b[n/2] = 0xA5
		}
	case 6, 7:
		per := 8192 + (content - 6)
		blk := vfC08Xorshift(per, 0xD1B54A32D192ED03)
		for i := range b {
			b[i] = blk[i%per]
		}
	}
	return b
}

var (
	vfC08reHex = regexp.MustCompile(`[0-9a-fA-F]{8}`)
	vfC08reNum = regexp.MustCompile(`[0-9]+`)
)

func vfC08Norm(err error) string {
	// Finding keys must not depend on the wording of error messages (a reworded message is
	// not a behaviour change): only a coarse class of the failing stage is kept.
	s := strings.ToLower(err.Error())
	switch {
	case strings.Contains(s, "zlib") || strings.Contains(s, "flate") || strings.Contains(s, "gzip"):
		return "inflate-stage-error"
	case strings.Contains(s, "lzf"):
		return "lzf-stage-error"
	case strings.Contains(s, "fletcher") || strings.Contains(s, "checksum"):
		return "checksum-stage-error"
	case strings.Contains(s, "shuffle"):
		return "shuffle-stage-error"
	}
	return "error"
}

func vfC08LenRel(got, want []byte) string {
	switch {
	case len(got) < len(want):
		return "shorter"
	case len(got) > len(want):
		return "longer"
	default:
		return "same-length"
	}
}

// vfC08Positions lists the byte positions of a stored chunk of n bytes that are altered:
// all of them when n <= full, otherwise an explicit sub-grid (first 32, last 40 — which
// covers the checksum and the tail of the protected part —, every 4099th (every 65521st above 100000 bytes), powers of two
// and their neighbours).
func vfC08Positions(n, full int) (pos []int, all bool) {
	if n <= full {
		pos = make([]int, n)
		for i := range pos {
			pos[i] = i
		}
		return pos, true
	}
	set := map[int]bool{}
	for i := 0; i < 32; i++ {
		set[i] = true
	}
	for i := n - 40; i < n; i++ {
		set[i] = true
	}
	step := 4099
	if n > 100000 {
		step = 65521
	}
	for i := 0; i < n; i += step {
		set[i] = true
	}
	for p := 32; p < n; p *= 2 {
		for _, d := range []int{-1, 0, 1} {
			if p+d < n {
				set[p+d] = true
			}
		}
	}
	for i := range set {
		pos = append(pos, i)
	}
	sort.Ints(pos)
	return pos, false
}

// vfC08RefFletcher is an independent Fletcher-32 as the HDF5 format defines it
// (H5_checksum_fletcher32): 16-bit big-endian words, an odd trailing byte is the high byte
// of a word, both sums in one's-complement arithmetic (a non-zero multiple of 65535 is
// represented as 0xFFFF, zero only for all-zero sums), computed in closed form:
// sum1 = S w_k, sum2 = S (m-k) w_k.
func vfC08RefFletcher(d []byte) uint32 {
	m := (len(d) + 1) / 2
	var s1, s2 uint64
	nz1, nz2 := false, false
	for k := 0; k < m; k++ {
		w := uint64(d[2*k]) << 8
		if 2*k+1 < len(d) {
			w |= uint64(d[2*k+1])
		}
		if w != 0 {
			nz1, nz2 = true, true
		}
		s1 = (s1 + w) % 65535
		s2 = (s2 + (uint64(m-k)%65535)*(w%65535)) % 65535
	}
	if s1 == 0 && nz1 {
		s1 = 0xFFFF
	}
	if s2 == 0 && nz2 {
		s2 = 0xFFFF
	}
	return uint32(s2)<<16 | uint32(s1)
}

type vfC08Fail struct {
	key    string
	detail map[string]any
}

type vfC08Result struct {
	fails    []vfC08Fail
	skipped  string // non-empty: the writer rejected the point (normalised reason)
	outcomes []string
	variants int64 // corrupted variants decoded (per decoder)
	counters map[string]int64
}

func (res *vfC08Result) fail(key string, detail map[string]any) {
	for _, f := range res.fails {
		if f.key == key {
			n, _ := f.detail["more_in_this_point"].(int)
			f.detail["more_in_this_point"] = n + 1
			return
		}
	}
	res.fails = append(res.fails, vfC08Fail{key, detail})
}

func (res *vfC08Result) count(k string, n int64) {
	if res.counters == nil {
		res.counters = map[string]int64{}
	}
	res.counters[k] += n
}

// vfC08Point evaluates one grid point.
func vfC08Point(p vfC08Pipe, n, content int, payload []byte, thorough bool, parseOK bool, parsed *core.FilterPipelineMessage) *vfC08Result {
	res := &vfC08Result{}
	desc := map[string]any{"pipeline": p.name, "length": n, "content": vfC08ContentNames[content]}
	mk := func(extra map[string]any) map[string]any {
		m := map[string]any{}
		for k, v := range desc {
			m[k] = v
		}
		for k, v := range extra {
			m[k] = v
		}
		return m
	}
	fp, cm := p.build()
	pclass := "payload-nonempty"
	if n == 0 {
		pclass = "payload-empty"
	}
	in := append([]byte(nil), payload...)
	stored, err := fp.Apply(in)
	if err != nil {
		res.skipped = vfC08Norm(err)
		res.outcomes = append(res.outcomes, "writer-rejects")
		return res
	}
	if !bytes.Equal(in, payload) {
		res.fail("writer-apply/mutates-its-input", mk(nil))
	}
	storedCopy := append([]byte(nil), stored...)
	// the encoded chunk must be the caller's: encoding another payload (same size class, then a
	// smaller one) with the same pipeline object must not change the bytes returned earlier
	if n > 0 && n <= 65537 {
		other := make([]byte, n)
		for i := range other {
			other[i] = payload[i] ^ 0x5A
		}
		if _, err := fp.Apply(other); err == nil {
			_, _ = fp.Apply(other[:(n+1)/2])
			if !bytes.Equal(stored, storedCopy) {
				res.fail("writer-apply/result-changed-by-a-later-apply", mk(nil))
				stored = append([]byte(nil), storedCopy...)
			}
		}
	}

	// (1) writer's own inverse
	back, err := fp.Remove(append([]byte(nil), stored...))
	switch {
	case err != nil:
		res.fail("writer-roundtrip/error/"+vfC08Norm(err)+"/"+pclass, mk(map[string]any{"error": err.Error()}))
		res.outcomes = append(res.outcomes, "writer-roundtrip-error")
	case !bytes.Equal(back, payload):
		res.fail("writer-roundtrip/wrong-payload/"+p.kinds+"/"+vfC08LenRel(back, payload), mk(map[string]any{"got_len": len(back)}))
		res.outcomes = append(res.outcomes, "writer-roundtrip-wrong")
	default:
		res.outcomes = append(res.outcomes, "writer-roundtrip-ok")
	}

	// (2) the reader's decoder on the writer's bytes, hand-built description
	readerBaseOK := false
	if len(p.items) > 0 {
		got, err := cm.ApplyFilters(append([]byte(nil), stored...))
		switch {
		case err != nil:
			res.fail("reader-decode/error/"+vfC08Norm(err)+"/"+pclass, mk(map[string]any{"error": err.Error(), "stored_len": len(stored)}))
			res.outcomes = append(res.outcomes, "reader-decode-error")
		case !bytes.Equal(got, payload):
			res.fail("reader-decode/wrong-payload/"+p.kinds+"/"+vfC08LenRel(got, payload), mk(map[string]any{"got_len": len(got)}))
			res.outcomes = append(res.outcomes, "reader-decode-wrong")
		default:
			readerBaseOK = true
			res.outcomes = append(res.outcomes, "reader-decode-ok")
		}
		// Un-masking aid: while the writer wraps deflate in the gzip container the reader
		// rejects every deflate chunk at the header and its inflate path would never run.
		// Re-run the pipeline with the deflate stage replaced by the zlib container (what the
		// reader and the format expect) and require the reader to invert that.
		if err != nil && strings.Contains(err.Error(), "zlib: invalid header") {
			alt := append([]byte(nil), payload...)
			altOK := true
			for _, it := range p.items {
				if it.kind == 'd' {
					var zb bytes.Buffer
					zw, _ := zlib.NewWriterLevel(&zb, it.param)
					_, _ = zw.Write(alt)
					_ = zw.Close()
					alt = zb.Bytes()
					continue
				}
				var aerr error
				if alt, aerr = it.filter().Apply(alt); aerr != nil {
					altOK = false
					break
				}
			}
			if altOK {
				res.count("reader_decode_of_zlib_container_variant", 1)
				got, err := cm.ApplyFilters(alt)
				switch {
				case err != nil:
					res.fail("reader-decode-zlib-container-variant/error/"+vfC08Norm(err)+"/"+pclass, mk(map[string]any{"error": err.Error()}))
				case !bytes.Equal(got, payload):
					res.fail("reader-decode-zlib-container-variant/wrong-payload/"+p.kinds+"/"+vfC08LenRel(got, payload), mk(map[string]any{"got_len": len(got)}))
				}
			}
		}
		// the same through the description the reader parses out of the writer's message
		if parseOK {
			got, err := parsed.ApplyFilters(append([]byte(nil), stored...))
			switch {
			case err != nil:
				res.fail("reader-decode-via-parsed-message/error/"+vfC08Norm(err)+"/"+pclass, mk(map[string]any{"error": err.Error()}))
			case !bytes.Equal(got, payload):
				res.fail("reader-decode-via-parsed-message/wrong-payload/"+p.kinds+"/"+vfC08LenRel(got, payload), mk(nil))
			}
			res.count("decoded_via_parsed_message", 1)
		} else {
			res.count("decode_via_parsed_message_masked_by_message_finding", 1)
		}
	}

	// (3) corruption
	if !p.hasF {
		// without a checksum stage a damaged chunk may decode to anything, but both decoders
		// must come back with a value or an error: every truncation of the stored chunk and
		// (for pipelines that contain the LZF codec, whose decoder is the repository's own
		// code) every stored byte set to each of {00, 1F, 20, E0, FF} — the control bytes of
		// the format — are decoded under a panic guard
		if n > 0 && n <= 4097 && len(p.items) <= 2 {
			try := func(what string, buf []byte, extra map[string]any) {
				for _, d := range []struct {
					name string
					f    func([]byte) ([]byte, error)
				}{{"writer", fp.Remove}, {"reader", cm.ApplyFilters}} {
					func() {
						defer func() {
							if r := recover(); r != nil {
								e := mk(extra)
								e["panic"] = fmt.Sprint(r)
								res.fail(fmt.Sprintf("decode-%s/%s/%s/panic", what, p.kinds, d.name), e)
							}
						}()
						_, _ = d.f(append([]byte(nil), buf...))
					}()
					res.variants++
				}
			}
			for cut := 0; cut < len(stored); cut++ {
				try("truncated", stored[:cut], map[string]any{"cut_at": cut, "stored_len": len(stored)})
			}
			if strings.Contains(p.kinds, "l") {
				buf := append([]byte(nil), stored...)
				for i := range buf {
					orig := buf[i]
					for _, v := range []byte{0x00, 0x1F, 0x20, 0xE0, 0xFF} {
						if v == orig {
							continue
						}
						buf[i] = v
						try("byte", buf, map[string]any{"position": i, "value": v, "stored_len": len(stored)})
					}
					buf[i] = orig
				}
			}
			res.count("unprotected_decoder_robustness_points", 1)
		}
		return res
	}
	fIdx := 0
	for i, it := range p.items {
		if it.kind == 'f' {
			fIdx = i
		}
	}
	where := "inner-f32"
	full := 600
	if thorough {
		full = 4300
	}
	if p.outF {
		where = "outermost-f32"
		full = 1100 // quick: all positions for stored chunks up to 1100 bytes
		if thorough {
			full = 4300
		}
		if thorough && len(p.items) <= 2 {
			full = 70000
		}
	}
	positions, all := vfC08Positions(len(stored), full)
	if all {
		res.count("corruption_points_all_bytes", 1)
	} else {
		res.count("corruption_points_position_subgrid", 1)
	}
	masks := []byte{0x01, 0x80, 0xFF}
	if n <= 33 && (p.outF || thorough) {
		masks = masks[:0]
		for m := 1; m < 256; m++ {
			masks = append(masks, byte(m))
		}
	}
	buf := append([]byte(nil), stored...)
	type dec struct {
		name string
		f    func([]byte) ([]byte, error)
	}
	decs := []dec{{"writer", fp.Remove}, {"reader", cm.ApplyFilters}}
	// genuineCollision: with Fletcher-32 as an inner stage a single stored byte can change the
	// protected block in many bytes and in length; Fletcher-32 cannot see e.g. the length of an
	// all-zero (or all-0xFFFF) block. A decode without error is legitimate exactly when the
	// block the Fletcher stage sees (outer stages undone one by one) carries a checksum that
	// an independent Fletcher-32 confirms.
	genuineCollision := func() bool {
		blk := append([]byte(nil), buf...)
		for i := len(p.items) - 1; i > fIdx; i-- {
			var err error
			blk, err = p.items[i].filter().Remove(blk)
			if err != nil {
				return false
			}
		}
		if len(blk) < 4 {
			return false
		}
		k := len(blk) - 4
		stored := uint32(blk[k]) | uint32(blk[k+1])<<8 | uint32(blk[k+2])<<16 | uint32(blk[k+3])<<24
		return vfC08RefFletcher(blk[:k]) == stored
	}
	judge := func(d dec, what string, extra map[string]any) {
		got, err := d.f(buf)
		if err != nil {
			res.count(d.name+"_corruption_error", 1)
			if d.name == "reader" && !readerBaseOK {
				res.count("reader_corruption_error_but_intact_chunk_fails_too", 1)
			}
			return
		}
		same := bytes.Equal(got, payload)
		if !p.outF {
			if same {
				res.count(d.name+"_corruption_benign_original_payload", 1)
				return
			}
			if genuineCollision() {
				res.count(d.name+"_corruption_inner_genuine_fletcher_collision", 1)
				return
			}
		}
		shape := "altered-payload-returned"
		if same {
			shape = "original-payload-returned-without-error"
		}
		key := fmt.Sprintf("corrupt-%s/%s/%s/%s", what, where, d.name, shape)
		res.fail(key, mk(extra))
	}
	for _, i := range positions {
		for _, m := range masks {
			buf[i] ^= m
			for _, d := range decs {
				judge(d, "byte", map[string]any{"position": i, "mask": m, "stored_len": len(stored)})
			}
			buf[i] ^= m
			res.variants++
		}
	}
	// adjacent 16-bit word transpositions inside the protected part (outermost stage only:
	// there the protected part is stored[:len-4] and its word grid starts at offset 0).
	if p.outF && all {
		prot := len(stored) - 4
		for i := 0; i+3 < prot; i += 2 {
			w1 := uint32(buf[i]) | uint32(buf[i+1])<<8
			w2 := uint32(buf[i+2]) | uint32(buf[i+3])<<8
			if w1%65535 == w2%65535 {
				continue // the documented blind spot of Fletcher-32 (equal or 0x0000/0xFFFF)
			}
			buf[i], buf[i+2] = buf[i+2], buf[i]
			buf[i+1], buf[i+3] = buf[i+3], buf[i+1]
			for _, d := range decs {
				judge(d, "wordswap", map[string]any{"position": i, "stored_len": len(stored)})
			}
			buf[i], buf[i+2] = buf[i+2], buf[i]
			buf[i+1], buf[i+3] = buf[i+3], buf[i+1]
			res.variants++
			res.count("wordswap_variants", 1)
		}
	}
	if !bytes.Equal(buf, storedCopy) {
		res.fail("decoder-mutates-its-input", mk(nil))
	}
	return res
}

func TestVerif_C08(t *testing.T) {
	r := vkit.Start(t, "C08", "exploration")
	defer r.Finish()
	// the grid allocates short-lived buffers at a very high rate over a small live heap:
	// collect less often (restored on exit)
	defer debug.SetGCPercent(debug.SetGCPercent(2000))
	maxLen := 3
	lengths := []int{0, 1, 2, 3, 4, 5, 7, 8, 9, 15, 16, 17, 31, 32, 33, 255, 256, 257, 720, 721, 1441, 4095, 4096, 4097, 65537} // 720 bytes = 360 words: the block after which Fletcher-32 implementations reduce their sums
	if r.Thorough() {
		maxLen = 4
		lengths = append(lengths, 1<<20)
	}
	pipes := vfC08Pipelines(maxLen)
	// shuffle with element sizes that are not powers of two (the datatype size of compound,
	// array and fixed-string elements is arbitrary), alone and in front of deflate; and
	// lengths that are multiples of those sizes
	for _, e := range []int{3, 5, 6, 7, 12, 16} {
		for _, tail := range [][]vfC08Item{nil, {{'d', 6}}} {
			items := append([]vfC08Item{{'s', e}}, tail...)
			p := vfC08Pipe{items: items}
			var ns, ks []string
			for _, it := range items {
				ns = append(ns, it.String())
				ks = append(ks, string(it.kind))
			}
			p.name, p.kinds = strings.Join(ns, ">"), strings.Join(ks, ">")
			pipes = append(pipes, p)
		}
	}
	lengths = append(lengths, 6, 12, 21, 30, 35, 36, 48, 60, 420)
	sort.Ints(lengths)
	r.Set("pipelines", len(pipes))
	r.Set("lengths", lengths)
	r.Set("contents", vfC08ContentNames)
	r.Assume("compress/gzip, compress/zlib and compress/flate of the Go standard library are correct")
	r.Assume("a grid point where the writer's Apply returns an error is outside 'accepted' (counted as skipped)")

	// ---- pipeline message: writer encoder vs reader parser, once per pipeline ----
	parseOK := make([]bool, len(pipes))
	parsedMsg := make([]*core.FilterPipelineMessage, len(pipes))
	for pi, p := range pipes {
		fp, cm := p.build()
		det := map[string]any{"pipeline": p.name}
		r.Guard("pipeline-message/", det, func() {
			msg, err := fp.EncodePipelineMessage()
			if len(p.items) == 0 {
				r.Case("")
				if err == nil {
					r.Fail("pipeline-message/empty-pipeline-encoded", det)
				}
				return
			}
			r.Case("msg/" + p.name)
			if err != nil {
				r.Fail("pipeline-message/encode-error/"+vfC08Norm(err), det)
				return
			}
			msg2, _ := fp.EncodePipelineMessage()
			if !bytes.Equal(msg, msg2) {
				r.Fail("pipeline-message/encoding-not-deterministic", det)
			}
			det["message_hex"] = fmt.Sprintf("% x", msg)
			pm, err := core.ParseFilterPipelineMessage(msg)
			if err != nil {
				r.Outcome("message-parse-error")
				r.Fail("pipeline-message/reader-parse-error/"+vfC08Norm(err), det)
				return
			}
			diff := ""
			switch {
			case int(pm.NumFilters) != len(cm.Filters) || len(pm.Filters) != len(cm.Filters):
				diff = "filter-count"
			default:
				for i := range cm.Filters {
					w, g := cm.Filters[i], pm.Filters[i]
					switch {
					case g.ID != w.ID:
						diff = "filter-id"
					case g.Flags != w.Flags:
						diff = "flags"
					case int(g.NumClientData) != len(w.ClientData) || len(g.ClientData) != len(w.ClientData):
						diff = "client-data-count"
					default:
						for j := range w.ClientData {
							if g.ClientData[j] != w.ClientData[j] {
								diff = "client-data-value"
							}
						}
					}
					if diff != "" {
						det["first_differing_filter"] = i
						det["parsed"] = fmt.Sprintf("%+v", g)
						break
					}
				}
			}
			if diff != "" {
				r.Outcome("message-misparsed:" + diff)
				r.Fail("pipeline-message/reader-misparses/"+diff, det)
				return
			}
			r.Outcome("message-ok")
			parseOK[pi] = true
			parsedMsg[pi] = pm
		})
	}

	// ---- filters the writer offers a constructor for but cannot encode: outside "accepted" ----
	for _, f := range []Filter{NewBZIP2Filter(9), NewSZIPFilter(4, 8, 8, 8)} {
		fp := NewFilterPipeline()
		fp.AddFilter(f)
		r.Case("")
		if _, err := fp.Apply([]byte{1, 2, 3, 4, 5, 6, 7, 8}); err == nil {
			// the day one of them starts encoding it has to join the grid above
			r.Fail("grid-incomplete/"+f.Name()+"-now-encodes", map[string]any{"filter": f.Name()})
		} else {
			r.Add("constructors_whose_apply_always_errors", 1)
		}
	}

	// ---- payload grid ----
	type point struct{ pi, n, c int }
	var pts []point
	for pi := range pipes {
		for _, n := range lengths {
			for c := range vfC08ContentNames {
				if c >= 6 && n <= 4097 {
					continue
				}
				pts = append(pts, point{pi, n, c})
			}
		}
	}
	// large, highly compressible payloads (compression ratios near the format's limits,
	// buffers larger than any internal window): pipelines of <= 2 filters without Fletcher-32
	// (no corruption enumeration), 1 MiB and 4 MiB of zeros / 0xFF / a period of 3
	bigLengths := []int{1 << 20, 4 << 20}
	for pi := range pipes {
		if pipes[pi].hasF || len(pipes[pi].items) > 2 {
			continue
		}
		for _, n := range bigLengths {
			if n == 1<<20 && r.Thorough() {
				continue // part of the thorough grid already
			}
			for _, c := range []int{0, 1, 3} {
				pts = append(pts, point{pi, n, c})
			}
		}
	}
	r.Set("large_compressible_lengths", bigLengths)
	// big points first so that the parallel tail is short
	sort.SliceStable(pts, func(i, j int) bool { return pts[i].n > pts[j].n })
	payloads := map[[2]int][]byte{}
	for _, n := range lengths {
		for c := range vfC08ContentNames {
			payloads[[2]int{n, c}] = vfC08Payload(n, c)
		}
	}
	for _, n := range bigLengths {
		for _, c := range []int{0, 1, 3} {
			if _, ok := payloads[[2]int{n, c}]; !ok {
				payloads[[2]int{n, c}] = vfC08Payload(n, c)
			}
		}
	}
	results := make([]*vfC08Result, len(pts))
	var capped sync.Once
	vkit.ParallelFor(len(pts), func(i int) {
		if r.Expired() {
			capped.Do(func() { r.Cap("time budget") })
			return
		}
		pt := pts[i]
		p := pipes[pt.pi]
		det := map[string]any{"pipeline": p.name, "length": pt.n, "content": vfC08ContentNames[pt.c]}
		var res *vfC08Result
		if r.Guard("grid/", det, func() {
			res = vfC08Point(p, pt.n, pt.c, payloads[[2]int{pt.n, pt.c}], r.Thorough(), parseOK[pt.pi], parsedMsg[pt.pi])
		}) {
			res = &vfC08Result{outcomes: []string{"panic"}}
		}
		results[i] = res
	})
	// deterministic reporting, in grid order
	order := make([]int, len(pts))
	for i := range order {
		order[i] = i
	}
	sort.SliceStable(order, func(a, b int) bool {
		x, y := pts[order[a]], pts[order[b]]
		if x.pi != y.pi {
			return x.pi < y.pi
		}
		if x.n != y.n {
			return x.n < y.n
		}
		return x.c < y.c
	})
	skipped := map[string]int64{}
	var variants, accepted int64
	for _, i := range order {
		res := results[i]
		if res == nil {
			continue
		}
		pt := pts[i]
		p := pipes[pt.pi]
		if res.skipped != "" {
			skipped[res.skipped]++
			r.Case("")
		} else if len(p.items) == 0 || (pt.n == 0 && pt.c > 0) {
			r.Case("") // identity pipeline / the empty payload is the same for every content
			accepted++
		} else {
			r.Case(fmt.Sprintf("%s|%d|%s", p.name, pt.n, vfC08ContentNames[pt.c]))
			accepted++
		}
		for _, o := range res.outcomes {
			r.Outcome(o)
		}
		for k, v := range res.counters {
			r.Add(k, v)
		}
		variants += res.variants
		for _, f := range res.fails {
			r.Fail(f.key, f.detail)
		}
	}
	r.Cases(2 * variants)
	r.Distinct("corrupted stored chunks x 2 decoders", 2*variants)
	r.Set("grid_points", len(pts))
	r.Set("grid_points_accepted_by_writer", accepted)
	r.Set("grid_points_skipped_writer_rejects", skipped)
	r.Set("corrupted_variants_per_decoder", variants)
	r.Sample(map[string]any{"pipeline": "shuffle(4)>deflate(6)>fletcher32", "length": 4096, "content": "ramp", "checked": "Remove(Apply(p))==p; core.ApplyFilters(Apply(p))==p; every stored byte ^ {01,80,FF} -> error in both decoders; every adjacent word swap -> error"})
	r.Sample(map[string]any{"pipeline": "fletcher32>lzf", "length": 33, "content": "one-odd-byte", "checked": "every stored byte ^ every mask 01..FF -> error or the original payload, in both decoders"})
	r.Rule(fmt.Sprintf("every (pipeline, length, content) of the listed grid: %d pipelines (all ordered selections without repetition of <=%d kinds from deflate{1,6,9}, shuffle{1,2,4,8}, fletcher32, lzf, plus the empty one, plus shuffle{3,5,6,7,12,16} alone and in front of deflate(6)) x %d lengths x 6 contents (+2 period-8192/8193 contents for lengths > 4097); a point is non-trivial when the pipeline is non-empty, the writer accepts it and (length>0 or content==zeros). Corruption: for pipelines containing fletcher32 every byte of the stored chunk (all positions when the stored chunk is <= 1100 bytes [outermost, quick], 4300 [outermost, thorough], 70000 [outermost, thorough, pipelines of <= 2 filters], 600/4300 [inner quick/thorough]; otherwise the listed position sub-grid: first 32, last 40, every 4099th [every 65521st above 100000 bytes], powers of two +-1) x masks {01,80,FF} (all 255 masks for payload length <= 33 when fletcher32 is outermost; thorough: also inner), plus every adjacent non-congruent 16-bit word transposition of the protected part where all positions are enumerated; each variant decoded by the writer's Remove and by core's ApplyFilters", len(pipes), maxLen, len(lengths)))
}
