//go:build verif

package structures

// C14 — the B-tree v2 name index is a faithful, persistent map under any history; the key hash
// equals the HDF5 name hash (Jenkins lookup3, hashlittle with initval 0).
//
// Three parts:
//   1. E4 hash grid: jenkinsHash against an independent lookup3 written from Bob Jenkins'
//      reference (lookup3.c, hashlittle) — all byte strings of length 0..2, a structured family
//      for every length 3..64, Jenkins' published vectors.
//   2. E1 explicit-state BFS over the REAL WritableBTreeV2 at node size 43 (capacity 3 records):
//      successor = replay of the op path on a fresh object + one op; dedup on the complete private
//      state (dumped in-package) paired with the reference model (map name -> id).
//   3. single executions at the production node size 4096 around the capacity edge 370/371/372.
//
// Not covered here (stated in the evidence): incremental rebalancing — EnableIncrementalRebalancing
// starts a goroutine with a ticker (IncrementalRebalancer.Start -> go rebalancingLoop); that belongs
// to C18's controlled scheduler. core's second reader (readBTreeV2LeafRecords) is unexported in
// internal/core and reachable only through core.ParseAttributesFromMessages; it is exercised on
// images written by this code in C15's dense-attribute family (c15_test.go).

import (
	"bytes"
	"encoding/binary"
	"errors"
	"fmt"
	"hash/crc32"
	"hash/fnv"
	"io/fs"
	"os"
	"path/filepath"
	"reflect"
	"sort"
	"strings"
	"sync"
	"testing"
	"time"

	"github.com/scigolib/hdf5/internal/verif/vkit"
)

// ---------------------------------------------------------------------------------------------
// R4: independent lookup3 (hashlittle), byte-at-a-time variant of Bob Jenkins' lookup3.c.
// ---------------------------------------------------------------------------------------------

func vfC14Rot(x uint32, k uint) uint32 { return x<<k | x>>(32-k) }

func vfC14Mix(a, b, c uint32) (uint32, uint32, uint32) {
	a -= c
	a ^= vfC14Rot(c, 4)
	c += b
	b -= a
	b ^= vfC14Rot(a, 6)
	a += c
	c -= b
	c ^= vfC14Rot(b, 8)
	b += a
	a -= c
	a ^= vfC14Rot(c, 16)
	c += b
	b -= a
	b ^= vfC14Rot(a, 19)
	a += c
	c -= b
	c ^= vfC14Rot(b, 4)
	b += a
	return a, b, c
}

func vfC14Final(a, b, c uint32) uint32 {
	c ^= b
	c -= vfC14Rot(b, 14)
	a ^= c
	a -= vfC14Rot(c, 11)
	b ^= a
	b -= vfC14Rot(a, 25)
	c ^= b
	c -= vfC14Rot(b, 16)
	a ^= c
	a -= vfC14Rot(c, 4)
	b ^= a
	b -= vfC14Rot(a, 14)
	c ^= b
	c -= vfC14Rot(b, 24)
	return c
}

// vfC14Lookup3 is hashlittle(k, len(k), initval) == H5_checksum_lookup3(k, len, initval).
// 12-byte blocks are consumed only WHILE length > 12 (so a trailing full block goes through the
// tail switch, case 12), and a zero-length tail returns c without the final mix.
func vfC14Lookup3(k []byte, initval uint32) uint32 {
	length := len(k)
	a := uint32(0xdeadbeef) + uint32(length) + initval
	b, c := a, a
	for length > 12 {
		a += uint32(k[0]) + uint32(k[1])<<8 + uint32(k[2])<<16 + uint32(k[3])<<24
		b += uint32(k[4]) + uint32(k[5])<<8 + uint32(k[6])<<16 + uint32(k[7])<<24
		c += uint32(k[8]) + uint32(k[9])<<8 + uint32(k[10])<<16 + uint32(k[11])<<24
		a, b, c = vfC14Mix(a, b, c)
		length -= 12
		k = k[12:]
	}
	switch length {
	case 12:
		c += uint32(k[11]) << 24
		fallthrough
	case 11:
		c += uint32(k[10]) << 16
		fallthrough
	case 10:
		c += uint32(k[9]) << 8
		fallthrough
	case 9:
		c += uint32(k[8])
		fallthrough
	case 8:
		b += uint32(k[7]) << 24
		fallthrough
	case 7:
		b += uint32(k[6]) << 16
		fallthrough
	case 6:
		b += uint32(k[5]) << 8
		fallthrough
	case 5:
		b += uint32(k[4])
		fallthrough
	case 4:
		a += uint32(k[3]) << 24
		fallthrough
	case 3:
		a += uint32(k[2]) << 16
		fallthrough
	case 2:
		a += uint32(k[1]) << 8
		fallthrough
	case 1:
		a += uint32(k[0])
	case 0:
		return c
	}
	return vfC14Final(a, b, c)
}

// vfC14Lookup3EagerBlocks models ONE specific wrong variant (the one the pinned tree has): every
// full 12-byte block is consumed by the block loop (length >= 12), the tail switch has no case 12
// and no early return for an empty tail, the final mix is always applied. It differs from
// lookup3 exactly for len%12==0 (including ""). Used only to name the shape of a wrong answer.
func vfC14Lookup3EagerBlocks(k []byte) uint32 {
	length := len(k)
	a := uint32(0xdeadbeef) + uint32(length)
	b, c := a, a
	for length >= 12 {
		a += uint32(k[0]) + uint32(k[1])<<8 + uint32(k[2])<<16 + uint32(k[3])<<24
		b += uint32(k[4]) + uint32(k[5])<<8 + uint32(k[6])<<16 + uint32(k[7])<<24
		c += uint32(k[8]) + uint32(k[9])<<8 + uint32(k[10])<<16 + uint32(k[11])<<24
		a, b, c = vfC14Mix(a, b, c)
		length -= 12
		k = k[12:]
	}
	var t [12]byte
	copy(t[:], k[:length])
	a += uint32(t[0]) + uint32(t[1])<<8 + uint32(t[2])<<16 + uint32(t[3])<<24
	b += uint32(t[4]) + uint32(t[5])<<8 + uint32(t[6])<<16 + uint32(t[7])<<24
	c += uint32(t[8]) + uint32(t[9])<<8 + uint32(t[10])<<16
	return vfC14Final(a, b, c)
}

func vfC14HashKey(s []byte, got uint32) string {
	n := len(s)
	shape := "other"
	if got == vfC14Lookup3EagerBlocks(s) {
		shape = "last-block-mixed-then-final"
	}
	switch {
	case n == 0:
		return "hash/empty/" + shape
	case n%12 == 0:
		return "hash/len%12==0/" + shape
	default:
		return fmt.Sprintf("hash/len%%12==%d/mismatch", n%12)
	}
}

// vfC14ValidateReference checks the reference lookup3 against ground truth produced by the HDF5
// reference library: the checksum of every version-2 object header found in the repository's
// testdata (H5_checksum_metadata == lookup3 over prefix + first chunk). Buffers whose length is a
// multiple of 12 exercise exactly the tail path (case 12) that Jenkins' published vectors do not.
func vfC14ValidateReference(r *vkit.Run) {
	var matched, matched12, files int64
	_ = filepath.WalkDir("../../testdata", func(p string, d fs.DirEntry, err error) error {
		if err != nil || d.IsDir() || !(strings.HasSuffix(p, ".h5") || strings.HasSuffix(p, ".hdf5")) {
			return nil
		}
		if info, e := d.Info(); e != nil || info.Size() > 16<<20 {
			return nil
		}
		b, e := os.ReadFile(p)
		if e != nil {
			return nil
		}
		files++
		for off := 0; ; {
			i := bytes.Index(b[off:], []byte("OHDR\x02"))
			if i < 0 {
				break
			}
			pos := off + i
			off = pos + 5
			if pos+6 > len(b) {
				break
			}
			fl := b[pos+5]
			q := pos + 6
			if fl&0x20 != 0 {
				q += 16
			}
			if fl&0x10 != 0 {
				q += 4
			}
			n := 1 << (fl & 3)
			if q+n > len(b) {
				continue
			}
			var sz uint64
			for k := 0; k < n; k++ {
				sz |= uint64(b[q+k]) << (8 * k)
			}
			q += n
			if sz > 1<<20 || uint64(q)+sz+4 > uint64(len(b)) {
				continue
			}
			end := q + int(sz)
			if vfC14Lookup3(b[pos:end], 0) == binary.LittleEndian.Uint32(b[end:]) {
				matched++
				if (end-pos)%12 == 0 {
					matched12++
				}
			}
		}
		return nil
	})
	r.Set("reference_lookup3_validated_on_corpus_ohdr_checksums", matched)
	r.Set("reference_lookup3_validated_on_corpus_ohdr_checksums_len%12==0", matched12)
	r.Set("reference_corpus_files_scanned", files)
	if matched12 == 0 {
		r.Assume("no reference-library object header with a checksummed length divisible by 12 was found in testdata: the case-12 tail of the reference lookup3 rests on the algorithm text only")
	}
}

func vfC14HashGrid(t *testing.T, r *vkit.Run) {
	// Self-check of the reference against Jenkins' published vectors (lookup3.c, driver5()).
	four := []byte("Four score and seven years ago")
	for _, v := range []struct {
		s    []byte
		init uint32
		want uint32
	}{{nil, 0, 0xdeadbeef}, {four, 0, 0x17770551}, {four, 1, 0xcd628161}} {
		if got := vfC14Lookup3(v.s, v.init); got != v.want {
			t.Fatalf("harness bug: reference lookup3(%q,%d)=%#x, published %#x", v.s, v.init, got, v.want)
		}
	}
	var nCases, nBad int64
	cmp := func(s []byte) {
		nCases++
		got := jenkinsHash(string(s))
		want := vfC14Lookup3(s, 0)
		if got != want {
			nBad++
			r.Fail(vfC14HashKey(s, got), map[string]any{"input_hex": fmt.Sprintf("%x", s), "len": len(s),
				"jenkinsHash": fmt.Sprintf("%#08x", got), "lookup3": fmt.Sprintf("%#08x", want)})
		}
	}
	// published vectors through the library
	cmp(nil)
	cmp(four)
	r.Sample(map[string]any{"hash_input": string(four), "lookup3": "0x17770551", "jenkinsHash": fmt.Sprintf("%#08x", jenkinsHash(string(four)))})
	// all byte strings of length 0..2
	cmp([]byte{})
	for x := 0; x < 256; x++ {
		cmp([]byte{byte(x)})
	}
	for x := 0; x < 65536; x++ {
		cmp([]byte{byte(x >> 8), byte(x)})
	}
	// every length 3..64 (quick) / 3..256 (thorough): three base strings, each position
	// substituted with each of five edge bytes; plus the bases themselves.
	maxLen := 64
	if r.Thorough() {
		maxLen = 256
	}
	subs := []byte{0x00, 0x01, 0x7F, 0x80, 0xFF}
	for L := 3; L <= maxLen; L++ {
		bases := [3][]byte{make([]byte, L), make([]byte, L), make([]byte, L)}
		for i := 0; i < L; i++ {
			bases[0][i] = byte('a' + i%26)    // ASCII, the realistic name alphabet
			bases[1][i] = byte(0x81 + i*37)   // high-bit bytes (sign-extension traps)
			bases[2][i] = byte((i*i + 3) | 1) // odd low values
		}
		for _, base := range bases {
			cmp(base)
			for p := 0; p < L; p++ {
				for _, sb := range subs {
					s := append([]byte(nil), base...)
					s[p] = sb
					cmp(s)
				}
			}
		}
	}
	r.Cases(nCases)
	r.Distinct("hash-inputs", nCases-3) // "" and the published vectors are repeated
	r.Set("hash_inputs", nCases)
	r.Set("hash_mismatches", nBad)
	r.Set("hash_max_len", maxLen)
	if nBad == 0 {
		r.Outcome("hash:all-equal")
	} else {
		r.Outcome("hash:mismatch")
		r.Outcome("hash:equal")
	}
}

// ---------------------------------------------------------------------------------------------
// Names: "a", "b", a colliding pair under the library's OWN hash, and two names whose hash order
// is opposite to their byte order.
// ---------------------------------------------------------------------------------------------

var vfC14NamesOnce sync.Once
var vfC14NamesV []string

func vfC14Names(t *testing.T) []string {
	vfC14NamesOnce.Do(func() {
		var c1, c2 string
		seen := map[uint32]string{}
		for i := 0; i < 4000000; i++ {
			n := fmt.Sprintf("n%06d", i)
			h := jenkinsHash(n)
			if o, ok := seen[h]; ok {
				c1, c2 = o, n
				break
			}
			seen[h] = n
		}
		var lo, hi string // lo < hi bytewise, hash(lo) > hash(hi)
		for i := 1; i < 100000 && lo == ""; i++ {
			x, y := "o0", fmt.Sprintf("o%d", i)
			if x < y && jenkinsHash(x) > jenkinsHash(y) {
				lo, hi = x, y
			}
		}
		if c1 == "" || lo == "" {
			return
		}
		vfC14NamesV = []string{"a", "b", c1, c2, lo, hi}
	})
	if vfC14NamesV == nil {
		t.Fatalf("harness: could not construct colliding / order-inverted names")
	}
	return vfC14NamesV
}

// ---------------------------------------------------------------------------------------------
// The driver: real object + model, ops, canonical dump, checks.
// ---------------------------------------------------------------------------------------------

type vfC14Cfg struct {
	nodeSize   uint32
	names      []string
	hashes     []uint32
	ids        []uint64
	maxPending int // bound: DeleteRecordLazy is not expanded once PendingDeletes reached it
	fullImage  bool // state key includes the leaf bytes of the image, not only its header
	noInPlace  bool // no in-place WriteAt with the object kept, no image bytes in the state key
}

func vfC14NewCfg(nodeSize uint32, names []string, ids []uint64, maxPending int) *vfC14Cfg {
	c := &vfC14Cfg{nodeSize: nodeSize, names: names, ids: ids, maxPending: maxPending}
	for _, n := range names {
		c.hashes = append(c.hashes, jenkinsHash(n))
	}
	return c
}

const (
	vfC14Ins = iota
	vfC14Upd
	vfC14Del
	vfC14UpdAbs
	vfC14DelAbs
	vfC14LazyOn
	vfC14LazyOff
	vfC14Force
	vfC14ClockPast
	vfC14Write
	vfC14WriteLoad
	vfC14WriteAtLoad
	vfC14Find // SearchRecord + HasKey of a present name: queries are transitions too (they may keep state)
	// WriteAt of a loaded object that stays in use afterwards (what it remembers about the file
	// from its own earlier writes is state); the image is checked by loading a second object
	vfC14WriteAtKeep
)

var vfC14DelNames = []string{"DeleteRecord", "DeleteRecordWithRebalancing", "DeleteRecordLazy"}

// vfC14Op: K kind, N name index, I id index (ins/upd) or delete variant (del).
type vfC14Op struct {
	K uint8
	N uint16
	I uint8
}

func (c *vfC14Cfg) opString(o vfC14Op) string {
	switch o.K {
	case vfC14Ins:
		return fmt.Sprintf("InsertRecord(%q,id%d)", c.names[o.N], o.I)
	case vfC14Upd:
		return fmt.Sprintf("UpdateRecord(%q,id%d)", c.names[o.N], o.I)
	case vfC14Del:
		return fmt.Sprintf("%s(%q)", vfC14DelNames[o.I], c.names[o.N])
	case vfC14UpdAbs:
		return fmt.Sprintf("UpdateRecord(absent %q,id%d)", c.names[o.N], o.I)
	case vfC14DelAbs:
		return fmt.Sprintf("%s(absent %q)", vfC14DelNames[o.I], c.names[o.N])
	case vfC14LazyOn:
		return "EnableLazyRebalancing(default)"
	case vfC14LazyOff:
		return "DisableLazyRebalancing()"
	case vfC14Force:
		return "ForceBatchRebalance()"
	case vfC14ClockPast:
		return "clock>MaxDelay"
	case vfC14Write:
		return "WriteToFile"
	case vfC14WriteLoad:
		return "WriteToFile;LoadFromFile"
	case vfC14WriteAtLoad:
		return "WriteAt;LoadFromFile"
	case vfC14Find:
		return fmt.Sprintf("SearchRecord+HasKey(%q)", c.names[o.N])
	case vfC14WriteAtKeep:
		return "WriteAt(object stays in use)"
	}
	return "?"
}

func (c *vfC14Cfg) pathString(p []vfC14Op) []string {
	out := make([]string, len(p))
	for i, o := range p {
		out[i] = c.opString(o)
	}
	return out
}

func (c *vfC14Cfg) opClass(o vfC14Op) string {
	switch o.K {
	case vfC14Ins:
		return "InsertRecord"
	case vfC14Upd, vfC14UpdAbs:
		return "UpdateRecord"
	case vfC14Del, vfC14DelAbs:
		return vfC14DelNames[o.I]
	default:
		return c.opString(o)
	}
}

type vfC14Fail struct {
	key    string
	detail map[string]any
}

type vfC14Ctx struct {
	cfg     *vfC14Cfg
	bt      *WritableBTreeV2
	mem     *vfKitMem
	hdrAddr uint64
	model   map[int]uint64 // name index -> id
	pruned  bool           // model and implementation diverged: do not expand
	outcome string         // class of the last transition
}

func vfC14NewCtx(cfg *vfC14Cfg) *vfC14Ctx {
	return &vfC14Ctx{cfg: cfg, bt: NewWritableBTreeV2(cfg.nodeSize), model: map[int]uint64{}}
}

func vfC14ID7(id uint64) [7]byte {
	var t [8]byte
	binary.LittleEndian.PutUint64(t[:], id)
	var o [7]byte
	copy(o[:], t[:7])
	return o
}

func vfC14Recs(rs []LinkNameRecord) string {
	var sb strings.Builder
	sb.WriteByte('[')
	for i, r := range rs {
		if i > 0 {
			sb.WriteByte(',')
		}
		fmt.Fprintf(&sb, "%08x:%x", r.NameHash, r.HeapID[:])
	}
	sb.WriteByte(']')
	return sb.String()
}

// vfC14Persistent dumps the part of the private state that a write/load cycle must reproduce.
func vfC14Persistent(bt *WritableBTreeV2) string {
	h := bt.header
	return fmt.Sprintf("recs=%s leaf={%s %d %d %s} hdr={%s v%d t%d node%d rec%d depth%d split%d merge%d nroot%d total%d} nodeSize=%d",
		vfC14Recs(bt.records), string(bt.leaf.Signature[:]), bt.leaf.Version, bt.leaf.Type, vfC14Recs(bt.leaf.Records),
		string(h.Signature[:]), h.Version, h.Type, h.NodeSize, h.RecordSize, h.Depth, h.SplitPercent, h.MergePercent,
		h.NumRecordsRoot, h.TotalRecords, bt.nodeSize)
}

// vfC14Canon dumps the complete private state (timestamps replaced by the boolean they are used
// for, addresses by their class).
func vfC14Canon(bt *WritableBTreeV2) string {
	lazy := "lazy=nil"
	if ls := bt.lazyState; ls != nil {
		due := time.Since(ls.LastRebalance) >= ls.Config.MaxDelay
		lazy = fmt.Sprintf("lazy={en%v thr%g max%v batch%d uf%d tn%d pd%d ufn%d due%v}", ls.Config.Enabled, ls.Config.Threshold,
			ls.Config.MaxDelay, ls.Config.BatchSize, ls.UnderflowCount, ls.TotalNodes, ls.PendingDeletes, len(ls.UnderflowNodes), due)
	}
	incr := "incr=nil"
	if bt.incrementalRebalancer != nil {
		incr = "incr=set"
	}
	return vfKitJoin(vfC14Persistent(bt), "root="+vfKitAddrClass(bt.header.RootNodeAddr),
		"lh="+vfKitAddrClass(bt.loadedHeaderAddress), "ll="+vfKitAddrClass(bt.loadedLeafAddress), lazy, incr, vfC14OtherFields(bt))
}

// vfC14CanonKnown is the canonical form without the fields the harness does not know by name:
// what a read-only call must leave alone (a cache a query keeps for itself is not content).
func vfC14CanonKnown(bt *WritableBTreeV2) string {
	c := vfC14Canon(bt)
	if i := strings.LastIndex(c, "other{"); i >= 0 {
		return c[:i]
	}
	return c
}

// vfC14OtherFields renders every field of the object that the hand-written canonical form
// above does not know (by name), so that a field added to the implementation becomes part of
// the explored state instead of being merged away.
func vfC14OtherFields(bt *WritableBTreeV2) string {
	known := map[string]bool{"header": true, "leaf": true, "records": true, "nodeSize": true, "loadedHeaderAddress": true,
		"loadedLeafAddress": true, "lazyMu": true, "lazyState": true, "incrementalRebalancer": true}
	v := reflect.ValueOf(bt).Elem()
	var sb strings.Builder
	for i := 0; i < v.NumField(); i++ {
		n := v.Type().Field(i).Name
		if known[n] {
			continue
		}
		f := v.Field(i)
		switch f.Kind() {
		case reflect.Bool, reflect.Int, reflect.Int8, reflect.Int16, reflect.Int32, reflect.Int64,
			reflect.Uint, reflect.Uint8, reflect.Uint16, reflect.Uint32, reflect.Uint64, reflect.String, reflect.Float32, reflect.Float64:
			fmt.Fprintf(&sb, "%s=%v;", n, reflect.NewAt(f.Type(), f.Addr().UnsafePointer()).Elem().Interface())
		case reflect.Ptr, reflect.Map, reflect.Slice, reflect.Interface:
			fmt.Fprintf(&sb, "%s=nil:%v;", n, f.IsNil())
		default:
			fmt.Fprintf(&sb, "%s=<%s>;", n, f.Kind())
		}
	}
	return "other{" + sb.String() + "}"
}

func (c *vfC14Ctx) modelString() string {
	ks := make([]int, 0, len(c.model))
	for k := range c.model {
		ks = append(ks, k)
	}
	sort.Ints(ks)
	var sb strings.Builder
	for _, k := range ks {
		fmt.Fprintf(&sb, "%d=%x;", k, c.model[k])
	}
	return sb.String()
}

func (c *vfC14Ctx) key() string {
	k := vfC14Canon(c.bt) + " | " + c.modelString()
	// an object that was loaded from the image can write itself back in place: what the image
	// holds at its header and leaf is then part of the state (the object may rely on it)
	if c.mem != nil && c.bt.loadedHeaderAddress != 0 && !c.cfg.noInPlace {
		// (not a CRC: the header ends with its own CRC-32, and the CRC of a block that includes its
		// CRC is a constant)
		h := fnv.New64a()
		rgs := [][2]uint64{{c.bt.loadedHeaderAddress, 64}}
		if c.cfg.fullImage {
			// (thorough tier: the leaf bytes too; quick: the header, i.e. the counts on disk)
			rgs = append(rgs, [2]uint64{c.bt.loadedLeafAddress, uint64(c.cfg.nodeSize)})
		}
		for _, rg := range rgs {
			lo, hi := rg[0], rg[0]+rg[1]
			if hi > uint64(len(c.mem.data)) {
				hi = uint64(len(c.mem.data))
			}
			if lo < hi {
				h.Write(c.mem.data[lo:hi])
			}
		}
		k += fmt.Sprintf(" | image=%016x", h.Sum64())
	}
	return k
}

// collider returns a live name != n with the same hash, or -1.
func (c *vfC14Ctx) collider(n int) int {
	best := -1
	for m := range c.model {
		if m != n && c.cfg.hashes[m] == c.cfg.hashes[n] && c.cfg.names[m] != c.cfg.names[n] {
			if best == -1 || m < best {
				best = m
			}
		}
	}
	return best
}

func (c *vfC14Ctx) capacity() int { return int((c.cfg.nodeSize - 10) / 11) }

// enabled lists the ops enabled in the current state (order = simplest first).
func (c *vfC14Ctx) enabled() []vfC14Op {
	var ops []vfC14Op
	cfg := c.cfg
	for n := range cfg.names {
		_, present := c.model[n]
		for i := range cfg.ids {
			if !present {
				ops = append(ops, vfC14Op{vfC14Ins, uint16(n), uint8(i)})
			} else {
				ops = append(ops, vfC14Op{vfC14Upd, uint16(n), uint8(i)})
			}
		}
	}
	pendingFull := c.bt.lazyState != nil && c.bt.lazyState.PendingDeletes >= cfg.maxPending
	for n := range cfg.names {
		_, present := c.model[n]
		for v := 0; v < 3; v++ {
			if present {
				if v == 2 && pendingFull {
					continue
				}
				ops = append(ops, vfC14Op{vfC14Del, uint16(n), uint8(v)})
			} else {
				ops = append(ops, vfC14Op{vfC14DelAbs, uint16(n), uint8(v)})
			}
		}
		if !present {
			for i := range cfg.ids {
				ops = append(ops, vfC14Op{vfC14UpdAbs, uint16(n), uint8(i)})
			}
		}
	}
	for n := range cfg.names {
		if _, present := c.model[n]; present {
			ops = append(ops, vfC14Op{K: vfC14Find, N: uint16(n)})
		}
	}
	ops = append(ops, vfC14Op{K: vfC14LazyOn}, vfC14Op{K: vfC14LazyOff}, vfC14Op{K: vfC14Force})
	if c.bt.lazyState != nil {
		ops = append(ops, vfC14Op{K: vfC14ClockPast})
	}
	ops = append(ops, vfC14Op{K: vfC14Write}, vfC14Op{K: vfC14WriteLoad})
	if c.bt.loadedHeaderAddress != 0 && c.mem != nil {
		ops = append(ops, vfC14Op{K: vfC14WriteAtLoad})
		if !cfg.noInPlace {
			ops = append(ops, vfC14Op{K: vfC14WriteAtKeep})
		}
	}
	return ops
}

// apply executes one op on the real object, steps the model, and returns the failures of the
// transition itself (unexpected error / missing error / state changed by a failing call).
func (c *vfC14Ctx) apply(o vfC14Op) (fails []vfC14Fail) {
	cfg := c.cfg
	bt := c.bt
	fail := func(key string, d map[string]any) {
		c.pruned = true
		fails = append(fails, vfC14Fail{key, d})
	}
	name := ""
	if int(o.N) < len(cfg.names) {
		name = cfg.names[o.N]
	}
	n := int(o.N)
	switch o.K {
	case vfC14Ins:
		id := cfg.ids[o.I]
		full := len(c.model) >= c.capacity()
		pre := vfC14Canon(bt)
		err := bt.InsertRecord(name, id)
		if full {
			c.outcome = "insert@full:ErrBTreeNodeFull"
			switch {
			case err == nil:
				c.outcome = "insert@full:accepted"
				fail("over-capacity-insert-accepted@InsertRecord", map[string]any{"records_after": len(bt.records), "capacity": c.capacity()})
			case !errors.Is(err, ErrBTreeNodeFull):
				fail("over-capacity-insert-wrong-error@InsertRecord", map[string]any{"err": err.Error()})
			case vfC14Canon(bt) != pre:
				fail("failed-insert-changed-state@InsertRecord", map[string]any{"before": pre, "after": vfC14Canon(bt)})
			}
			return
		}
		if err != nil {
			c.outcome = "insert:unexpected-error"
			fail("unexpected-error@InsertRecord", map[string]any{"err": err.Error(), "records": len(bt.records), "capacity": c.capacity()})
			return
		}
		c.outcome = "insert:ok"
		if c.collider(n) >= 0 {
			c.outcome = "insert:ok(hash-equal name present)"
		}
		c.model[n] = id
	case vfC14Find:
		// a query of a present name: it must find the name (the value is compared with the
		// model by the per-state invariant); whatever it leaves behind in the object is part of
		// the state the search continues from
		if _, ok := bt.SearchRecord(name); !ok || !bt.HasKey(name) {
			c.outcome = "find:present-name-not-found"
			fail("present-name-not-found@SearchRecord", nil)
			return
		}
		c.outcome = "find:ok"
	case vfC14Upd:
		id := cfg.ids[o.I]
		if err := bt.UpdateRecord(name, id); err != nil {
			c.outcome = "update:unexpected-error"
			fail("unexpected-error@UpdateRecord", map[string]any{"err": err.Error()})
			return
		}
		c.outcome = "update:ok"
		c.model[n] = id
	case vfC14Del:
		variant := vfC14DelNames[o.I]
		pre := vfC14Canon(bt)
		var err error
		switch o.I {
		case 0:
			err = bt.DeleteRecord(name)
		case 1:
			err = bt.DeleteRecordWithRebalancing(name)
		default:
			err = bt.DeleteRecordLazy(name)
		}
		if o.I == 2 && !bt.IsLazyRebalancingEnabled() {
			// documented: DeleteRecordLazy needs EnableLazyRebalancing first -> error, nothing changes
			c.outcome = "lazy-delete-while-disabled:error"
			if err == nil {
				c.outcome = "lazy-delete-while-disabled:accepted"
				delete(c.model, n) // a successful delete is a delete; the statement allows it
			} else if vfC14Canon(bt) != pre {
				fail("failed-delete-changed-state@"+variant, map[string]any{"before": pre, "after": vfC14Canon(bt)})
			}
			return
		}
		if err != nil {
			c.outcome = "delete:unexpected-error"
			fail("unexpected-error@"+variant, map[string]any{"err": err.Error()})
			return
		}
		c.outcome = "delete:ok/" + variant
		delete(c.model, n)
	case vfC14UpdAbs, vfC14DelAbs:
		cls := cfg.opClass(o)
		pre := vfC14Canon(bt)
		var err error
		if o.K == vfC14UpdAbs {
			err = bt.UpdateRecord(name, cfg.ids[o.I])
		} else {
			switch o.I {
			case 0:
				err = bt.DeleteRecord(name)
			case 1:
				err = bt.DeleteRecordWithRebalancing(name)
			default:
				err = bt.DeleteRecordLazy(name)
			}
		}
		c.outcome = "absent-name-op:error"
		if err == nil {
			c.outcome = "absent-name-op:accepted"
			d := map[string]any{"name": name, "before": pre, "after": vfC14Canon(bt)}
			if m := c.collider(n); m >= 0 {
				d["hash_equal_live_name"] = cfg.names[m]
				fail("collision-confused@"+cls, d)
			} else {
				fail("absent-name-accepted@"+cls, d)
			}
		} else if vfC14Canon(bt) != pre {
			fail("failed-call-changed-state@"+cls, map[string]any{"before": pre, "after": vfC14Canon(bt)})
		}
	case vfC14LazyOn:
		bt.EnableLazyRebalancing(DefaultLazyConfig())
		c.outcome = "lazy-on"
	case vfC14LazyOff:
		if err := bt.DisableLazyRebalancing(); err != nil {
			fail("unexpected-error@DisableLazyRebalancing", map[string]any{"err": err.Error()})
		}
		c.outcome = "lazy-off"
	case vfC14Force:
		pre := vfC14Canon(bt)
		was := bt.lazyState != nil
		err := bt.ForceBatchRebalance()
		c.outcome = fmt.Sprintf("force(lazy=%v):%v", was, err == nil)
		if !was {
			if err != nil && vfC14Canon(bt) != pre {
				fail("failed-call-changed-state@ForceBatchRebalance", map[string]any{"before": pre, "after": vfC14Canon(bt)})
			}
		} else if err != nil {
			fail("unexpected-error@ForceBatchRebalance", map[string]any{"err": err.Error()})
		}
	case vfC14ClockPast:
		// virtual-clock step past MaxDelay: the only use of LastRebalance is
		// time.Since(LastRebalance) >= MaxDelay; the zero time makes that true deterministically.
		bt.lazyState.LastRebalance = time.Time{}
		c.outcome = "clock-past-maxdelay"
	case vfC14Write, vfC14WriteLoad:
		pre := vfC14Persistent(bt)
		mem := vfKitNewMem()
		addr, err := bt.WriteToFile(mem, mem, vfKitSB())
		if err != nil {
			fail("unexpected-error@WriteToFile", map[string]any{"err": err.Error()})
			return
		}
		c.mem, c.hdrAddr = mem, addr
		c.outcome = "write"
		if o.K == vfC14WriteLoad {
			nb := NewWritableBTreeV2(4096) // deliberately another node size: LoadFromFile must restore it
			if err := nb.LoadFromFile(mem, addr, vfKitSB()); err != nil {
				fail("load-error-after@WriteToFile", map[string]any{"err": vfKitErrText(err), "state": pre})
				return
			}
			c.bt = nb
			c.outcome = "write+load"
			if post := vfC14Persistent(nb); post != pre {
				fail("load-differs-after@WriteToFile", map[string]any{"written": pre, "loaded": post})
			}
		}
	case vfC14WriteAtKeep:
		pre := vfC14Persistent(bt)
		if err := bt.WriteAt(c.mem, vfKitSB()); err != nil {
			fail("unexpected-error@WriteAt", map[string]any{"err": vfKitErrText(err)})
			return
		}
		c.outcome = "writeAt(kept)"
		nb := NewWritableBTreeV2(4096)
		if err := nb.LoadFromFile(c.mem, c.hdrAddr, vfKitSB()); err != nil {
			fail("load-error-after@WriteAt(object kept)", map[string]any{"err": vfKitErrText(err), "state": pre})
			return
		}
		if post := vfC14Persistent(nb); post != pre {
			fail("load-differs-after@WriteAt(object kept)", map[string]any{"written": pre, "loaded": post})
		}
	case vfC14WriteAtLoad:
		pre := vfC14Persistent(bt)
		if err := bt.WriteAt(c.mem, vfKitSB()); err != nil {
			fail("unexpected-error@WriteAt", map[string]any{"err": vfKitErrText(err)})
			return
		}
		nb := NewWritableBTreeV2(4096)
		if err := nb.LoadFromFile(c.mem, c.hdrAddr, vfKitSB()); err != nil {
			fail("load-error-after@WriteAt", map[string]any{"err": vfKitErrText(err), "state": pre})
			return
		}
		c.bt = nb
		c.outcome = "writeAt+load"
		if post := vfC14Persistent(nb); post != pre {
			fail("load-differs-after@WriteAt", map[string]any{"written": pre, "loaded": post})
		}
	}
	return fails
}

func vfC14Replay(cfg *vfC14Cfg, path []vfC14Op) *vfC14Ctx {
	c := vfC14NewCtx(cfg)
	for _, o := range path {
		c.apply(o)
	}
	c.pruned = false
	return c
}

// expectedRecords: the multiset the model demands, sorted by (hash, id bytes).
func (c *vfC14Ctx) expectedRecords() []LinkNameRecord {
	out := make([]LinkNameRecord, 0, len(c.model))
	for n, id := range c.model {
		out = append(out, LinkNameRecord{NameHash: c.cfg.hashes[n], HeapID: vfC14ID7(id)})
	}
	vfC14SortRecs(out)
	return out
}

func vfC14SortRecs(rs []LinkNameRecord) {
	sort.Slice(rs, func(i, j int) bool {
		if rs[i].NameHash != rs[j].NameHash {
			return rs[i].NameHash < rs[j].NameHash
		}
		return bytes.Compare(rs[i].HeapID[:], rs[j].HeapID[:]) < 0
	})
}

func vfC14RecsEqual(a, b []LinkNameRecord) bool {
	if len(a) != len(b) {
		return false
	}
	for i := range a {
		if a[i] != b[i] {
			return false
		}
	}
	return true
}

// checkState evaluates the state invariants. probe = name indexes to search for.
// opClass names the operation that produced the state (for model-mismatch keys).
func (c *vfC14Ctx) checkState(opClass string, lastName int, probe []int) (fails []vfC14Fail) {
	bt := c.bt
	cfg := c.cfg
	fail := func(key string, d map[string]any) { fails = append(fails, vfC14Fail{key, d}) }

	// 1. the four views agree
	if !vfC14RecsEqual(bt.records, bt.leaf.Records) || !vfC14RecsEqual(bt.GetRecords(), bt.records) {
		c.pruned = true
		fail("views-disagree/records-vs-leaf@"+opClass, map[string]any{"records": vfC14Recs(bt.records), "leaf": vfC14Recs(bt.leaf.Records)})
	}
	if int(bt.header.NumRecordsRoot) != len(bt.records) {
		c.pruned = true
		fail("views-disagree/NumRecordsRoot@"+opClass, map[string]any{"records": len(bt.records), "NumRecordsRoot": bt.header.NumRecordsRoot})
	}
	if bt.header.TotalRecords != uint64(len(bt.records)) {
		c.pruned = true
		fail("views-disagree/TotalRecords@"+opClass, map[string]any{"records": len(bt.records), "TotalRecords": bt.header.TotalRecords})
	}
	// 2. sorted by hash
	for i := 1; i < len(bt.records); i++ {
		if bt.records[i-1].NameHash > bt.records[i].NameHash {
			c.pruned = true
			fail("not-sorted-by-hash@"+opClass, map[string]any{"records": vfC14Recs(bt.records)})
			break
		}
	}
	// 3. equals the model: exactly the live keys with their latest ids
	got := append([]LinkNameRecord(nil), bt.records...)
	vfC14SortRecs(got)
	want := c.expectedRecords()
	if !vfC14RecsEqual(got, want) {
		c.pruned = true
		shape := "content"
		if len(got) != len(want) {
			shape = fmt.Sprintf("count%+d", len(got)-len(want))
		}
		d := map[string]any{"records": vfC14Recs(got), "model": vfC14Recs(want)}
		if lastName >= 0 && c.colliderAny(lastName) {
			fail("collision-confused@"+opClass, d)
		} else {
			fail("model-mismatch/"+shape+"@"+opClass, d)
		}
	}
	if c.pruned {
		return fails
	}
	// 4. every present name found with its latest id, no absent one found; read-only calls
	//    leave the state alone
	pre := vfC14CanonKnown(bt)
	for _, n := range probe {
		name := cfg.names[n]
		id, present := c.model[n]
		hid, found := bt.SearchRecord(name)
		has := bt.HasKey(name)
		m := c.collider(n)
		switch {
		case present && !found:
			fail("present-not-found@SearchRecord", map[string]any{"name": name})
		case present && found:
			w := vfC14ID7(id)
			if len(hid) != 8 || !bytes.Equal(hid[:7], w[:]) || hid[7] != 0 {
				d := map[string]any{"name": name, "got": fmt.Sprintf("%x", hid), "want": fmt.Sprintf("%x00", w[:])}
				mw := [7]byte{}
				if m >= 0 {
					mw = vfC14ID7(c.model[m])
				}
				if m >= 0 && len(hid) == 8 && bytes.Equal(hid[:7], mw[:]) {
					d["hash_equal_live_name"] = cfg.names[m]
					fail("collision-confused@SearchRecord", d)
				} else {
					fail("wrong-id@SearchRecord", d)
				}
			}
		case !present && found:
			d := map[string]any{"name": name, "got": fmt.Sprintf("%x", hid)}
			if m >= 0 {
				d["hash_equal_live_name"] = cfg.names[m]
				fail("collision-confused@SearchRecord", d)
			} else {
				fail("absent-found@SearchRecord", d)
			}
		}
		switch {
		case present && !has:
			fail("present-not-found@HasKey", map[string]any{"name": name})
		case !present && has:
			if m >= 0 {
				fail("collision-confused@HasKey", map[string]any{"name": name, "hash_equal_live_name": cfg.names[m]})
			} else {
				fail("absent-found@HasKey", map[string]any{"name": name})
			}
		}
	}
	if post := vfC14CanonKnown(bt); post != pre {
		fail("readonly-call-changed-state@SearchRecord/HasKey", map[string]any{"before": pre, "after": post})
	}
	return fails
}

// colliderAny: is there a live name (other than n, n itself may be absent) with n's hash?
func (c *vfC14Ctx) colliderAny(n int) bool { return c.collider(n) >= 0 }

// vfC14DecodeImage is an independent decoder of the written header + leaf (from the format
// description in the file comments / spec III.A.2): returns the records and which checksum
// algorithm matches.
func vfC14DecodeImage(img []byte, hdrAddr uint64) (recs []LinkNameRecord, nodeSize uint32, sums string, err error) {
	le := binary.LittleEndian
	if int(hdrAddr)+38 > len(img) {
		return nil, 0, "", fmt.Errorf("header beyond image")
	}
	h := img[hdrAddr : hdrAddr+38]
	if string(h[0:4]) != "BTHD" || h[4] != 0 || h[5] != 5 {
		return nil, 0, "", fmt.Errorf("bad header sig/version/type %q %d %d", h[0:4], h[4], h[5])
	}
	nodeSize = le.Uint32(h[6:10])
	if rs := le.Uint16(h[10:12]); rs != 11 {
		return nil, 0, "", fmt.Errorf("record size %d", rs)
	}
	if d := le.Uint16(h[12:14]); d != 0 {
		return nil, 0, "", fmt.Errorf("depth %d", d)
	}
	root := le.Uint64(h[16:24])
	nroot := int(le.Uint16(h[24:26]))
	total := le.Uint64(h[26:34])
	if uint64(nroot) != total {
		return nil, 0, "", fmt.Errorf("header counts disagree: root %d total %d", nroot, total)
	}
	hsum := le.Uint32(h[34:38])
	switch hsum {
	case crc32.ChecksumIEEE(h[:34]):
		sums = "hdr=crc32"
	case vfC14Lookup3(h[:34], 0):
		sums = "hdr=lookup3"
	default:
		return nil, 0, "", fmt.Errorf("header checksum matches neither crc32 nor lookup3")
	}
	lsz := 6 + 11*nroot + 4
	if lsz > int(nodeSize) {
		return nil, 0, "", fmt.Errorf("leaf of %d records (%d bytes) exceeds node size %d", nroot, lsz, nodeSize)
	}
	if int(root)+lsz > len(img) {
		return nil, 0, "", fmt.Errorf("leaf beyond image")
	}
	l := img[root : int(root)+lsz]
	if string(l[0:4]) != "BTLF" || l[4] != 0 || l[5] != 5 {
		return nil, 0, "", fmt.Errorf("bad leaf sig/version/type")
	}
	for i := 0; i < nroot; i++ {
		var r LinkNameRecord
		r.NameHash = le.Uint32(l[6+11*i:])
		copy(r.HeapID[:], l[6+11*i+4:6+11*i+11])
		recs = append(recs, r)
	}
	lsum := le.Uint32(l[lsz-4:])
	switch lsum {
	case crc32.ChecksumIEEE(l[:lsz-4]):
		sums += " leaf=crc32"
	case vfC14Lookup3(l[:lsz-4], 0):
		sums += " leaf=lookup3"
	default:
		return nil, 0, "", fmt.Errorf("leaf checksum matches neither crc32 nor lookup3")
	}
	return recs, nodeSize, sums, nil
}

// checkPersist: load(write(s)) canonically equal to s, re-writing gives identical bytes, an
// in-place WriteAt of the loaded object leaves the image unchanged, and an independent decoder
// reads the model's records from the image. Mutates the object (header root address): call it
// on a throw-away replay only.
func (c *vfC14Ctx) checkPersist() (fails []vfC14Fail, sums string) {
	fail := func(key string, d map[string]any) { fails = append(fails, vfC14Fail{key, d}) }
	sb := vfKitSB()
	pre := vfC14Persistent(c.bt)
	m1 := vfKitNewMem()
	a1, err := c.bt.WriteToFile(m1, m1, sb)
	if err != nil {
		fail("unexpected-error@WriteToFile", map[string]any{"err": err.Error()})
		return
	}
	if after := vfC14Persistent(c.bt); after != pre {
		fail("write-changed-content@WriteToFile", map[string]any{"before": pre, "after": after})
	}
	img1 := m1.snapshot()
	// independent decode
	recs, ns, sums, derr := vfC14DecodeImage(img1, a1)
	if derr != nil {
		fail("image-malformed@WriteToFile", map[string]any{"err": derr.Error(), "state": pre})
	} else {
		if !vfC14RecsEqual(recs, c.bt.records) || ns != c.bt.nodeSize {
			fail("image-differs-from-state@WriteToFile", map[string]any{"decoded": vfC14Recs(recs), "state": pre})
		}
	}
	// allocation must reserve the full node
	if len(m1.allocs) < 1 || m1.allocs[0][1] < uint64(6+11*len(c.bt.records)+4) {
		fail("leaf-allocation-too-small@WriteToFile", map[string]any{"allocs": m1.allocs})
	}
	// load
	b2 := NewWritableBTreeV2(4096)
	if err := b2.LoadFromFile(m1, a1, sb); err != nil {
		fail("load-error-after@WriteToFile", map[string]any{"err": vfKitErrText(err), "state": pre})
		return
	}
	if post := vfC14Persistent(b2); post != pre {
		fail("load-differs-after@WriteToFile", map[string]any{"written": pre, "loaded": post})
		return
	}
	if b2.header.RootNodeAddr != c.bt.header.RootNodeAddr || b2.loadedHeaderAddress != a1 || b2.loadedLeafAddress != c.bt.header.RootNodeAddr {
		fail("load-addresses-wrong@LoadFromFile", map[string]any{"root": b2.header.RootNodeAddr, "want": c.bt.header.RootNodeAddr})
	}
	// re-write of the loaded object into a fresh image: identical bytes
	m2 := vfKitNewMem()
	if _, err := b2.WriteToFile(m2, m2, sb); err != nil {
		fail("unexpected-error@WriteToFile(reloaded)", map[string]any{"err": err.Error()})
	} else if d := vfKitFirstDiff(img1, m2.data); d >= 0 {
		fail("rewrite-not-byte-identical@WriteToFile", map[string]any{"first_diff": d, "state": pre})
	}
	// in-place write of a loaded object: image unchanged
	b3 := NewWritableBTreeV2(4096)
	if err := b3.LoadFromFile(m1, a1, sb); err == nil {
		if err := b3.WriteAt(m1, sb); err != nil {
			fail("unexpected-error@WriteAt", map[string]any{"err": vfKitErrText(err)})
		} else if d := vfKitFirstDiff(img1, m1.data); d >= 0 {
			fail("writeat-not-byte-identical@WriteAt", map[string]any{"first_diff": d, "state": pre})
		}
	}
	return fails, sums
}

// ---------------------------------------------------------------------------------------------
// BFS
// ---------------------------------------------------------------------------------------------

type vfC14Succ struct {
	op      vfC14Op
	key     string
	pruned  bool
	outcome string
	fails   []vfC14Fail
}

func vfC14BFS(t *testing.T, r *vkit.Run, cfg *vfC14Cfg, maxDepth int) {
	probe := make([]int, len(cfg.names))
	for i := range probe {
		probe[i] = i
	}
	report := func(path []vfC14Op, fs []vfC14Fail) {
		for _, f := range fs {
			d := map[string]any{"node_size": cfg.nodeSize, "path": cfg.pathString(path)}
			for k, v := range f.detail {
				d[k] = v
			}
			r.Fail(f.key, d)
		}
	}
	seen := map[string]struct{}{}
	init := vfC14NewCtx(cfg)
	seen[init.key()] = struct{}{}
	frontier := [][]vfC14Op{{}}
	var nTrans, nTraces int64
	depth := 0
	maxSeenDepth := 0
	sums := map[string]struct{}{}
	var sumsMu sync.Mutex
	// state checks for the initial state
	{
		c := vfC14Replay(cfg, nil)
		report(nil, c.checkState("initial", -1, probe))
		fs, s := c.checkPersist()
		report(nil, fs)
		sums[s] = struct{}{}
	}
	for len(frontier) > 0 {
		if maxDepth > 0 && depth >= maxDepth {
			r.Cap(fmt.Sprintf("C14 BFS stopped at depth %d with %d frontier states", depth, len(frontier)))
			break
		}
		if r.Expired() {
			r.Cap("C14 BFS time budget")
			break
		}
		// phase A: expand every frontier state by every enabled op (one replay per transition)
		results := make([][]vfC14Succ, len(frontier))
		traces := make([]int64, len(frontier))
		vkit.ParallelFor(len(frontier), func(i int) {
			path := frontier[i]
			base := vfC14Replay(cfg, path)
			traces[i]++
			ops := base.enabled()
			out := make([]vfC14Succ, 0, len(ops))
			for _, op := range ops {
				var s vfC14Succ
				s.op = op
				r.Guard(cfg.opClass(op)+"/", map[string]any{"path": cfg.pathString(append(append([]vfC14Op(nil), path...), op))}, func() {
					c := vfC14Replay(cfg, path)
					traces[i]++
					s.fails = c.apply(op)
					ln := -1
					switch op.K {
					case vfC14Ins, vfC14Upd, vfC14Del, vfC14UpdAbs, vfC14DelAbs:
						ln = int(op.N)
					}
					if !c.pruned {
						// cheap structural invariants on every transition (views, order, model)
						s.fails = append(s.fails, c.checkState(cfg.opClass(op), ln, nil)...)
					}
					s.key, s.pruned, s.outcome = c.key(), c.pruned, c.outcome
				})
				out = append(out, s)
			}
			results[i] = out
		})
		// sequential merge (deterministic order)
		var next [][]vfC14Op
		for i, out := range results {
			nTraces += traces[i]
			for _, s := range out {
				nTrans++
				r.Outcome(s.outcome)
				p := append(append(make([]vfC14Op, 0, len(frontier[i])+1), frontier[i]...), s.op)
				if len(s.fails) > 0 {
					report(p, s.fails)
				}
				if s.pruned || s.key == "" {
					continue
				}
				if _, ok := seen[s.key]; ok {
					continue
				}
				seen[s.key] = struct{}{}
				next = append(next, p)
			}
		}
		// phase B: full state checks (search/has of every name, write/load) on every NEW state
		type chk struct {
			fails []vfC14Fail
		}
		checks := make([]chk, len(next))
		vkit.ParallelFor(len(next), func(i int) {
			path := next[i]
			r.Guard("state-check/", map[string]any{"path": cfg.pathString(path)}, func() {
				c := vfC14Replay(cfg, path)
				fs := c.checkState("state", -1, probe)
				pf, s := c.checkPersist()
				fs = append(fs, pf...)
				checks[i].fails = fs
				sumsMu.Lock()
				sums[s] = struct{}{}
				sumsMu.Unlock()
			})
		})
		for i := range next {
			nTraces++
			if len(checks[i].fails) > 0 {
				report(next[i], checks[i].fails)
			}
		}
		frontier = next
		depth++
		if len(next) > 0 {
			maxSeenDepth = depth
		}
	}
	r.States(int64(len(seen)))
	r.Transitions(nTrans)
	r.Traces(nTraces)
	r.Cases(nTrans)
	r.Distinct("transitions", nTrans)
	r.Set(fmt.Sprintf("bfs_node%d_states", cfg.nodeSize), len(seen))
	r.Set(fmt.Sprintf("bfs_node%d_transitions", cfg.nodeSize), nTrans)
	r.Set(fmt.Sprintf("bfs_node%d_depth_reached", cfg.nodeSize), maxSeenDepth)
	r.Set(fmt.Sprintf("bfs_node%d_fixpoint", cfg.nodeSize), len(frontier) == 0)
	ss := make([]string, 0, len(sums))
	for s := range sums {
		ss = append(ss, s)
	}
	sort.Strings(ss)
	r.Set("image_checksum_kinds", ss)
}

// ---------------------------------------------------------------------------------------------
// Production node size 4096: the capacity edge (single executions).
// ---------------------------------------------------------------------------------------------

func vfC14Edge(t *testing.T, r *vkit.Run) {
	const nodeSize = 4096
	capacity := (nodeSize - 10) / 11 // 371
	// names with pairwise distinct hashes (so that the collision finding does not interfere)
	var names []string
	used := map[uint32]bool{}
	for i := 0; len(names) < capacity+2; i++ {
		n := fmt.Sprintf("attr_%04d", i)
		if h := jenkinsHash(n); !used[h] {
			used[h] = true
			names = append(names, n)
		}
	}
	idOf := func(i, gen int) uint64 { return uint64(0x00A1B2C3D4000000) | uint64(gen)<<16 | uint64(i) }
	cfg := vfC14NewCfg(nodeSize, names, nil, 1<<30)
	probe := make([]int, len(names))
	for i := range probe {
		probe[i] = i
	}
	c := vfC14NewCtx(cfg)
	var hist []string
	var nTrans int64
	report := func(fs []vfC14Fail) {
		for _, f := range fs {
			d := map[string]any{"node_size": nodeSize, "history": append([]string(nil), hist...)}
			for k, v := range f.detail {
				d[k] = v
			}
			r.Fail("4096/"+f.key, d)
		}
	}
	full := func(tag string) {
		hist = append(hist, "<check:"+tag+">")
		report(c.checkState("edge", -1, probe))
		// persist check on a copy built by load (the check mutates addresses)
		fs, _ := c.checkPersist()
		report(fs)
		r.Case(fmt.Sprintf("4096:%s:%d", tag, len(c.model)))
	}
	step := func(desc string, f func() error, wantErr error, model func()) {
		hist = append(hist, desc)
		nTrans++
		pre := vfC14Canon(c.bt)
		var err error
		if r.Guard("4096/", map[string]any{"history": hist}, func() { err = f() }) {
			return
		}
		switch {
		case wantErr != nil && err == nil:
			report([]vfC14Fail{{"over-capacity-insert-accepted@InsertRecord", map[string]any{"records": len(c.bt.records)}}})
		case wantErr != nil && !errors.Is(err, wantErr):
			report([]vfC14Fail{{"over-capacity-insert-wrong-error@InsertRecord", map[string]any{"err": err.Error()}}})
		case wantErr != nil && vfC14Canon(c.bt) != pre:
			report([]vfC14Fail{{"failed-insert-changed-state@InsertRecord", map[string]any{}}})
		case wantErr == nil && err != nil:
			report([]vfC14Fail{{"unexpected-error@" + strings.SplitN(desc, "(", 2)[0], map[string]any{"err": err.Error(), "records": len(c.bt.records)}}})
		case wantErr == nil:
			model()
		}
		r.Outcome(fmt.Sprintf("4096:%s:%v", strings.SplitN(desc, "(", 2)[0], err == nil))
	}
	ins := func(i, gen int, wantErr error) {
		step(fmt.Sprintf("InsertRecord(%s)", names[i]), func() error { return c.bt.InsertRecord(names[i], idOf(i, gen)) }, wantErr,
			func() { c.model[i] = idOf(i, gen) })
	}
	del := func(i, variant int) {
		step(fmt.Sprintf("%s(%s)", vfC14DelNames[variant], names[i]), func() error {
			switch variant {
			case 0:
				return c.bt.DeleteRecord(names[i])
			case 1:
				return c.bt.DeleteRecordWithRebalancing(names[i])
			}
			return c.bt.DeleteRecordLazy(names[i])
		}, nil, func() { delete(c.model, i) })
	}
	upd := func(i, gen int) {
		step(fmt.Sprintf("UpdateRecord(%s)", names[i]), func() error { return c.bt.UpdateRecord(names[i], idOf(i, gen)) }, nil,
			func() { c.model[i] = idOf(i, gen) })
	}
	reload := func(inPlace bool) {
		hist = append(hist, fmt.Sprintf("write+load(inPlace=%v)", inPlace))
		nTrans++
		pre := vfC14Persistent(c.bt)
		var err error
		if inPlace && c.mem != nil && c.bt.loadedHeaderAddress != 0 {
			err = c.bt.WriteAt(c.mem, vfKitSB())
		} else {
			c.mem = vfKitNewMem()
			c.hdrAddr, err = c.bt.WriteToFile(c.mem, c.mem, vfKitSB())
		}
		if err != nil {
			report([]vfC14Fail{{"unexpected-error@write", map[string]any{"err": vfKitErrText(err)}}})
			return
		}
		nb := NewWritableBTreeV2(43)
		if err := nb.LoadFromFile(c.mem, c.hdrAddr, vfKitSB()); err != nil {
			report([]vfC14Fail{{"load-error-after@write", map[string]any{"err": vfKitErrText(err), "records": len(c.bt.records)}}})
			return
		}
		if post := vfC14Persistent(nb); post != pre {
			report([]vfC14Fail{{"load-differs-after@write", map[string]any{"records": len(c.bt.records)}}})
		}
		c.bt = nb
	}
	if got := c.bt.calculateMaxRecords(); got != capacity {
		r.Set("4096_capacity_reported", got)
	}
	r.Set("4096_capacity", capacity)
	for i := 0; i < capacity-1; i++ {
		ins(i, 0, nil)
	}
	full("fill-capacity-1") // 370
	reload(false)
	full("reload@capacity-1")
	ins(capacity-1, 0, nil) // 371
	full("fill-capacity")
	ins(capacity, 0, ErrBTreeNodeFull) // 372nd
	full("fill-capacity+1")
	reload(false)
	full("reload@capacity")
	ins(capacity, 0, ErrBTreeNodeFull) // still full after load
	upd(7, 1)
	full("update@capacity")
	// delete-reinsert at the edge, each delete variant; lazy needs the mode on
	del(100, 0)
	full("delete@capacity")
	ins(capacity, 0, nil) // the freed slot is usable by another name
	ins(100, 1, ErrBTreeNodeFull)
	full("reinsert-other@capacity")
	del(capacity, 1)
	ins(100, 1, nil) // reinsert the deleted name with a new id
	full("reinsert-same@capacity")
	reload(true) // WriteAt of the loaded tree
	full("reload-inplace@capacity")
	hist = append(hist, "EnableLazyRebalancing")
	c.bt.EnableLazyRebalancing(DefaultLazyConfig())
	del(200, 2)
	del(201, 2)
	full("lazy-delete@capacity")
	ins(200, 2, nil)
	ins(201, 2, nil)
	ins(capacity+1, 0, ErrBTreeNodeFull)
	full("refill-after-lazy@capacity")
	hist = append(hist, "DisableLazyRebalancing")
	if err := c.bt.DisableLazyRebalancing(); err != nil {
		report([]vfC14Fail{{"unexpected-error@DisableLazyRebalancing", map[string]any{"err": err.Error()}}})
	}
	reload(true)
	full("final@capacity")
	// drain completely and refill one
	for i := range names {
		if _, ok := c.model[i]; ok {
			del(i, i%2)
		}
	}
	full("drained")
	reload(true)
	ins(0, 3, nil)
	full("after-drain-insert")
	r.Transitions(nTrans)
	r.Cases(nTrans)
	r.Set("4096_edge_operations", nTrans)
}

// ---------------------------------------------------------------------------------------------

func TestVerif_C14(t *testing.T) {
	r := vkit.Start(t, "C14", "model_checking")
	defer r.Finish()
	r.Rule("hash: jenkinsHash vs independent lookup3 on every byte string of length 0..2 and, for each length 3..64 (thorough 3..256), 3 base strings x every position x {00,01,7F,80,FF}; " +
		"BFS: explicit-state search over the real WritableBTreeV2 at node size 43 (capacity 3): ops insert(absent name,id) / update / delete x3 variants / update+delete of absent names / " +
		"lazy on, off, force, clock past MaxDelay / WriteToFile / WriteToFile+LoadFromFile / WriteAt+LoadFromFile / WriteAt with the object staying in use (the image's header and leaf bytes are part of the state then); names a, b, a hash-colliding pair, a pair with hash order opposite to byte order; " +
		"successor = replay on a fresh object; dedup on (complete private state, model); every new state: views agree, sorted, equals model, every name searched, write/load/re-write byte identity, independent image decode; " +
		"non-trivial = every transition (distinct (state, op) by construction); plus capacity-edge executions at node size 4096")
	r.Assume("time.Since(LastRebalance) >= MaxDelay is false within one replay unless the harness set LastRebalance to the zero time (MaxDelay = 5 min)")
	r.Assume("incremental rebalancing (background goroutine + ticker) is not exercised here; it belongs to C18")
	r.Assume("the in-memory image implements io.ReaderAt / Writer / Allocator faithfully (bump allocator, 8-byte aligned)")

	vfC14ValidateReference(r)
	vfC14HashGrid(t, r)

	names := vfC14Names(t)
	r.Sample(map[string]any{"names": names, "hashes": fmt.Sprintf("%08x", vfC14NewCfg(43, names, nil, 0).hashes)})
	ids := []uint64{0x0007060504030201, 0} // (0: a heap id like any other; a search must not take it for "not found")
	maxPending := 2
	if r.Thorough() {
		maxPending = 4
	}
	cfg := vfC14NewCfg(43, names, ids, maxPending)
	// (thorough: the deeper lazy-delete bound runs without the in-place write of a kept object —
	// with it the state space no longer fits in memory; that operation is explored by the two
	// passes of the quick configuration below)
	cfg.noInPlace = r.Thorough()
	r.Set("image_bytes_in_state_key", "header of the loaded tree (record counts on disk) and the first 24 bytes of its leaf")
	if cfg.hashes[2] != cfg.hashes[3] || names[2] == names[3] {
		t.Fatalf("harness: colliding pair does not collide")
	}
	r.Set("bound_pending_lazy_deletes", maxPending)
	vfC14BFS(t, r, cfg, 0)
	if r.Thorough() {
		// the quick configuration, with the in-place write of a kept object and the header bytes
		// of the image in the state key (with the leaf bytes too the state space is about 35
		// times larger and no longer fits in memory together with its replay paths)
		vfC14BFS(t, r, vfC14NewCfg(43, names, ids, 2), 0)
		// capacity 4 (node size 54), three ids
		cfg2 := vfC14NewCfg(54, names, append(ids, 0x00112233445566FF), 2)
		cfg2.noInPlace = true
		vfC14BFS(t, r, cfg2, 0)
	}
	vfC14Edge(t, r)
}
