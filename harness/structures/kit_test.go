//go:build verif

package structures

// Shared helpers of the structures harnesses (C14, C15): an in-memory "file" that implements
// io.ReaderAt, Writer (WriteAtAddress) and Allocator (Allocate) — everything WriteToFile /
// LoadFromFile / WriteAt of WritableBTreeV2 and WritableFractalHeap need — plus small utilities.

import (
	"encoding/binary"
	"fmt"
	"io"
	"regexp"
	"sort"
	"strings"

	"github.com/scigolib/hdf5/internal/core"
)

// vfKitMem is a growable byte image with a bump allocator. Addresses start at vfKitMemBase
// (address 0 means "not loaded"/"invalid" to the code under test).
type vfKitMem struct {
	data   []byte
	next   uint64
	allocs [][2]uint64 // [addr,size] in allocation order
	writes [][2]uint64 // [addr,len] in write order
}

const vfKitMemBase = 0x200

func vfKitNewMem() *vfKitMem { return &vfKitMem{next: vfKitMemBase} }

func (m *vfKitMem) Allocate(size uint64) (uint64, error) {
	a := m.next
	m.next += (size + 7) &^ 7
	m.allocs = append(m.allocs, [2]uint64{a, size})
	return a, nil
}

func (m *vfKitMem) WriteAtAddress(b []byte, addr uint64) error {
	end := addr + uint64(len(b))
	if end > uint64(len(m.data)) {
		m.data = append(m.data, make([]byte, end-uint64(len(m.data)))...)
	}
	copy(m.data[addr:], b)
	m.writes = append(m.writes, [2]uint64{addr, uint64(len(b))})
	return nil
}

func (m *vfKitMem) ReadAt(p []byte, off int64) (int, error) {
	if off < 0 {
		return 0, fmt.Errorf("negative offset")
	}
	if off >= int64(len(m.data)) {
		return 0, io.EOF
	}
	n := copy(p, m.data[off:])
	if n < len(p) {
		return n, io.EOF
	}
	return n, nil
}

func (m *vfKitMem) snapshot() []byte { return append([]byte(nil), m.data...) }

// vfKitMemOf wraps existing bytes as a read/write image (used to re-open a copied image).
func vfKitMemOf(b []byte, next uint64) *vfKitMem {
	return &vfKitMem{data: append([]byte(nil), b...), next: next}
}

func vfKitSB() *core.Superblock {
	return &core.Superblock{Version: 2, OffsetSize: 8, LengthSize: 8, Endianness: binary.LittleEndian}
}

// vfKitAddrClass abstracts an address to its class (run-independent, and independent of how
// many write cycles happened before): "0" or "set".
func vfKitAddrClass(a uint64) string {
	if a == 0 {
		return "0"
	}
	return "set"
}

var vfKitHexRe = regexp.MustCompile(`0x[0-9A-Fa-f]+`)

// vfKitErrText normalises an error text (addresses removed) so it can be part of an observation.
func vfKitErrText(err error) string {
	if err == nil {
		return "ok"
	}
	return "err:" + vfKitHexRe.ReplaceAllString(err.Error(), "0xADDR")
}

func vfKitSortedKeys[V any](m map[uint64]V) []uint64 {
	ks := make([]uint64, 0, len(m))
	for k := range m {
		ks = append(ks, k)
	}
	sort.Slice(ks, func(i, j int) bool { return ks[i] < ks[j] })
	return ks
}

func vfKitJoin(parts ...string) string { return strings.Join(parts, " ") }

// vfKitFirstDiff returns the first index where a and b differ (or the shorter length), -1 if equal.
func vfKitFirstDiff(a, b []byte) int {
	n := len(a)
	if len(b) < n {
		n = len(b)
	}
	for i := 0; i < n; i++ {
		if a[i] != b[i] {
			return i
		}
	}
	if len(a) != len(b) {
		return n
	}
	return -1
}
