//go:build verif

package structures

// VerifNameHash exposes the library's own attribute/link name hash to harnesses in other
// packages (used to construct colliding name pairs that stay colliding under any change of
// the hash function).
func VerifNameHash(name string) uint32 { return jenkinsHash(name) }
