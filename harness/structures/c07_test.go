//go:build verif

package structures

// C07 (part): the link message parser of this package is reached from the group loader with
// bytes taken from the file. Deviation enumeration at the unit level, bound 2: every valid
// link message of a small grid (hard / soft links, every name-length field width, with and
// without creation order and character set), every single byte set to each of 8 values, and
// on top of that every flags value combined with every boundary value of the name-length
// field. The parser must return a value or an error; a panic is a failure.

import (
	"encoding/binary"
	"fmt"
	"testing"

	"github.com/scigolib/hdf5/internal/core"
	"github.com/scigolib/hdf5/internal/verif/vkit"
)

func vfC07LinkMessage(flags byte, nameLenWidth int, nameLen uint64, name string, tail []byte) []byte {
	d := []byte{1, flags}
	if flags&0x08 != 0 {
		d = append(d, 0) // link type: hard
	}
	if flags&0x04 != 0 {
		d = append(d, make([]byte, 8)...) // creation order
	}
	if flags&0x10 != 0 {
		d = append(d, 0) // character set
	}
	l := make([]byte, 8)
	binary.LittleEndian.PutUint64(l, nameLen)
	d = append(d, l[:nameLenWidth]...)
	d = append(d, name...)
	return append(d, tail...)
}

func TestVerif_C07(t *testing.T) {
	r := vkit.Start(t, "C07", "fault_enumeration")
	defer r.Finish()
	sb := &core.Superblock{OffsetSize: 8, LengthSize: 8, Endianness: binary.LittleEndian}
	r.Rule("structures.ParseLinkMessage: valid messages (flags x name-length width x name) with every byte set to each of {00,01,02,03,7F,80,FE,FF}, and every flags byte x every boundary value of the name-length field; verdict: value or error, no panic")
	try := func(key string, data []byte, detail map[string]any) {
		r.Cases(1)
		r.Guard(key, detail, func() { _, _ = ParseLinkMessage(data, sb) })
	}
	addr := make([]byte, 8)
	binary.LittleEndian.PutUint64(addr, 0x1234)
	var n int64
	for _, base := range []byte{0x00, 0x04, 0x08, 0x10, 0x1C} {
		for w, width := range []int{1, 2, 4, 8} {
			flags := base | byte(w)
			for _, name := range []string{"a", "name0123"} {
				msg := vfC07LinkMessage(flags, width, uint64(len(name)), name, addr)
				try("link-message/", msg, map[string]any{"flags": flags, "name": name, "mutation": "none"})
				for i := range msg {
					for _, v := range []byte{0x00, 0x01, 0x02, 0x03, 0x7F, 0x80, 0xFE, 0xFF} {
						if msg[i] == v {
							continue
						}
						m := append([]byte(nil), msg...)
						m[i] = v
						try("link-message/", m, map[string]any{"flags": flags, "name": name, "offset": i, "value": v})
						n++
					}
				}
				// truncations
				for cut := 0; cut < len(msg); cut++ {
					try("link-message/", msg[:cut], map[string]any{"flags": flags, "name": name, "cut_at": cut})
					n++
				}
			}
		}
	}
	// every flags byte x every boundary value of the name-length field
	for f := 0; f < 256; f++ {
		width := []int{1, 2, 4, 8}[f&3]
		for _, nl := range []uint64{0, 1, 2, 7, 8, 9, 0x7F, 0x80, 0xFF, 0x7FFF, 0x8000, 0xFFFF, 1 << 31, 1<<32 - 1, 1 << 32, 1<<63 - 1, 1 << 63, 1<<64 - 16, 1<<64 - 8, 1<<64 - 1} {
			msg := vfC07LinkMessage(byte(f), width, nl, "abcdefgh", addr)
			try("link-message/", msg, map[string]any{"flags": f, "name_length_field": fmt.Sprintf("%#x", nl)})
			n++
		}
	}
	r.Distinct("link message deviations", n)
	r.Outcome("value-or-error")
}
