//go:build verif

package structures

// C15 — the fractal heap returns exactly the bytes stored under each live id.
//
//   1. E1 explicit-state BFS over the REAL WritableFractalHeap with 64-byte direct blocks
//      (block prefix 15 B + checksum 4 B => 45 usable bytes; the library's own capacity check uses
//      64), ops insert(size) / overwrite same size / overwrite other size / delete /
//      WriteToFile+LoadFromFile / WriteAt+LoadFromFile, <= 4 live objects; successor = replay on a
//      fresh heap; dedup on (complete private state, model). Map-iteration nondeterminism in
//      insertViaIndirect (range fh.DirectBlocks picks ANY block with room) is enumerated, not
//      sampled: when several child blocks have room the harness forces each choice in turn (by
//      hiding the other blocks from the map for the duration of the call), and every execution is
//      run twice and must give identical observations.
//   2. production-size single executions: 64 KiB blocks (dense attributes) and 512 KiB blocks
//      (dense groups) with fills around usable capacity (size-19), block size and beyond.
//   3. dense-attribute images (heap + B-tree v2 written by this code) read through the second,
//      minimal readers in internal/core (readBTreeV2LeafRecords / readHeapObject via
//      core.ParseAttributesFromMessages).

import (
	"bytes"
	"crypto/sha256"
	"encoding/binary"
	"errors"
	"fmt"
	"hash/crc32"
	"sort"
	"strings"
	"testing"

	"github.com/scigolib/hdf5/internal/core"
	"github.com/scigolib/hdf5/internal/verif/vkit"
)

type vfC15Cfg struct {
	block   uint64
	sizes   []int
	maxLive int
	light   bool // production-size runs: block contents enter the canonical dump as a SHA-256 prefix
}

const (
	vfC15Ins = iota
	vfC15Ow
	vfC15OwX
	vfC15Del
	vfC15WriteLoad
	vfC15WriteAtLoad
)

// vfC15Op: K kind; A = size index (ins) or live slot (ow/owx/del); B = forced block choice for
// ins (0 = unforced, 1+j = j-th child block in offset order) or size delta selector for owx.
type vfC15Op struct {
	K uint8
	A uint16
	B uint8
}

func (cfg *vfC15Cfg) opString(o vfC15Op) string {
	switch o.K {
	case vfC15Ins:
		if o.B == 0 {
			return fmt.Sprintf("InsertObject(%dB)", cfg.sizes[o.A])
		}
		return fmt.Sprintf("InsertObject(%dB)[map order: child block #%d first]", cfg.sizes[o.A], o.B-1)
	case vfC15Ow:
		return fmt.Sprintf("OverwriteObject(live#%d,same size)", o.A)
	case vfC15OwX:
		return fmt.Sprintf("OverwriteObject(live#%d,size%+d)", o.A, 1-2*int(o.B))
	case vfC15Del:
		return fmt.Sprintf("DeleteObject(live#%d)", o.A)
	case vfC15WriteLoad:
		return "WriteToFile;LoadFromFile"
	case vfC15WriteAtLoad:
		return "WriteAt;LoadFromFile"
	}
	return "?"
}

func (cfg *vfC15Cfg) pathString(p []vfC15Op) []string {
	out := make([]string, len(p))
	for i, o := range p {
		out[i] = cfg.opString(o)
	}
	return out
}

const vfC15ZeroSize = 6

// vfC15Content: deterministic pattern of object k (insertion ordinal), version ver; non-zero
// in every byte except for objects of vfC15ZeroSize bytes.
func vfC15Content(k, ver, size int) []byte {
	b := make([]byte, size)
	if size == vfC15ZeroSize {
		// one size of the alphabet carries all-zero content: a value like any other (the heap
		// marks deletion by zeroing, so this is the content most easily mistaken for "gone")
		return b
	}
	for j := range b {
		b[j] = byte(1 + (k*53+ver*29+j*7+(j>>4)*3)%251)
	}
	return b
}

type vfC15Obj struct {
	k    int
	ver  int
	id   []byte
	data []byte
	off  uint64 // where the library really put the object: block offset + offset inside the block
}

type vfC15Fail struct {
	key    string
	detail map[string]any
}

type vfC15Ctx struct {
	cfg     *vfC15Cfg
	h       *WritableFractalHeap
	mem     *vfKitMem
	hdrAddr uint64
	live    []*vfC15Obj
	stale   [][]byte
	nIns    int
	pruned  bool
	skip    bool // transition not realisable (forced block was not a candidate)
	outcome string
	log     strings.Builder
}

func vfC15NewCtx(cfg *vfC15Cfg) *vfC15Ctx {
	return &vfC15Ctx{cfg: cfg, h: NewWritableFractalHeap(cfg.block)}
}

func vfC15Block(b *WritableDirectBlock, root *WritableDirectBlock, light bool) string {
	if b == nil {
		return "nil"
	}
	alias := ""
	if b == root {
		alias = " =root"
	}
	data := b.Objects
	if light {
		data = nil
	} else if len(data) > 512 {
		h := sha256.Sum256(data)
		data = h[:12]
	}
	return fmt.Sprintf("{v%d hh=%s off%d size%d free%d len%d chk%v data=%x%s}", b.Version, vfKitAddrClass(b.HeapHeaderAddress),
		b.BlockOffset, b.Size, b.FreeOffset, len(b.Objects), b.ChecksumEnabled, data, alias)
}

// vfC15Canon dumps the complete private state of the heap (addresses by class).
func vfC15Canon(h *WritableFractalHeap) string { return vfC15CanonOpt(h, false) }

func (c *vfC15Ctx) canon() string { return vfC15CanonOpt(c.h, c.cfg.light) }

func vfC15CanonOpt(h *WritableFractalHeap, light bool) string {
	hd := h.Header
	var sb strings.Builder
	fmt.Fprintf(&sb, "hdr={v%d idlen%d filt%d flags%d maxobj%d hugeid%d hugebt=%s free%d fsaddr=%s msize%d malloc%d moff%d nobj%d huge%d/%d tiny%d/%d w%d start%d maxdb%d maxheap%d srows%d root=%s rows%d os%d ls%d}",
		hd.Version, hd.HeapIDLength, hd.IOFiltersLength, hd.Flags, hd.MaxManagedObjectSize, hd.NextHugeObjectID, vfKitAddrClass(hd.HugeObjectBTreeAddr),
		hd.FreeSpace, vfKitAddrClass(hd.FreeSectionAddress), hd.ManagedSpaceSize, hd.AllocatedManagedSpace, hd.ManagedSpaceOffset, hd.NumManagedObjects,
		hd.SizeHugeObjects, hd.NumHugeObjects, hd.SizeTinyObjects, hd.NumTinyObjects, hd.TableWidth, hd.StartingBlockSize, hd.MaxDirectBlockSize,
		hd.MaxHeapSize, hd.StartingNumRows, vfKitAddrClass(hd.RootBlockAddress), hd.CurrentNumRows, hd.HeapOffsetSize, hd.HeapLengthSize)
	fmt.Fprintf(&sb, " db=%s maxdb=%d", vfC15Block(h.DirectBlock, nil, light), h.MaxDirectBlockSize)
	sb.WriteString(" blocks=[")
	for _, k := range vfKitSortedKeys(h.DirectBlocks) {
		fmt.Fprintf(&sb, "%d:%s ", k, vfC15Block(h.DirectBlocks[k], h.DirectBlock, light))
	}
	sb.WriteString("]")
	if ib := h.RootIndirectBlock; ib == nil {
		sb.WriteString(" ib=nil")
	} else {
		fmt.Fprintf(&sb, " ib={v%d hh=%s off%d rows%d w%d mdr%d chk%v la=%s ch=[", ib.Header.Version, vfKitAddrClass(ib.Header.HeapHeaderAddr),
			ib.Header.BlockOffset, ib.Header.NumRows, ib.Header.TableWidth, ib.Header.MaxDirectRows, ib.Header.ChecksumEnabled, vfKitAddrClass(ib.loadedAddress))
		for _, a := range ib.ChildAddresses {
			sb.WriteString(vfKitAddrClass(a) + ",")
		}
		sb.WriteString("]}")
	}
	fmt.Fprintf(&sb, " lh=%s ldb=%s", vfKitAddrClass(h.loadedHeaderAddress), vfKitAddrClass(h.loadedDirectBlockAddress))
	return sb.String()
}

func (c *vfC15Ctx) modelString() string {
	var sb strings.Builder
	for _, o := range c.live {
		fmt.Fprintf(&sb, "k%dv%d#%d=%x;", o.k, o.ver, len(o.data), o.id)
	}
	sb.WriteString("/stale:")
	for _, s := range c.stale {
		fmt.Fprintf(&sb, "%x;", s)
	}
	return sb.String()
}

func (c *vfC15Ctx) key() string { return c.canon() + " | " + c.modelString() }

func vfC15ErrClass(err error) string {
	switch {
	case err == nil:
		return "ok"
	case errors.Is(err, ErrHeapFull):
		return "ErrHeapFull"
	case errors.Is(err, ErrObjectTooLarge):
		return "ErrObjectTooLarge"
	case errors.Is(err, ErrObjectNotFound):
		return "ErrObjectNotFound"
	case errors.Is(err, ErrInvalidObjectID):
		return "ErrInvalidObjectID"
	case errors.Is(err, ErrEmptyObject):
		return "ErrEmptyObject"
	}
	return "error"
}

// idRange decodes (offset,length) of a managed id using the heap's own field widths.
func (c *vfC15Ctx) idRange(id []byte) (off, length uint64) {
	os, ls := int(c.h.Header.HeapOffsetSize), int(c.h.Header.HeapLengthSize)
	if len(id) < 1+os+ls {
		return 0, 0
	}
	for i := 0; i < os; i++ {
		off |= uint64(id[1+i]) << (8 * i)
	}
	for i := 0; i < ls; i++ {
		length |= uint64(id[1+os+i]) << (8 * i)
	}
	return
}

func (c *vfC15Ctx) enabled() []vfC15Op {
	var ops []vfC15Op
	if len(c.live) < c.cfg.maxLive {
		for i := range c.cfg.sizes {
			ops = append(ops, vfC15Op{K: vfC15Ins, A: uint16(i)})
		}
	}
	for s := range c.live {
		ops = append(ops, vfC15Op{K: vfC15Ow, A: uint16(s)}, vfC15Op{K: vfC15OwX, A: uint16(s), B: 0}, vfC15Op{K: vfC15OwX, A: uint16(s), B: 1},
			vfC15Op{K: vfC15Del, A: uint16(s)})
	}
	ops = append(ops, vfC15Op{K: vfC15WriteLoad})
	if c.h.loadedHeaderAddress != 0 && c.mem != nil {
		ops = append(ops, vfC15Op{K: vfC15WriteAtLoad})
	}
	return ops
}

// afterLoadLost classifies why an object is not readable after a write/load cycle.
// usable = block size - prefix(5+8+offsetSize) - checksum(4).
func (c *vfC15Ctx) lossClass(o *vfC15Obj, grown bool) string {
	if grown {
		return "grown-heap-not-persisted"
	}
	off, ln := c.idRange(o.id)
	prefix := uint64(5 + 8 + int(c.h.Header.HeapOffsetSize))
	if off+ln > c.cfg.block-prefix-4 {
		return "block-tail-lost"
	}
	return "object-lost"
}

func (c *vfC15Ctx) apply(o vfC15Op) (fails []vfC15Fail) {
	cfg := c.cfg
	fail := func(key string, d map[string]any) {
		c.pruned = true
		fails = append(fails, vfC15Fail{key, d})
	}
	h := c.h
	if (o.K == vfC15Ow || o.K == vfC15OwX || o.K == vfC15Del) && int(o.A) >= len(c.live) {
		c.skip = true // no such live object (an earlier insert was refused)
		return
	}
	switch o.K {
	case vfC15Ins:
		size := cfg.sizes[o.A]
		data := vfC15Content(c.nIns, 0, size)
		pre := c.canon()
		var id []byte
		var err error
		freeBefore := map[*WritableDirectBlock]uint64{h.DirectBlock: h.DirectBlock.FreeOffset}
		for _, b := range h.DirectBlocks {
			freeBefore[b] = b.FreeOffset
		}
		if o.B == 0 {
			id, err = h.InsertObject(data)
		} else {
			// force "block j is met first by the map iteration": hide the other child blocks
			keys := vfKitSortedKeys(h.DirectBlocks)
			j := int(o.B) - 1
			if h.RootIndirectBlock == nil || j >= len(keys) {
				c.skip = true
				return
			}
			saved := h.DirectBlocks
			h.DirectBlocks = map[uint64]*WritableDirectBlock{keys[j]: saved[keys[j]]}
			id, err = h.InsertObject(data)
			chosen := err == nil && len(h.DirectBlocks) == 1
			h.DirectBlocks = saved
			if !chosen {
				c.skip = true // block j has no room by the library's own test: not a possible order
				return
			}
		}
		fmt.Fprintf(&c.log, "ins%d:%s:%x;", size, vfKitErrText(err), id)
		if err != nil {
			c.outcome = "insert:" + vfC15ErrClass(err)
			if post := c.canon(); post != pre {
				fail("failed-insert-changed-state/"+vfC15ErrClass(err), map[string]any{"size": size, "err": vfKitErrText(err), "before": pre, "after": post})
			}
			return
		}
		c.outcome = "insert:ok"
		if h.RootIndirectBlock != nil {
			c.outcome = "insert:ok(indirect root)"
		}
		ob := &vfC15Obj{k: c.nIns, id: append([]byte(nil), id...), data: data}
		c.live = append(c.live, ob)
		c.nIns++
		// where did the bytes really go? (the block whose FreeOffset advanced)
		placed := 0
		blocks := []*WritableDirectBlock{h.DirectBlock}
		for _, k := range vfKitSortedKeys(h.DirectBlocks) {
			if b := h.DirectBlocks[k]; b != h.DirectBlock {
				blocks = append(blocks, b)
			}
		}
		for _, b := range blocks {
			if old := freeBefore[b]; b.FreeOffset == old+uint64(size) {
				ob.off = b.BlockOffset + old
				placed++
			}
		}
		decOff, _ := c.idRange(id)
		bits := 8 * uint(h.Header.HeapOffsetSize)
		switch {
		case placed != 1:
			fail("insert-placement-unclear", map[string]any{"size": size, "blocks_advanced": placed})
		case decOff != ob.off && bits < 64 && ob.off >= 1<<bits && decOff == ob.off&(1<<bits-1):
			fail("id-offset-wrong/truncated-to-heap-offset-size", map[string]any{"size": size, "real_offset": ob.off, "offset_in_id": decOff,
				"heap_offset_size_bytes": h.Header.HeapOffsetSize, "id": fmt.Sprintf("%x", id)})
		case decOff != ob.off:
			fail("id-offset-wrong/other", map[string]any{"size": size, "real_offset": ob.off, "offset_in_id": decOff, "id": fmt.Sprintf("%x", id)})
		}
	case vfC15Ow:
		ob := c.live[o.A]
		nd := vfC15Content(ob.k, (ob.ver+1)%2, len(ob.data))
		pre := c.canon()
		err := h.OverwriteObject(ob.id, nd)
		fmt.Fprintf(&c.log, "ow:%s;", vfKitErrText(err))
		if err != nil {
			c.outcome = "overwrite:" + vfC15ErrClass(err)
			if post := c.canon(); post != pre {
				fail("failed-overwrite-changed-state", map[string]any{"err": vfKitErrText(err), "before": pre, "after": post})
			}
			return
		}
		c.outcome = "overwrite:ok"
		ob.ver, ob.data = (ob.ver+1)%2, nd
	case vfC15OwX:
		ob := c.live[o.A]
		ns := len(ob.data) + 1 - 2*int(o.B)
		if ns <= 0 {
			c.skip = true
			return
		}
		nd := vfC15Content(ob.k, 1, ns)
		pre := c.canon()
		err := h.OverwriteObject(ob.id, nd)
		fmt.Fprintf(&c.log, "owx:%s;", vfKitErrText(err))
		c.outcome = "overwrite-other-size:" + vfC15ErrClass(err)
		if err == nil {
			fail("overwrite-other-size-accepted", map[string]any{"old": len(ob.data), "new": ns})
		} else if post := c.canon(); post != pre {
			fail("failed-overwrite-changed-state", map[string]any{"err": vfKitErrText(err), "before": pre, "after": post})
		}
	case vfC15Del:
		ob := c.live[o.A]
		pre := c.canon()
		err := h.DeleteObject(ob.id)
		fmt.Fprintf(&c.log, "del:%s;", vfKitErrText(err))
		if err != nil {
			c.outcome = "delete:" + vfC15ErrClass(err)
			if post := c.canon(); post != pre {
				fail("failed-delete-changed-state", map[string]any{"err": vfKitErrText(err), "before": pre, "after": post})
			}
			return
		}
		c.outcome = "delete:ok"
		c.stale = append(c.stale, ob.id)
		c.live = append(c.live[:o.A:o.A], c.live[o.A+1:]...)
	case vfC15WriteLoad, vfC15WriteAtLoad:
		grown := h.RootIndirectBlock != nil
		var err error
		what := "WriteToFile"
		preW := c.canon()
		var imgBefore []byte
		if o.K == vfC15WriteAtLoad {
			imgBefore = c.mem.snapshot()
		}
		if o.K == vfC15WriteLoad {
			c.mem = vfKitNewMem()
			c.hdrAddr, err = h.WriteToFile(c.mem, c.mem, vfKitSB())
		} else {
			what = "WriteAt"
			err = h.WriteAt(c.mem, vfKitSB())
		}
		fmt.Fprintf(&c.log, "%s:%s;", what, vfKitErrText(err))
		if err != nil {
			c.outcome = what + ":error"
			// a refused write must at least be harmless: heap unchanged, nothing written
			if post := c.canon(); post != preW || (imgBefore != nil && vfKitFirstDiff(imgBefore, c.mem.data) >= 0) || (imgBefore == nil && len(c.mem.data) > 0) {
				fail("refused-write-changed-state@"+what, map[string]any{"err": vfKitErrText(err), "before": preW, "after": post})
			} else if grown {
				fail("grown-heap-not-persisted/write-error", map[string]any{"err": vfKitErrText(err), "call": what})
			} else {
				fail("write-error@"+what, map[string]any{"err": vfKitErrText(err)})
			}
			return
		}
		nh := NewWritableFractalHeap(cfg.block)
		err = nh.LoadFromFile(c.mem, c.hdrAddr, vfKitSB())
		fmt.Fprintf(&c.log, "load:%s;", vfKitErrText(err))
		if err != nil {
			c.outcome = what + "+load:error"
			cls := "load-error"
			if grown {
				cls = "grown-heap-not-persisted/load-error"
			}
			fail(cls, map[string]any{"err": vfKitErrText(err), "after": what})
			return
		}
		c.outcome = what + "+load:ok"
		c.h = nh
		// everything must still hold on the loaded heap; a lost object is a failure of THIS transition
		for _, ob := range c.live {
			got, gerr := nh.GetObject(ob.id)
			if gerr != nil || !bytes.Equal(got, ob.data) {
				shape := "get-error"
				if gerr == nil {
					shape = "get-wrong-bytes"
				}
				off, ln := c.idRange(ob.id)
				fail(c.lossClass(ob, grown)+"/load-"+shape, map[string]any{"after": what, "object_offset": off, "object_len": ln,
					"block": cfg.block, "err": vfKitErrText(gerr)})
				break
			}
		}
	}
	return fails
}

func vfC15Replay(cfg *vfC15Cfg, path []vfC15Op) *vfC15Ctx {
	c := vfC15NewCtx(cfg)
	for _, o := range path {
		c.apply(o)
	}
	c.pruned, c.skip = false, false
	return c
}

// checkState: the in-memory invariants.
func (c *vfC15Ctx) checkState(opClass string) (fails []vfC15Fail) {
	h := c.h
	fail := func(key string, d map[string]any) { fails = append(fails, vfC15Fail{key, d}) }
	// the bytes GetObject hands out are the caller's: writing into them, or appending to them,
	// must not reach the heap (every object is fetched, scribbled over and extended first; the
	// comparisons below then see what the heap still holds)
	for _, ob := range c.live {
		if got, err := h.GetObject(ob.id); err == nil {
			for j := range got {
				got[j] ^= 0xA5
			}
			_ = append(got, 0xEE, 0xEE, 0xEE, 0xEE, 0xEE, 0xEE, 0xEE, 0xEE)
		}
	}
	pre := c.canon()
	var sum uint64
	type rng struct{ a, b uint64 }
	var ranges []rng
	for i, ob := range c.live {
		got, err := h.GetObject(ob.id)
		switch {
		case err != nil:
			c.pruned = true
			fail("get-error/"+vfC15ErrClass(err)+"@"+opClass, map[string]any{"live": i, "id": fmt.Sprintf("%x", ob.id), "err": vfKitErrText(err)})
		case !bytes.Equal(got, ob.data):
			c.pruned = true
			shape := "other"
			for j, o2 := range c.live {
				if j != i && len(o2.data) >= len(got) && bytes.Equal(got, o2.data[:len(got)]) {
					shape = "bytes-of-another-object"
				}
			}
			if len(got) != len(ob.data) {
				shape = "wrong-length"
			} else if bytes.Equal(got, make([]byte, len(got))) {
				shape = "zeros"
			}
			fail("get-wrong-bytes/"+shape+"@"+opClass, map[string]any{"live": i, "id": fmt.Sprintf("%x", ob.id), "first_diff": vfKitFirstDiff(got, ob.data)})
		}
		off, ln := c.idRange(ob.id)
		if ln != uint64(len(ob.data)) {
			c.pruned = true
			fail("id-length-field-wrong@"+opClass, map[string]any{"id": fmt.Sprintf("%x", ob.id), "len": len(ob.data), "decoded": ln})
		}
		ranges = append(ranges, rng{off, off + uint64(len(ob.data))})
		sum += uint64(len(ob.data))
		for j := 0; j < i; j++ {
			if bytes.Equal(c.live[j].id, ob.id) {
				c.pruned = true
				fail("duplicate-id@"+opClass, map[string]any{"id": fmt.Sprintf("%x", ob.id)})
			}
		}
	}
	for i := range ranges {
		for j := 0; j < i; j++ {
			if ranges[i].a < ranges[j].b && ranges[j].a < ranges[i].b {
				c.pruned = true
				fail("id-ranges-overlap@"+opClass, map[string]any{"a": fmt.Sprintf("%x", c.live[i].id), "b": fmt.Sprintf("%x", c.live[j].id)})
			}
		}
	}
	if h.Header.NumManagedObjects != uint64(len(c.live)) {
		c.pruned = true
		fail(fmt.Sprintf("object-count-mismatch(%+d)@%s", int64(h.Header.NumManagedObjects)-int64(len(c.live)), opClass),
			map[string]any{"header": h.Header.NumManagedObjects, "model": len(c.live)})
	}
	// free space, by the library's own definition of capacity (block sizes): managed space - live bytes
	if h.Header.FreeSpace != h.Header.ManagedSpaceSize-sum {
		c.pruned = true
		fail("free-space-mismatch@"+opClass, map[string]any{"header_free": h.Header.FreeSpace, "managed_space": h.Header.ManagedSpaceSize, "live_bytes": sum})
	}
	// no block holds more than its size
	blocks := []*WritableDirectBlock{h.DirectBlock}
	for _, k := range vfKitSortedKeys(h.DirectBlocks) {
		blocks = append(blocks, h.DirectBlocks[k])
	}
	for _, b := range blocks {
		if b != nil && (b.FreeOffset > b.Size || uint64(len(b.Objects)) > b.Size) {
			c.pruned = true
			fail("block-overfull(object-larger-than-block-accepted)@"+opClass, map[string]any{"block_size": b.Size, "free_offset": b.FreeOffset, "len": len(b.Objects)})
			break
		}
	}
	// stale ids: reads must not disturb anything (what they return is not specified)
	for _, s := range c.stale {
		got, err := h.GetObject(s)
		switch {
		case err != nil:
			c.outcome = "stale-get:" + vfC15ErrClass(err)
		case bytes.Equal(got, make([]byte, len(got))):
			c.outcome = "stale-get:zeros"
		default:
			c.outcome = "stale-get:bytes"
		}
	}
	if post := c.canon(); post != pre {
		fail("readonly-call-changed-state@GetObject", map[string]any{"before": pre, "after": post})
	}
	return fails
}

// checkPersist: write the heap to a fresh image; (a) the image itself holds every live object's
// bytes at prefix+offset inside the block, prefix and checksum well-formed (independent of the
// library's readers); (b) LoadFromFile gives a heap on which everything holds; (c) the read-only
// reader returns the same bytes; (d) re-write byte identity, WriteAt identity.
// Mutates the heap (addresses): call on a throw-away replay only.
func (c *vfC15Ctx) checkPersist() (fails []vfC15Fail) {
	seenKey := map[string]bool{}
	fail := func(key string, d map[string]any) {
		if !seenKey[key] {
			seenKey[key] = true
			fails = append(fails, vfC15Fail{key, d})
		}
	}
	sb := vfKitSB()
	h := c.h
	grown := h.RootIndirectBlock != nil
	cls := func(ob *vfC15Obj) string { return c.lossClass(ob, grown) }
	m1 := vfKitNewMem()
	a1, err := h.WriteToFile(m1, m1, sb)
	if err != nil {
		if grown {
			fail("grown-heap-not-persisted/write-error", map[string]any{"err": vfKitErrText(err), "call": "WriteToFile"})
		} else {
			fail("write-error@WriteToFile", map[string]any{"err": vfKitErrText(err)})
		}
		return
	}
	img := m1.snapshot()
	le := binary.LittleEndian
	prefix := uint64(5 + 8 + int(h.Header.HeapOffsetSize))
	// (a) independent look at the image
	if len(m1.allocs) != 2 {
		fail("unexpected-allocations@WriteToFile", map[string]any{"allocs": m1.allocs})
		return
	}
	hsz := m1.allocs[0][1]
	dbAddr, dbSize := m1.allocs[1][0], m1.allocs[1][1]
	if a1 != m1.allocs[0][0] || uint64(len(img)) < a1+hsz || string(img[a1:a1+4]) != "FRHP" ||
		le.Uint32(img[a1+hsz-4:]) != crc32.ChecksumIEEE(img[a1:a1+hsz-4]) && le.Uint32(img[a1+hsz-4:]) != vfC14Lookup3(img[a1:a1+hsz-4], 0) {
		fail("image-header-malformed", map[string]any{})
	}
	if !grown {
		if uint64(len(img)) < dbAddr+dbSize || dbSize != c.cfg.block {
			fail("image-block-short", map[string]any{"len": len(img), "block_addr": dbAddr, "block_size": dbSize})
		} else {
			blk := img[dbAddr : dbAddr+dbSize]
			if string(blk[0:4]) != "FHDB" || blk[4] != 0 || le.Uint64(blk[5:13]) != a1 {
				fail("image-block-prefix-malformed", map[string]any{"prefix": fmt.Sprintf("%x", blk[:prefix])})
			}
			for _, ob := range c.live {
				off, ln := c.idRange(ob.id)
				s, e := prefix+off, prefix+off+ln
				d := map[string]any{"object_offset": off, "object_len": ln, "block": c.cfg.block, "prefix": prefix}
				switch {
				case e > dbSize:
					fail(cls(ob)+"/image(object-cut-at-block-end)", d)
				case !bytes.Equal(blk[s:e], ob.data):
					if e > dbSize-4 {
						fail(cls(ob)+"/image(checksum-over-object)", d)
					} else {
						fail("image-bytes-wrong", d)
					}
				}
			}
		}
	}
	// (b) load
	h2 := NewWritableFractalHeap(c.cfg.block)
	lerr := h2.LoadFromFile(m1, a1, sb)
	if lerr != nil {
		if grown {
			fail("grown-heap-not-persisted/load-error", map[string]any{"err": vfKitErrText(lerr)})
		} else {
			fail("load-error", map[string]any{"err": vfKitErrText(lerr)})
		}
	} else {
		ok := true
		for _, ob := range c.live {
			got, gerr := h2.GetObject(ob.id)
			if gerr != nil || !bytes.Equal(got, ob.data) {
				ok = false
				shape := "get-error"
				if gerr == nil {
					shape = "get-wrong-bytes"
				}
				off, ln := c.idRange(ob.id)
				fail(cls(ob)+"/load-"+shape, map[string]any{"object_offset": off, "object_len": ln, "block": c.cfg.block, "err": vfKitErrText(gerr)})
			}
		}
		if h2.Header.NumManagedObjects != uint64(len(c.live)) || h2.Header.FreeSpace != h.Header.FreeSpace ||
			h2.Header.ManagedSpaceOffset != h.Header.ManagedSpaceOffset || h2.DirectBlock.FreeOffset != h.DirectBlock.FreeOffset {
			fail("load-header-differs", map[string]any{"count": h2.Header.NumManagedObjects, "free": h2.Header.FreeSpace, "want_count": len(c.live), "want_free": h.Header.FreeSpace})
		}
		if ok {
			// (d) re-write of the loaded heap into a fresh image and WriteAt in place: identical bytes
			m2 := vfKitNewMem()
			if _, err := h2.WriteToFile(m2, m2, sb); err != nil {
				fail("write-error@WriteToFile(reloaded)", map[string]any{"err": vfKitErrText(err)})
			} else if d := vfKitFirstDiff(img, m2.data); d >= 0 {
				fail("rewrite-not-byte-identical", map[string]any{"first_diff": d})
			}
			h3 := NewWritableFractalHeap(c.cfg.block)
			if err := h3.LoadFromFile(m1, a1, sb); err == nil {
				if err := h3.WriteAt(m1, sb); err != nil {
					fail("write-error@WriteAt", map[string]any{"err": vfKitErrText(err)})
				} else if d := vfKitFirstDiff(img, m1.data); d >= 0 {
					fail("writeat-not-byte-identical", map[string]any{"first_diff": d})
				}
			}
		}
	}
	// (c) the read-only reader on the written image
	ro, oerr := OpenFractalHeap(vfKitMemOf(img, 0), a1, sb.LengthSize, sb.OffsetSize, sb.Endianness)
	if oerr != nil {
		fail("reader-open-error", map[string]any{"err": vfKitErrText(oerr)})
		return
	}
	for _, ob := range c.live {
		got, rerr := ro.ReadObject(ob.id)
		if rerr != nil || !bytes.Equal(got, ob.data) {
			shape := "reader-error"
			if rerr == nil {
				shape = "reader-wrong-bytes"
			}
			off, ln := c.idRange(ob.id)
			fail(cls(ob)+"/"+shape, map[string]any{"object_offset": off, "object_len": ln, "block": c.cfg.block, "err": vfKitErrText(rerr)})
		}
	}
	return fails
}

// ---------------------------------------------------------------------------------------------
// BFS
// ---------------------------------------------------------------------------------------------

type vfC15Succ struct {
	op      vfC15Op
	key     [20]byte // SHA-256 prefix of (complete private state | model)
	log     [20]byte // SHA-256 prefix of the observation log of the last op
	pruned  bool
	skip    bool
	outcome string
	fails   []vfC15Fail
}

func vfC15BFS(r *vkit.Run, cfg *vfC15Cfg, maxDepth int, maxStates int) {
	report := func(path []vfC15Op, fs []vfC15Fail) {
		for _, f := range fs {
			d := map[string]any{"block_size": cfg.block, "path": cfg.pathString(path)}
			for k, v := range f.detail {
				d[k] = v
			}
			r.Fail(f.key, d)
		}
	}
	hash := func(s string) (o [20]byte) {
		h := sha256.Sum256([]byte(s))
		copy(o[:], h[:20])
		return
	}
	seen := map[[20]byte]struct{}{}
	seen[hash(vfC15NewCtx(cfg).key())] = struct{}{}
	frontier := [][]vfC15Op{{}}
	var nTrans, nTraces, nAmbig int64
	depth := 0
	{
		c := vfC15Replay(cfg, nil)
		report(nil, c.checkState("initial"))
		report(nil, c.checkPersist())
	}
	for len(frontier) > 0 {
		if depth >= maxDepth {
			r.Set(fmt.Sprintf("bfs_block%d_frontier_at_depth_bound", cfg.block), len(frontier))
			break
		}
		if r.Expired() {
			r.Cap("C15 BFS time budget")
			break
		}
		if len(seen) > maxStates {
			r.Cap(fmt.Sprintf("C15 BFS state bound %d", maxStates))
			break
		}
		results := make([][]vfC15Succ, len(frontier))
		traces := make([]int64, len(frontier))
		ambig := make([]int64, len(frontier))
		vkit.ParallelFor(len(frontier), func(i int) {
			path := frontier[i]
			base := vfC15Replay(cfg, path)
			traces[i]++
			run := func(op vfC15Op) vfC15Succ {
				s := vfC15Succ{op: op}
				r.Guard("bfs/", map[string]any{"path": cfg.pathString(append(append([]vfC15Op(nil), path...), op))}, func() {
					c := vfC15Replay(cfg, path)
					traces[i]++
					c.log.Reset()
					s.fails = c.apply(op)
					if c.skip {
						s.skip = true
						return
					}
					if !c.pruned {
						s.fails = append(s.fails, c.checkState(strings.SplitN(cfg.opString(op), "(", 2)[0])...)
					}
					s.key, s.pruned, s.outcome, s.log = hash(c.key()), c.pruned, c.outcome, hash(c.log.String())
				})
				return s
			}
			var out []vfC15Succ
			for _, op := range base.enabled() {
				if op.K == vfC15Ins && base.h.RootIndirectBlock != nil && len(base.h.DirectBlocks) >= 2 {
					// enumerate the possible map iteration orders: every child block that accepts the object
					n := 0
					for j := range vfKitSortedKeys(base.h.DirectBlocks) {
						f := op
						f.B = uint8(1 + j)
						if s := run(f); !s.skip {
							out = append(out, s)
							n++
						}
					}
					if n >= 2 {
						ambig[i]++
					}
					if n > 0 {
						continue
					}
				}
				if s := run(op); !s.skip {
					out = append(out, s)
				}
			}
			results[i] = out
		})
		var next [][]vfC15Op
		var nextKey, nextLog [][20]byte
		for i, out := range results {
			nTraces += traces[i]
			nAmbig += ambig[i]
			for _, s := range out {
				nTrans++
				r.Outcome(s.outcome)
				p := append(append(make([]vfC15Op, 0, len(frontier[i])+1), frontier[i]...), s.op)
				if len(s.fails) > 0 {
					report(p, s.fails)
				}
				if s.pruned || s.key == ([20]byte{}) {
					continue
				}
				if _, ok := seen[s.key]; ok {
					continue
				}
				seen[s.key] = struct{}{}
				next = append(next, p)
				nextKey = append(nextKey, s.key)
				nextLog = append(nextLog, s.log)
			}
		}
		// phase B on every new state: second execution must give identical observations; persistence
		checks := make([][]vfC15Fail, len(next))
		vkit.ParallelFor(len(next), func(i int) {
			path := next[i]
			r.Guard("state-check/", map[string]any{"path": cfg.pathString(path)}, func() {
				c := vfC15Replay(cfg, path[:len(path)-1])
				c.log.Reset()
				c.apply(path[len(path)-1])
				var fs []vfC15Fail
				if k := c.key(); hash(k) != nextKey[i] || hash(c.log.String()) != nextLog[i] {
					fs = append(fs, vfC15Fail{"nondeterministic-execution", map[string]any{"second_state": k, "second_log": c.log.String()}})
				}
				fs = append(fs, c.checkPersist()...)
				checks[i] = fs
			})
		})
		for i := range next {
			nTraces++
			if len(checks[i]) > 0 {
				report(next[i], checks[i])
			}
		}
		frontier = next
		depth++
	}
	r.States(int64(len(seen)))
	r.Transitions(nTrans)
	r.Traces(nTraces)
	r.Cases(nTrans)
	r.Distinct("transitions", nTrans)
	r.Set(fmt.Sprintf("bfs_block%d_states", cfg.block), len(seen))
	r.Set(fmt.Sprintf("bfs_block%d_transitions", cfg.block), nTrans)
	r.Set(fmt.Sprintf("bfs_block%d_depth", cfg.block), depth)
	r.Set(fmt.Sprintf("bfs_block%d_fixpoint", cfg.block), len(frontier) == 0)
	r.Set("inserts_whose_placement_depends_on_map_iteration_order", nAmbig)
}

// ---------------------------------------------------------------------------------------------
// Production block sizes: single executions around the capacity edge.
// ---------------------------------------------------------------------------------------------

func vfC15Production(r *vkit.Run, block uint64, scenarios map[string][]int) {
	names := make([]string, 0, len(scenarios))
	for n := range scenarios {
		names = append(names, n)
	}
	sort.Strings(names)
	tag := fmt.Sprintf("%dKiB:", block/1024)
	for _, name := range names {
		sizes := scenarios[name]
		cfg := &vfC15Cfg{block: block, sizes: sizes, maxLive: 1 << 30, light: true}
		short := sizes
		if len(short) > 24 {
			short = append(append([]int(nil), sizes[:3]...), sizes[len(sizes)-6:]...)
		}
		inserted := 0
		report := func(fs []vfC15Fail) {
			for _, f := range fs {
				d := map[string]any{"block_size": block, "scenario": name, "sizes(first 3,last 6 if long)": short, "n_sizes": len(sizes), "inserted": inserted}
				for k, v := range f.detail {
					if s, ok := v.(string); ok && len(s) > 300 {
						v = s[:300] + "…"
					}
					d[k] = v
				}
				r.Fail(f.key, d)
			}
		}
		c := vfC15NewCtx(cfg)
		var path []vfC15Op
		var cum uint64
		usable := block - 19
		for step, sz := range sizes {
			op := vfC15Op{K: vfC15Ins, A: uint16(step)}
			path = append(path, op)
			before := cum
			cum += uint64(sz)
			// checkpoints: the last three inserts and every insert that crosses usable capacity,
			// the block size or the 64 KiB offset boundary
			check := step >= len(sizes)-3
			for _, edge := range []uint64{usable, block, 65536} {
				if before <= edge && cum >= edge {
					check = true
				}
			}
			stop := false
			r.Guard("production/", map[string]any{"block": block, "scenario": name, "step": step}, func() {
				fs := c.apply(op)
				inserted = step + 1
				r.Outcome(tag + c.outcome)
				if !c.pruned && check {
					fs = append(fs, c.checkState("InsertObject")...)
				}
				if !c.pruned && check {
					// persistence on a throw-away replay, then one modification cycle on a loaded heap
					t1 := vfC15Replay(cfg, path)
					fs = append(fs, t1.checkPersist()...)
					t2 := vfC15Replay(cfg, path)
					for _, o := range []vfC15Op{{K: vfC15WriteLoad}, {K: vfC15Ow, A: 0}, {K: vfC15WriteAtLoad}, {K: vfC15Del, A: 0}, {K: vfC15WriteAtLoad}} {
						if t2.pruned {
							break
						}
						fs = append(fs, t2.apply(o)...)
						if !t2.pruned {
							fs = append(fs, t2.checkState(strings.SplitN(cfg.opString(o), "(", 2)[0])...)
						}
					}
					r.Traces(2)
				}
				report(fs)
				stop = c.pruned
			})
			r.Transitions(1)
			r.Traces(1)
			if check {
				r.Case(fmt.Sprintf("%s%s:%d", tag, name, step))
			} else {
				r.Case("")
			}
			if stop {
				break
			}
		}
	}
}

func vfC15Fill(n, each int, last ...int) []int {
	out := make([]int, 0, n+len(last))
	for i := 0; i < n; i++ {
		out = append(out, each)
	}
	return append(out, last...)
}

// ---------------------------------------------------------------------------------------------
// Dense-attribute images through core's second readers.
// ---------------------------------------------------------------------------------------------

func vfC15SecondReader(r *vkit.Run) {
	sb := vfKitSB()
	// attribute sizes chosen so that the encoded messages fill a 64 KiB block to just below /
	// at / above the usable capacity; names are short and collision-free.
	for _, sc := range []struct {
		name  string
		elems []int // number of int32 elements per attribute
	}{
		{"three-small", []int{1, 2, 3}},
		{"fill-below-usable", []int{4000, 4000, 4000, 4000}},
		{"fill-to-block-end", nil}, // computed below
	} {
		heap := NewWritableFractalHeap(64 * 1024)
		bt := NewWritableBTreeV2(4096)
		type att struct {
			name string
			raw  []byte
		}
		var model []att
		elems := sc.elems
		mk := func(i, n int) (*core.Attribute, []byte) {
			raw := make([]byte, 4*n)
			for j := range raw {
				raw[j] = byte(1 + (i*31+j*7)%251)
			}
			return &core.Attribute{
				Name:      fmt.Sprintf("att%02d", i),
				Datatype:  &core.DatatypeMessage{Class: core.DatatypeFixed, Size: 4, ClassBitField: 0x08},
				Dataspace: &core.DataspaceMessage{Dimensions: []uint64{uint64(n)}},
				Data:      raw,
			}, raw
		}
		if elems == nil {
			// measure the message overhead with a probe, then fill the block exactly to its end
			a, _ := mk(0, 1)
			enc, err := core.EncodeAttributeFromStruct(a, sb)
			if err != nil {
				r.Set("second_reader_skipped", "EncodeAttributeFromStruct: "+err.Error())
				return
			}
			over := len(enc) - 4
			total := 64 * 1024
			per := (total/4 - over) / 4 * 4 // multiple of 4 bytes of data
			elems = []int{per / 4, per / 4, per / 4}
			used := 3 * (over + per)
			rest := total - used - over
			if rest > 0 && rest%4 == 0 {
				elems = append(elems, rest/4)
			} else {
				elems = append(elems, (rest/4)*1)
			}
		}
		ok := true
		for i, n := range elems {
			a, raw := mk(i, n)
			enc, err := core.EncodeAttributeFromStruct(a, sb)
			if err != nil {
				r.Set("second_reader_skipped", "EncodeAttributeFromStruct: "+err.Error())
				return
			}
			id, err := heap.InsertObject(enc)
			if err != nil {
				ok = false
				break
			}
			if err := bt.InsertRecord(a.Name, binary.LittleEndian.Uint64(id)); err != nil {
				ok = false
				break
			}
			model = append(model, att{a.Name, raw})
		}
		if !ok || heap.RootIndirectBlock != nil {
			r.Outcome("second-reader:" + sc.name + ":not-constructible")
			continue
		}
		mem := vfKitNewMem()
		ha, err1 := heap.WriteToFile(mem, mem, sb)
		ba, err2 := bt.WriteToFile(mem, mem, sb)
		if err1 != nil || err2 != nil {
			r.Fail("second-reader/write-error", map[string]any{"scenario": sc.name})
			continue
		}
		aim := &core.AttributeInfoMessage{Version: 0, Flags: 0, FractalHeapAddr: ha, BTreeNameIndexAddr: ba}
		aimData, err := core.EncodeAttributeInfoMessage(aim, sb)
		if err != nil {
			r.Set("second_reader_skipped", "EncodeAttributeInfoMessage: "+err.Error())
			return
		}
		var attrs []*core.Attribute
		var perr error
		r.Guard("second-reader/", map[string]any{"scenario": sc.name}, func() {
			attrs, perr = core.ParseAttributesFromMessages(mem, []*core.HeaderMessage{{Type: core.MsgAttributeInfo, Data: aimData}}, sb)
		})
		r.Case("second-reader:" + sc.name)
		r.Traces(1)
		usedEnd := heap.DirectBlock.FreeOffset
		tail := usedEnd > 64*1024-19
		cls := "second-reader"
		if tail {
			cls = "block-tail-lost/second-reader"
		}
		if perr != nil {
			r.Outcome("second-reader:" + sc.name + ":error")
			r.Fail(cls+"-error", map[string]any{"scenario": sc.name, "err": vfKitErrText(perr), "bytes_in_block": usedEnd})
			continue
		}
		got := map[string][]byte{}
		for _, a := range attrs {
			got[a.Name] = a.Data
		}
		bad := ""
		if len(got) != len(model) {
			bad = fmt.Sprintf("count %d want %d", len(got), len(model))
		}
		for _, m := range model {
			if g, ok := got[m.name]; !ok {
				bad += " missing:" + m.name
			} else if !bytes.Equal(g, m.raw) {
				bad += fmt.Sprintf(" wrong-bytes:%s@%d", m.name, vfKitFirstDiff(g, m.raw))
			}
		}
		if bad != "" {
			r.Outcome("second-reader:" + sc.name + ":differs")
			r.Fail(cls+"-wrong-bytes", map[string]any{"scenario": sc.name, "what": bad, "bytes_in_block": usedEnd})
		} else {
			r.Outcome("second-reader:" + sc.name + ":equal")
		}
	}
}

// ---------------------------------------------------------------------------------------------

func TestVerif_C15(t *testing.T) {
	r := vkit.Start(t, "C15", "model_checking")
	defer r.Finish()
	r.Rule("explicit-state BFS over the real WritableFractalHeap with 64-byte direct blocks (usable 45 = 64-15-4): ops insert(size in {1,6 (all-zero content),7,20,44,45,46,64,65}) / overwrite same size / overwrite size+-1 / delete / " +
		"WriteToFile+LoadFromFile / WriteAt+LoadFromFile, <=4 live objects, depth 6 quick (thorough deeper); successor = replay on a fresh heap; dedup on (complete private state, model with ids and contents); " +
		"where several child blocks have room every map-iteration choice is a separate successor; each new state is executed twice (identical observations required) and written to an in-memory image: " +
		"object bytes in the image, LoadFromFile, read-only reader, re-write and WriteAt byte identity; every transition is a non-trivial case (distinct (state,op) by construction); " +
		"plus single executions at 64 KiB, 128 KiB and 512 KiB blocks around usable capacity / block size / growth past the first block / the largest managed object size, and dense-attribute images through core.ParseAttributesFromMessages")
	r.Assume("free space is compared with the library's own notion of capacity (sum of block sizes minus live bytes); the prefix/checksum overhead is judged only by observable byte loss")
	r.Assume("what GetObject returns for a stale (deleted) id is not specified by the statement; only 'no panic, no state change' is required")
	r.Assume("forcing a map iteration order = temporarily hiding the other child blocks from fh.DirectBlocks during InsertObject; a forced choice counts only if the library itself put the object into that block")

	sizes := []int{1, vfC15ZeroSize, 7, 20, 44, 45, 46, 64, 65}
	depth, maxStates := 6, 3000000
	if r.Thorough() {
		depth, maxStates = 8, 20000000
	}
	r.Sample(map[string]any{"block": 64, "sizes": sizes, "max_live": 4, "depth": depth})
	vfC15BFS(r, &vfC15Cfg{block: 64, sizes: sizes, maxLive: 4}, depth, maxStates)

	// 64 KiB (dense attribute heaps): usable = 65536-19 = 65517
	k64 := map[string][]int{
		"one-object-usable-1":    {65516, 1, 1},
		"one-object-usable":      {65517, 1},
		"one-object-usable+1":    {65518, 1},
		"one-object-block":       {65536, 1},
		"fill-to-usable-1":       vfC15Fill(15, 4096, 4076, 1, 1),
		"fill-to-usable":         vfC15Fill(15, 4096, 4077, 1),
		"fill-to-usable+1":       vfC15Fill(15, 4096, 4078),
		"fill-to-block-1":        vfC15Fill(15, 4096, 4095, 1, 1),
		"fill-to-block":          vfC15Fill(16, 4096, 1, 1),
		"fill-past-block":        vfC15Fill(16, 4096, 4096, 1),
		"small-objects-to-block": vfC15Fill(255, 257, 1, 1),
	}
	vfC15Production(r, 64*1024, k64)
	// 512 KiB (dense group heaps): heap offsets are 2 bytes wide
	k512 := map[string][]int{
		"offsets-up-to-64KiB":   vfC15Fill(15, 4096, 4095, 1),
		"offsets-past-64KiB":    vfC15Fill(16, 4096, 4096, 1),
		"many-small-past-64KiB": vfC15Fill(255, 300),
		// objects at the largest managed size (the inclusive bound of the id's length field)
		"first-object-max-managed-1": {65535, 1},
		"first-object-max-managed":   {65536, 1},
		"first-object-max-managed+1": {65537, 1},
	}
	vfC15Production(r, 512*1024, k512)
	vfC15Production(r, 128*1024, map[string][]int{
		"first-object-max-managed-1": {65535, 1},
		"first-object-max-managed":   {65536, 1},
		"first-object-max-managed+1": {65537, 1},
		"first-object-65280":         {65280, 255, 1},
	})
	vfC15SecondReader(r)
}
