//go:build verif

package structures

// C18 (b): the incremental rebalancer of WritableBTreeV2 under the controlled scheduler
// (internal/verif/vsched). The sources of this package are rewritten at check time
// (tools/instrument: sync -> vsync, time -> vtime, go/close/receive/select -> vsched), so the
// foreground script below and the background rebalancingLoop run as cooperative threads whose
// every synchronisation operation is a scheduling point chosen by the explorer.

import (
	"encoding/json"
	"fmt"
	"sort"
	"strings"
	"testing"
	"time"

	"github.com/scigolib/hdf5/internal/verif/vkit"
	"github.com/scigolib/hdf5/internal/verif/vsched"
)

const (
	vfC18OpINS = iota
	vfC18OpDEL
	vfC18OpPROG
	vfC18OpSTATS
	vfC18OpSTOP
	vfC18OpDL
	vfC18OpEL
	vfC18OpEI
	vfC18NOps
)

var vfC18OpNames = [...]string{"Insert", "DeleteLazy", "Progress", "LazyStats", "StopIncr", "DisableLazy", "EnableLazy", "EnableIncr"}

// vfC18Spec identifies one case: the foreground script and the start state.
type vfC18Spec struct {
	Script []int `json:"script"` // complete script (prefix + body + suffix)
	Seed   int   `json:"seed"`   // number of underflow node addresses planted after the first EnableLazy (0 = what the API produces)
	Ticks  int   `json:"ticks"`
	Bound  int   `json:"bound"`
}

func (s vfC18Spec) id() string {
	n := make([]string, len(s.Script))
	for i, o := range s.Script {
		n[i] = vfC18OpNames[o]
	}
	return fmt.Sprintf("incremental/seed%d/%s", s.Seed, strings.Join(n, ","))
}

// one execution's instance and observations
type vfC18Inst struct {
	bt       *WritableBTreeV2
	results  []string
	leaks    []string
	progress []RebalancingProgress // from the callback (background thread)
	polled   []RebalancingProgress // from GetIncrementalRebalancingProgress (foreground)
	names    map[string]bool       // sequential model
	expect   []string
	seeded   bool
}

const vfC18NodeSize = 54 // 4 records per leaf, underflow below 2

func vfC18Model(spec vfC18Spec) (expect []string, names map[string]bool) {
	names = map[string]bool{"a": true, "b": true, "c": true}
	lazy, incr := false, false
	next := 0
	for _, o := range spec.Script {
		res := "ok"
		switch o {
		case vfC18OpEL:
			lazy = true
		case vfC18OpEI:
			if !lazy || incr {
				res = "err"
			} else {
				incr = true
			}
		case vfC18OpINS:
			if len(names) >= 4 {
				res = "err"
			} else {
				names[fmt.Sprintf("n%d", next)] = true
			}
			next++
		case vfC18OpDEL:
			victim := vfC18Lowest(names)
			if !lazy || victim == "" {
				res = "err"
			} else {
				delete(names, victim)
			}
		case vfC18OpPROG:
			if !incr {
				res = "err"
			}
		case vfC18OpSTOP:
			incr = false
		case vfC18OpDL:
			lazy = false
		}
		expect = append(expect, res)
	}
	return expect, names
}

func vfC18Lowest(names map[string]bool) string {
	ks := make([]string, 0, len(names))
	for k := range names {
		ks = append(ks, k)
	}
	sort.Strings(ks)
	if len(ks) == 0 {
		return ""
	}
	return ks[0]
}

func vfC18Case(spec vfC18Spec, cur **vfC18Inst) vsched.Case {
	expect, finalNames := vfC18Model(spec)
	setup := func() func() {
		in := &vfC18Inst{bt: NewWritableBTreeV2(vfC18NodeSize), names: map[string]bool{"a": true, "b": true, "c": true}, expect: expect}
		*cur = in
		for i, n := range []string{"a", "b", "c"} {
			if err := in.bt.InsertRecord(n, uint64(i+1)); err != nil {
				panic(err)
			}
		}
		return func() { vfC18Foreground(in, spec) }
	}
	after := func(o *vsched.Outcome) []vsched.Finding {
		in := *cur
		var fs []vsched.Finding
		for _, l := range in.leaks {
			fs = append(fs, vsched.Finding{Key: "goroutine-outlives-stop@" + l})
		}
		if o.Status != "done" || len(o.Panics) > 0 {
			return fs // the scheduler-level finding explains the rest
		}
		if strings.Join(in.results, ",") != strings.Join(expect, ",") {
			fs = append(fs, vsched.Finding{Key: "result-differs-from-sequential/incremental:call-results",
				Detail: map[string]any{"got": in.results, "want": expect}})
		}
		got := map[uint32]bool{}
		for _, r := range in.bt.GetRecords() {
			got[r.NameHash] = true
		}
		want := map[uint32]bool{}
		for n := range finalNames {
			want[jenkinsHash(n)] = true
		}
		same := len(got) == len(want) && int(in.bt.header.TotalRecords) == len(want) && len(in.bt.GetRecords()) == len(want)
		for h := range want {
			same = same && got[h]
		}
		if !same {
			fs = append(fs, vsched.Finding{Key: "result-differs-from-sequential/incremental:records",
				Detail: map[string]any{"got": len(got), "want": len(want), "total": in.bt.header.TotalRecords}})
		}
		for _, p := range append(append([]RebalancingProgress{}, in.polled...), in.progress...) {
			bad := p.NodesRebalanced < 0 || p.NodesRemaining < 0 || p.NodesRebalanced+p.NodesRemaining > spec.Seed || p.IsComplete != (p.NodesRemaining == 0)
			if spec.Seed == 0 {
				bad = bad || p.NodesRemaining != 0 || p.NodesRebalanced != 0
			}
			if bad {
				fs = append(fs, vsched.Finding{Key: "result-differs-from-sequential/incremental:progress",
					Detail: map[string]any{"progress": fmt.Sprintf("%+v", p), "seed": spec.Seed}})
				break
			}
		}
		return fs
	}
	var keyMap func(string) string
	if spec.Seed > 0 {
		// start state the API cannot produce today (UnderflowNodes is never filled by the
		// single-leaf implementation): one key per unsynchronised field, not per function pair
		keyMap = func(k string) string {
			if f := vsched.RaceField(k); f != "" {
				return "planted-underflow:race[" + f + "]"
			}
			return "planted-underflow:" + k
		}
	}
	return vsched.Case{Group: "incremental", ID: spec.id(), Spec: spec, KeyMap: keyMap,
		Cfg:   vsched.Config{Name: spec.id(), MaxTicks: spec.Ticks, Horizon: 400, MaxBound: spec.Bound},
		Setup: setup, After: after}
}

func vfC18Foreground(in *vfC18Inst, spec vfC18Spec) {
	bt := in.bt
	next := 0
	res := func(err error) {
		if err != nil {
			in.results = append(in.results, "err")
		} else {
			in.results = append(in.results, "ok")
		}
	}
	for _, o := range spec.Script {
		vsched.Yield(vfC18OpNames[o]) // the foreground may be preempted between two API calls
		switch o {
		case vfC18OpEL:
			// MaxDelay = 2 ticker intervals: two environment ticks make the next lazy delete rebalance
			bt.EnableLazyRebalancing(LazyRebalancingConfig{Enabled: true, Threshold: 0.05, MaxDelay: 10 * time.Microsecond, BatchSize: 100})
			if spec.Seed > 0 && !in.seeded {
				in.seeded = true
				for i := 0; i < spec.Seed; i++ {
					bt.lazyState.UnderflowNodes = append(bt.lazyState.UnderflowNodes, uint64(0x1000*(i+1)))
				}
			}
			res(nil)
		case vfC18OpEI:
			res(bt.EnableIncrementalRebalancing(IncrementalRebalancingConfig{Enabled: true, Budget: time.Microsecond, Interval: 5 * time.Microsecond,
				ProgressCallback: func(p RebalancingProgress) { in.progress = append(in.progress, p) }}))
		case vfC18OpINS:
			res(bt.InsertRecord(fmt.Sprintf("n%d", next), uint64(100+next)))
			if in.results[len(in.results)-1] == "ok" {
				in.names[fmt.Sprintf("n%d", next)] = true
			}
			next++
		case vfC18OpDEL:
			victim := vfC18Lowest(in.names)
			if victim == "" {
				victim = "absent"
			}
			res(bt.DeleteRecordLazy(victim))
			if in.results[len(in.results)-1] == "ok" {
				delete(in.names, victim)
			}
		case vfC18OpPROG:
			p, err := bt.GetIncrementalRebalancingProgress()
			if err == nil {
				in.polled = append(in.polled, p)
			}
			_ = bt.IsIncrementalRebalancingEnabled()
			res(err)
		case vfC18OpSTATS:
			_, _, _ = bt.GetLazyRebalancingStats()
			res(nil)
		case vfC18OpSTOP:
			res(bt.StopIncrementalRebalancing())
			for _, l := range vsched.Live() {
				in.leaks = append(in.leaks, l)
			}
		case vfC18OpDL:
			res(bt.DisableLazyRebalancing())
		}
	}
}

func vfC18Mode() string {
	if vsched.RaceEnabled {
		return "race"
	}
	return "plain"
}

func vfC18Scripts(maxBody int) [][]int {
	var out [][]int
	var rec func(body []int)
	rec = func(body []int) {
		s := append([]int{vfC18OpEL, vfC18OpEI}, body...)
		s = append(s, vfC18OpSTOP, vfC18OpSTOP)
		out = append(out, s)
		if len(body) == maxBody {
			return
		}
		for o := 0; o < vfC18NOps; o++ {
			rec(append(append([]int{}, body...), o))
		}
	}
	rec(nil)
	return out
}

func TestVerif_C18(t *testing.T) {
	var cur *vfC18Inst
	if rep := vsched.ReplayRequest(); rep != nil {
		if rep.Pkg != "structures" {
			return
		}
		var spec vfC18Spec
		if err := json.Unmarshal(rep.Spec, &spec); err != nil {
			t.Fatal(err)
		}
		vsched.ServeReplay(rep, vfC18Case(spec, &cur))
		return
	}
	r := vkit.Start(t, "C18", "model_checking")
	defer r.Finish()
	if !vsched.Instrumented("structures") {
		t.Fatalf("C18 needs the instrumented build (VERIF_SCHED=1): package structures was compiled from the unrewritten sources")
	}
	d := vsched.NewDriver(r, "structures")
	defer d.Finish()
	r.Rule("incremental rebalancer: every foreground script EnableLazy,EnableIncr + body + StopIncr,StopIncr with every body of <= N calls over " +
		"{Insert, DeleteLazy, Progress, LazyStats, StopIncr, DisableLazy, EnableLazy, EnableIncr} (start: 3 records in a 4-record leaf; plus the same with " +
		"planted underflow-node addresses so that a background session has work), each explored under every schedule of the foreground thread and the " +
		"background loop with <= B preemptions and <= T environment ticks; a case is one script, an execution is one schedule")
	r.Assume("scheduling points are the synchronisation operations (mutex, channel close/receive, select, go, WaitGroup, context cancel) plus the boundary between two API calls; " +
		"unsynchronised memory accesses between two points are not interleaved but judged by the race detector in every explored schedule (-race pass)")
	r.Assume("a virtual ticker fires only when the explorer lets it (<= T ticks per execution, plus at most 2 grace ticks before a state is called a deadlock); the virtual clock advances by the ticker interval per tick")

	if vp := vkit.ReplayPath(); vp != "" {
		var det struct {
			Replay vsched.Replay `json:"replay"`
		}
		if _, err := vkit.LoadReplay(vp, &det); err == nil && det.Replay.Pkg == "structures" {
			var spec vfC18Spec
			_ = json.Unmarshal(det.Replay.Spec, &spec)
			c := vfC18Case(spec, &cur)
			keys, out := vsched.ReplayInFreshProcess(det.Replay)
			fmt.Printf("NOTE replay of %s in a fresh process: keys=%q\n", det.Replay.Case, keys)
			for _, k := range keys {
				if c.KeyMap != nil {
					k = c.KeyMap(k)
				}
				r.Fail(k, map[string]any{"replay": det.Replay, "output": out})
			}
		}
		return
	}

	// passes: (max body length, ticks, preemption bound). Thorough first repeats the quick
	// pass, then raises ticks and bound, then the script length; a pass that does not finish
	// within the budget is recorded as a cap (never a silent pass).
	type pass struct{ body, ticks, bound int }
	passes := []pass{{3, 2, 2}}
	if r.Thorough() {
		passes = []pass{{3, 2, 2}, {3, 3, 3}, {4, 2, 2}}
	}
	maxBody, ticks, bound := 0, 0, 0
	for pi, ps := range passes {
		for _, seed := range []int{0, 2} {
			mb := ps.body
			if seed > 0 {
				mb--
			}
			for _, s := range vfC18Scripts(mb) {
				if r.Expired() {
					r.Cap(fmt.Sprintf("time budget: pass %d (body<=%d ticks<=%d bound<=%d) not completed", pi, ps.body, ps.ticks, ps.bound))
					goto done
				}
				if pi == 2 && len(s) < 4+4 && seed == 0 || pi == 2 && seed > 0 && len(s) < 4+3 {
					continue // shorter scripts were explored by the earlier passes
				}
				spec := vfC18Spec{Script: s, Seed: seed, Ticks: ps.ticks, Bound: ps.bound}
				d.Run(vfC18Case(spec, &cur))
			}
		}
		if ps.body > maxBody {
			maxBody = ps.body
		}
		if ps.ticks > ticks {
			ticks = ps.ticks
		}
		if ps.bound > bound {
			bound = ps.bound
		}
		r.Set("incremental_passes_completed_"+vfC18Mode(), pi+1)
	}
done:
	r.Set("incremental_script_body_max", fmt.Sprint(maxBody))
	r.Set("incremental_ticks_max", fmt.Sprint(ticks))
	r.Set("incremental_preemption_bound", fmt.Sprint(bound))
	r.Sample(map[string]any{"case": vfC18Spec{Script: []int{vfC18OpEL, vfC18OpEI, vfC18OpDEL, vfC18OpPROG, vfC18OpSTOP, vfC18OpSTOP}}.id()})
}
