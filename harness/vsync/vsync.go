//go:build verif

// Package vsync replaces "sync" in the instrumented copies of the code under test (C18).
// Every operation is first a scheduling point of vsched and then the REAL operation, so the
// race detector sees exactly the happens-before edges of the real program. Outside an
// exploration the shims are plain pass-throughs.
//
// Pool is a deterministic adversarial pool (see Pool).
package vsync

import (
	"sync"
	"sync/atomic"

	"github.com/scigolib/hdf5/internal/verif/vsched"
)

// Locker is sync.Locker.
type Locker = sync.Locker

// Mutex has the method set of sync.Mutex.
type Mutex struct{ mu sync.Mutex }

func (m *Mutex) Lock() {
	if vsched.Op(vsched.KLock, m) {
		m.mu.Lock()
	}
}

func (m *Mutex) Unlock() {
	if vsched.Op(vsched.KUnlock, m) {
		m.mu.Unlock()
	}
}

// TryLock is not used by the code under test; it is refused rather than half-modelled.
func (m *Mutex) TryLock() bool { panic("vsync: Mutex.TryLock is not modelled") }

// RWMutex has the method set of sync.RWMutex. A writer that has called Lock blocks new
// readers (as in the real implementation), modelled by a separate "lock requested" step.
type RWMutex struct{ mu sync.RWMutex }

func (m *RWMutex) Lock() {
	if vsched.Op(vsched.KRWLockReq, m) && vsched.Op(vsched.KRWLock, m) {
		m.mu.Lock()
	}
}

func (m *RWMutex) Unlock() {
	if vsched.Op(vsched.KRWUnlock, m) {
		m.mu.Unlock()
	}
}

func (m *RWMutex) RLock() {
	if vsched.Op(vsched.KRLock, m) {
		m.mu.RLock()
	}
}

func (m *RWMutex) RUnlock() {
	if vsched.Op(vsched.KRUnlock, m) {
		m.mu.RUnlock()
	}
}

func (m *RWMutex) TryLock() bool  { panic("vsync: RWMutex.TryLock is not modelled") }
func (m *RWMutex) TryRLock() bool { panic("vsync: RWMutex.TryRLock is not modelled") }

// RLocker returns a Locker for the read side.
func (m *RWMutex) RLocker() Locker { return (*rlocker)(m) }

type rlocker RWMutex

func (r *rlocker) Lock()   { (*RWMutex)(r).RLock() }
func (r *rlocker) Unlock() { (*RWMutex)(r).RUnlock() }

// WaitGroup has the method set of sync.WaitGroup.
type WaitGroup struct{ wg sync.WaitGroup }

func (w *WaitGroup) Add(n int) {
	if vsched.OpN(vsched.KWGAdd, w, int64(n)) {
		w.wg.Add(n)
	}
}

func (w *WaitGroup) Done() { w.Add(-1) }

func (w *WaitGroup) Wait() {
	if vsched.Op(vsched.KWGWait, w) {
		w.wg.Wait()
	}
}

// Go runs f in a new (scheduled) goroutine, like sync.WaitGroup.Go.
func (w *WaitGroup) Go(f func()) {
	w.Add(1)
	vsched.Go("WaitGroup.Go", func() {
		defer w.Done()
		f()
	})
}

// Once has the method set of sync.Once.
type Once struct {
	m    Mutex
	done bool
}

func (o *Once) Do(f func()) {
	o.m.Lock()
	defer o.m.Unlock()
	if !o.done {
		defer func() { o.done = true }()
		f()
	}
}

// ---------------------------------------------------------------------------------------

// Pool replaces sync.Pool. In adversarial mode (always during an exploration, and on request
// outside) it is a LIFO stack: a released object is handed to the very next Get from any
// goroutine, and a released []byte is overwritten with a poison pattern over its whole
// capacity. Both are legal behaviours of a pool and of its owner, so they cannot create a
// false alarm; they turn "a pooled buffer is still referenced after its release" into a
// deterministic wrong answer (and, under -race, into a race report, because the hand-over of
// an item carries exactly the release/acquire edge that sync.Pool documents, nothing more).
type Pool struct {
	New func() any

	real  sync.Pool
	stack [poolCap]*poolItem
	n     int
	reg   bool
}

const poolCap = 256

// Poison is the byte written over released buffers.
const Poison = 0xA5

type poolItem struct {
	v    any
	flag atomic.Uint32
}

var (
	adversarial bool
	pools       []*Pool
	// PoolGets / PoolPuts / PoolReuses count adversarial pool traffic (evidence).
	PoolGets, PoolPuts, PoolReuses int64
	// PoolDoublePuts counts releases of a byte buffer whose backing array is already in the
	// pool: the pool would hand the same memory to two owners.
	PoolDoublePuts int64
)

// SetAdversarial switches the adversarial mode for use outside an exploration.
func SetAdversarial(on bool) {
	adversarial = on
	resetPools()
}

//go:norace
func resetPools() {
	PoolDoublePuts = 0
	for _, p := range pools {
		for i := 0; i < p.n; i++ {
			p.stack[i] = nil
		}
		p.n = 0
	}
}

func init() { vsched.RegisterReset(resetPools) }

//go:norace
func (p *Pool) register() {
	if !p.reg {
		p.reg = true
		pools = append(pools, p)
	}
}

//go:norace
func (p *Pool) pop() *poolItem {
	PoolGets++
	if p.n == 0 {
		return nil
	}
	p.n--
	it := p.stack[p.n]
	p.stack[p.n] = nil
	PoolReuses++
	return it
}

//go:norace
func (p *Pool) push(it *poolItem) {
	PoolPuts++
	if b, ok := it.v.([]byte); ok && cap(b) > 0 {
		first := &b[:1][0]
		for i := 0; i < p.n; i++ {
			if o, ok := p.stack[i].v.([]byte); ok && cap(o) > 0 && &o[:1][0] == first {
				PoolDoublePuts++
				break
			}
		}
	}
	if p.n < poolCap {
		p.stack[p.n] = it
		p.n++
	}
}

func (p *Pool) Get() any {
	active := vsched.Active()
	if !active && !adversarial {
		if p.real.New == nil {
			p.real.New = p.New
		}
		return p.real.Get()
	}
	p.register()
	if !vsched.Op(vsched.KPoolGet, p) {
		return p.New()
	}
	it := p.pop()
	if it == nil {
		if p.New == nil {
			return nil
		}
		return p.New()
	}
	it.flag.Load() // acquire: pairs with the Store in Put (the edge sync.Pool guarantees)
	return it.v
}

func (p *Pool) Put(x any) {
	active := vsched.Active()
	if !active && !adversarial {
		p.real.Put(x)
		return
	}
	p.register()
	if !vsched.Op(vsched.KPoolPut, p) {
		return
	}
	if b, ok := x.([]byte); ok {
		b = b[:cap(b)]
		for i := range b {
			b[i] = Poison
		}
	}
	it := &poolItem{v: x}
	it.flag.Store(1) // release
	p.push(it)
}
