//go:build verif

package vsched

import (
	"encoding/json"
	"os"
	"regexp"
	"sort"
	"strconv"
	"strings"
)

// RaceReport is one report of the Go race detector, reduced to a finding key.
type RaceReport struct {
	Key  string // race{<funcA>:<R|W>,<funcB>:<R|W>} — innermost repository functions, sorted
	Text string
}

var (
	raceOff  int64
	racePath string
)

// RaceLogPath returns the detector's log file of this process ("" if GORACE has no log_path).
func RaceLogPath() string {
	if racePath != "" {
		return racePath
	}
	for _, f := range strings.Fields(os.Getenv("GORACE")) {
		if strings.HasPrefix(f, "log_path=") {
			racePath = strings.TrimPrefix(f, "log_path=") + "." + strconv.Itoa(os.Getpid())
		}
	}
	return racePath
}

// RacePoll returns the reports the detector has written since the previous call.
func RacePoll() []RaceReport {
	p := RaceLogPath()
	if p == "" {
		return nil
	}
	st, err := os.Stat(p)
	if err != nil || st.Size() <= raceOff {
		return nil
	}
	f, err := os.Open(p)
	if err != nil {
		return nil
	}
	defer f.Close()
	buf := make([]byte, st.Size()-raceOff)
	n, _ := f.ReadAt(buf, raceOff)
	text := string(buf[:n])
	// only complete reports: ==================\nWARNING ... \n==================\n
	var out []RaceReport
	const bar = "==================\n"
	consumed := 0
	for {
		i := strings.Index(text[consumed:], bar+"WARNING: DATA RACE")
		if i < 0 {
			break
		}
		start := consumed + i
		j := strings.Index(text[start+len(bar):], bar)
		if j < 0 {
			break
		}
		end := start + len(bar) + j + len(bar)
		body := text[start:end]
		out = append(out, RaceReport{Key: RaceKey(body), Text: body})
		consumed = end
	}
	raceOff += int64(consumed)
	return out
}

var raceHdr = regexp.MustCompile(`(?i)^(previous )?(atomic )?(read|write) at 0x[0-9a-f]+ by `)

// RaceKey builds the finding key of a detector report:
//
//	race{<funcA>:<R|W>,<funcB>:<R|W>}[<field>]
//
// funcA/funcB are the innermost repository functions of the two accesses (sorted), and
// <field> is the struct field / variable both source lines name (omitted if none is found),
// so that a new unsynchronised field inside an already known pair of functions is a new key.
func RaceKey(report string) string {
	lines := strings.Split(report, "\n")
	var parts []string
	var srcs [][2]string // file, line of the innermost repository frame per access
	var kinds []string
	for i := 0; i < len(lines); i++ {
		m := raceHdr.FindStringSubmatch(lines[i])
		if m == nil {
			continue
		}
		kind := "W"
		if strings.EqualFold(m[3], "read") {
			kind = "R"
		}
		fn := "?"
		first := ""
		src := [2]string{}
		for j := i + 1; j+1 < len(lines) && strings.HasPrefix(lines[j], "  "); j += 2 {
			name := strings.TrimSpace(lines[j])
			file := strings.TrimSpace(lines[j+1])
			if k := strings.LastIndex(name, "("); k > 0 {
				name = name[:k]
			}
			if first == "" && !strings.HasPrefix(name, "runtime.") {
				first = name
			}
			if !strings.HasPrefix(name, "github.com/scigolib/hdf5") {
				continue
			}
			if strings.Contains(name, "/internal/verif/") || strings.Contains(file, "zz_verif_") {
				continue
			}
			fn = shortFunc(name)
			if sp := strings.Fields(file); len(sp) > 0 {
				if c := strings.LastIndex(sp[0], ":"); c > 0 {
					src = [2]string{sp[0][:c], sp[0][c+1:]}
				}
			}
			break
		}
		if fn == "?" && first != "" {
			fn = "harness:" + shortFunc(first)
		}
		parts = append(parts, fn+":"+kind)
		srcs = append(srcs, src)
		kinds = append(kinds, kind)
	}
	field := ""
	if len(srcs) == 2 {
		a, b := sourceLine(srcs[0]), sourceLine(srcs[1])
		if kinds[0] != "W" && kinds[1] == "W" {
			a, b = b, a // pick the name from the writing line
		}
		field = commonField(a, b)
	}
	sort.Strings(parts)
	key := "race{" + strings.Join(parts, ",") + "}"
	if field != "" {
		key += "[" + field + "]"
	}
	return key
}

var (
	overlayMap  map[string]string
	sourceCache = map[string][]string{}
	identRE     = regexp.MustCompile(`[A-Za-z_][A-Za-z0-9_]*`)
)

func sourceLine(src [2]string) string {
	if src[0] == "" {
		return ""
	}
	if overlayMap == nil {
		overlayMap = map[string]string{}
		if p := os.Getenv("VERIF_EXTRA_OVERLAY"); p != "" {
			if b, err := os.ReadFile(p); err == nil {
				var doc struct{ Replace map[string]string }
				if json.Unmarshal(b, &doc) == nil {
					overlayMap = doc.Replace
				}
			}
		}
	}
	path := src[0]
	if r, ok := overlayMap[path]; ok && r != "" {
		path = r
	}
	ls, ok := sourceCache[path]
	if !ok {
		b, _ := os.ReadFile(path)
		ls = strings.Split(string(b), "\n")
		sourceCache[path] = ls
	}
	n, _ := strconv.Atoi(src[1])
	if n < 1 || n > len(ls) {
		return ""
	}
	l := ls[n-1]
	if c := strings.Index(l, "//"); c >= 0 {
		l = l[:c]
	}
	return l
}

// commonField returns the last field-like identifier of line a (preceded by '.' or followed
// by ':' in a composite literal) that line b also names.
func commonField(a, b string) string {
	cand := func(l string) []string {
		var out []string
		for _, loc := range identRE.FindAllStringIndex(l, -1) {
			id := l[loc[0]:loc[1]]
			dot := loc[0] > 0 && l[loc[0]-1] == '.'
			colon := loc[1] < len(l) && l[loc[1]] == ':' && !(loc[1]+1 < len(l) && l[loc[1]+1] == '=')
			call := loc[1] < len(l) && l[loc[1]] == '('
			if (dot || colon) && !call {
				out = append(out, id)
			}
		}
		return out
	}
	inB := map[string]bool{}
	for _, id := range cand(b) {
		inB[id] = true
	}
	ca := cand(a)
	for i := len(ca) - 1; i >= 0; i-- {
		if inB[ca[i]] {
			return ca[i]
		}
	}
	return ""
}

func shortFunc(name string) string {
	name = strings.TrimPrefix(name, "github.com/scigolib/hdf5/internal/")
	name = strings.TrimPrefix(name, "github.com/scigolib/hdf5/")
	name = strings.TrimPrefix(name, "github.com/scigolib/")
	// structures.(*T).m -> T.m ; structures.f -> structures.f
	if i := strings.Index(name, ".(*"); i >= 0 {
		rest := name[i+3:]
		rest = strings.Replace(rest, ")", "", 1)
		return rest
	}
	return name
}

var raceFieldRE = regexp.MustCompile(`^race\{.*\}\[([A-Za-z0-9_]+)\]$`)

// RaceField returns the field part of a race key ("" if it has none).
func RaceField(key string) string {
	if m := raceFieldRE.FindStringSubmatch(key); m != nil {
		return m[1]
	}
	return ""
}
