//go:build verif

package vsched

import (
	"fmt"
	"os"
	"runtime"
	"sort"
	"strings"
)

// Config bounds one exploration.
type Config struct {
	Name        string
	MaxTicks    int         // environment ticks per execution
	Horizon     int         // max transitions per execution (default 400)
	MaxBound    int         // preemption bound (inclusive); schedules are explored in order of their preemption count
	Expired     func() bool // time budget of the run (may be nil)
	ReplayEvery int         // every n-th execution is replayed and compared (default 64)
}

// Panic is a panic that ended a thread.
type Panic struct {
	Thread string
	Value  string
	Stack  string
}

// Outcome describes one execution.
type Outcome struct {
	Schedule    []uint8 // the choice taken at every decision
	Steps       []Step
	Status      string // done | idle | deadlock | horizon | fatal:<key>
	FatalSite   string // innermost repository function of the fatal operation
	Blocked     string // for deadlock: "<thread>:<op>" of every blocked thread, joined by "|"
	Idle        []string
	Panics      []Panic
	Threads     []string
	Preemptions int
	Ticks       int
	Grace       int
}

// Trace renders the steps for a replay artefact.
func (o *Outcome) Trace() []string {
	out := make([]string, 0, len(o.Steps))
	for _, s := range o.Steps {
		name := "?"
		if int(s.Thread) < len(o.Threads) {
			name = o.Threads[s.Thread]
		}
		x := fmt.Sprintf("%s %s #%d", name, s.Kind, s.Obj)
		if s.Kind == KSelect || s.Kind == KSelectNB {
			x += fmt.Sprintf(" case=%d", s.Case)
		}
		if s.Tick {
			x += " TICK"
		}
		out = append(out, x)
	}
	return out
}

// Stats is the evidence of one exploration.
type Stats struct {
	Executions   int64
	PerBound     []int64
	Transitions  int64
	MaxSteps     int
	States       int // distinct scheduler-state hashes seen
	HorizonHits  int64
	Replays      int64
	PrunedBound  int64 // alternatives not taken because they exceed MaxBound
	Capped       string
	Completed    int // highest bound fully explored (-1 = none)
	GraceTicks   int64
	MaxThreads   int
	StatusCounts map[string]int64
}

type item struct {
	prefix  []uint8
	preempt int
	want    uint64
}

// HarnessError aborts the process: the harness itself (not the code under test) misbehaved.
func HarnessError(format string, a ...any) {
	fmt.Printf("HARNESS-ERROR "+format+"\n", a...)
	os.Exit(2)
}

//go:norace
func begin(pfx []uint8, cfg *Config) {
	for i := range threads {
		threads[i] = thread{}
	}
	for i := int32(0); i < nobjs; i++ {
		objs[i] = object{}
	}
	nthreads, nobjs, nctxs, nsteps, ndecs = 0, 0, 0, 0, 0
	prefix = pfx
	horizon = int32(cfg.Horizon)
	if horizon <= 0 || horizon > MaxSteps {
		horizon = 400
	}
	maxTicks = int32(cfg.MaxTicks)
	ticksUsed, graceUsed, clock = 0, 0, 0
	horizonHit, diverged, tableFull, fatalKey = false, false, false, ""
	fatalThr = -1
	over, aborting = false, false
	turn = -1
	cur = 0
	active = true
}

//go:norace
func kick() {
	cur = 0
	schedule(-1, false)
}

//go:norace
func finish() {
	active = false
	aborting = false
	prefix = nil
}

//go:norace
func harvest(o *Outcome) (alts [][]alt) {
	o.Schedule = make([]uint8, ndecs)
	alts = make([][]alt, ndecs)
	for i := int32(0); i < ndecs; i++ {
		o.Schedule[i] = chosen[i]
		a := make([]alt, decs[i].n)
		for k := int32(0); k < decs[i].n; k++ {
			a[k] = decs[i].alts[k]
		}
		alts[i] = a
		if a[chosen[i]].preempt {
			o.Preemptions++
		}
	}
	o.Steps = make([]Step, nsteps)
	for i := int32(0); i < nsteps; i++ {
		o.Steps[i] = steps[i]
	}
	o.Ticks = int(ticksUsed)
	o.Grace = int(graceUsed)
	var blocked []string
	for i := int32(0); i < nthreads; i++ {
		th := &threads[i]
		o.Threads = append(o.Threads, th.name)
		if th.panicked {
			o.Panics = append(o.Panics, Panic{Thread: th.name, Value: th.panicVal, Stack: th.panicStk})
		}
		if th.finished {
			continue
		}
		if waitsForTick(i) {
			o.Idle = append(o.Idle, th.name)
		} else {
			// the innermost repository function of the blocked call ("harness" if the thread is
			// blocked in harness code, e.g. joining its workers)
			site := siteOfPCs(th.abortPCs[:])
			if site == "unknown" {
				site = "harness"
			}
			blocked = append(blocked, site+":"+th.pend.kind.String())
		}
	}
	switch {
	case diverged:
		o.Status = "diverged"
	case tableFull:
		o.Status = "tablefull"
	case fatalKey != "":
		o.Status = "fatal:" + fatalKey
		o.FatalSite = "unknown"
		if fatalThr >= 0 {
			o.FatalSite = siteOfPCs(threads[fatalThr].abortPCs[:])
		}
	case horizonHit:
		o.Status = "horizon"
	case len(blocked) > 0:
		o.Status = "deadlock"
		sort.Strings(blocked)
		o.Blocked = strings.Join(blocked, "|")
	case len(o.Idle) > 0:
		o.Status = "idle"
	default:
		o.Status = "done"
	}
	return alts
}

func stepSig(h uint64, s Step) uint64 {
	h = fnv(h, uint64(uint32(s.Thread))<<40|uint64(uint32(s.Kind))<<24|uint64(uint16(s.Obj)))
	return fnv(h, uint64(uint32(s.Case))<<1|b2u(s.Tick))
}

// RunOne executes body under the given schedule prefix (choice 0 afterwards).
func RunOne(cfg *Config, pfx []uint8, setup func() func()) (*Outcome, [][]alt) {
	if runtime.GOMAXPROCS(0) != 1 {
		HarnessError("vsched needs GOMAXPROCS=1 (have %d)", runtime.GOMAXPROCS(0))
	}
	for _, f := range resetHooks {
		f()
	}
	body := setup()
	begin(pfx, cfg)
	for _, f := range resetHooks {
		f() // again: setup may have used pools / clocks outside the exploration
	}
	newThread("main")
	exitWG.Add(1)
	go runThread(0, body)
	kick()
	if !waitOver() {
		buf := make([]byte, 1<<16)
		buf = buf[:runtime.Stack(buf, true)]
		HarnessError("%s: execution stuck for 60 s after %d transitions: a thread is blocked in a real operation that the scheduler's model considered enabled\n%s", cfg.Name, nsteps, buf)
	}
	exitWG.Wait()
	o := &Outcome{}
	alts := harvest(o)
	finish()
	if o.Status == "diverged" {
		HarnessError("%s: schedule prefix not replayable (choice out of range at decision %d): the program is not deterministic under the scheduler", cfg.Name, len(o.Steps))
	}
	if o.Status == "tablefull" {
		HarnessError("%s: scheduler table overflow (objects/alternatives)", cfg.Name)
	}
	return o, alts
}

// Explore enumerates every schedule with at most cfg.MaxBound preemptions (and at most
// cfg.MaxTicks environment ticks), in order of preemption count. setup builds a fresh
// instance and returns the body of the root thread; check is called after every execution
// and returns true if the execution is "interesting" (it is then replayed and compared).
func Explore(cfg Config, setup func() func(), check func(o *Outcome) bool) Stats {
	if cfg.ReplayEvery <= 0 {
		cfg.ReplayEvery = 64
	}
	st := Stats{PerBound: make([]int64, cfg.MaxBound+1), Completed: -1, StatusCounts: map[string]int64{}}
	seen := map[uint64]struct{}{}
	queues := make([][]item, cfg.MaxBound+1)
	queues[0] = []item{{}}
	for b := 0; b <= cfg.MaxBound; b++ {
		for len(queues[b]) > 0 {
			if cfg.Expired != nil && cfg.Expired() {
				st.Capped = fmt.Sprintf("%s: time budget used up in preemption bound %d", cfg.Name, b)
				st.States = len(seen)
				return st
			}
			it := queues[b][len(queues[b])-1]
			queues[b] = queues[b][:len(queues[b])-1]
			o, alts := RunOne(&cfg, it.prefix, setup)
			// prefix replay check: the first len(prefix) steps must be the parent's
			ph := make([]uint64, len(o.Steps)+1)
			ph[0] = 1469598103934665603
			for i, s := range o.Steps {
				ph[i+1] = stepSig(ph[i], s)
			}
			if len(it.prefix) > 0 {
				if len(o.Steps) < len(it.prefix)-1 || ph[len(it.prefix)-1] != it.want {
					HarnessError("%s: replay of a schedule prefix (%d choices) produced a different trace: nondeterminism outside the scheduler's control", cfg.Name, len(it.prefix))
				}
			}
			if o.Preemptions != it.preempt {
				HarnessError("%s: preemption accounting mismatch (%d vs %d)", cfg.Name, o.Preemptions, it.preempt)
			}
			st.Executions++
			st.PerBound[b]++
			st.Transitions += int64(len(o.Steps))
			st.GraceTicks += int64(o.Grace)
			st.StatusCounts[o.Status]++
			if len(o.Steps) > st.MaxSteps {
				st.MaxSteps = len(o.Steps)
			}
			if len(o.Threads) > st.MaxThreads {
				st.MaxThreads = len(o.Threads)
			}
			if o.Status == "horizon" {
				st.HorizonHits++
			}
			for _, s := range o.Steps {
				seen[s.Hash] = struct{}{}
			}
			interesting := check(o)
			if interesting || st.Executions%int64(cfg.ReplayEvery) == 0 {
				r, _ := RunOne(&cfg, o.Schedule, setup)
				st.Replays++
				same := len(r.Steps) == len(o.Steps) && r.Status == o.Status
				for i := 0; same && i < len(r.Steps); i++ {
					same = r.Steps[i] == o.Steps[i]
				}
				if !same {
					HarnessError("%s: replaying a recorded schedule (%d steps, status %s) gave a different trace (%d steps, status %s)", cfg.Name, len(o.Steps), o.Status, len(r.Steps), r.Status)
				}
			}
			// children: every alternative at every decision after the prefix
			for d := len(it.prefix); d < len(alts); d++ {
				for k := 1; k < len(alts[d]); k++ {
					c := it.preempt
					if alts[d][k].preempt {
						c++
					}
					if c > cfg.MaxBound {
						st.PrunedBound++
						continue
					}
					p := make([]uint8, d+1)
					copy(p, o.Schedule[:d])
					p[d] = uint8(k)
					queues[c] = append(queues[c], item{prefix: p, preempt: c, want: 0})
					// the child's first d steps are the parent's; step d is the alternative
					queues[c][len(queues[c])-1].want = ph[d]
				}
			}
		}
		st.Completed = b
	}
	st.States = len(seen)
	return st
}

// siteOfPCs returns the innermost repository function (not harness, not shim) of a call stack.
func siteOfPCs(pcs []uintptr) string {
	n := 0
	for n < len(pcs) && pcs[n] != 0 {
		n++
	}
	if n == 0 {
		return "unknown"
	}
	frames := runtime.CallersFrames(pcs[:n])
	for {
		f, more := frames.Next()
		if repoFunc(f.Function, f.File) {
			return shortFunc(f.Function)
		}
		if !more {
			return "unknown"
		}
	}
}

func repoFunc(fn, file string) bool {
	if !strings.HasPrefix(fn, "github.com/scigolib/hdf5") {
		return false
	}
	if strings.Contains(fn, "/internal/verif/") || strings.Contains(file, "zz_verif_") {
		return false
	}
	return true
}

// PanicSite extracts the innermost repository function from a stack trace text.
func PanicSite(stack string) string {
	lines := strings.Split(stack, "\n")
	for i := 0; i+1 < len(lines); i++ {
		l := lines[i]
		if !strings.HasPrefix(l, "github.com/scigolib/hdf5") {
			continue
		}
		fn := l
		if j := strings.LastIndex(fn, "("); j > 0 {
			fn = fn[:j]
		}
		if !repoFunc(fn, lines[i+1]) {
			continue
		}
		return shortFunc(fn)
	}
	return "unknown"
}
