//go:build verif

package vsched

import (
	"bytes"
	"encoding/json"
	"fmt"
	"os"
	"os/exec"
	"runtime"
	"sort"
	"strings"
)

// Reporter is the part of vkit.Run the driver needs.
type Reporter interface {
	Fail(key string, detail any)
	Cap(what string)
	Outcome(o string)
	States(n int64)
	Transitions(n int64)
	Traces(n int64)
	Case(key string)
	Add(k string, n int64)
	Set(k string, v any)
	Expired() bool
	Thorough() bool
}

// Finding is one oracle failure of one execution.
type Finding struct {
	Key    string
	Detail any
}

// Case is one program explored under all schedules within the bounds.
type Case struct {
	Group string // harness group ("handles", "incremental", "smart")
	ID    string // canonical, run-independent name of the case
	Spec  any    // JSON-able: enough for the harness to rebuild the case in a fresh process
	// KeyMap, if set, rewrites every finding key of this case (used for start states that the
	// public API cannot produce, so that their findings never hide or pose as API-reachable ones).
	KeyMap func(key string) string
	Cfg    Config
	Setup  func() func()
	After  func(o *Outcome) []Finding
}

// Driver accumulates the evidence of all cases of one test.
type Driver struct {
	R        Reporter
	Pkg      string
	RaceOn   bool
	perBound map[string][]int64
	maxSteps int
	confirm  map[string]bool
	seenKey  map[string]int
	stats    map[string]int64
}

// RaceEnabled is set by race_on.go in -race builds.
var RaceEnabled bool

// ReplayEnv carries a replay request to a fresh process.
const ReplayEnv = "VERIF_SCHED_REPLAY"

// Replay is what a fresh process is asked to re-execute.
type Replay struct {
	Pkg      string          `json:"pkg"`
	Group    string          `json:"group"`
	Case     string          `json:"case"`
	Spec     json.RawMessage `json:"spec"`
	Schedule []int           `json:"schedule"`
	MaxTicks int             `json:"max_ticks"`
	Horizon  int             `json:"horizon"`
}

// NewDriver pins the process to one P (the baton protocol needs GOMAXPROCS=1).
func NewDriver(r Reporter, pkg string) *Driver {
	runtime.GOMAXPROCS(1)
	return &Driver{R: r, Pkg: pkg, RaceOn: RaceEnabled, perBound: map[string][]int64{}, confirm: map[string]bool{}, seenKey: map[string]int{}, stats: map[string]int64{}}
}

// GenericFindings maps the scheduler-level outcome of an execution to finding keys.
func GenericFindings(group string, o *Outcome) []Finding {
	var fs []Finding
	for _, p := range o.Panics {
		fs = append(fs, Finding{Key: "panic@" + PanicSite(p.Stack), Detail: map[string]any{"thread": p.Thread, "panic": p.Value, "stack": p.Stack}})
	}
	switch {
	case o.Status == "deadlock":
		if len(o.Panics) == 0 { // a thread that died holding a lock explains the rest
			fs = append(fs, Finding{Key: "deadlock@" + o.Blocked})
		}
	case o.Status == "idle":
		fs = append(fs, Finding{Key: "goroutine-outlives-stop@" + strings.Join(o.Idle, "+")})
	case o.Status == "horizon":
		fs = append(fs, Finding{Key: "horizon-hit/" + group})
	case strings.HasPrefix(o.Status, "fatal:"):
		fs = append(fs, Finding{Key: strings.TrimPrefix(o.Status, "fatal:") + "@" + o.FatalSite})
	}
	return fs
}

// Run explores one case and reports.
func (d *Driver) Run(c Case) {
	specJSON, _ := json.Marshal(c.Spec)
	st := Explore(c.Cfg, c.Setup, func(o *Outcome) bool {
		fs := GenericFindings(c.Group, o)
		if c.After != nil {
			fs = append(fs, c.After(o)...)
		}
		for _, rr := range RacePoll() {
			fs = append(fs, Finding{Key: rr.Key, Detail: map[string]any{"report": rr.Text}})
		}
		d.R.Outcome(c.Group + ":" + o.Status)
		if len(fs) == 0 {
			return false
		}
		rep := Replay{Pkg: d.Pkg, Group: c.Group, Case: c.ID, Spec: specJSON, Schedule: toInts(o.Schedule), MaxTicks: c.Cfg.MaxTicks, Horizon: c.Cfg.Horizon}
		fresh := false
		for _, f := range fs {
			key := f.Key
			if c.KeyMap != nil {
				key = c.KeyMap(key)
			}
			if strings.HasPrefix(f.Key, "race{") && !d.confirm[key] {
				d.confirm[key] = true
				if !d.confirmRace(rep, f.Key) {
					d.R.Fail("unconfirmed:"+key, map[string]any{"replay": rep, "finding": f.Detail,
						"note": "the race detector reported this pair during the exploration, but replaying the same schedule in a fresh process did not reproduce it"})
					continue
				}
				d.stats["races_confirmed_in_fresh_process"]++
			}
			d.R.Outcome("finding:" + key)
			d.seenKey[key]++
			if d.seenKey[key] <= 3 {
				fresh = true
				d.R.Fail(key, map[string]any{"replay": rep, "trace": o.Trace(), "status": o.Status, "finding": f.Detail})
			} else {
				d.R.Fail(key, nil) // counted; the artefact of the first occurrence stands
			}
		}
		return fresh // the first occurrences of a key are replayed and compared step by step
	})
	d.R.Case(c.ID)
	d.R.Traces(st.Executions)
	d.R.Transitions(st.Transitions)
	d.R.States(int64(st.States))
	pb := d.perBound[c.Group]
	for len(pb) < len(st.PerBound) {
		pb = append(pb, 0)
	}
	for i, n := range st.PerBound {
		pb[i] += n
	}
	d.perBound[c.Group] = pb
	if st.MaxSteps > d.maxSteps {
		d.maxSteps = st.MaxSteps
	}
	d.stats["replays_compared"] += st.Replays
	d.stats["horizon_hits"] += st.HorizonHits
	d.stats["grace_ticks"] += st.GraceTicks
	d.stats["alternatives_beyond_bound"] += st.PrunedBound
	d.stats["cases_"+c.Group]++
	if st.MaxThreads > int(d.stats["max_threads"]) {
		d.stats["max_threads"] = int64(st.MaxThreads)
	}
	if st.Capped != "" {
		d.R.Cap(st.Capped)
	}
	if st.HorizonHits > 0 {
		d.R.Cap(fmt.Sprintf("%s: horizon of %d transitions hit in %d executions", c.ID, c.Cfg.Horizon, st.HorizonHits))
	}
}

// Finish writes the accumulated counters into the evidence.
func (d *Driver) Finish() {
	groups := make([]string, 0, len(d.perBound))
	for g := range d.perBound {
		groups = append(groups, g)
	}
	sort.Strings(groups)
	suffix := "plain"
	if d.RaceOn {
		suffix = "race"
	}
	for _, g := range groups {
		for b, n := range d.perBound[g] {
			d.R.Add(fmt.Sprintf("schedules_%s_bound%d_%s", g, b, suffix), n)
		}
	}
	d.R.Set("max_transitions_per_execution_"+d.Pkg+"_"+suffix, d.maxSteps)
	keys := make([]string, 0, len(d.stats))
	for k := range d.stats {
		keys = append(keys, k)
	}
	sort.Strings(keys)
	for _, k := range keys {
		if k == "max_threads" {
			d.R.Set("max_threads_"+d.Pkg+"_"+suffix, d.stats[k])
			continue
		}
		d.R.Add(k+"_"+suffix, d.stats[k])
	}
	d.R.Set("race_detector_"+d.Pkg+"_"+suffix, d.RaceOn && RaceLogPath() != "")
}

// confirmRace replays the schedule in a fresh process of the same binary and requires the
// same race key to be reported again.
func (d *Driver) confirmRace(rep Replay, key string) bool {
	keys, out := ReplayInFreshProcess(rep)
	for _, k := range keys {
		if k == key {
			return true
		}
	}
	_ = out
	return false
}

// ReplayInFreshProcess runs this test binary again with the replay request in its
// environment and returns the keys the child printed ("REPLAY-KEY <key>").
func ReplayInFreshProcess(rep Replay) ([]string, string) {
	b, _ := json.Marshal(rep)
	test := "^TestVerif_C18$"
	cmd := exec.Command(os.Args[0], "-test.run", test, "-test.count", "1")
	cmd.Env = append(os.Environ(), ReplayEnv+"="+string(b))
	var buf bytes.Buffer
	cmd.Stdout, cmd.Stderr = &buf, &buf
	_ = cmd.Run()
	var keys []string
	for _, l := range strings.Split(buf.String(), "\n") {
		if strings.HasPrefix(l, "REPLAY-KEY ") {
			keys = append(keys, strings.TrimPrefix(l, "REPLAY-KEY "))
		}
	}
	return keys, buf.String()
}

// ReplayRequest returns the replay request of this process, if any.
func ReplayRequest() *Replay {
	s := os.Getenv(ReplayEnv)
	if s == "" {
		return nil
	}
	var rep Replay
	if err := json.Unmarshal([]byte(s), &rep); err != nil {
		HarnessError("bad %s: %v", ReplayEnv, err)
	}
	return &rep
}

// ServeReplay executes one schedule of a case and prints the keys it produced.
func ServeReplay(rep *Replay, c Case) {
	runtime.GOMAXPROCS(1)
	cfg := c.Cfg
	cfg.MaxTicks, cfg.Horizon = rep.MaxTicks, rep.Horizon
	RacePoll()
	for i := 0; i < 2; i++ { // twice: the detector reports a pair once, the trace must repeat
		o, _ := RunOne(&cfg, toBytes(rep.Schedule), c.Setup)
		fs := GenericFindings(c.Group, o)
		if c.After != nil {
			fs = append(fs, c.After(o)...)
		}
		for _, rr := range RacePoll() {
			fs = append(fs, Finding{Key: rr.Key})
		}
		for _, f := range fs {
			fmt.Printf("REPLAY-KEY %s\n", f.Key)
		}
		fmt.Printf("REPLAY-STATUS %s steps=%d\n", o.Status, len(o.Steps))
	}
}

func toInts(b []uint8) []int {
	out := make([]int, len(b))
	for i, x := range b {
		out[i] = int(x)
	}
	return out
}

func toBytes(b []int) []uint8 {
	out := make([]uint8, len(b))
	for i, x := range b {
		out[i] = uint8(x)
	}
	return out
}
