//go:build verif && race

package vsched

func init() { RaceEnabled = true }
