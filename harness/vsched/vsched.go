//go:build verif

// Package vsched is the controlled scheduler of the C18 check (DESIGN §3.3, E2).
//
// One goroutine ("thread") runs at a time. Every synchronisation operation of the
// instrumented code (vsync/vtime/vctx shims, rewritten go/close/receive/select statements)
// first calls into this package: the operation is published as the thread's *pending*
// operation, the explorer's next choice picks one enabled (thread, case) transition, the
// model of the object is updated and the chosen thread runs until its next operation.
// Blocking is modelled (mutex held, RWMutex readers/writer/pending writer, WaitGroup counter,
// channel closed or not, virtual ticker), so a state with unfinished threads and no enabled
// transition is a deadlock, and a horizon bounds every execution.
//
// The hand-off between goroutines is a spin on a plain word inside //go:norace functions
// with runtime.Gosched() under GOMAXPROCS=1: no channel, mutex or atomic is used, therefore
// the scheduler contributes NO happens-before edge to the race detector. A `-race` build run
// under the explorer reports exactly the pairs of accesses that the program's own
// synchronisation leaves unordered, in a deterministic interleaving.
//
// Every function that touches scheduler state is //go:norace and uses only fixed-size
// arrays (no maps, no append: the runtime annotates those for the race detector regardless
// of the caller's pragma).
package vsched

import (
	"fmt"
	"os"
	"reflect"
	"runtime"
	"runtime/debug"
	"sync"
	"time"
)

// Limits of the fixed tables.
const (
	MaxThreads = 8
	MaxSteps   = 1024
	MaxObjs    = 256
	MaxSel     = 4
	MaxAlts    = 32
	MaxCtx     = 64
)

// Kind is the kind of a synchronisation operation.
type Kind int32

const (
	KStart Kind = iota
	KYield
	KGo
	KLock
	KUnlock
	KRWLockReq
	KRWLock
	KRWUnlock
	KRLock
	KRUnlock
	KWGAdd
	KWGWait
	KClose
	KSelect // blocking receive on 1..MaxSel channels (a plain <-c is a 1-case select)
	KSelectNB
	KPoolGet
	KPoolPut
	KCancel
	KTickerStop
	KOnce
	KExit
)

var kindNames = [...]string{"start", "yield", "go", "mutex.lock", "mutex.unlock", "rw.lockreq", "rw.lock", "rw.unlock",
	"rw.rlock", "rw.runlock", "wg.add", "wg.wait", "chan.close", "select", "select.nb", "pool.get", "pool.put",
	"ctx.cancel", "ticker.stop", "once", "exit"}

func (k Kind) String() string {
	if int(k) < len(kindNames) {
		return kindNames[k]
	}
	return fmt.Sprintf("kind%d", int(k))
}

type pending struct {
	kind Kind
	obj  int32
	n    int64 // WaitGroup delta
	nsel int32
	sel  [MaxSel]int32
}

type thread struct {
	used     bool
	finished bool
	name     string
	pend     pending
	npoints  int32
	selCase  int32
	panicked bool
	panicVal string
	panicStk string
	abortPCs [12]uintptr // call stack at the moment the execution was torn down (blocked / fatal operation)
}

type object struct {
	key      uintptr
	ref      any // keeps the object alive for the whole execution (no address reuse)
	held     int32
	readers  int32
	wpending int32
	counter  int64
	closed   bool
	ticker   bool
	stopped  bool
	interval int64
	fire     func()
	label    string
}

type alt struct {
	thread  int32
	cas     int32
	tick    bool
	preempt bool
}

type decision struct {
	n    int32
	alts [MaxAlts]alt
}

// Step is one executed transition.
type Step struct {
	Thread int32
	Kind   Kind
	Obj    int32
	Case   int32
	Tick   bool
	Hash   uint64 // hash of the scheduler-visible state after the step
}

type ctxNode struct {
	done   int32 // object index of the Done channel
	parent int32 // index into ctxs, -1 = none
}

// ---- execution state (norace only) ----
var (
	active     bool
	aborting   bool
	over       bool
	turn       int32 = -1
	cur        int32
	threads    [MaxThreads]thread
	nthreads   int32
	objs       [MaxObjs]object
	nobjs      int32
	ctxs       [MaxCtx]ctxNode
	nctxs      int32
	steps      [MaxSteps]Step
	nsteps     int32
	decs       [MaxSteps]decision
	ndecs      int32
	chosen     [MaxSteps]uint8
	prefix     []uint8
	horizon    int32 = 400
	maxTicks   int32
	ticksUsed  int32
	graceUsed  int32
	maxGrace   int32 = 2
	clock      int64
	horizonHit bool
	diverged   bool
	fatalKey   string
	fatalThr   int32
	tableFull  bool
	exitWG     sync.WaitGroup // harness-level join (after the execution is over)
	resetHooks []func()
	instrPkgs  []string
)

// MarkInstrumented is called from generated init() functions of instrumented packages.
func MarkInstrumented(pkg string) { instrPkgs = append(instrPkgs, pkg) }

// Instrumented reports whether the named package was built from rewritten sources.
func Instrumented(pkg string) bool {
	for _, p := range instrPkgs {
		if p == pkg {
			return true
		}
	}
	return false
}

// RegisterReset registers a function run before every execution (pools, clocks).
func RegisterReset(f func()) { resetHooks = append(resetHooks, f) }

// Active reports whether an execution is being explored (false: shims are pass-through).
//
//go:norace
func Active() bool { return active && !aborting }

// Clock returns the virtual time offset in nanoseconds.
//
//go:norace
func Clock() int64 { return clock }

//go:norace
func waitTurn(id int32) {
	for turn != id && !aborting {
		runtime.Gosched()
	}
}

// waitOver: the explorer goroutine waits for the end of the execution. If no thread makes
// progress for a minute, a thread is blocked in a REAL operation that the model considered
// enabled (model and program disagree): a harness error, never a verdict.
//
//go:norace
func waitOver() bool {
	var t0 time.Time
	last := nsteps
	for i := 0; !over; i++ {
		runtime.Gosched()
		if i&0xfffff == 0xfffff {
			if t0.IsZero() || nsteps != last {
				t0, last = time.Now(), nsteps
			} else if time.Since(t0) > 60*time.Second {
				return false
			}
		}
	}
	return true
}

//go:norace
func lookup(key uintptr, ref any) int32 {
	if key == 0 {
		return -1 // nil channel: never ready
	}
	for i := int32(0); i < nobjs; i++ {
		if objs[i].key == key {
			return i
		}
	}
	if nobjs >= MaxObjs {
		tableFull = true
		return 0
	}
	i := nobjs
	objs[i] = object{key: key, ref: ref}
	nobjs++
	return i
}

//go:norace
func fatal(key string) {
	if fatalKey == "" {
		fatalKey = key
	}
	endExecution()
}

// endExecution stops the execution: every parked thread wakes up, sees aborting and leaves
// through runtime.Goexit; the explorer goroutine resumes.
//
//go:norace
func endExecution() {
	aborting = true
	over = true
	turn = -1
}

// caseReady: 0 = not ready, 1 = ready, 2 = ready by an environment tick (costs tick budget).
//
//go:norace
func caseReady(o int32) int {
	if o < 0 {
		return 0
	}
	ob := &objs[o]
	if ob.closed {
		return 1
	}
	if ob.ticker && !ob.stopped {
		return 2
	}
	return 0
}

// collect appends the enabled transitions of thread t. tickPass selects which class.
//
//go:norace
func collect(d *decision, t int32, tickPass bool, curEnabled bool) {
	th := &threads[t]
	if !th.used || th.finished {
		return
	}
	p := &th.pend
	switch p.kind {
	case KSelect, KSelectNB:
		anyClosed := false
		for i := int32(0); i < p.nsel; i++ {
			r := caseReady(p.sel[i])
			if r == 1 {
				anyClosed = true
				if !tickPass {
					addAlt(d, t, i, false, curEnabled)
				}
			}
			if r == 2 && tickPass && ticksUsed < maxTicks {
				addAlt(d, t, i, true, curEnabled)
			}
		}
		if p.kind == KSelectNB && !anyClosed && !tickPass {
			addAlt(d, t, -1, false, curEnabled)
		}
	default:
		if tickPass {
			return
		}
		if enabled(p) {
			addAlt(d, t, 0, false, curEnabled)
		}
	}
}

//go:norace
func addAlt(d *decision, t, cas int32, tick, curEnabled bool) {
	if d.n >= MaxAlts {
		tableFull = true
		return
	}
	d.alts[d.n] = alt{thread: t, cas: cas, tick: tick, preempt: curEnabled && t != cur}
	d.n++
}

//go:norace
func enabled(p *pending) bool {
	switch p.kind {
	case KLock:
		return objs[p.obj].held == 0
	case KRWLock:
		return objs[p.obj].held == 0 && objs[p.obj].readers == 0
	case KRLock:
		return objs[p.obj].held == 0 && objs[p.obj].wpending == 0
	case KWGWait:
		return objs[p.obj].counter == 0
	}
	return true
}

// hasNonTick reports whether thread t has an enabled transition that needs no tick.
//
//go:norace
func hasNonTick(t int32) bool {
	th := &threads[t]
	if !th.used || th.finished {
		return false
	}
	p := &th.pend
	switch p.kind {
	case KSelect:
		for i := int32(0); i < p.nsel; i++ {
			if caseReady(p.sel[i]) == 1 {
				return true
			}
		}
		return false
	case KSelectNB:
		return true
	}
	return enabled(p)
}

// waitsForTick reports whether t is parked in a blocking select that has a live ticker case.
//
//go:norace
func waitsForTick(t int32) bool {
	th := &threads[t]
	if !th.used || th.finished || th.pend.kind != KSelect {
		return false
	}
	for i := int32(0); i < th.pend.nsel; i++ {
		if caseReady(th.pend.sel[i]) == 2 {
			return true
		}
	}
	return false
}

//go:norace
func apply(a *alt) {
	t := a.thread
	th := &threads[t]
	p := &th.pend
	th.npoints++
	th.selCase = a.cas
	switch p.kind {
	case KLock:
		objs[p.obj].held = t + 1
	case KUnlock:
		if objs[p.obj].held == 0 {
			fatalThr = t
			fatal("unlock-of-unlocked-mutex")
			return
		}
		objs[p.obj].held = 0
	case KRWLockReq:
		objs[p.obj].wpending++
	case KRWLock:
		objs[p.obj].held = t + 1
		objs[p.obj].wpending--
	case KRWUnlock:
		if objs[p.obj].held == 0 {
			fatalThr = t
			fatal("unlock-of-unlocked-rwmutex")
			return
		}
		objs[p.obj].held = 0
	case KRLock:
		objs[p.obj].readers++
	case KRUnlock:
		if objs[p.obj].readers == 0 {
			fatalThr = t
			fatal("runlock-of-unlocked-rwmutex")
			return
		}
		objs[p.obj].readers--
	case KWGAdd:
		objs[p.obj].counter += p.n
		if objs[p.obj].counter < 0 {
			fatalThr = t
			fatal("negative-waitgroup-counter")
			return
		}
	case KClose:
		objs[p.obj].closed = true // a second close panics in the real close that follows
	case KCancel:
		cancelTree(p.obj)
	case KTickerStop:
		objs[p.obj].stopped = true
	case KSelect, KSelectNB:
		if a.tick {
			ticksUsed++
			o := p.sel[a.cas]
			clock += objs[o].interval
		}
	}
}

//go:norace
func cancelTree(done int32) {
	// mark the context whose Done channel is object `done` and all its descendants
	var marked [MaxCtx]bool
	for i := int32(0); i < nctxs; i++ {
		if ctxs[i].done == done {
			marked[i] = true
		}
	}
	for changed := true; changed; {
		changed = false
		for i := int32(0); i < nctxs; i++ {
			if !marked[i] && ctxs[i].parent >= 0 && marked[ctxs[i].parent] {
				marked[i] = true
				changed = true
			}
		}
	}
	for i := int32(0); i < nctxs; i++ {
		if marked[i] {
			objs[ctxs[i].done].closed = true
		}
	}
}

//go:norace
func stateHash() uint64 {
	h := uint64(1469598103934665603)
	for i := int32(0); i < nthreads; i++ {
		th := &threads[i]
		h = fnv(h, uint64(th.npoints)<<8|uint64(th.pend.kind)<<1|b2u(th.finished))
		h = fnv(h, uint64(uint32(th.pend.obj)))
	}
	for i := int32(0); i < nobjs; i++ {
		o := &objs[i]
		h = fnv(h, uint64(uint32(o.held))<<32|uint64(uint32(o.readers))<<16|uint64(uint32(o.wpending))<<2|b2u(o.closed)<<1|b2u(o.stopped))
		h = fnv(h, uint64(o.counter))
	}
	h = fnv(h, uint64(ticksUsed)<<40|uint64(clock))
	return h
}

//go:norace
func fnv(h, v uint64) uint64 {
	for i := 0; i < 8; i++ {
		h ^= v & 0xff
		h *= 1099511628211
		v >>= 8
	}
	return h
}

//go:norace
func b2u(b bool) uint64 {
	if b {
		return 1
	}
	return 0
}

// schedule picks and applies the next transition. self is the calling thread; selfAlive
// tells whether it will wait for its turn afterwards (false when it is exiting).
//
//go:norace
func schedule(self int32, selfAlive bool) {
	for {
		if aborting {
			return
		}
		if nsteps >= horizon || nsteps >= MaxSteps {
			horizonHit = true
			endExecution()
			return
		}
		d := &decs[ndecs]
		d.n = 0
		curEn := hasNonTick(cur)
		if curEn {
			collect(d, cur, false, curEn)
		}
		for t := int32(0); t < nthreads; t++ {
			if t != cur || !curEn {
				collect(d, t, false, curEn)
			}
		}
		for t := int32(0); t < nthreads; t++ {
			collect(d, t, true, curEn)
		}
		if d.n == 0 {
			// nothing enabled. If a thread is blocked on something that is not a ticker and
			// another one only lacks tick budget, grant a grace tick before calling it a deadlock.
			blocked, ticker := false, int32(-1)
			for t := int32(0); t < nthreads; t++ {
				if !threads[t].used || threads[t].finished {
					continue
				}
				if waitsForTick(t) {
					if ticker < 0 {
						ticker = t
					}
				} else {
					blocked = true
				}
			}
			if blocked && ticker >= 0 && graceUsed < maxGrace {
				graceUsed++
				p := &threads[ticker].pend
				for i := int32(0); i < p.nsel; i++ {
					if caseReady(p.sel[i]) == 2 {
						d.alts[0] = alt{thread: ticker, cas: i, tick: true}
						d.n = 1
						break
					}
				}
			}
			if d.n == 0 {
				endExecution()
				return
			}
		}
		idx := int32(0)
		if int(ndecs) < len(prefix) {
			idx = int32(prefix[ndecs])
			if idx >= d.n {
				diverged = true
				endExecution()
				return
			}
		}
		a := d.alts[idx]
		chosen[ndecs] = uint8(idx)
		ndecs++
		p := &threads[a.thread].pend
		obj := p.obj
		if (p.kind == KSelect || p.kind == KSelectNB) && a.cas >= 0 {
			obj = p.sel[a.cas]
		}
		apply(&a)
		if aborting {
			return
		}
		steps[nsteps] = Step{Thread: a.thread, Kind: p.kind, Obj: obj, Case: a.cas, Tick: a.tick, Hash: stateHash()}
		nsteps++
		cur = a.thread
		if a.thread != self {
			turn = a.thread
			if selfAlive {
				waitTurn(self)
			}
		}
		return
	}
}

// op publishes the calling thread's next operation and returns when it has been chosen.
// It returns false when the real operation must be skipped (the execution is being torn down).
//
//go:norace
func op(k Kind, key uintptr, ref any, n int64) bool {
	if aborting {
		return false
	}
	if !active {
		return true
	}
	self := cur
	th := &threads[self]
	th.pend = pending{kind: k, obj: lookup(key, ref), n: n}
	schedule(self, true)
	if aborting {
		runtime.Callers(2, th.abortPCs[:])
		runtime.Goexit()
	}
	return true
}

// ---- operations used by the shims ----

func ptrOf(x any) uintptr {
	v := reflect.ValueOf(x)
	switch v.Kind() {
	case reflect.Chan, reflect.Pointer, reflect.UnsafePointer, reflect.Func, reflect.Map:
		return v.Pointer()
	}
	return 0
}

// Op performs a scheduling point for an operation on the object x (a pointer).
func Op(k Kind, x any) bool { return op(k, ptrOf(x), x, 0) }

// OpN is Op with a numeric argument (WaitGroup.Add delta).
func OpN(k Kind, x any, n int64) bool { return op(k, ptrOf(x), x, n) }

// Yield is a harness-level scheduling point (e.g. between two API calls of a script).
func Yield(label string) { op(KYield, 0, nil, 0) }

// Fatal ends the execution with a finding key (used by shims for misuse the runtime would
// turn into an unrecoverable fatal error).
//
//go:norace
func Fatal(key string) {
	if active && !aborting {
		fatal(key)
		runtime.Goexit()
	}
}

// CloseChan is what the rewriter substitutes for close(c).
func CloseChan[T any](c chan T) {
	if op(KClose, ptrOf(c), c, 0) {
		close(c)
	}
}

// Recv is what the rewriter substitutes for a statement `<-c`.
func Recv[T any](c <-chan T) {
	if selectOp(KSelect, c) >= 0 {
		<-c
	}
}

// Select is what the rewriter substitutes for a blocking select whose cases are all
// receives: it returns the index of the case the explorer chose (the case is ready).
func Select(chans ...any) int { return selectOp(KSelect, chans...) }

// SelectNB is Select for a select with a default clause: -1 = default.
func SelectNB(chans ...any) int { return selectOp(KSelectNB, chans...) }

func selectOp(k Kind, chans ...any) int {
	if !isActive() {
		if isAborting() {
			return -2
		}
		return realSelect(k, chans)
	}
	if len(chans) > MaxSel {
		panic("vsched: select with too many cases")
	}
	var keys [MaxSel]uintptr
	for i, c := range chans {
		keys[i] = ptrOf(c)
	}
	return selectModel(k, keys, chans, int32(len(chans)))
}

//go:norace
func isActive() bool { return active && !aborting }

//go:norace
func isAborting() bool { return aborting }

//go:norace
func selectModel(k Kind, keys [MaxSel]uintptr, refs []any, n int32) int {
	self := cur
	th := &threads[self]
	th.pend = pending{kind: k, nsel: n}
	for i := int32(0); i < n; i++ {
		th.pend.sel[i] = lookup(keys[i], refs[i])
	}
	schedule(self, true)
	if aborting {
		runtime.Callers(2, th.abortPCs[:])
		runtime.Goexit()
	}
	c := th.selCase
	if c >= 0 {
		o := th.pend.sel[c]
		if o >= 0 && objs[o].ticker && !objs[o].closed && objs[o].fire != nil {
			// the receiving thread itself delivers the tick value: no cross-thread edge
			objs[o].fire()
		}
	}
	return int(c)
}

func realSelect(k Kind, chans []any) int {
	cases := make([]reflect.SelectCase, 0, len(chans)+1)
	for _, c := range chans {
		cases = append(cases, reflect.SelectCase{Dir: reflect.SelectRecv, Chan: reflect.ValueOf(c)})
	}
	if k == KSelectNB {
		cases = append(cases, reflect.SelectCase{Dir: reflect.SelectDefault})
	}
	// outside an exploration only readiness is wanted (the caller performs the receive itself):
	// correct for close-only channels and contexts, which is all the instrumented code uses;
	// a virtual ticker never fires outside an exploration.
	i, _, _ := reflect.Select(cases)
	if k == KSelectNB && i == len(chans) {
		return -1
	}
	return i
}

// RegisterTicker declares channel c as the channel of a virtual ticker.
//
//go:norace
func RegisterTicker(c any, key uintptr, interval int64, fire func()) {
	if !active {
		return
	}
	i := lookup(key, c)
	objs[i].ticker = true
	objs[i].interval = interval
	objs[i].fire = fire
}

// RegisterCtx declares a context (by its Done channel) and its parent's Done channel.
//
//go:norace
func RegisterCtx(done any, doneKey uintptr, parentKey uintptr) {
	if !active || nctxs >= MaxCtx {
		return
	}
	d := lookup(doneKey, done)
	parent := int32(-1)
	if parentKey != 0 {
		for i := int32(0); i < nctxs; i++ {
			if objs[ctxs[i].done].key == parentKey {
				parent = i
			}
		}
	}
	ctxs[nctxs] = ctxNode{done: d, parent: parent}
	nctxs++
	if parent >= 0 && objs[ctxs[parent].done].closed {
		objs[d].closed = true
	}
}

// Go is what the rewriter substitutes for a go statement.
func Go(name string, f func()) {
	if isAborting() {
		return
	}
	if !isActive() {
		go f()
		return
	}
	id := newThread(name)
	if id < 0 {
		panic("vsched: too many threads")
	}
	exitWG.Add(1)
	go runThread(id, f)
	op(KGo, 0, nil, 0)
}

//go:norace
func newThread(name string) int32 {
	if nthreads >= MaxThreads {
		return -1
	}
	id := nthreads
	threads[id] = thread{used: true, name: name}
	threads[id].pend = pending{kind: KStart, obj: -1}
	nthreads++
	return id
}

func runThread(id int32, f func()) {
	defer exitWG.Done()
	waitTurn(id)
	if isAborting() {
		return
	}
	defer threadExit(id)
	defer func() {
		if r := recover(); r != nil {
			notePanic(id, fmt.Sprint(r), string(debug.Stack()))
		}
	}()
	f()
}

//go:norace
func notePanic(id int32, val, stk string) {
	threads[id].panicked = true
	threads[id].panicVal = val
	threads[id].panicStk = stk
}

//go:norace
func threadExit(id int32) {
	if aborting {
		return // torn down: keep the thread's last pending operation for the final report
	}
	threads[id].finished = true
	threads[id].pend = pending{kind: KExit, obj: -1}
	schedule(id, false)
}

// Live returns the names of the threads (other than the caller) that have not finished.
//
//go:norace
func Live() []string {
	if !active {
		return nil
	}
	var out []string
	for i := int32(0); i < nthreads; i++ {
		if i != cur && threads[i].used && !threads[i].finished {
			out = append(out, threads[i].name)
		}
	}
	return out
}

// Spawned returns how many threads the current execution has created (including the root).
//
//go:norace
func Spawned() int { return int(nthreads) }

func init() {
	if os.Getenv("VERIF_SCHED_DEBUG") != "" {
		fmt.Fprintln(os.Stderr, "vsched loaded")
	}
}

// OpKey is Op with an explicit object key (channels of tickers and contexts).
func OpKey(k Kind, ref any, key uintptr) bool { return op(k, key, ref, 0) }
