//go:build verif

// Package vkit is the shared kit of the /verif harness: evidence counters, finding
// classification against /verif/known_findings.json, replay artefacts and a parallel-for.
// It is injected into the module under internal/verif/vkit by `go test -overlay`; it is
// not part of the repository.
package vkit

import (
	"crypto/sha256"
	"encoding/hex"
	"encoding/json"
	"fmt"
	"os"
	"path/filepath"
	"runtime"
	"runtime/debug"
	"sort"
	"strconv"
	"strings"
	"sync"
	"sync/atomic"
	"testing"
	"time"
)

// Run accumulates what one check run covered and what it found.
type Run struct {
	T     *testing.T
	ID    string
	Tier  string
	Seed  int64
	Level string

	start    time.Time
	deadline time.Time

	mu          sync.Mutex
	evals       int64
	distinct    map[string]struct{}
	states      int64
	transitions int64
	traces      int64
	samples     []any
	extra       map[string]any
	assumptions []string
	rule        string
	exhaustive  bool
	capsHit     []string

	known      map[string]*Finding // key -> finding (status known)
	fixed      map[string]*Finding
	knownHit   map[string]string // key -> first case text
	violations map[string]string // key -> replay path
	nviol      int
	outcomes   map[string]int64
}

// Finding is one entry of known_findings.json.
type Finding struct {
	Property string `json:"property"`
	Key      string `json:"key"`
	Status   string `json:"status"` // "known" or "fixed"
	Commit   string `json:"commit,omitempty"`
	What     string `json:"what"`
	Case     any    `json:"case,omitempty"`
}

type findingsFile struct {
	Findings []Finding `json:"findings"`
}

func env(k, d string) string {
	if v := os.Getenv(k); v != "" {
		return v
	}
	return d
}

// VerifDir is /verif unless overridden (used by snapshot runs).
func VerifDir() string { return env("VERIF_DIR", "/verif") }

// Start begins a check run. level is one of the EVIDENCE.schema levels.
func Start(t *testing.T, id, level string) *Run {
	seed, _ := strconv.ParseInt(env("VERIF_SEED", "1"), 10, 64)
	r := &Run{T: t, ID: id, Tier: env("VERIF_TIER", "quick"), Seed: seed, Level: level,
		start: time.Now(), distinct: map[string]struct{}{}, extra: map[string]any{},
		known: map[string]*Finding{}, fixed: map[string]*Finding{}, knownHit: map[string]string{},
		violations: map[string]string{}, outcomes: map[string]int64{}, exhaustive: true}
	budget, _ := strconv.Atoi(env("VERIF_BUDGET_S", ""))
	if budget <= 0 {
		if r.Tier == "thorough" {
			budget = 3000
		} else {
			budget = 240
		}
	}
	r.deadline = r.start.Add(time.Duration(budget) * time.Second)
	// soft memory limit: enumerations that produce garbage at a high rate on 16 cores let the
	// heap grow to tens of GiB under the default pacing; the limit only makes the collector
	// work earlier, it never fails an allocation
	// (only where asked for — VERIF_MEMLIMIT_MB, set by ./check for C08 — because a process
	// whose live data legitimately approaches the limit would collect without end)
	if memMB, _ := strconv.Atoi(env("VERIF_MEMLIMIT_MB", "")); memMB > 0 {
		debug.SetMemoryLimit(int64(memMB) << 20)
	}
	// known_findings.json plus per-property files known_findings_<ID>.json (large lists)
	files := []string{filepath.Join(VerifDir(), "known_findings.json"), filepath.Join(VerifDir(), "known_findings_"+id+".json")}
	if x := os.Getenv("VERIF_EXTRA_FINDINGS"); x != "" {
		files = append(files, x) // development aid: proposed findings not yet merged
	}
	for _, fn := range files {
		b, err := os.ReadFile(fn)
		if err != nil {
			continue
		}
		var ff findingsFile
		if err := json.Unmarshal(b, &ff); err != nil {
			t.Fatalf("%s: %v", fn, err)
		}
		for i := range ff.Findings {
			f := &ff.Findings[i]
			if f.Property != id {
				continue
			}
			if f.Status == "known" {
				r.known[f.Key] = f
			} else {
				r.fixed[f.Key] = f
			}
		}
	}
	return r
}

// Thorough reports whether the thorough tier was requested.
func (r *Run) Thorough() bool { return r.Tier == "thorough" }

// Expired reports whether the internal time budget is used up. Drivers poll it between
// cases; an expired run stops enumerating, records the cap and is not called exhaustive.
func (r *Run) Expired() bool { return time.Now().After(r.deadline) }

// Deadline is the instant at which the internal time budget ends (for worker subprocesses).
func (r *Run) Deadline() time.Time { return r.deadline }

// Cap records that a bound/time cap was hit: the run is no longer exhaustive.
func (r *Run) Cap(what string) {
	r.mu.Lock()
	defer r.mu.Unlock()
	r.exhaustive = false
	for _, c := range r.capsHit {
		if c == what {
			return
		}
	}
	r.capsHit = append(r.capsHit, what)
}

// Case counts one evaluated case. key identifies the case for the distinct/non-trivial
// count; pass "" for a case that is trivial by the driver's rule.
func (r *Run) Case(key string) {
	atomic.AddInt64(&r.evals, 1)
	if key == "" {
		return
	}
	r.mu.Lock()
	r.distinct[key] = struct{}{}
	r.mu.Unlock()
}

// Cases adds n evaluations without distinct keys (bulk enumerations count distinct separately).
func (r *Run) Cases(n int64) { atomic.AddInt64(&r.evals, n) }

// Distinct adds n to the distinct non-trivial count for bulk enumerations where every
// enumerated input is distinct by construction.
func (r *Run) Distinct(prefix string, n int64) {
	r.mu.Lock()
	defer r.mu.Unlock()
	cur, _ := r.extra["_bulk_distinct"].(int64)
	r.extra["_bulk_distinct"] = cur + n
	_ = prefix
}

// State/Transition/Trace counters for model_checking evidence.
func (r *Run) States(n int64)      { atomic.AddInt64(&r.states, n) }
func (r *Run) Transitions(n int64) { atomic.AddInt64(&r.transitions, n) }
func (r *Run) Traces(n int64)      { atomic.AddInt64(&r.traces, n) }

// Outcome counts a distinct observed outcome class (vacuity metric).
func (r *Run) Outcome(o string) {
	r.mu.Lock()
	r.outcomes[o]++
	r.mu.Unlock()
}

// Sample records up to 8 literal cases.
func (r *Run) Sample(x any) {
	r.mu.Lock()
	if len(r.samples) < 8 {
		r.samples = append(r.samples, x)
	}
	r.mu.Unlock()
}

// Set records an extra coverage key.
func (r *Run) Set(k string, v any) {
	r.mu.Lock()
	r.extra[k] = v
	r.mu.Unlock()
}

// Add adds to an integer extra coverage key.
func (r *Run) Add(k string, n int64) {
	r.mu.Lock()
	cur, _ := r.extra[k].(int64)
	r.extra[k] = cur + n
	r.mu.Unlock()
}

func (r *Run) Rule(s string)   { r.rule = s }
func (r *Run) Assume(s string) { r.assumptions = append(r.assumptions, s) }

// Fail reports one failing case under a finding key. detail is written to the replay
// artefact. A key listed as "known" prints KNOWN-FINDING once; any other key (including
// "fixed" ones) is a violation.
func (r *Run) Fail(key string, detail any) {
	r.mu.Lock()
	defer r.mu.Unlock()
	if f, ok := r.known[key]; ok {
		if _, seen := r.knownHit[key]; !seen {
			r.knownHit[key] = f.What
		}
		cnt, _ := r.extra["known_finding_cases"].(int64)
		r.extra["known_finding_cases"] = cnt + 1
		return
	}
	r.nviol++
	if _, seen := r.violations[key]; seen {
		return
	}
	if len(r.violations) >= 40 {
		return
	}
	path := r.writeReplay(key, detail)
	r.violations[key] = path
	fmt.Printf("VIOLATION property=%s replay=%s key=%q\n", r.ID, path, key)
}

func (r *Run) writeReplay(key string, detail any) string {
	h := sha256.Sum256([]byte(key))
	dir := filepath.Join(VerifDir(), "replays", r.ID)
	_ = os.MkdirAll(dir, 0o755)
	path := filepath.Join(dir, hex.EncodeToString(h[:6])+".json")
	doc := map[string]any{"property": r.ID, "key": key, "tier": r.Tier, "detail": detail}
	if f, ok := r.fixed[key]; ok {
		doc["regression_of_fixed"] = f.Commit
	}
	b, err := json.MarshalIndent(doc, "", " ")
	if err != nil {
		b = []byte(fmt.Sprintf("{\"property\":%q,\"key\":%q,\"detail\":%q}", r.ID, key, fmt.Sprint(detail)))
	}
	_ = os.WriteFile(path, b, 0o644)
	return path
}

// Guard runs f and converts a panic into a failing case under key "panic@<frame>" with prefix.
func (r *Run) Guard(keyPrefix string, detail any, f func()) (panicked bool) {
	defer func() {
		if p := recover(); p != nil {
			panicked = true
			st := string(debug.Stack())
			r.Fail(keyPrefix+"panic@"+PanicSite(st), map[string]any{"case": detail, "panic": fmt.Sprint(p), "stack": st})
		}
	}()
	f()
	return false
}

// PanicSite extracts the innermost repository function from a stack trace text
// (skipping runtime, testing and harness frames).
func PanicSite(stack string) string {
	lines := strings.Split(stack, "\n")
	for _, l := range lines {
		if !strings.HasPrefix(l, "github.com/scigolib/hdf5") {
			continue
		}
		if strings.Contains(l, "/internal/verif/") || strings.Contains(l, ".vf") || strings.Contains(l, ".TestVerif") || strings.Contains(l, "Verif") {
			continue
		}
		fn := l
		if i := strings.LastIndex(fn, "("); i > 0 {
			fn = fn[:i]
		}
		fn = strings.TrimPrefix(fn, "github.com/scigolib/hdf5/")
		fn = strings.TrimPrefix(fn, "github.com/scigolib/")
		return fn
	}
	return "unknown"
}

// Finish writes the evidence file, prints KNOWN-FINDING lines and fails the test on violations.
func (r *Run) Finish() {
	r.mu.Lock()
	defer r.mu.Unlock()
	keys := make([]string, 0, len(r.knownHit))
	for k := range r.knownHit {
		keys = append(keys, k)
	}
	sort.Strings(keys)
	for _, k := range keys {
		fmt.Printf("KNOWN-FINDING: property=%s %s — %s\n", r.ID, k, r.knownHit[k])
	}
	bulk, _ := r.extra["_bulk_distinct"].(int64)
	delete(r.extra, "_bulk_distinct")
	cov := map[string]any{}
	for k, v := range r.extra {
		cov[k] = v
	}
	cov["evaluations"] = r.evals
	cov["distinct_nontrivial"] = int64(len(r.distinct)) + bulk
	cov["rule"] = r.rule
	if len(r.samples) == 0 {
		r.samples = append(r.samples, "no sample recorded")
	}
	cov["samples"] = r.samples
	cov["exhaustive"] = r.exhaustive && len(r.capsHit) == 0
	if len(r.capsHit) > 0 {
		cov["caps_hit"] = r.capsHit
	}
	if r.states > 0 || r.transitions > 0 {
		cov["states"] = r.states
		cov["transitions"] = r.transitions
		cov["traces_validated_against_impl"] = r.traces
	}
	oc := make([]string, 0, len(r.outcomes))
	for k := range r.outcomes {
		oc = append(oc, k)
	}
	sort.Strings(oc)
	if len(oc) > 0 {
		cov["distinct_outcomes"] = len(oc)
		if len(oc) <= 40 {
			m := map[string]int64{}
			for _, k := range oc {
				m[k] = r.outcomes[k]
			}
			cov["outcomes"] = m
		}
	}
	cov["known_findings_met"] = keys
	cov["gomaxprocs"] = runtime.GOMAXPROCS(0)
	ev := map[string]any{
		"property_id": r.ID, "tier": r.Tier, "seed": r.Seed, "level": r.Level,
		"coverage": cov, "assumptions": r.assumptions,
		"wall_s": time.Since(r.start).Seconds(), "violations": r.nviol,
	}
	if r.assumptions == nil {
		ev["assumptions"] = []string{}
	}
	b, _ := json.MarshalIndent(ev, "", " ")
	out := env("VERIF_EVIDENCE", filepath.Join(VerifDir(), "evidence", r.ID+".json"))
	_ = os.MkdirAll(filepath.Dir(out), 0o755)
	if err := os.WriteFile(out, b, 0o644); err != nil {
		fmt.Printf("harness: cannot write evidence: %v\n", err)
	}
	fmt.Printf("SUMMARY property=%s tier=%s evaluations=%d distinct=%d states=%d transitions=%d violations=%d known=%d exhaustive=%v wall=%.1fs\n",
		r.ID, r.Tier, r.evals, int64(len(r.distinct))+bulk, r.states, r.transitions, r.nviol, len(keys), cov["exhaustive"], time.Since(r.start).Seconds())
	if r.nviol > 0 {
		r.T.Fail()
	}
}

// ParallelFor runs f(i) for i in [0,n) on all cores. f must be safe for concurrent use.
func ParallelFor(n int, f func(i int)) {
	w := runtime.GOMAXPROCS(0)
	if w > n {
		w = n
	}
	if w < 1 {
		w = 1
	}
	var next int64 = -1
	var wg sync.WaitGroup
	for k := 0; k < w; k++ {
		wg.Add(1)
		go func() {
			defer wg.Done()
			for {
				i := int(atomic.AddInt64(&next, 1))
				if i >= n {
					return
				}
				f(i)
			}
		}()
	}
	wg.Wait()
}

// Scratch returns a fresh scratch directory on tmpfs, removed by the test cleanup.
func Scratch(t *testing.T) string {
	base := "/dev/shm"
	if st, err := os.Stat(base); err != nil || !st.IsDir() {
		base = os.TempDir()
	}
	d, err := os.MkdirTemp(base, "verif-")
	if err != nil {
		t.Fatalf("scratch: %v", err)
	}
	t.Cleanup(func() { os.RemoveAll(d) })
	return d
}

// ReplayPath returns the artefact to replay, if the check was started with --replay.
func ReplayPath() string { return os.Getenv("VERIF_REPLAY") }

// LoadReplay reads a replay artefact's detail into v.
func LoadReplay(path string, v any) (key string, err error) {
	b, err := os.ReadFile(path)
	if err != nil {
		return "", err
	}
	var doc struct {
		Key    string          `json:"key"`
		Detail json.RawMessage `json:"detail"`
	}
	if err := json.Unmarshal(b, &doc); err != nil {
		return "", err
	}
	return doc.Key, json.Unmarshal(doc.Detail, v)
}
