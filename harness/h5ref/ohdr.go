//go:build verif

package h5ref

import (
	"fmt"
)

// Header message types (format specification IV.A.2).
const (
	msgNil          = 0x00
	msgDataspace    = 0x01
	msgLinkInfo     = 0x02
	msgDatatype     = 0x03
	msgFillOld      = 0x04
	msgFill         = 0x05
	msgLink         = 0x06
	msgExternal     = 0x07
	msgLayout       = 0x08
	msgBogus        = 0x09
	msgGroupInfo    = 0x0A
	msgPipeline     = 0x0B
	msgAttribute    = 0x0C
	msgComment      = 0x0D
	msgModTimeOld   = 0x0E
	msgSOHMTable    = 0x0F
	msgContinuation = 0x10
	msgSymbolTable  = 0x11
	msgModTime      = 0x12
	msgBTreeK       = 0x13
	msgDriverInfo   = 0x14
	msgAttrInfo     = 0x15
	msgRefCount     = 0x16
	msgFileSpace    = 0x17
)

type message struct {
	typ   int
	flags int
	data  []byte
	off   uint64 // absolute offset of data
	order int    // creation order (v2, when tracked), else -1
}

type header struct {
	addr     uint64 // absolute
	version  int
	flags    int
	refcount uint64
	msgs     []message
	ok       bool
}

// readHeader parses the object header at file address addr (relative to base).
func (d *dec) readHeader(addr uint64, owner string) *header {
	a := d.abs(addr)
	if h, ok := d.hdrCache[a]; ok {
		return h
	}
	h := &header{addr: a}
	d.hdrCache[a] = h
	if !d.spend(1) {
		return h
	}
	p, ok := d.at(a, 4)
	if !ok {
		d.err("object-header-outside-file at %d (%s)", a, owner)
		return h
	}
	if string(p) == "OHDR" {
		d.readHeaderV2(h, owner)
	} else if p[0] == 1 {
		d.readHeaderV1(h, owner)
	} else {
		d.err("object-header-bad-signature-or-version at %d (%s): % x", a, owner, p)
	}
	return h
}

func (d *dec) readHeaderV1(h *header, owner string) {
	a := h.addr
	p, ok := d.at(a, 16)
	if !ok {
		d.err("object-header-v1-prefix-outside-file at %d (%s)", a, owner)
		return
	}
	h.version = 1
	if p[1] != 0 {
		d.dev("ohdr-v1-reserved-nonzero", owner, fmt.Sprintf("byte 1 is %#x", p[1]))
	}
	nmsgs := int(le(p[2:], 2))
	h.refcount = le(p[4:], 4)
	size := le(p[8:], 4)
	// chunk 0: messages start at the next 8-byte boundary after the 12-byte prefix
	type chunk struct{ off, size uint64 }
	chunks := []chunk{{a + 16, size}}
	if _, ok := d.at(a+16, size); !ok {
		d.err("object-header-v1-chunk0-outside-file at %d size %d (%s)", a, size, owner)
		return
	}
	d.extent(a, a+16+size, "ohdr", owner)
	seen := map[uint64]bool{a + 16: true}
	count := 0
	for ci := 0; ci < len(chunks); ci++ {
		ck := chunks[ci]
		body, ok := d.at(ck.off, ck.size)
		if !ok {
			d.err("object-header-v1-continuation-outside-file at %d size %d (%s)", ck.off, ck.size, owner)
			continue
		}
		if ci > 0 {
			d.extent(ck.off, ck.off+ck.size, "ohdr-cont", owner)
		}
		pos := uint64(0)
		for pos+8 <= ck.size {
			if !d.spend(1) {
				return
			}
			typ := int(le(body[pos:], 2))
			msz := le(body[pos+2:], 2)
			fl := int(body[pos+4])
			if pos+8+msz > ck.size {
				d.dev("ohdr-v1-message-overruns-chunk", owner, fmt.Sprintf("message type %#x size %d at chunk offset %d, chunk size %d", typ, msz, pos, ck.size))
				break
			}
			if msz%8 != 0 {
				d.dev("ohdr-v1-message-size-not-multiple-of-8", owner, fmt.Sprintf("message type %#x size %d", typ, msz))
			}
			m := message{typ: typ, flags: fl, data: body[pos+8 : pos+8+msz], off: ck.off + pos + 8, order: -1}
			h.msgs = append(h.msgs, m)
			count++
			if typ == msgContinuation {
				c := &cur{p: m.data}
				coff := d.addr(c)
				clen := d.length(c)
				ca := d.abs(coff)
				if c.bad || ca == undef {
					d.err("object-header-continuation-message-malformed (%s)", owner)
				} else if !seen[ca] && len(chunks) < 4096 {
					seen[ca] = true
					chunks = append(chunks, chunk{ca, clen})
				}
			}
			pos += 8 + msz
			if msz%8 != 0 {
				// tolerated: keep 8-byte alignment of the next message header
				pos = (pos + 7) &^ 7
			}
		}
	}
	if count != nmsgs {
		d.dev("ohdr-v1-message-count-mismatch", owner, fmt.Sprintf("header says %d messages, chunks hold %d", nmsgs, count))
	}
	h.ok = true
}

func (d *dec) readHeaderV2(h *header, owner string) {
	a := h.addr
	p, ok := d.at(a, 6)
	if !ok {
		d.err("object-header-v2-prefix-outside-file at %d (%s)", a, owner)
		return
	}
	h.version = int(p[4])
	if h.version != 2 {
		d.err("object-header-v2-bad-version %d at %d (%s)", h.version, a, owner)
		return
	}
	h.flags = int(p[5])
	if h.flags&0xC0 != 0 {
		d.dev("ohdr-v2-reserved-flag-bits", owner, fmt.Sprintf("flags %#x", h.flags))
	}
	pre := uint64(6)
	if h.flags&0x20 != 0 {
		pre += 16
	}
	if h.flags&0x10 != 0 {
		pre += 4
	}
	szw := uint64(1) << uint(h.flags&3)
	q, ok := d.at(a+pre, szw)
	if !ok {
		d.err("object-header-v2-prefix-outside-file at %d (%s)", a, owner)
		return
	}
	size := le(q, int(szw))
	pre += szw
	mh := uint64(4)
	if h.flags&0x04 != 0 {
		mh = 6
	}
	h.refcount = 1
	whole, ok := d.at(a, pre+size)
	if !ok {
		d.err("object-header-v2-chunk0-outside-file at %d size %d (%s)", a, size, owner)
		return
	}
	// checksum of chunk 0 covers everything from the signature to the end of the messages
	end := a + pre + size
	if cs, ok := d.at(end, 4); ok {
		stored := uint32(le(cs, 4))
		if Lookup3(whole) == stored {
			end += 4
		} else if d.checksumAlt(whole, stored, "ohdr", owner) {
			end += 4
		} else if stored == 0 {
			d.dev("ohdr-v2-no-checksum", owner, "the four bytes after the messages of chunk 0 are zero, not the lookup3 checksum of the header")
		} else {
			d.dev("ohdr-v2-no-checksum", owner, fmt.Sprintf("the four bytes after the messages of chunk 0 (%#08x) are not the checksum of the header (lookup3 %#08x)", stored, Lookup3(whole)))
		}
	} else {
		d.dev("ohdr-v2-no-checksum", owner, "the header ends at the end of the file without room for a checksum")
	}
	d.extent(a, end, "ohdr", owner)
	type chunk struct {
		off, size uint64
		cont      bool
	}
	chunks := []chunk{{a + pre, size, false}}
	seen := map[uint64]bool{a: true}
	for ci := 0; ci < len(chunks); ci++ {
		ck := chunks[ci]
		body, ok := d.at(ck.off, ck.size)
		if !ok {
			d.err("object-header-v2-continuation-outside-file at %d size %d (%s)", ck.off, ck.size, owner)
			continue
		}
		pos := uint64(0)
		for pos+mh <= ck.size {
			if !d.spend(1) {
				return
			}
			typ := int(body[pos])
			msz := le(body[pos+1:], 2)
			fl := int(body[pos+3])
			order := -1
			if mh == 6 {
				order = int(le(body[pos+4:], 2))
			}
			if pos+mh+msz > ck.size {
				d.dev("ohdr-v2-message-overruns-chunk", owner, fmt.Sprintf("message type %#x size %d at chunk offset %d, chunk size %d", typ, msz, pos, ck.size))
				break
			}
			m := message{typ: typ, flags: fl, data: body[pos+mh : pos+mh+msz], off: ck.off + pos + mh, order: order}
			h.msgs = append(h.msgs, m)
			if typ == msgContinuation {
				c := &cur{p: m.data}
				coff := d.addr(c)
				clen := d.length(c)
				ca := d.abs(coff)
				if c.bad || ca == undef || clen < 8 {
					d.err("object-header-continuation-message-malformed (%s)", owner)
				} else if !seen[ca] && len(chunks) < 4096 {
					seen[ca] = true
					blk, ok := d.at(ca, clen)
					if !ok {
						d.err("object-header-v2-continuation-outside-file at %d size %d (%s)", ca, clen, owner)
					} else if string(blk[:4]) != "OCHK" {
						d.dev("ohdr-v2-continuation-without-ochk-signature", owner, fmt.Sprintf("block at %d starts % x", ca, blk[:4]))
						d.extent(ca, ca+clen, "ohdr-cont", owner)
						chunks = append(chunks, chunk{ca, clen, true})
					} else {
						d.extent(ca, ca+clen, "ohdr-cont", owner)
						d.checksum(blk[:clen-4], uint32(le(blk[clen-4:], 4)), "ochk", owner)
						chunks = append(chunks, chunk{ca + 4, clen - 8, true})
					}
				}
			}
			pos += mh + msz
		}
		for ; pos < ck.size; pos++ {
			if body[pos] != 0 {
				d.dev("ohdr-v2-gap-not-zero", owner, fmt.Sprintf("gap byte at chunk offset %d is %#x", pos, body[pos]))
				break
			}
		}
	}
	h.ok = true
}

// checksumAlt recognises a stored CRC-32 in place of lookup3.
func (d *dec) checksumAlt(body []byte, stored uint32, structure, where string) bool {
	if crc32ieee(body) == stored {
		d.dev("checksum-crc32-not-lookup3@"+structure, where, fmt.Sprintf("stored %#08x is the CRC-32 of the covered bytes; the specification requires Jenkins lookup3", stored))
		return true
	}
	return false
}

func (h *header) find(typ int) *message {
	for i := range h.msgs {
		if h.msgs[i].typ == typ {
			return &h.msgs[i]
		}
	}
	return nil
}

func (h *header) all(typ int) []*message {
	var out []*message
	for i := range h.msgs {
		if h.msgs[i].typ == typ {
			out = append(out, &h.msgs[i])
		}
	}
	return out
}
