//go:build verif

package h5ref

import (
	"fmt"
)

type fblock struct {
	heapOff uint64
	size    uint64
	abs     uint64
}

type fheap struct {
	ok         bool
	hdrAbs     uint64
	idLen      int
	flags      int
	filtered   bool
	maxManaged uint64
	W          int
	S, M       uint64
	maxBits    int
	curRows    int
	root       uint64
	offSize    int // heap offset size in bytes
	lenSize    int // heap length size in bytes
	blockHdr   int
	nobjects   uint64
	blocks     []fblock
	hugeBTree  uint64
}

func (d *dec) readFractalHeap(addr uint64, owner string) *fheap {
	fh := &fheap{}
	a := d.abs(addr)
	O, L := d.offSize, d.lenSize
	fixed := uint64(22 + 12*L + 3*O + 4)
	p, ok := d.at(a, fixed)
	if !ok {
		d.err("fractal-heap-header-outside-file at %d (%s)", a, owner)
		return fh
	}
	if string(p[:4]) != "FRHP" {
		d.err("fractal-heap-bad-signature at %d (%s): % x", a, owner, p[:4])
		return fh
	}
	c := &cur{p: p, pos: 4}
	if v := c.u8(); v != 0 {
		d.dev("frhp-version-not-0", owner, fmt.Sprintf("%d", v))
	}
	fh.hdrAbs = a
	fh.idLen = c.u16()
	filtLen := c.u16()
	fh.flags = c.u8()
	fh.maxManaged = c.u32()
	d.length(c) // next huge object id
	fh.hugeBTree = d.addr(c)
	d.length(c) // free space in managed blocks
	d.addr(c)   // free space manager
	managedSpace := d.length(c)
	d.length(c) // allocated managed space
	d.length(c) // iterator offset
	fh.nobjects = d.length(c)
	d.length(c)
	d.length(c)
	d.length(c)
	d.length(c)
	fh.W = c.u16()
	fh.S = d.length(c)
	fh.M = d.length(c)
	fh.maxBits = c.u16()
	c.u16() // starting rows in root indirect block
	fh.root = d.addr(c)
	fh.curRows = c.u16()
	total := fixed
	if filtLen > 0 {
		fh.filtered = true
		total += uint64(L + 4 + filtLen)
		p, ok = d.at(a, total)
		if !ok {
			d.err("fractal-heap-header-outside-file at %d (%s)", a, owner)
			return fh
		}
	}
	stored := uint32(le(p[total-4:], 4))
	d.checksum(p[:total-4], stored, "frhp", owner)
	d.extent(a, a+total, "frhp", owner)
	if fh.W == 0 || fh.S == 0 || fh.M < fh.S || fh.S&(fh.S-1) != 0 || fh.M&(fh.M-1) != 0 || fh.W&(fh.W-1) != 0 || fh.maxBits == 0 || fh.maxBits > 64 {
		d.err("fractal-heap-doubling-table-invalid (%s): width %d start %d max-direct %d max-heap-bits %d", owner, fh.W, fh.S, fh.M, fh.maxBits)
		return fh
	}
	if fh.maxBits < 64 && fh.S > uint64(1)<<uint(fh.maxBits) {
		d.dev("frhp-block-size-exceeds-heap-address-space", owner, fmt.Sprintf("starting block size %d, but heap offsets have %d bits", fh.S, fh.maxBits))
	}
	fh.offSize = (fh.maxBits + 7) / 8
	fh.lenSize = min((log2floor(fh.M)+7)/8, limitEncSize(fh.maxManaged))
	if fh.lenSize < 1 {
		fh.lenSize = 1
	}
	fh.blockHdr = 5 + O + fh.offSize
	if fh.flags&2 != 0 {
		fh.blockHdr += 4
	}
	_ = managedSpace
	if fh.filtered {
		d.unsupported("fractal-heap-with-io-filters")
		return fh
	}
	fh.ok = true
	if fh.root == undef {
		return fh
	}
	if fh.curRows == 0 {
		d.directBlock(fh, fh.root, 0, fh.S, owner)
	} else {
		d.indirectBlock(fh, fh.root, 0, fh.curRows, owner, 0)
	}
	return fh
}

func (fh *fheap) rowSize(r int) uint64 {
	if r < 2 {
		return fh.S
	}
	return fh.S << uint(r-1)
}

func (fh *fheap) maxDirectRows() int { return log2floor(fh.M) - log2floor(fh.S) + 2 }

func (d *dec) directBlock(fh *fheap, addr, heapOff, size uint64, owner string) {
	if !d.spend(1) {
		return
	}
	a := d.abs(addr)
	p, ok := d.at(a, size)
	if !ok {
		d.err("fractal-heap-direct-block-outside-file at %d size %d (%s)", a, size, owner)
		return
	}
	if string(p[:4]) != "FHDB" {
		d.err("fractal-heap-direct-block-bad-signature at %d (%s): % x", a, owner, p[:4])
		return
	}
	d.extent(a, a+size, "fhdb", owner)
	c := &cur{p: p, pos: 4}
	if v := c.u8(); v != 0 {
		d.dev("fhdb-version-not-0", owner, fmt.Sprintf("%d", v))
	}
	if ha := d.abs(d.addr(c)); ha != fh.hdrAbs {
		d.dev("fhdb-heap-header-address-wrong", owner, fmt.Sprintf("block at %d names header %d, header is at %d", a, ha, fh.hdrAbs))
	}
	bo := c.u(fh.offSize)
	if bo != heapOff {
		d.dev("fhdb-block-offset-wrong", owner, fmt.Sprintf("block at %d says heap offset %d, doubling table position is %d", a, bo, heapOff))
	}
	if fh.flags&2 != 0 {
		stored := uint32(c.u32())
		tmp := append([]byte{}, p...)
		for i := 0; i < 4; i++ {
			tmp[c.pos-4+i] = 0
		}
		d.checksum(tmp, stored, "fhdb", owner)
	}
	fh.blocks = append(fh.blocks, fblock{heapOff: heapOff, size: size, abs: a})
}

func (d *dec) indirectBlock(fh *fheap, addr, heapOff uint64, nrows int, owner string, depth int) {
	if !d.spend(1) || depth > 16 {
		return
	}
	a := d.abs(addr)
	O := d.offSize
	mdr := fh.maxDirectRows()
	nd := min(nrows, mdr) * fh.W
	ni := 0
	if nrows > mdr {
		ni = (nrows - mdr) * fh.W
	}
	size := uint64(5 + O + fh.offSize + nd*O + ni*O + 4)
	p, ok := d.at(a, size)
	if !ok {
		d.err("fractal-heap-indirect-block-outside-file at %d (%s)", a, owner)
		return
	}
	if string(p[:4]) != "FHIB" {
		d.err("fractal-heap-indirect-block-bad-signature at %d (%s): % x", a, owner, p[:4])
		return
	}
	d.extent(a, a+size, "fhib", owner)
	d.checksum(p[:size-4], uint32(le(p[size-4:], 4)), "fhib", owner)
	c := &cur{p: p, pos: 5}
	if ha := d.abs(d.addr(c)); ha != fh.hdrAbs {
		d.dev("fhib-heap-header-address-wrong", owner, fmt.Sprintf("block at %d names header %d", a, ha))
	}
	bo := c.u(fh.offSize)
	if bo != heapOff {
		d.dev("fhib-block-offset-wrong", owner, fmt.Sprintf("block at %d says heap offset %d, expected %d", a, bo, heapOff))
	}
	off := heapOff
	for r := 0; r < nrows; r++ {
		rs := fh.rowSize(r)
		for col := 0; col < fh.W; col++ {
			child := d.addr(c)
			if child != undef {
				if r < mdr {
					d.directBlock(fh, child, off, rs, owner)
				} else {
					rows := log2floor(rs) - (log2floor(fh.S) + log2floor(uint64(fh.W))) + 1
					d.indirectBlock(fh, child, off, rows, owner, depth+1)
				}
			}
			off += rs
		}
	}
}

// managed returns the bytes of a managed object. variant=true reads it at the position the
// writer under test uses (heap offsets that do not count the direct block's own prefix).
func (d *dec) managed(fh *fheap, off, n uint64, variant bool) ([]byte, bool) {
	for _, b := range fh.blocks {
		if off >= b.heapOff && off < b.heapOff+b.size {
			rel := off - b.heapOff
			if variant {
				rel += uint64(fh.blockHdr)
			}
			if rel+n > b.size {
				return nil, false
			}
			return d.at(b.abs+rel, n)
		}
	}
	return nil, false
}

type heapID struct {
	kind int // 0 managed 1 huge 2 tiny
	off  uint64
	n    uint64
	tiny []byte
}

func (d *dec) parseHeapID(fh *fheap, id []byte, owner string) (heapID, bool) {
	var h heapID
	if len(id) < 1 {
		return h, false
	}
	if id[0]&0xC0 != 0 {
		d.dev("fractal-heap-id-version-not-0", owner, fmt.Sprintf("%#x", id[0]))
	}
	h.kind = int(id[0] >> 4 & 3)
	switch h.kind {
	case 0:
		if 1+fh.offSize+fh.lenSize > len(id) {
			d.err("fractal-heap-id-too-short (%s): %d bytes for offset %d + length %d", owner, len(id), fh.offSize, fh.lenSize)
			return h, false
		}
		h.off = le(id[1:], fh.offSize)
		h.n = le(id[1+fh.offSize:], fh.lenSize)
		return h, true
	case 2:
		n := int(id[0]&0x0F) + 1
		if fh.idLen > 18 {
			// extended tiny objects: 12-bit length
			if len(id) < 2 {
				return h, false
			}
			n = (int(id[0]&0x0F)<<8 | int(id[1])) + 1
			if 2+n > len(id) {
				return h, false
			}
			h.tiny = id[2 : 2+n]
			return h, true
		}
		if 1+n > len(id) {
			return h, false
		}
		h.tiny = id[1 : 1+n]
		return h, true
	default:
		d.unsupported("fractal-heap-huge-object")
		return h, false
	}
}
