//go:build verif

package h5ref

import (
	"fmt"
)

var sbSignature = []byte{0x89, 'H', 'D', 'F', '\r', '\n', 0x1a, '\n'}

func (d *dec) findSuperblock() (uint64, bool) {
	for off := uint64(0); off+8 <= uint64(len(d.b)); {
		if string(d.b[off:off+8]) == string(sbSignature) {
			return off, true
		}
		if off == 0 {
			off = 512
		} else {
			off *= 2
		}
	}
	return 0, false
}

func (d *dec) run() {
	res := d.res
	sbOff, ok := d.findSuperblock()
	if !ok {
		d.err("superblock-signature-not-found")
		return
	}
	res.SuperblockOffset = sbOff
	p, ok := d.at(sbOff, 12)
	if !ok {
		d.err("superblock-truncated")
		return
	}
	ver := int(p[8])
	res.SuperblockVersion = ver
	d.sbVer = ver
	var rootHeader uint64 = undef
	var rootBTree, rootHeap uint64 = undef, undef
	var extAddr uint64 = undef
	var storedBase, storedEOF uint64
	switch ver {
	case 0, 1:
		fixed := uint64(24)
		if ver == 1 {
			fixed = 28
		}
		q, ok := d.at(sbOff, fixed)
		if !ok {
			d.err("superblock-truncated")
			return
		}
		if q[9] != 0 {
			d.dev("superblock-free-space-version-nonzero", "superblock", fmt.Sprintf("%d", q[9]))
		}
		if q[10] != 0 {
			d.dev("superblock-root-entry-version-nonzero", "superblock", fmt.Sprintf("%d", q[10]))
		}
		if q[12] != 0 {
			d.dev("superblock-shared-header-version-nonzero", "superblock", fmt.Sprintf("%d", q[12]))
		}
		d.offSize, d.lenSize = int(q[13]), int(q[14])
		if !validSize(d.offSize) || !validSize(d.lenSize) {
			d.err("superblock-bad-offset-or-length-size %d/%d", d.offSize, d.lenSize)
			return
		}
		d.groupLeafK = int(le(q[16:], 2))
		d.groupInternalK = int(le(q[18:], 2))
		if d.groupLeafK == 0 || d.groupInternalK == 0 {
			d.dev("superblock-group-k-zero", "superblock", fmt.Sprintf("leaf %d internal %d", d.groupLeafK, d.groupInternalK))
			if d.groupLeafK == 0 {
				d.groupLeafK = 4
			}
			if d.groupInternalK == 0 {
				d.groupInternalK = 16
			}
		}
		if ver == 1 {
			d.chunkK = int(le(q[24:], 2))
			if d.chunkK == 0 {
				d.dev("superblock-chunk-k-zero", "superblock", "")
				d.chunkK = 32
			}
		}
		O := uint64(d.offSize)
		total := fixed + 4*O + (2*O + 24)
		q, ok = d.at(sbOff, total)
		if !ok {
			d.err("superblock-truncated")
			return
		}
		c := &cur{p: q, pos: int(fixed)}
		storedBase = c.u(d.offSize)
		freeSpace := d.addr(c)
		storedEOF = c.u(d.offSize)
		driver := d.addr(c)
		// root group symbol table entry
		c.u(d.offSize) // link name offset
		rootHeader = d.addr(c)
		cacheType := c.u32()
		c.u32()
		scratch := c.bytes(16)
		if cacheType == 1 {
			sc := &cur{p: scratch}
			rootBTree = d.addr(sc)
			rootHeap = d.addr(sc)
		} else if cacheType > 2 {
			d.dev("superblock-root-entry-cache-type-invalid", "superblock", fmt.Sprintf("%d", cacheType))
		}
		if freeSpace != undef {
			d.dev("superblock-free-space-address-defined", "superblock", fmt.Sprintf("%d", freeSpace))
		}
		d.extent(sbOff, sbOff+total, "superblock", "superblock")
		d.setBase(sbOff, storedBase, storedEOF)
		if driver != undef {
			d.driverInfo(driver)
		}
	case 2, 3:
		d.offSize, d.lenSize = int(p[9]), int(p[10])
		if !validSize(d.offSize) || !validSize(d.lenSize) {
			d.err("superblock-bad-offset-or-length-size %d/%d", d.offSize, d.lenSize)
			return
		}
		O := uint64(d.offSize)
		total := 12 + 4*O + 4
		q, ok := d.at(sbOff, total)
		if !ok {
			d.err("superblock-truncated")
			return
		}
		c := &cur{p: q, pos: 12}
		storedBase = c.u(d.offSize)
		extAddr = d.addr(c)
		storedEOF = c.u(d.offSize)
		rootHeader = d.addr(c)
		stored := uint32(c.u32())
		d.checksum(q[:total-4], stored, "superblock", "superblock")
		d.extent(sbOff, sbOff+total, "superblock", "superblock")
		d.setBase(sbOff, storedBase, storedEOF)
	default:
		d.err("superblock-version-unknown %d", ver)
		return
	}
	res.OffsetSize, res.LengthSize = d.offSize, d.lenSize
	if extAddr != undef {
		d.superblockExtension(extAddr)
	}
	if rootHeader == undef {
		d.err("superblock-root-object-header-address-undefined")
		return
	}
	root := d.walk("/", rootHeader, map[uint64]bool{}, 0, rootBTree, rootHeap)
	res.Root = root
}

func validSize(n int) bool { return n == 2 || n == 4 || n == 8 }

func (d *dec) setBase(sbOff, storedBase, storedEOF uint64) {
	// The library treats the location of the superblock as the base address; the stored
	// end-of-file address is absolute with respect to the stored base address.
	d.base = sbOff
	d.res.BaseAddress = sbOff
	eof := storedEOF
	if storedBase != sbOff {
		if storedBase == 0 {
			// superblock found behind a user block although the base address field says 0
			eof = storedEOF + sbOff
		} else if storedEOF >= storedBase {
			eof = storedEOF - storedBase + sbOff
		}
	}
	d.res.EOFAddress = eof
	n := uint64(len(d.b))
	switch {
	case eof < n:
		d.dev("eof-address-stale", "superblock", fmt.Sprintf("end-of-file address %d, file has %d bytes", eof, n))
	case eof > n:
		d.dev("eof-address-beyond-file", "superblock", fmt.Sprintf("end-of-file address %d, file has %d bytes", eof, n))
	}
}

func (d *dec) driverInfo(addr uint64) {
	a := d.abs(addr)
	p, ok := d.at(a, 16)
	if !ok {
		d.err("driver-info-block-outside-file at %d", a)
		return
	}
	size := le(p[4:], 4)
	d.extent(a, a+16+size, "driver-info", "superblock")
	d.unsupported("driver-info-block %q", string(p[8:16]))
}

// superblockExtension reads the B-tree K values from the superblock extension object header.
func (d *dec) superblockExtension(addr uint64) {
	h := d.readHeader(addr, "superblock-extension")
	if !h.ok {
		return
	}
	for _, m := range h.msgs {
		switch m.typ {
		case msgBTreeK:
			if len(m.data) >= 7 {
				if k := int(le(m.data[1:], 2)); k > 0 {
					d.chunkK = k
				}
				if k := int(le(m.data[3:], 2)); k > 0 {
					d.groupInternalK = k
				}
				if k := int(le(m.data[5:], 2)); k > 0 {
					d.groupLeafK = k
				}
			}
		case msgSOHMTable:
			d.unsupported("shared-object-header-message-table")
		case msgDriverInfo:
			d.unsupported("driver-info-message")
		}
	}
}
