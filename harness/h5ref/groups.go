//go:build verif

package h5ref

import (
	"fmt"
)

type localHeap struct {
	data []byte
	ok   bool
}

func (h *localHeap) str(off uint64) (string, bool) {
	if h == nil || !h.ok || off >= uint64(len(h.data)) {
		return "", false
	}
	s, _, ok := cstr(h.data, int(off))
	return s, ok
}

func (d *dec) readLocalHeap(addr uint64, owner string) *localHeap {
	h := &localHeap{}
	a := d.abs(addr)
	hs := uint64(8 + 2*d.lenSize + d.offSize)
	p, ok := d.at(a, hs)
	if !ok {
		d.err("local-heap-header-outside-file at %d (%s)", a, owner)
		return h
	}
	if string(p[:4]) != "HEAP" {
		d.err("local-heap-bad-signature at %d (%s): % x", a, owner, p[:4])
		return h
	}
	d.extent(a, a+hs, "local-heap-header", owner)
	if p[4] != 0 {
		d.dev("local-heap-version-not-0", owner, fmt.Sprintf("%d", p[4]))
	}
	if p[5] != 0 || p[6] != 0 || p[7] != 0 {
		d.dev("local-heap-reserved-nonzero", owner, fmt.Sprintf("% x", p[5:8]))
	}
	c := &cur{p: p, pos: 8}
	size := d.length(c)
	free := d.length(c)
	da := d.addr(c)
	dabs := d.abs(da)
	data, ok := d.at(dabs, size)
	if !ok {
		d.err("local-heap-data-segment-outside-file at %d size %d (%s)", dabs, size, owner)
		return h
	}
	d.extent(dabs, dabs+size, "local-heap-data", owner)
	h.data, h.ok = data, true
	// free list: 1 (the library's H5HL_FREE_NULL) or the undefined length means "none"
	if free != 1 && !d.isUndef(free, d.lenSize) {
		seen := 0
		for free != 1 && !d.isUndef(free, d.lenSize) {
			L := uint64(d.lenSize)
			if free+2*L > size || seen > 100000 {
				d.dev("local-heap-free-list-invalid", owner, fmt.Sprintf("free block at offset %d in a %d-byte data segment", free, size))
				break
			}
			next := le(data[free:], d.lenSize)
			bs := le(data[free+L:], d.lenSize)
			if bs < 2*L || free+bs > size {
				d.dev("local-heap-free-list-invalid", owner, fmt.Sprintf("free block at offset %d has size %d in a %d-byte data segment", free, bs, size))
				break
			}
			seen++
			free = next
		}
	}
	return h
}

type symEntry struct {
	nameOff   uint64
	hdr       uint64
	cacheType int
	scratch   []byte
}

func (d *dec) readSNOD(addr uint64, owner string) ([]symEntry, bool) {
	a := d.abs(addr)
	p, ok := d.at(a, 8)
	if !ok {
		d.err("snod-outside-file at %d (%s)", a, owner)
		return nil, false
	}
	if string(p[:4]) != "SNOD" {
		d.err("snod-bad-signature at %d (%s): % x", a, owner, p[:4])
		return nil, false
	}
	if p[4] != 1 {
		d.dev("snod-version-not-1", owner, fmt.Sprintf("%d", p[4]))
	}
	if p[5] != 0 {
		d.dev("snod-reserved-nonzero", owner, fmt.Sprintf("%#x", p[5]))
	}
	n := int(le(p[6:], 2))
	es := uint64(2*d.offSize + 24)
	capacity := 2 * d.groupLeafK
	full := 8 + uint64(capacity)*es
	used := 8 + uint64(n)*es
	if n > capacity {
		d.dev("snod-entries-exceed-2k-leaf", owner, fmt.Sprintf("%d symbols in a node whose capacity is 2 x group leaf K = %d", n, capacity))
		full = used
	}
	body, ok := d.at(a, used)
	if !ok {
		d.err("snod-entries-outside-file at %d, %d symbols (%s)", a, n, owner)
		return nil, false
	}
	if _, ok := d.at(a, full); !ok {
		d.dev("snod-not-full-size", owner, fmt.Sprintf("node at %d: capacity %d entries needs %d bytes, file ends before", a, capacity, full))
		full = used
	}
	d.extent(a, a+full, "snod", owner)
	var out []symEntry
	c := &cur{p: body, pos: 8}
	for i := 0; i < n; i++ {
		e := symEntry{nameOff: c.u(d.offSize)}
		e.hdr = d.addr(c)
		e.cacheType = int(c.u32())
		c.u32()
		e.scratch = c.bytes(16)
		out = append(out, e)
	}
	return out, !c.bad
}

// groupBTree walks a version 1 B-tree of type 0 and returns the symbol table entries of all
// leaves in key order.
func (d *dec) groupBTree(addr uint64, heap *localHeap, owner string) []symEntry {
	var out []symEntry
	visited := map[uint64]bool{}
	var walk func(addr uint64, depth int, wantLevel int)
	walk = func(addr uint64, depth int, wantLevel int) {
		a := d.abs(addr)
		if visited[a] || depth > 64 || !d.spend(1) {
			if visited[a] {
				d.err("btree-v1-group-node-revisited at %d (%s)", a, owner)
			}
			return
		}
		visited[a] = true
		O, L := uint64(d.offSize), uint64(d.lenSize)
		hs := 8 + 2*O
		p, ok := d.at(a, hs)
		if !ok {
			d.err("btree-v1-group-node-outside-file at %d (%s)", a, owner)
			return
		}
		if string(p[:4]) != "TREE" {
			d.err("btree-v1-group-bad-signature at %d (%s): % x", a, owner, p[:4])
			return
		}
		if p[4] != 0 {
			d.err("btree-v1-group-node-type %d at %d (%s)", p[4], a, owner)
			return
		}
		level := int(p[5])
		if wantLevel >= 0 && level != wantLevel {
			d.dev("btree-v1-level-not-parent-minus-one@group", owner, fmt.Sprintf("node at %d has level %d, expected %d", a, level, wantLevel))
		}
		n := int(le(p[6:], 2))
		K := d.groupInternalK
		if n > 2*K {
			d.dev("btree-v1-node-entries-exceed-2k@group", owner, fmt.Sprintf("%d entries, K=%d", n, K))
		}
		used := hs + uint64(n)*(L+O) + L
		full := hs + uint64(2*K+1)*L + uint64(2*K)*O
		body, ok := d.at(a, used)
		if !ok {
			d.err("btree-v1-group-node-entries-outside-file at %d (%s)", a, owner)
			return
		}
		d.extent(a, a+used, "btree-v1-group", owner)
		if full > used {
			d.caps = append(d.caps, capExtent{start: a, usedEnd: a + used, fullEnd: a + full, tag: "btree-v1-node-not-full-size@group", where: owner})
		}
		c := &cur{p: body, pos: int(hs)}
		keys := make([]uint64, 0, n+1)
		kids := make([]uint64, 0, n)
		for i := 0; i < n; i++ {
			keys = append(keys, c.u(d.lenSize))
			kids = append(kids, d.addr(c))
		}
		keys = append(keys, c.u(d.lenSize))
		for i, k := range kids {
			if k == undef {
				d.dev("btree-v1-child-address-undefined@group", owner, fmt.Sprintf("node at %d child %d", a, i))
				continue
			}
			if level > 0 {
				walk(k, depth+1, level-1)
				continue
			}
			ents, ok := d.readSNOD(k, owner)
			if !ok {
				continue
			}
			// names must be in increasing order within the node and bounded by the keys
			prev := ""
			lo, loOK := heap.str(keys[i])
			hi, hiOK := heap.str(keys[i+1])
			for j, e := range ents {
				name, ok := heap.str(e.nameOff)
				if !ok {
					continue
				}
				if j > 0 && name <= prev {
					d.dev("snod-entries-not-sorted", owner, fmt.Sprintf("%q follows %q", name, prev))
				}
				prev = name
				if loOK && hiOK && (name <= lo || name > hi) {
					d.dev("btree-v1-group-keys-not-bounding-names", owner, fmt.Sprintf("name %q is not in (%q, %q], the interval given by keys %d and %d of the node at %d", name, lo, hi, i, i+1, a))
				}
			}
			out = append(out, ents...)
		}
	}
	walk(addr, 0, -1)
	return out
}
