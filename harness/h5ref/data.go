//go:build verif

package h5ref

import (
	"bytes"
	"compress/flate"
	"compress/zlib"
	"fmt"
	"io"
	"sort"
)

const maxRaw = 256 << 20

type gcol struct {
	ok   bool
	objs map[int][]byte
}

// readGCOL parses the global heap collection at the given file address.
func (d *dec) readGCOL(addr uint64, owner string) *gcol {
	a := d.abs(addr)
	if g, ok := d.gcols[a]; ok {
		return g
	}
	g := &gcol{objs: map[int][]byte{}}
	d.gcols[a] = g
	hs := uint64(8 + d.lenSize)
	p, ok := d.at(a, hs)
	if !ok {
		d.err("global-heap-collection-outside-file at %d (%s)", a, owner)
		return g
	}
	if string(p[:4]) != "GCOL" {
		d.err("global-heap-bad-signature at %d (%s): % x", a, owner, p[:4])
		return g
	}
	if p[4] != 1 {
		d.dev("gcol-version-not-1", owner, fmt.Sprintf("%d", p[4]))
	}
	if p[5] != 0 || p[6] != 0 || p[7] != 0 {
		d.dev("gcol-reserved-nonzero", owner, fmt.Sprintf("% x", p[5:8]))
	}
	size := le(p[8:], d.lenSize)
	if size < 4096 {
		d.dev("gcol-smaller-than-4096", owner, fmt.Sprintf("%d", size))
	}
	body, ok := d.at(a, size)
	if !ok || size < hs {
		d.err("global-heap-collection-extends-beyond-file at %d size %d (%s)", a, size, owner)
		return g
	}
	d.extent(a, a+size, "gcol", owner)
	g.ok = true
	L := uint64(d.lenSize)
	oh := 8 + L
	pos := (hs + 7) &^ 7
	for pos+oh <= size {
		if !d.spend(1) {
			break
		}
		idx := int(le(body[pos:], 2))
		if le(body[pos+4:], 4) != 0 {
			d.dev("gcol-object-reserved-nonzero", owner, fmt.Sprintf("object %d", idx))
		}
		osz := le(body[pos+8:], d.lenSize)
		if idx == 0 {
			rem := size - pos
			if osz != rem && osz != rem-oh {
				d.dev("gcol-free-space-size-inconsistent", owner, fmt.Sprintf("free-space object says %d, %d bytes remain in the collection", osz, rem))
			}
			break
		}
		if osz > size || pos+oh+osz > size {
			d.dev("gcol-object-extends-beyond-collection", owner, fmt.Sprintf("object %d size %d at %d of %d", idx, osz, pos, size))
			break
		}
		if _, dup := g.objs[idx]; dup {
			d.dev("gcol-duplicate-object-index", owner, fmt.Sprintf("%d", idx))
		}
		g.objs[idx] = body[pos+oh : pos+oh+osz]
		pos += oh + (osz+7)&^7
	}
	return g
}

// vlenElements resolves variable-length elements (length, collection address, index).
func (d *dec) vlenElements(raw []byte, dt *Datatype, owner string) ([][]byte, string) {
	es := 4 + d.offSize + 4
	if dt.Size != es {
		// the datatype size is the in-memory size on the writing machine; the stored element is
		// always length + global heap ID
		if dt.Size < es || len(raw)%dt.Size != 0 {
			return nil, fmt.Sprintf("vlen-element-size %d, stored elements need %d", dt.Size, es)
		}
	}
	step := dt.Size
	if step < es {
		step = es
	}
	n := len(raw) / step
	out := make([][]byte, n)
	bs := 1
	if !dt.VLenString && dt.Base != nil {
		bs = dt.Base.Size
	}
	O := d.offSize
	for i := 0; i < n; i++ {
		el := raw[i*step : i*step+es]
		allZero := true
		for _, x := range el {
			if x != 0 {
				allZero = false
			}
		}
		if allZero {
			out[i] = []byte{}
			continue
		}
		ln := le(el, 4)
		ca := le(el[4:], O)
		idx := int(le(el[4+O:], 4))
		isGCOL := func(a uint64) bool {
			p, ok := d.at(d.abs(a), 4)
			return ok && string(p) == "GCOL"
		}
		variant := false
		if !isGCOL(ca) {
			// (collection address, index, padding) without the length field?
			ca2 := le(el, O)
			if isGCOL(ca2) {
				variant = true
				ca = ca2
				idx = int(le(el[O:], 4))
				d.dev("vlen-element-without-length", owner, fmt.Sprintf("element %d is stored as (collection address %d, index %d, 4 zero bytes); the specification stores (length, collection address, index)", i, ca, idx))
			} else {
				if ln == 0 {
					out[i] = []byte{}
					continue
				}
				return nil, fmt.Sprintf("vlen-element %d does not reference a global heap collection (% x)", i, el)
			}
		}
		g := d.readGCOL(ca, owner)
		if !g.ok {
			return nil, fmt.Sprintf("vlen-element %d: collection at %d unreadable", i, ca)
		}
		ob, ok := g.objs[idx]
		if !ok {
			d.dev("vlen-element-heap-object-missing", owner, fmt.Sprintf("element %d: collection %d has no object %d", i, ca, idx))
			return nil, fmt.Sprintf("vlen-element %d: object %d missing in collection at %d", i, idx, ca)
		}
		if variant {
			out[i] = ob
			continue
		}
		need := ln * uint64(bs)
		if need > uint64(len(ob)) {
			d.dev("vlen-element-length-exceeds-heap-object", owner, fmt.Sprintf("element %d: length %d x %d bytes, heap object has %d bytes", i, ln, bs, len(ob)))
			need = uint64(len(ob))
		}
		out[i] = ob[:need]
	}
	return out, ""
}

type chunkRec struct {
	size   uint32
	mask   uint32
	offs   []uint64
	addr   uint64
	filter bool
}

// chunkBTree collects the leaf entries of a version 1 B-tree of type 1.
func (d *dec) chunkBTree(addr uint64, ndims int, owner string) ([]chunkRec, bool) {
	var out []chunkRec
	okAll := true
	visited := map[uint64]bool{}
	keySize := uint64(8 + 8*ndims)
	O := uint64(d.offSize)
	var walk func(addr uint64, depth, wantLevel int)
	walk = func(addr uint64, depth, wantLevel int) {
		a := d.abs(addr)
		if visited[a] || depth > 64 || !d.spend(1) {
			okAll = false
			return
		}
		visited[a] = true
		hs := 8 + 2*O
		p, ok := d.at(a, hs)
		if !ok {
			d.err("btree-v1-chunk-node-outside-file at %d (%s)", a, owner)
			okAll = false
			return
		}
		if string(p[:4]) != "TREE" {
			d.err("btree-v1-chunk-bad-signature at %d (%s): % x", a, owner, p[:4])
			okAll = false
			return
		}
		if p[4] != 1 {
			d.err("btree-v1-chunk-node-type %d at %d (%s)", p[4], a, owner)
			okAll = false
			return
		}
		level := int(p[5])
		if wantLevel >= 0 && level != wantLevel {
			d.dev("btree-v1-level-not-parent-minus-one@chunk", owner, fmt.Sprintf("node at %d has level %d, expected %d", a, level, wantLevel))
		}
		n := int(le(p[6:], 2))
		K := d.chunkK
		if n > 2*K {
			d.dev("btree-v1-node-entries-exceed-2k@chunk", owner, fmt.Sprintf("%d entries in one node, the node capacity is 2K = %d", n, 2*K))
		}
		used := hs + uint64(n)*(keySize+O) + keySize
		full := hs + uint64(2*K+1)*keySize + uint64(2*K)*O
		body, ok := d.at(a, used)
		if !ok {
			d.err("btree-v1-chunk-node-entries-outside-file at %d (%s)", a, owner)
			okAll = false
			return
		}
		d.extent(a, a+used, "btree-v1-chunk", owner)
		if full > used {
			d.caps = append(d.caps, capExtent{start: a, usedEnd: a + used, fullEnd: a + full, tag: "btree-v1-node-not-full-size@chunk", where: owner})
		}
		c := &cur{p: body, pos: int(hs)}
		var prev []uint64
		for i := 0; i < n; i++ {
			r := chunkRec{size: uint32(c.u32()), mask: uint32(c.u32())}
			for j := 0; j < ndims; j++ {
				r.offs = append(r.offs, c.u(8))
			}
			r.addr = d.addr(c)
			if prev != nil && !lessOffsets(prev, r.offs) {
				d.dev("btree-v1-chunk-keys-not-increasing", owner, fmt.Sprintf("%v follows %v", r.offs, prev))
			}
			prev = r.offs
			if r.addr == undef {
				continue
			}
			if level > 0 {
				walk(r.addr, depth+1, level-1)
			} else {
				out = append(out, r)
			}
		}
	}
	walk(addr, 0, -1)
	return out, okAll
}

func lessOffsets(a, b []uint64) bool {
	for i := range a {
		if i >= len(b) {
			return false
		}
		if a[i] != b[i] {
			return a[i] < b[i]
		}
	}
	return false
}

// unfilter undoes the filter pipeline on one chunk.
func (d *dec) unfilter(data []byte, pl *pipeline, mask uint32, elemSize int, owner string) ([]byte, string) {
	if pl == nil {
		return data, ""
	}
	for i := len(pl.filters) - 1; i >= 0; i-- {
		if mask&(1<<uint(i)) != 0 {
			continue
		}
		f := pl.filters[i]
		switch f.id {
		case 1: // deflate
			zr, err := zlib.NewReader(bytes.NewReader(data))
			var out []byte
			if err == nil {
				out, err = io.ReadAll(io.LimitReader(zr, maxRaw))
			}
			if err != nil {
				fr := flate.NewReader(bytes.NewReader(data))
				out2, err2 := io.ReadAll(io.LimitReader(fr, maxRaw))
				if err2 != nil {
					return nil, "deflate-stream-undecodable: " + err.Error()
				}
				d.dev("deflate-stream-not-zlib", owner, "chunk is a raw deflate stream without the zlib header and Adler-32 trailer")
				out = out2
			}
			data = out
		case 2: // shuffle
			es := elemSize
			if len(f.cd) > 0 && f.cd[0] > 0 {
				es = int(f.cd[0])
			}
			if es > 1 && len(data) >= es {
				n := len(data) / es
				out := make([]byte, len(data))
				for j := 0; j < es; j++ {
					for k := 0; k < n; k++ {
						out[k*es+j] = data[j*n+k]
					}
				}
				copy(out[n*es:], data[n*es:])
				data = out
			}
		case 3: // fletcher32
			if len(data) < 4 {
				return nil, "fletcher32-chunk-shorter-than-checksum"
			}
			body := data[:len(data)-4]
			stored := uint32(le(data[len(data)-4:], 4))
			sum := Fletcher32(body)
			swapped := (sum>>8)&0x00FF00FF | (sum<<8)&0xFF00FF00
			if stored == swapped && stored != sum {
				d.dev("fletcher32-checksum-bytes-swapped-in-16-bit-words", owner, fmt.Sprintf("stored %#08x is the checksum %#08x with the bytes of each 16-bit half exchanged (what the reference library wrote before release 1.6.3 and still tolerates when reading)", stored, sum))
			} else if stored != sum {
				d.dev("fletcher32-checksum-mismatch", owner, fmt.Sprintf("stored %#08x computed %#08x", stored, sum))
			}
			data = body
		default:
			d.unsupported("filter-%d", f.id)
			return nil, fmt.Sprintf("filter %d not implemented", f.id)
		}
	}
	return data, ""
}

// readData returns the dataset's element bytes in row-major order.
func (d *dec) readData(o *Object, l *layout, ds *dataspace, dt *Datatype, pl *pipeline, fill []byte, owner string) ([]byte, string) {
	es := uint64(dt.Size)
	n := ds.count()
	if es == 0 {
		return nil, "zero-size-datatype"
	}
	total := n * es
	if total > maxRaw {
		return nil, "dataset-larger-than-decoder-limit"
	}
	fillAll := func(buf []byte) {
		if len(fill) == int(es) {
			nz := false
			for _, x := range fill {
				if x != 0 {
					nz = true
				}
			}
			if nz {
				for i := 0; i+int(es) <= len(buf); i += int(es) {
					copy(buf[i:], fill)
				}
			}
		}
	}
	switch l.class {
	case 0:
		if uint64(len(l.compact)) < total {
			d.dev("layout-compact-data-shorter-than-dataspace", owner, fmt.Sprintf("%d < %d", len(l.compact), total))
			return nil, "compact-data-short"
		}
		return append([]byte{}, l.compact[:total]...), ""
	case 1:
		if l.addr == undef {
			buf := make([]byte, total)
			fillAll(buf)
			return buf, ""
		}
		if l.size != undef && l.size != total {
			d.dev("layout-contiguous-size-mismatch", owner, fmt.Sprintf("layout says %d bytes, dataspace x datatype is %d", l.size, total))
		}
		if total == 0 {
			return []byte{}, ""
		}
		a := d.abs(l.addr)
		sz := total
		if l.size != undef && l.size < total {
			sz = l.size
		}
		p, ok := d.at(a, sz)
		if !ok {
			d.err("contiguous-data-outside-file at %d size %d (%s)", a, sz, owner)
			return nil, "contiguous-data-outside-file"
		}
		ext := sz
		if l.size != undef && l.size > ext {
			if _, ok := d.at(a, l.size); ok {
				ext = l.size
			}
		}
		d.extent(a, a+ext, "contiguous-data", owner)
		buf := make([]byte, total)
		copy(buf, p)
		return buf, ""
	case 2:
		return d.readChunked(o, l, ds, dt, pl, fill, owner)
	case 3:
		d.unsupported("virtual-dataset-layout")
		return nil, "virtual-layout"
	}
	return nil, "layout-class-unknown"
}

func (d *dec) readChunked(o *Object, l *layout, ds *dataspace, dt *Datatype, pl *pipeline, fill []byte, owner string) ([]byte, string) {
	rank := len(ds.dims)
	es := uint64(dt.Size)
	var cdims []uint64
	keyDims := len(l.dims)
	switch {
	case l.version >= 4:
		// version 4 stores the dataset rank + 1 dimensions as well
		if len(l.dims) == rank+1 {
			cdims = l.dims[:rank]
		} else {
			return nil, "layout-v4-dimensionality-mismatch"
		}
	case len(l.dims) == rank+1:
		cdims = l.dims[:rank]
		if l.dims[rank] != es {
			d.dev("layout-chunk-element-size-mismatch", owner, fmt.Sprintf("last chunk dimension %d, datatype size %d", l.dims[rank], es))
		}
	case len(l.dims) == rank && rank > 0:
		d.dev("layout-chunked-dimensionality-not-rank-plus-one", owner, fmt.Sprintf("dataspace rank %d, layout dimensionality %d: the specification stores rank+1 dimension sizes, the last one being the datatype size", rank, len(l.dims)))
		cdims = l.dims
	default:
		d.err("layout-chunked-dimensionality %d for rank %d (%s)", len(l.dims), rank, owner)
		return nil, "layout-dimensionality-mismatch"
	}
	o.ChunkDims = append([]uint64{}, cdims...)
	chunkElems := uint64(1)
	for _, c := range cdims {
		if c == 0 {
			d.err("layout-chunk-dimension-zero (%s)", owner)
			return nil, "chunk-dimension-zero"
		}
		if chunkElems > maxRaw/c {
			return nil, "chunk-larger-than-decoder-limit"
		}
		chunkElems *= c
	}
	chunkBytes := chunkElems * es
	if chunkBytes > maxRaw {
		return nil, "chunk-larger-than-decoder-limit"
	}
	total := ds.count() * es
	buf := make([]byte, total)
	if len(fill) == int(es) {
		nz := false
		for _, x := range fill {
			if x != 0 {
				nz = true
			}
		}
		if nz {
			for i := 0; i+int(es) <= len(buf); i += int(es) {
				copy(buf[i:], fill)
			}
		}
	}
	var recs []chunkRec
	filtered := pl != nil && len(pl.filters) > 0
	// chunk size deviations are tagged by datatype class for array types (the chunk byte count
	// then depends on the nested type's size as well)
	sfx := ""
	if dt.Class == 10 {
		sfx = "@array-datatype"
	}
	switch {
	case l.version < 4:
		if l.addr == undef {
			return buf, ""
		}
		if l.addr == 0 {
			d.dev("layout-chunk-index-address-zero", owner, "the chunk B-tree address is 0 (the superblock) for a dataset without chunks; the specification uses the undefined address")
			return buf, ""
		}
		var ok bool
		recs, ok = d.chunkBTree(l.addr, keyDims, owner)
		if !ok {
			return nil, "chunk-index-unreadable"
		}
	case l.idxType == 1:
		if l.addr == undef {
			return buf, ""
		}
		r := chunkRec{addr: l.addr, offs: make([]uint64, rank+1), size: uint32(chunkBytes)}
		if l.v4flags&2 != 0 {
			r.size, r.mask = uint32(l.single.size), l.single.mask
		} else {
			filtered = false
		}
		recs = []chunkRec{r}
	case l.idxType == 2:
		if l.addr == undef {
			return buf, ""
		}
		// implicit index: all chunks stored one after another in row-major chunk order
		nch := make([]uint64, rank)
		tot := uint64(1)
		for i := range nch {
			nch[i] = (ds.dims[i] + cdims[i] - 1) / cdims[i]
			tot *= nch[i]
		}
		if tot > 1<<22 {
			return nil, "too-many-chunks"
		}
		for k := uint64(0); k < tot; k++ {
			offs := make([]uint64, rank+1)
			rem := k
			for i := rank - 1; i >= 0; i-- {
				offs[i] = (rem % nch[i]) * cdims[i]
				rem /= nch[i]
			}
			recs = append(recs, chunkRec{addr: l.addr + k*chunkBytes, offs: offs, size: uint32(chunkBytes)})
		}
		filtered = false
	default:
		d.unsupported("chunk-index-type-%d", l.idxType)
		return nil, fmt.Sprintf("chunk index type %d not implemented", l.idxType)
	}
	// tolerate scaled chunk indices instead of element offsets
	scaled := false
	for _, r := range recs {
		for i := 0; i < rank && i < len(r.offs); i++ {
			if r.offs[i]%cdims[i] != 0 {
				scaled = true
			}
		}
	}
	if scaled {
		d.dev("chunk-key-scaled-not-offset", owner, "chunk B-tree keys are not multiples of the chunk dimensions; the specification stores the element offset of the chunk")
	}
	sort.SliceStable(recs, func(i, j int) bool { return recs[i].addr < recs[j].addr })
	for _, r := range recs {
		if !d.spend(1) {
			return nil, "budget"
		}
		a := d.abs(r.addr)
		p, ok := d.at(a, uint64(r.size))
		if !ok {
			d.err("chunk-outside-file at %d size %d (%s)", a, r.size, owner)
			return nil, "chunk-outside-file"
		}
		d.extent(a, a+uint64(r.size), "chunk-data", owner)
		if len(r.offs) > rank && r.offs[rank] != 0 && l.version < 4 {
			d.dev("chunk-key-datatype-offset-nonzero", owner, fmt.Sprintf("%v", r.offs))
		}
		data := p
		if filtered {
			var note string
			data, note = d.unfilter(p, pl, r.mask, int(es), owner)
			if data == nil {
				return nil, note
			}
		} else if uint64(r.size) != chunkBytes {
			d.dev("chunk-size-field-mismatch"+sfx, owner, fmt.Sprintf("unfiltered chunk of %d bytes stored with size %d", chunkBytes, r.size))
		}
		if uint64(len(data)) < chunkBytes {
			d.dev("chunk-data-shorter-than-chunk"+sfx, owner, fmt.Sprintf("chunk at %v has %d bytes, a chunk holds %d", r.offs, len(data), chunkBytes))
			t := make([]byte, chunkBytes)
			copy(t, data)
			data = t
		} else if uint64(len(data)) > chunkBytes {
			d.dev("chunk-data-longer-than-chunk"+sfx, owner, fmt.Sprintf("chunk at %v has %d bytes after the filters, a chunk holds %d", r.offs, len(data), chunkBytes))
		}
		start := make([]uint64, rank)
		inside := true
		for i := 0; i < rank; i++ {
			if i < len(r.offs) {
				start[i] = r.offs[i]
			}
			if scaled {
				start[i] *= cdims[i]
			}
			if start[i] >= ds.dims[i] {
				inside = false
			}
		}
		if !inside {
			continue
		}
		copyChunk(buf, data, ds.dims, cdims, start, es)
	}
	return buf, ""
}

// copyChunk copies the part of a chunk that lies inside the dataset into the row-major buffer.
func copyChunk(dst, chunk []byte, dims, cdims, start []uint64, es uint64) {
	rank := len(dims)
	if rank == 0 {
		copy(dst, chunk[:es])
		return
	}
	cnt := make([]uint64, rank)
	for i := range cnt {
		cnt[i] = cdims[i]
		if start[i]+cnt[i] > dims[i] {
			cnt[i] = dims[i] - start[i]
		}
	}
	idx := make([]uint64, rank)
	rowBytes := cnt[rank-1] * es
	for {
		var so, do uint64
		for i := 0; i < rank; i++ {
			so = so*cdims[i] + idx[i]
			do = do*dims[i] + start[i] + idx[i]
		}
		copy(dst[do*es:do*es+rowBytes], chunk[so*es:so*es+rowBytes])
		i := rank - 2
		for ; i >= 0; i-- {
			idx[i]++
			if idx[i] < cnt[i] {
				break
			}
			idx[i] = 0
		}
		if i < 0 {
			return
		}
	}
}
