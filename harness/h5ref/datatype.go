//go:build verif

package h5ref

import (
	"fmt"
	"math/bits"
	"strings"
)

type Member struct {
	Name   string
	Offset int
	Type   *Datatype
}

// Datatype is a decoded datatype message (format specification IV.A.2.d).
type Datatype struct {
	Class     int
	Version   int
	Size      int
	Bits      uint32 // 24 class bits
	BigEndian bool
	Signed    bool
	BitOffset int
	Precision int
	// floating point
	ExpLoc, ExpSize, MantLoc, MantSize int
	ExpBias                            uint32
	SignLoc                            int
	// string
	Pad, Charset int
	Tag          string
	Members      []Member
	Base         *Datatype
	EnumNames    []string
	EnumValues   [][]byte
	ArrayDims    []uint64
	VLenString   bool
	RefType      int
	Consumed     int
}

func (t *Datatype) Desc() string {
	if t == nil {
		return "nil"
	}
	order := "le"
	if t.BigEndian {
		order = "be"
	}
	switch t.Class {
	case 0:
		s := "u"
		if t.Signed {
			s = "i"
		}
		return fmt.Sprintf("%s%d%s", s, t.Size*8, order)
	case 1:
		return fmt.Sprintf("f%d%s", t.Size*8, order)
	case 2:
		return fmt.Sprintf("time%d", t.Size)
	case 3:
		return fmt.Sprintf("str%d/pad%d/cs%d", t.Size, t.Pad, t.Charset)
	case 4:
		return fmt.Sprintf("bits%d%s", t.Size*8, order)
	case 5:
		return fmt.Sprintf("opaque%d[%s]", t.Size, t.Tag)
	case 6:
		var parts []string
		for _, m := range t.Members {
			parts = append(parts, fmt.Sprintf("%s@%d:%s", m.Name, m.Offset, m.Type.Desc()))
		}
		return fmt.Sprintf("compound%d{%s}", t.Size, strings.Join(parts, ","))
	case 7:
		return fmt.Sprintf("ref%d/%d", t.Size, t.RefType)
	case 8:
		return fmt.Sprintf("enum(%s)%v", t.Base.Desc(), t.EnumNames)
	case 9:
		if t.VLenString {
			return "vlen-string"
		}
		return fmt.Sprintf("vlen(%s)", t.Base.Desc())
	case 10:
		return fmt.Sprintf("array%v(%s)", t.ArrayDims, t.Base.Desc())
	}
	return fmt.Sprintf("class%d/%d", t.Class, t.Size)
}

func log2floor(v uint64) int {
	if v == 0 {
		return 0
	}
	return 63 - bits.LeadingZeros64(v)
}

// limitEncSize is the number of bytes needed to encode values up to limit (H5VM_limit_enc_size).
func limitEncSize(limit uint64) int { return log2floor(limit)/8 + 1 }

// parseDatatype decodes the datatype encoded at the start of p. depth bounds recursion.
func (d *dec) parseDatatype(p []byte, where string, depth int) (*Datatype, bool) {
	if depth > 32 {
		d.err("datatype-nesting-too-deep (%s)", where)
		return nil, false
	}
	if len(p) < 8 {
		d.err("datatype-message-truncated (%s): %d bytes", where, len(p))
		return nil, false
	}
	t := &Datatype{Class: int(p[0] & 0x0F), Version: int(p[0] >> 4), Bits: uint32(p[1]) | uint32(p[2])<<8 | uint32(p[3])<<16, Size: int(le(p[4:], 4))}
	if t.Version == 0 {
		d.dev("datatype-version-0", where, fmt.Sprintf("class %d", t.Class))
	} else if t.Version > 3 {
		d.unsupported("datatype-version-%d", t.Version)
		if t.Version > 5 {
			d.err("datatype-version-invalid %d (%s)", t.Version, where)
			return nil, false
		}
	}
	if t.Class == 11 {
		d.unsupported("datatype-class-11-complex")
		return nil, false
	}
	if t.Class > 11 {
		d.err("datatype-class-invalid %d (%s)", t.Class, where)
		return nil, false
	}
	pos := 8
	need := func(n int) bool {
		if pos+n > len(p) {
			d.err("datatype-properties-truncated class %d (%s)", t.Class, where)
			return false
		}
		return true
	}
	switch t.Class {
	case 0, 4: // fixed point, bit field
		if !need(4) {
			return nil, false
		}
		t.BigEndian = t.Bits&1 != 0
		t.Signed = t.Class == 0 && t.Bits&8 != 0
		t.BitOffset = int(le(p[8:], 2))
		t.Precision = int(le(p[10:], 2))
		pos += 4
		if t.Precision == 0 || t.BitOffset+t.Precision > 8*t.Size {
			if int(p[9]) == 8*t.Size && p[8] <= 1 && p[10] == 0 && p[11] == 0 {
				d.dev("datatype-fixed-properties-not-offset-precision", where, fmt.Sprintf("property bytes % x decode to bit offset %d, precision %d for a %d-byte integer; they hold (byte order, precision, 0, 0) instead of two 16-bit fields", p[8:12], t.BitOffset, t.Precision, t.Size))
			} else {
				d.dev("datatype-fixed-properties-inconsistent", where, fmt.Sprintf("bit offset %d precision %d size %d", t.BitOffset, t.Precision, t.Size))
			}
			t.BitOffset, t.Precision = 0, 8*t.Size
		}
	case 1: // floating point
		if !need(12) {
			return nil, false
		}
		t.BigEndian = t.Bits&1 != 0
		t.SignLoc = int(t.Bits >> 8 & 0xFF)
		t.BitOffset = int(le(p[8:], 2))
		t.Precision = int(le(p[10:], 2))
		t.ExpLoc, t.ExpSize, t.MantLoc, t.MantSize = int(p[12]), int(p[13]), int(p[14]), int(p[15])
		t.ExpBias = uint32(le(p[16:], 4))
		pos += 12
		hi := t.BitOffset + t.Precision
		okSpec := t.Precision > 0 && hi <= 8*t.Size && t.ExpSize > 0 && t.MantSize > 0 &&
			t.ExpLoc >= t.BitOffset && t.ExpLoc+t.ExpSize <= hi && t.MantLoc >= t.BitOffset && t.MantLoc+t.MantSize <= hi &&
			t.SignLoc >= t.BitOffset && t.SignLoc < hi
		if !okSpec {
			if int(p[9]) == 8*t.Size && p[8] <= 1 && p[10] == 0 {
				d.dev("datatype-float-properties-not-spec-layout", where, fmt.Sprintf("property bytes % x do not hold (bit offset, precision, exponent location/size, mantissa location/size, bias); they hold (byte order, precision, 0, exponent bits, mantissa bits, bias)", p[8:20]))
				expBits, mantBits, bias := int(p[11]), int(p[12]), uint32(p[13])
				wantE, wantM, wantB := 8, 23, uint32(127)
				if t.Size == 8 {
					wantE, wantM, wantB = 11, 52, 1023
				}
				if t.Size == 4 || t.Size == 8 {
					if bias != wantB {
						d.dev(fmt.Sprintf("float%d-exponent-bias", 8*t.Size), where, fmt.Sprintf("bias field %d, IEEE 754 bias is %d", bias, wantB))
					}
					if expBits != wantE || mantBits != wantM {
						d.dev("datatype-float-exponent-mantissa-sizes-wrong", where, fmt.Sprintf("exponent %d mantissa %d bits for a %d-byte float", expBits, mantBits, t.Size))
					}
					if t.SignLoc != 8*t.Size-1 || t.Bits>>4&3 != 2 {
						d.dev("datatype-float-class-bits-not-ieee", where, fmt.Sprintf("class bits %#06x: sign location %d, mantissa normalisation %d (IEEE: %d, 2)", t.Bits, t.SignLoc, t.Bits>>4&3, 8*t.Size-1))
					}
					t.ExpSize, t.MantSize, t.ExpBias = wantE, wantM, wantB
					t.ExpLoc, t.MantLoc, t.SignLoc = wantM, 0, 8*t.Size-1
				}
			} else {
				d.dev("datatype-float-properties-inconsistent", where, fmt.Sprintf("offset %d precision %d exp %d+%d mant %d+%d sign %d size %d", t.BitOffset, t.Precision, t.ExpLoc, t.ExpSize, t.MantLoc, t.MantSize, t.SignLoc, t.Size))
			}
			t.BitOffset, t.Precision = 0, 8*t.Size
		}
	case 2: // time
		if !need(2) {
			return nil, false
		}
		t.BigEndian = t.Bits&1 != 0
		t.Precision = int(le(p[8:], 2))
		pos += 2
	case 3: // string
		t.Pad = int(t.Bits & 0xF)
		t.Charset = int(t.Bits >> 4 & 0xF)
		if t.Pad > 2 {
			d.dev("datatype-string-padding-invalid", where, fmt.Sprintf("%d", t.Pad))
		}
		if t.Charset > 1 {
			d.dev("datatype-string-charset-invalid", where, fmt.Sprintf("%d", t.Charset))
		}
	case 5: // opaque
		n := int(t.Bits & 0xFF)
		if n%8 != 0 {
			d.dev("datatype-opaque-tag-length-not-multiple-of-8", where, fmt.Sprintf("%d", n))
		}
		if !need(n) {
			return nil, false
		}
		t.Tag, _, _ = cstr(p[8:8+n], 0)
		pos += n
	case 6: // compound
		n, ok := d.parseCompound(t, p, where, depth)
		if !ok {
			return nil, false
		}
		pos = n
	case 7: // reference
		t.RefType = int(t.Bits & 0xF)
		if t.Version >= 4 {
			d.unsupported("reference-datatype-version-4")
			return nil, false
		}
	case 8: // enumeration
		n, ok := d.parseEnum(t, p, where, depth)
		if !ok {
			return nil, false
		}
		pos = n
	case 9: // variable length
		vt := int(t.Bits & 0xF)
		t.VLenString = vt == 1
		if vt > 1 {
			d.dev("datatype-vlen-type-invalid", where, fmt.Sprintf("%d", vt))
		}
		t.Pad = int(t.Bits >> 4 & 0xF)
		t.Charset = int(t.Bits >> 8 & 0xF)
		base, ok := d.parseDatatype(p[8:], where+"/vlen-base", depth+1)
		if !ok {
			return nil, false
		}
		t.Base = base
		pos += base.Consumed
	case 10: // array
		if t.Version < 2 {
			d.dev("datatype-array-version-below-2", where, fmt.Sprintf("%d", t.Version))
		}
		if !need(1) {
			return nil, false
		}
		nd := int(p[8])
		pos++
		if t.Version < 3 {
			pos += 3
		}
		if !need(4 * nd) {
			return nil, false
		}
		for i := 0; i < nd; i++ {
			t.ArrayDims = append(t.ArrayDims, le(p[pos:], 4))
			pos += 4
		}
		if t.Version < 3 {
			if !need(4 * nd) {
				return nil, false
			}
			pos += 4 * nd // permutation indices
		}
		if pos > len(p) {
			d.err("datatype-array-truncated (%s)", where)
			return nil, false
		}
		base, ok := d.parseDatatype(p[pos:], where+"/array-base", depth+1)
		if !ok {
			return nil, false
		}
		t.Base = base
		pos += base.Consumed
		n := uint64(base.Size)
		for _, x := range t.ArrayDims {
			n *= x
		}
		if n != uint64(t.Size) {
			d.dev("datatype-array-size-inconsistent", where, fmt.Sprintf("size %d, dims %v of %d-byte base", t.Size, t.ArrayDims, base.Size))
		}
	}
	t.Consumed = pos
	return t, true
}

func plausibleName(s string) bool {
	if s == "" || len(s) > 4096 {
		return false
	}
	for i := 0; i < len(s); i++ {
		if s[i] < 0x20 && s[i] != '\t' && s[i] != '\n' && s[i] != '\r' {
			return false
		}
	}
	return true
}

func (d *dec) parseCompound(t *Datatype, p []byte, where string, depth int) (int, bool) {
	nmemb := int(t.Bits & 0xFFFF)
	unsupMark := d.unsupCount
	try := func(library bool) ([]Member, int, bool) {
		pos := 8
		n := nmemb
		if library {
			if pos+4 > len(p) {
				return nil, 0, false
			}
			n = int(le(p[pos:], 4))
			pos += 4
		}
		if n <= 0 || n > 65535 {
			return nil, 0, false
		}
		offW := 4
		if t.Version >= 3 && !library {
			offW = limitEncSize(uint64(t.Size))
		}
		var ms []Member
		for i := 0; i < n; i++ {
			name, l, ok := cstr(p, pos)
			if !ok || !plausibleName(name) {
				return nil, 0, false
			}
			if t.Version < 3 {
				pos += pad8(l)
			} else {
				pos += l
			}
			if pos+offW > len(p) {
				return nil, 0, false
			}
			off := int(le(p[pos:], offW))
			pos += offW
			if t.Version <= 1 {
				pos += 28 // dimensionality, reserved, permutation, reserved, 4 dimension sizes
			}
			if pos > len(p) {
				return nil, 0, false
			}
			errs, devs := len(d.res.Errors), len(d.res.Deviations)
			mt, ok := d.parseDatatype(p[pos:], where+"/"+name, depth+1)
			if !ok {
				// roll back diagnostics of a failed attempt
				d.rollback(errs, devs)
				return nil, 0, false
			}
			pos += mt.Consumed
			if off+mt.Size > t.Size {
				d.rollback(errs, devs)
				return nil, 0, false
			}
			ms = append(ms, Member{Name: name, Offset: off, Type: mt})
		}
		return ms, pos, true
	}
	if nmemb > 0 {
		if ms, n, ok := try(false); ok {
			t.Members = ms
			return n, true
		}
	}
	if t.Version == 3 {
		if ms, n, ok := try(true); ok {
			t.Members = ms
			d.dev("compound-v3-member-count-in-properties-and-4-byte-offsets", where, fmt.Sprintf("class bits hold %d members; the properties start with a 32-bit member count %d and use 4-byte member offsets where the specification uses the class bits and %d-byte offsets", nmemb, len(ms), limitEncSize(uint64(t.Size))))
			return n, true
		}
	}
	if d.unsupCount == unsupMark {
		d.err("datatype-compound-undecodable (%s): version %d, %d members in class bits", where, t.Version, nmemb)
	}
	return 0, false
}

func (d *dec) parseEnum(t *Datatype, p []byte, where string, depth int) (int, bool) {
	nmemb := int(t.Bits & 0xFFFF)
	base, ok := d.parseDatatype(p[8:], where+"/enum-base", depth+1)
	if !ok {
		return 0, false
	}
	t.Base = base
	t.Signed = base.Signed
	t.BigEndian = base.BigEndian
	start := 8 + base.Consumed
	vs := base.Size
	spec := func() ([]string, [][]byte, int, bool) {
		pos := start
		var names []string
		for i := 0; i < nmemb; i++ {
			name, l, ok := cstr(p, pos)
			if !ok || !plausibleName(name) {
				return nil, nil, 0, false
			}
			if t.Version < 3 {
				pos += pad8(l)
			} else {
				pos += l
			}
			names = append(names, name)
		}
		if pos+nmemb*vs > len(p) {
			return nil, nil, 0, false
		}
		var vals [][]byte
		for i := 0; i < nmemb; i++ {
			vals = append(vals, p[pos:pos+vs])
			pos += vs
		}
		return names, vals, pos, true
	}
	interleaved := func() ([]string, [][]byte, int, bool) {
		pos := start
		var names []string
		var vals [][]byte
		for i := 0; i < nmemb; i++ {
			name, l, ok := cstr(p, pos)
			if !ok || !plausibleName(name) {
				return nil, nil, 0, false
			}
			pos += pad8(l)
			if pos+vs > len(p) {
				return nil, nil, 0, false
			}
			names = append(names, name)
			vals = append(vals, p[pos:pos+vs])
			pos += vs
		}
		return names, vals, pos, true
	}
	if names, vals, n, ok := spec(); ok {
		t.EnumNames, t.EnumValues = names, vals
		return n, true
	}
	if names, vals, n, ok := interleaved(); ok {
		t.EnumNames, t.EnumValues = names, vals
		d.dev("enum-names-padded-and-interleaved-with-values", where, fmt.Sprintf("version %d enumeration with %d members stores (name padded to 8 bytes, value) pairs; the specification stores all names (version 3: unpadded) followed by all values", t.Version, nmemb))
		return n, true
	}
	d.err("datatype-enum-undecodable (%s)", where)
	return 0, false
}
