//go:build verif

package h5ref

import (
	"fmt"
	"sort"
)

const maxObjects = 50000

type childRef struct {
	name   string
	hdr    uint64 // file address of the object header; undef for links
	kind   string // "" (hard) | link-soft | link-external
	target string
	file   string
	btree  uint64 // cached symbol table addresses (cache type 1)
	heap   uint64
}

// walk decodes the object whose header is at file address addr and, for groups, everything
// below it. ancestors holds the header addresses on the path from the root.
func (d *dec) walk(path string, addr uint64, ancestors map[uint64]bool, depth int, cachedBTree, cachedHeap uint64) *Object {
	o := &Object{Path: path, HeaderAddr: d.abs(addr), Kind: "unknown", TypeClass: -1}
	unsupMark := d.unsupCount
	if d.nobjects >= maxObjects || depth > 64 {
		d.err("object-limit-reached at %s", path)
		return o
	}
	d.nobjects++
	d.res.Objects[path] = o
	d.res.Order = append(d.res.Order, path)
	h := d.readHeader(addr, path)
	if !h.ok {
		return o
	}
	exact := h.version == 2
	var (
		stab     *message
		linfo    *message
		ginfo    *message
		dtMsg    *message
		dsMsg    *message
		layMsg   *message
		plMsg    *message
		fillMsg  *message
		ainfoMsg *message
	)
	var links []*message
	var attrs []*message
	for i := range h.msgs {
		m := &h.msgs[i]
		switch m.typ {
		case msgSymbolTable:
			stab = m
		case msgLinkInfo:
			linfo = m
		case msgGroupInfo:
			ginfo = m
		case msgLink:
			links = append(links, m)
		case msgDatatype:
			dtMsg = m
		case msgDataspace:
			dsMsg = m
		case msgLayout:
			layMsg = m
		case msgPipeline:
			plMsg = m
		case msgFill:
			fillMsg = m
		case msgFillOld:
			if fillMsg == nil {
				fillMsg = m
			}
		case msgAttribute:
			attrs = append(attrs, m)
		case msgAttrInfo:
			ainfoMsg = m
		case msgSOHMTable:
			// In an ordinary object header type 0x000F (shared message table) has no meaning; the
			// writer under test stores the attribute info message (0x0015) under this number.
			if len(m.data) == 2+2*d.offSize && m.data[0] == 0 {
				d.dev("attribute-info-message-type-0x0f", path, "attribute info message stored with message type 0x000F (shared message table); the specification assigns 0x0015")
				ainfoMsg = m
			} else {
				d.dev("shared-message-table-in-object-header", path, "")
			}
		case msgRefCount:
			switch {
			case len(m.data) >= 5 && m.data[0] == 0:
				h.refcount = le(m.data[1:], 4)
			case len(m.data) == 4:
				d.dev("refcount-message-without-version", path, "reference count message is 4 bytes (the count) without the leading version byte")
				h.refcount = le(m.data, 4)
			default:
				d.dev("refcount-message-malformed", path, fmt.Sprintf("% x", m.data))
			}
		case msgNil, msgContinuation, msgModTime, msgModTimeOld, msgComment, msgBTreeK, msgDriverInfo, msgFileSpace, msgExternal, msgBogus:
			if m.typ == msgExternal {
				d.unsupported("external-data-files")
			}
		default:
			d.dev("ohdr-message-type-unknown", path, fmt.Sprintf("%#x", m.typ))
		}
	}
	if stab == nil && cachedBTree != undef && (linfo != nil || len(links) > 0) {
		// the entry still caches the symbol table the group had before it was converted to the
		// link-message form; the header is authoritative
		cachedBTree, cachedHeap = undef, undef
	}
	isGroup := stab != nil || linfo != nil || cachedBTree != undef
	onlyLink := len(links) == 1 && stab == nil && linfo == nil && ginfo == nil && layMsg == nil && dtMsg == nil && dsMsg == nil
	switch {
	case onlyLink:
		// An object header that holds nothing but one link message: the writer under test
		// represents soft and external links this way (symbol table entry -> header -> link message).
		l, ok := d.parseLink(links[0].data, path)
		if ok && l.typ != 0 {
			d.dev("soft-link-as-object-header-with-link-message", path, "the symbol table entry points to an object header whose only message is a link message; in a symbol-table group the specification stores a soft link in the entry itself (cache type 2, link value in the local heap), and link messages belong to the group's own header")
			if l.typ == 1 {
				o.Kind = "link-soft"
			} else {
				o.Kind = "link-external"
			}
			o.LinkTarget, o.LinkFile = l.target, l.file
			return o
		}
		isGroup = true
	}
	if layMsg != nil && !isGroup {
		o.Kind = "dataset"
	} else if isGroup || len(links) > 0 || ginfo != nil {
		o.Kind = "group"
	} else if dtMsg != nil {
		o.Kind = "datatype"
	}
	if layMsg != nil && isGroup {
		d.dev("object-header-is-both-group-and-dataset", path, "")
	}
	// attributes
	d.readAttributes(o, h, attrs, ainfoMsg, path, exact)
	// datatype / dataspace
	var dt *Datatype
	var ds *dataspace
	if dtMsg != nil {
		if body, ok := d.resolveShared(dtMsg, path); ok {
			if t, ok := d.parseDatatype(body, path, 0); ok {
				dt = t
				if dtMsg.flags&2 == 0 && exact && t.Consumed != len(body) {
					d.dev("datatype-message-trailing-bytes", path, fmt.Sprintf("message has %d bytes, the datatype encoding is %d bytes (%s)", len(body), t.Consumed, t.Desc()))
				}
				o.Type = t
				o.TypeClass, o.TypeSize, o.TypeSigned, o.TypeDesc = t.Class, t.Size, t.Signed, t.Desc()
			}
		}
	}
	if dsMsg != nil && o.Kind != "group" {
		if body, ok := d.resolveShared(dsMsg, path); ok {
			if s, used, ok := d.parseDataspace(body, path); ok {
				ds = s
				if exact && used != len(body) && dsMsg.flags&2 == 0 {
					d.dev("dataspace-message-trailing-bytes", path, fmt.Sprintf("%d of %d bytes", used, len(body)))
				}
				o.Dims, o.MaxDims, o.Scalar, o.Null = s.dims, s.maxdims, s.scalar, s.null
			}
		}
	}
	if o.Kind == "dataset" {
		if h.find(msgExternal) != nil {
			o.RawNote = "external-data-files"
			o.Layout = "external"
			return o
		}
		d.readDataset(o, h, layMsg, plMsg, fillMsg, dt, ds, path, exact, d.unsupCount != unsupMark)
		return o
	}
	if o.Kind != "group" {
		return o
	}
	// group: collect children
	var kids []childRef
	if stab != nil || cachedBTree != undef {
		bt, hp := cachedBTree, cachedHeap
		if stab != nil {
			c := &cur{p: stab.data}
			bt2, hp2 := d.addr(c), d.addr(c)
			if c.bad {
				d.err("symbol-table-message-truncated (%s)", path)
			} else {
				if cachedBTree != undef && (bt2 != cachedBTree || hp2 != cachedHeap) {
					d.dev("symbol-table-entry-cache-differs-from-message", path, fmt.Sprintf("entry caches B-tree %d heap %d, message says %d, %d", cachedBTree, cachedHeap, bt2, hp2))
				}
				bt, hp = bt2, hp2
			}
		} else {
			d.dev("symbol-table-entry-cache-without-message", path, "")
		}
		if bt != undef && hp != undef {
			heap := d.readLocalHeap(hp, path)
			for _, e := range d.groupBTree(bt, heap, path) {
				name, ok := heap.str(e.nameOff)
				if !ok {
					d.err("symbol-table-entry-name-outside-heap offset %d (%s)", e.nameOff, path)
					continue
				}
				k := childRef{name: name, hdr: e.hdr, btree: undef, heap: undef}
				switch e.cacheType {
				case 0:
				case 1:
					sc := &cur{p: e.scratch}
					k.btree, k.heap = d.addr(sc), d.addr(sc)
				case 2:
					off := le(e.scratch, 4)
					t, ok := heap.str(off)
					if !ok {
						d.err("symbolic-link-value-outside-heap (%s/%s)", path, name)
					}
					k.kind, k.target, k.hdr = "link-soft", t, undef
				default:
					d.dev("symbol-table-entry-cache-type-invalid", path, fmt.Sprintf("%d", e.cacheType))
				}
				kids = append(kids, k)
			}
		}
	}
	for _, m := range links {
		if l, ok := d.parseLink(m.data, path); ok {
			kids = append(kids, linkChild(l))
		}
	}
	if linfo != nil {
		if li, ok := d.parseLinkInfo(linfo.data, path); ok {
			if exact && len(linfo.data) != linkInfoSize(li, d.offSize) {
				d.dev("link-info-message-trailing-bytes", path, fmt.Sprintf("%d bytes", len(linfo.data)))
			}
			if li.heap != undef {
				kids = append(kids, d.denseLinks(li, path)...)
			}
		}
	}
	seen := map[string]bool{}
	for _, k := range kids {
		if seen[k.name] {
			d.dev("group-duplicate-link-name", path, k.name)
			continue
		}
		seen[k.name] = true
		cp := joinPath(path, k.name)
		o.Children = append(o.Children, Child{Name: k.name, Path: cp})
	}
	sort.SliceStable(o.Children, func(i, j int) bool { return o.Children[i].Name < o.Children[j].Name })
	seen = map[string]bool{}
	for _, k := range kids {
		if seen[k.name] {
			continue
		}
		seen[k.name] = true
		cp := joinPath(path, k.name)
		if k.kind != "" {
			lo := &Object{Path: cp, Kind: k.kind, LinkTarget: k.target, LinkFile: k.file, TypeClass: -1}
			d.res.Objects[cp] = lo
			d.res.Order = append(d.res.Order, cp)
			continue
		}
		if k.hdr == undef {
			d.err("link-address-undefined (%s)", cp)
			continue
		}
		ka := d.abs(k.hdr)
		if ancestors[ka] || ka == o.HeaderAddr {
			co := &Object{Path: cp, Kind: "group", HeaderAddr: ka, Cycle: true, TypeClass: -1}
			d.res.Objects[cp] = co
			d.res.Order = append(d.res.Order, cp)
			continue
		}
		ancestors[o.HeaderAddr] = true
		d.walk(cp, k.hdr, ancestors, depth+1, k.btree, k.heap)
		delete(ancestors, o.HeaderAddr)
	}
	return o
}

func linkInfoSize(li *linkInfo, O int) int {
	n := 2 + 2*O
	if li.flags&1 != 0 {
		n += 8
	}
	if li.flags&2 != 0 {
		n += O
	}
	return n
}

func linkChild(l *link) childRef {
	k := childRef{name: l.name, hdr: undef, btree: undef, heap: undef}
	switch l.typ {
	case 0:
		k.hdr = l.addr
	case 1:
		k.kind, k.target = "link-soft", l.target
	case 64:
		k.kind, k.target, k.file = "link-external", l.target, l.file
	default:
		k.kind = "link-user"
	}
	return k
}

// denseLinks reads the links of a group stored in a fractal heap indexed by a version 2 B-tree.
func (d *dec) denseLinks(li *linkInfo, path string) []childRef {
	fh := d.readFractalHeap(li.heap, path)
	if !fh.ok {
		return nil
	}
	if li.nameIdx == undef {
		d.err("link-info-name-index-undefined (%s)", path)
		return nil
	}
	bt := d.readBTree2(li.nameIdx, path)
	if !bt.ok {
		return nil
	}
	if bt.typ != 5 {
		d.dev("link-name-index-btree-type-not-5", path, fmt.Sprintf("%d", bt.typ))
	}
	if li.orderIdx != undef {
		d.readBTree2(li.orderIdx, path) // extents and checksums only
	}
	var out []childRef
	var prevHash uint32
	for i, rec := range bt.records {
		if len(rec) < 11 {
			d.err("link-name-index-record-short (%s)", path)
			break
		}
		hash := uint32(le(rec, 4))
		if i > 0 && hash < prevHash {
			d.dev("btree-v2-records-not-sorted", path, fmt.Sprintf("hash %#08x follows %#08x", hash, prevHash))
		}
		prevHash = hash
		body, ok := d.heapObject(fh, rec[4:11], path, func(b []byte) bool {
			l, ok := d.parseLinkQuiet(b)
			return ok && Lookup3([]byte(l.name)) == hash
		})
		if !ok {
			d.err("dense-link-unreadable record %d (%s)", i, path)
			continue
		}
		l, ok := d.parseLink(body, path)
		if !ok {
			continue
		}
		if Lookup3([]byte(l.name)) != hash {
			d.dev("btree-v2-record-hash-mismatch", path, fmt.Sprintf("record hash %#08x, lookup3(%q) = %#08x", hash, l.name, Lookup3([]byte(l.name))))
		}
		out = append(out, linkChild(l))
	}
	return out
}

func (d *dec) parseLinkQuiet(b []byte) (*link, bool) {
	errs, devs := len(d.res.Errors), len(d.res.Deviations)
	l, ok := d.parseLink(b, "")
	d.rollback(errs, devs)
	return l, ok
}

// heapObject fetches the object a heap ID names. accept validates a candidate; the position the
// specification gives is tried first, then the position used by the writer under test.
func (d *dec) heapObject(fh *fheap, id []byte, owner string, accept func([]byte) bool) ([]byte, bool) {
	hid, ok := d.parseHeapID(fh, id, owner)
	if !ok {
		return nil, false
	}
	if hid.kind == 2 {
		return hid.tiny, true
	}
	if b, ok := d.managed(fh, hid.off, hid.n, false); ok && accept(b) {
		return b, true
	}
	if b, ok := d.managed(fh, hid.off, hid.n, true); ok && accept(b) {
		d.dev("fractal-heap-object-offset-excludes-block-header", owner, fmt.Sprintf("heap ID offset %d length %d addresses the object only when the direct block's %d-byte prefix is not counted; the specification's heap offsets count from the start of the block", hid.off, hid.n, fh.blockHdr))
		return b, true
	}
	if b, ok := d.managed(fh, hid.off, hid.n, false); ok {
		return b, true
	}
	return nil, false
}

func (d *dec) readAttributes(o *Object, h *header, attrs []*message, ainfo *message, path string, exact bool) {
	for _, m := range attrs {
		body := m.data
		if m.flags&2 != 0 {
			d.unsupported("shared-attribute-message")
			o.AttrNote = "shared-attribute-message"
			continue
		}
		if a, ok := d.parseAttribute(body, path, exact); ok {
			o.Attrs = append(o.Attrs, *a)
		} else {
			o.AttrNote = "attribute-undecodable"
		}
	}
	if ainfo != nil {
		ai, ok := d.parseAttrInfo(ainfo.data, path)
		if ok && ai.heap != undef && ai.nameIdx != undef {
			fh := d.readFractalHeap(ai.heap, path)
			bt := d.readBTree2(ai.nameIdx, path)
			if ai.orderIdx != undef {
				d.readBTree2(ai.orderIdx, path)
			}
			if fh.ok && bt.ok {
				idLen, hashAt := 8, 13
				switch bt.typ {
				case 8:
				case 5:
					d.dev("attribute-name-index-btree-type-5", path, "the attribute name index is a version 2 B-tree of type 5 (link names, 11-byte records) instead of type 8 (attribute names, 17-byte records: heap ID, flags, creation order, hash)")
					idLen, hashAt = 7, -1
				default:
					d.dev("attribute-name-index-btree-type-invalid", path, fmt.Sprintf("%d", bt.typ))
				}
				for i, rec := range bt.records {
					var id []byte
					var hash uint32
					if hashAt >= 0 {
						if len(rec) < 17 {
							break
						}
						id, hash = rec[:idLen], uint32(le(rec[hashAt:], 4))
					} else {
						if len(rec) < 11 {
							break
						}
						id, hash = rec[4:11], uint32(le(rec, 4))
					}
					body, ok := d.heapObject(fh, id, path, func(b []byte) bool {
						errs, devs := len(d.res.Errors), len(d.res.Deviations)
						a, ok := d.parseAttribute(b, "", false)
						d.rollback(errs, devs)
						return ok && a.Note == "" && Lookup3([]byte(a.Name)) == hash
					})
					if !ok {
						d.err("dense-attribute-unreadable record %d (%s)", i, path)
						o.AttrNote = "dense-attribute-unreadable"
						continue
					}
					a, ok := d.parseAttribute(body, path, true)
					if !ok {
						o.AttrNote = "attribute-undecodable"
						continue
					}
					if Lookup3([]byte(a.Name)) != hash {
						d.dev("btree-v2-record-hash-mismatch", path, fmt.Sprintf("record hash %#08x, lookup3(%q) = %#08x", hash, a.Name, Lookup3([]byte(a.Name))))
					}
					o.Attrs = append(o.Attrs, *a)
				}
			} else {
				o.AttrNote = "dense-attribute-storage-unreadable"
			}
		}
	}
	sort.SliceStable(o.Attrs, func(i, j int) bool { return o.Attrs[i].Name < o.Attrs[j].Name })
	for i := 1; i < len(o.Attrs); i++ {
		if o.Attrs[i].Name == o.Attrs[i-1].Name {
			d.dev("duplicate-attribute-name", path, o.Attrs[i].Name)
		}
	}
}

func (d *dec) readDataset(o *Object, h *header, layMsg, plMsg, fillMsg *message, dt *Datatype, ds *dataspace, path string, exact bool, unsup bool) {
	if dt == nil || ds == nil {
		o.RawNote = "datatype-or-dataspace-missing"
		if unsup {
			o.RawNote = "datatype-or-dataspace-uses-unsupported-feature"
			return
		}
		if dt == nil {
			d.err("dataset-without-decodable-datatype (%s)", path)
		}
		if ds == nil {
			d.err("dataset-without-decodable-dataspace (%s)", path)
		}
		return
	}
	l, ok := d.parseLayout(layMsg.data, path)
	if !ok {
		o.RawNote = "layout-undecodable"
		return
	}
	if exact && l.version == 3 {
		want := -1
		switch l.class {
		case 1:
			want = 2 + d.offSize + d.lenSize
		case 2:
			want = 3 + d.offSize + 4*len(l.dims)
		}
		if want >= 0 && want != len(layMsg.data) {
			d.dev("layout-message-trailing-bytes", path, fmt.Sprintf("%d bytes, encoding needs %d", len(layMsg.data), want))
		}
	}
	o.Layout = [...]string{"compact", "contiguous", "chunked", "virtual"}[l.class&3]
	var pl *pipeline
	if plMsg != nil {
		body, ok := d.resolveShared(plMsg, path)
		if ok {
			pl, ok = d.parsePipeline(body, path, exact)
		}
		if !ok {
			o.RawNote = "pipeline-undecodable"
			return
		}
		for _, f := range pl.filters {
			o.Filters = append(o.Filters, f.id)
		}
		if l.class != 2 && len(pl.filters) > 0 {
			d.dev("pipeline-on-non-chunked-dataset", path, "")
		}
	}
	var fill []byte
	if fillMsg != nil {
		fill = d.parseFill(fillMsg, path)
		// the newer fill value message takes precedence over the old one
		if fillMsg.typ == msgFill && fill == nil {
			if old := h.find(msgFillOld); old != nil {
				fill = d.parseFill(old, path)
			}
		}
	}
	raw, note := d.readData(o, l, ds, dt, pl, fill, path)
	o.Raw, o.RawNote = raw, note
	if raw != nil && dt.Class == 9 {
		o.VLen, o.VLenNote = d.vlenElements(raw, dt, path)
	}
}
