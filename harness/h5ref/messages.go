//go:build verif

package h5ref

import (
	"fmt"
)

type dataspace struct {
	version int
	rank    int
	dims    []uint64
	maxdims []uint64
	scalar  bool
	null    bool
}

func (s *dataspace) count() uint64 {
	if s.null {
		return 0
	}
	n := uint64(1)
	for _, x := range s.dims {
		if x != 0 && n > (1<<40)/x {
			return 1 << 40
		}
		n *= x
	}
	return n
}

func (d *dec) parseDataspace(p []byte, where string) (*dataspace, int, bool) {
	c := &cur{p: p}
	s := &dataspace{version: c.u8(), rank: c.u8()}
	flags := c.u8()
	switch s.version {
	case 1:
		c.skip(5)
	case 2:
		typ := c.u8()
		switch typ {
		case 0:
			s.scalar = true
		case 1:
		case 2:
			s.null = true
		default:
			d.dev("dataspace-type-invalid", where, fmt.Sprintf("%d", typ))
		}
	default:
		d.err("dataspace-version-unknown %d (%s)", s.version, where)
		return nil, 0, false
	}
	if s.rank > 32 {
		d.err("dataspace-rank-too-large %d (%s)", s.rank, where)
		return nil, 0, false
	}
	if flags&^3 != 0 {
		d.dev("dataspace-reserved-flags", where, fmt.Sprintf("%#x", flags))
	}
	for i := 0; i < s.rank; i++ {
		s.dims = append(s.dims, d.length(c))
	}
	if flags&1 != 0 {
		for i := 0; i < s.rank; i++ {
			v := d.length(c)
			if d.isUndef(v, d.lenSize) {
				v = undef
			}
			s.maxdims = append(s.maxdims, v)
		}
	}
	if flags&2 != 0 && s.version == 1 {
		for i := 0; i < s.rank; i++ {
			d.length(c)
		}
	}
	if c.bad {
		d.err("dataspace-message-truncated (%s)", where)
		return nil, 0, false
	}
	if s.version == 1 && s.rank == 0 {
		s.scalar = true
	}
	for i, m := range s.maxdims {
		if m != undef && m < s.dims[i] {
			d.dev("dataspace-maxdim-below-dim", where, fmt.Sprintf("dim %d: %d > max %d", i, s.dims[i], m))
		}
	}
	return s, c.pos, true
}

type layout struct {
	version int
	class   int // 0 compact 1 contiguous 2 chunked 3 virtual
	addr    uint64
	size    uint64
	compact []byte
	dims    []uint64 // chunked: the dimension sizes as stored (the specification's last one is the element size)
	idxType int      // v4 chunk index type
	v4flags int
	single  struct {
		size uint64
		mask uint32
	}
}

func (d *dec) parseLayout(p []byte, where string) (*layout, bool) {
	c := &cur{p: p}
	l := &layout{version: c.u8()}
	switch l.version {
	case 1, 2:
		nd := c.u8()
		l.class = c.u8()
		c.skip(5)
		if l.class > 2 {
			d.err("layout-class-invalid %d (%s)", l.class, where)
			return nil, false
		}
		if l.class != 0 {
			l.addr = d.addr(c)
		}
		if nd > 33 {
			d.err("layout-rank-too-large (%s)", where)
			return nil, false
		}
		for i := 0; i < nd; i++ {
			l.dims = append(l.dims, c.u32())
		}
		if l.class == 0 {
			n := int(c.u32())
			l.compact = c.bytes(n)
			l.size = uint64(n)
		}
		if l.class == 1 {
			// size is implied by dataspace and datatype
			l.size = undef
			l.dims = nil
		}
	case 3:
		l.class = c.u8()
		switch l.class {
		case 0:
			n := c.u16()
			l.compact = c.bytes(n)
			l.size = uint64(n)
		case 1:
			l.addr = d.addr(c)
			l.size = d.length(c)
		case 2:
			nd := c.u8()
			l.addr = d.addr(c)
			if nd > 33 {
				d.err("layout-rank-too-large (%s)", where)
				return nil, false
			}
			for i := 0; i < nd; i++ {
				l.dims = append(l.dims, c.u32())
			}
		default:
			d.err("layout-class-invalid %d (%s)", l.class, where)
			return nil, false
		}
	case 4:
		l.class = c.u8()
		switch l.class {
		case 0:
			n := c.u16()
			l.compact = c.bytes(n)
			l.size = uint64(n)
		case 1:
			l.addr = d.addr(c)
			l.size = d.length(c)
		case 2:
			l.v4flags = c.u8()
			nd := c.u8()
			enc := c.u8()
			if nd > 33 || enc > 8 || enc == 0 {
				d.err("layout-v4-malformed (%s)", where)
				return nil, false
			}
			for i := 0; i < nd; i++ {
				l.dims = append(l.dims, c.u(enc))
			}
			l.idxType = c.u8()
			switch l.idxType {
			case 1:
				if l.v4flags&2 != 0 {
					l.single.size = d.length(c)
					l.single.mask = uint32(c.u32())
				}
			case 2:
			case 3:
				c.skip(1)
			case 4:
				c.skip(5)
			case 5:
				c.skip(6)
			default:
				d.err("layout-v4-chunk-index-type-invalid %d (%s)", l.idxType, where)
				return nil, false
			}
			l.addr = d.addr(c)
		case 3:
			l.addr = d.addr(c)
			c.skip(4)
		default:
			d.err("layout-class-invalid %d (%s)", l.class, where)
			return nil, false
		}
	default:
		d.err("layout-version-unknown %d (%s)", l.version, where)
		return nil, false
	}
	if c.bad {
		d.err("layout-message-truncated (%s)", where)
		return nil, false
	}
	return l, true
}

type filter struct {
	id    int
	name  string
	flags int
	cd    []uint32
}

type pipeline struct {
	version int
	filters []filter
}

func (d *dec) parsePipeline(p []byte, where string, exact bool) (*pipeline, bool) {
	if len(p) < 2 {
		d.err("pipeline-message-truncated (%s)", where)
		return nil, false
	}
	pl := &pipeline{version: int(p[0])}
	n := int(p[1])
	if n > 32 {
		d.dev("pipeline-too-many-filters", where, fmt.Sprintf("%d", n))
	}
	v1 := func(start int, padOdd bool) ([]filter, int, bool) {
		c := &cur{p: p, pos: start}
		var fs []filter
		for i := 0; i < n; i++ {
			f := filter{id: c.u16()}
			nl := c.u16()
			f.flags = c.u16()
			ncd := c.u16()
			if nl > 0 {
				nb := c.bytes(pad8(nl))
				f.name, _, _ = cstr(nb, 0)
			}
			for j := 0; j < ncd; j++ {
				f.cd = append(f.cd, uint32(c.u32()))
			}
			if ncd%2 == 1 && padOdd {
				c.skip(4)
			}
			fs = append(fs, f)
		}
		return fs, c.pos, !c.bad
	}
	v2 := func() ([]filter, int, bool) {
		c := &cur{p: p, pos: 2}
		var fs []filter
		for i := 0; i < n; i++ {
			f := filter{id: c.u16()}
			nl := 0
			if f.id >= 256 {
				nl = c.u16()
			}
			f.flags = c.u16()
			ncd := c.u16()
			if nl > 0 {
				f.name, _, _ = cstr(c.bytes(nl), 0)
			}
			for j := 0; j < ncd; j++ {
				f.cd = append(f.cd, uint32(c.u32()))
			}
			fs = append(fs, f)
		}
		return fs, c.pos, !c.bad
	}
	plausible := func(fs []filter) bool {
		for _, f := range fs {
			if f.id == 0 || len(f.cd) > 64 {
				return false
			}
			if f.id < 256 && f.id > 6 {
				return false
			}
		}
		return true
	}
	switch pl.version {
	case 1:
		fs, _, ok := v1(8, true)
		if !ok {
			d.err("pipeline-message-truncated (%s)", where)
			return nil, false
		}
		pl.filters = fs
	case 2:
		fs, used, ok := v2()
		if ok && plausible(fs) && (!exact || used == len(p)) {
			pl.filters = fs
			break
		}
		// the version 1 layout under a version 2 tag (with or without the padding after an odd
		// number of client data values)?
		fs1, used1, ok1 := v1(8, true)
		if !(ok1 && plausible(fs1) && used1 == len(p)) {
			fs1, used1, ok1 = v1(8, false)
		}
		if ok1 && plausible(fs1) && used1 <= len(p) {
			pl.filters = fs1
			d.dev("pipeline-message-v2-tag-v1-layout", where, fmt.Sprintf("the message says version 2 but is laid out as version 1 (8-byte header, name length for every filter, padded names); decoded %d filters, %d of %d bytes", len(fs1), used1, len(p)))
			break
		}
		if ok {
			pl.filters = fs
			d.dev("pipeline-message-v2-inconsistent", where, fmt.Sprintf("%d of %d bytes used", used, len(p)))
			break
		}
		d.err("pipeline-message-undecodable (%s)", where)
		return nil, false
	default:
		d.err("pipeline-version-unknown %d (%s)", pl.version, where)
		return nil, false
	}
	return pl, true
}

// parseFill returns the fill value bytes (nil when undefined/default).
func (d *dec) parseFill(m *message, where string) []byte {
	c := &cur{p: m.data}
	if m.typ == msgFillOld {
		n := int(c.u32())
		v := c.bytes(n)
		if c.bad {
			return nil
		}
		return v
	}
	ver := c.u8()
	switch ver {
	case 1, 2:
		c.skip(2)
		defined := c.u8()
		if ver == 1 || defined != 0 {
			n := int(c.u32())
			if n <= 0 || n > 1<<20 {
				return nil
			}
			v := c.bytes(n)
			if c.bad {
				return nil
			}
			return v
		}
	case 3:
		fl := c.u8()
		if fl&0x20 != 0 {
			n := int(c.u32())
			if n <= 0 || n > 1<<20 {
				return nil
			}
			v := c.bytes(n)
			if c.bad {
				return nil
			}
			return v
		}
	default:
		d.dev("fill-value-version-unknown", where, fmt.Sprintf("%d", ver))
	}
	return nil
}

// resolveShared returns the body of a message, following a shared-message reference to a
// committed object when the message is flagged shared.
func (d *dec) resolveShared(m *message, where string) ([]byte, bool) {
	if m.flags&0x02 == 0 {
		return m.data, true
	}
	return d.sharedBody(m.data, m.typ, where)
}

func (d *dec) sharedBody(p []byte, typ int, where string) ([]byte, bool) {
	c := &cur{p: p}
	ver := c.u8()
	st := c.u8()
	var addr uint64
	switch ver {
	case 1:
		// version 1 stores a symbol-table-entry prefix: 6 reserved bytes, a name offset of the
		// size of lengths, then the object header address
		c.skip(6 + d.lenSize)
		addr = d.addr(c)
	case 2:
		addr = d.addr(c)
	case 3:
		if st == 1 {
			d.unsupported("shared-message-in-sohm-heap")
			return nil, false
		}
		addr = d.addr(c)
	default:
		d.err("shared-message-version-unknown %d (%s)", ver, where)
		return nil, false
	}
	if c.bad || addr == undef {
		d.err("shared-message-malformed (%s)", where)
		return nil, false
	}
	h := d.readHeader(addr, where+"/shared")
	if !h.ok {
		return nil, false
	}
	if mm := h.find(typ); mm != nil && mm.flags&0x02 == 0 {
		return mm.data, true
	}
	d.err("shared-message-target-lacks-message type %#x (%s)", typ, where)
	return nil, false
}

type link struct {
	name   string
	typ    int // 0 hard 1 soft 64 external
	addr   uint64
	target string
	file   string
	order  int64
	devs   []string
}

func (d *dec) parseLink(p []byte, where string) (*link, bool) {
	if len(p) >= 4 && p[0] == 1 && p[1] == 0 && p[2] == 0x04 && p[3] == 0 {
		// Not decodable as specified (flags 0 means: no type, no creation order, no character set
		// field, 1-byte name length 4 ...). Try the four-byte prefix (version, 0, 0x04, 0) this
		// writer emits, followed by a minimal-width name length, the name and a hard link address.
		if l, ok := d.parseLinkVariant(p); ok {
			if _, ok2 := d.parseLinkSpec(p); !ok2 {
				d.dev("link-message-dense-four-byte-prefix", where, "link message in the heap starts with (1, 0, 0x04, 0): the flags byte is 0 and the bytes that follow are not (name length, name, address) as the specification lays them out")
				return l, true
			}
		}
	}
	l, ok := d.parseLinkSpec(p)
	if !ok {
		d.err("link-message-undecodable (%s): % x", where, p[:min(len(p), 24)])
		return nil, false
	}
	for _, t := range l.devs {
		d.dev(t, where, fmt.Sprintf("link %q", l.name))
	}
	return l, ok
}

func (d *dec) parseLinkVariant(p []byte) (*link, bool) {
	O := d.offSize
	// name length width: whatever makes the total come out
	for w := 1; w <= 8; w++ {
		if 4+w > len(p) {
			break
		}
		n := int(le(p[4:], w))
		if n > 0 && 4+w+n+O == len(p) && (w == 1 || p[4+w-1] != 0) {
			name := string(p[4+w : 4+w+n])
			if !plausibleName(name) {
				continue
			}
			a := le(p[4+w+n:], O)
			return &link{name: name, typ: 0, addr: a, order: -1}, true
		}
	}
	return nil, false
}

func (d *dec) parseLinkSpec(p []byte) (*link, bool) {
	c := &cur{p: p}
	ver := c.u8()
	fl := c.u8()
	if ver != 1 {
		return nil, false
	}
	l := &link{order: -1}
	if fl&0x08 != 0 {
		l.typ = c.u8()
	}
	if fl&0x04 != 0 {
		l.order = int64(c.u(8))
	}
	if fl&0x10 != 0 {
		c.u8()
	}
	n := int(c.u(1 << uint(fl&3)))
	if n <= 0 || n > c.left() {
		return nil, false
	}
	l.name = string(c.bytes(n))
	if !plausibleName(l.name) {
		return nil, false
	}
	switch {
	case l.typ == 0:
		l.addr = d.addr(c)
		if c.bad {
			return nil, false
		}
	case l.typ == 1:
		m := c.u16()
		if m > c.left() {
			return nil, false
		}
		l.target = string(c.bytes(m))
	case l.typ == 64:
		save := c.pos
		m := c.u16()
		okSpec := false
		if m <= c.left() && m >= 1 {
			info := c.bytes(m)
			// version/flags byte, file name NUL, object path NUL
			if f, fl2, ok1 := cstr(info, 1); ok1 {
				if o, ol, ok2 := cstr(info, 1+fl2); ok2 && 1+fl2+ol == m {
					l.file, l.target = f, o
					okSpec = true
				}
			}
		}
		if !okSpec {
			// (length, file name)(length, object path) without the enclosing length and flags byte?
			c.pos = save
			c.bad = false
			fn := c.u16()
			if fn > c.left() {
				return nil, false
			}
			f := string(c.bytes(fn))
			pn := c.u16()
			if c.bad || pn != c.left() {
				return nil, false
			}
			o := string(c.bytes(pn))
			if !plausibleName(f) || !plausibleName(o) {
				return nil, false
			}
			l.file, l.target = f, o
			l.devs = append(l.devs, "external-link-value-not-spec-layout")
		}
	default:
		m := c.u16()
		if m > c.left() {
			return nil, false
		}
		c.skip(m)
	}
	if c.bad {
		return nil, false
	}
	return l, true
}

type linkInfo struct {
	heap, nameIdx, orderIdx uint64
	flags                   int
}

func (d *dec) parseLinkInfo(p []byte, where string) (*linkInfo, bool) {
	c := &cur{p: p}
	ver := c.u8()
	li := &linkInfo{flags: c.u8(), orderIdx: undef}
	if ver != 0 {
		d.err("link-info-version-unknown %d (%s)", ver, where)
		return nil, false
	}
	if li.flags&1 != 0 {
		c.u(8)
	}
	li.heap = d.addr(c)
	li.nameIdx = d.addr(c)
	if li.flags&2 != 0 {
		li.orderIdx = d.addr(c)
	}
	if c.bad {
		d.err("link-info-truncated (%s)", where)
		return nil, false
	}
	return li, true
}

type attrInfo struct {
	heap, nameIdx, orderIdx uint64
	flags                   int
}

func (d *dec) parseAttrInfo(p []byte, where string) (*attrInfo, bool) {
	c := &cur{p: p}
	ver := c.u8()
	ai := &attrInfo{flags: c.u8(), orderIdx: undef}
	if ver != 0 {
		d.err("attribute-info-version-unknown %d (%s)", ver, where)
		return nil, false
	}
	if ai.flags&1 != 0 {
		c.u16()
	}
	ai.heap = d.addr(c)
	ai.nameIdx = d.addr(c)
	if ai.flags&2 != 0 {
		ai.orderIdx = d.addr(c)
	}
	if c.bad {
		d.err("attribute-info-truncated (%s)", where)
		return nil, false
	}
	return ai, true
}

// parseAttribute decodes an attribute message body.
func (d *dec) parseAttribute(p []byte, where string, exact bool) (*Attr, bool) {
	c := &cur{p: p}
	ver := c.u8()
	fl := c.u8()
	if ver < 1 || ver > 3 {
		d.err("attribute-version-unknown %d (%s)", ver, where)
		return nil, false
	}
	nl, tl, sl := c.u16(), c.u16(), c.u16()
	if ver == 3 {
		c.u8()
	}
	if ver == 1 && fl != 0 {
		d.dev("attribute-v1-reserved-nonzero", where, fmt.Sprintf("%#x", fl))
		fl = 0
	}
	step := func(n int) int {
		if ver == 1 {
			return pad8(n)
		}
		return n
	}
	nb := c.bytes(step(nl))
	tb := c.bytes(step(tl))
	sb := c.bytes(step(sl))
	if c.bad || nl == 0 {
		d.err("attribute-message-truncated (%s)", where)
		return nil, false
	}
	name, l, term := cstr(nb[:nl], 0)
	if !term || l != nl {
		d.dev("attribute-name-not-terminated-at-size", where, fmt.Sprintf("name size %d, %q", nl, name))
	}
	a := &Attr{Name: name, MsgVersion: ver, MsgFlags: fl}
	w := where + "@" + name
	tbody := tb[:tl]
	if fl&1 != 0 {
		body, ok := d.sharedBody(tbody, msgDatatype, w)
		if !ok {
			a.Note = "shared-datatype-unresolved"
			return a, true
		}
		tbody = body
	}
	dt, ok := d.parseDatatype(tbody, w, 0)
	if !ok {
		a.Note = "datatype-undecodable"
		return a, true
	}
	if fl&1 == 0 && dt.Consumed != tl && ver >= 2 {
		d.dev("datatype-message-trailing-bytes", w, fmt.Sprintf("attribute says the datatype has %d bytes, its encoding is %d bytes (%s)", tl, dt.Consumed, dt.Desc()))
	}
	sbody := sb[:sl]
	if fl&2 != 0 {
		body, ok := d.sharedBody(sbody, msgDataspace, w)
		if !ok {
			a.Note = "shared-dataspace-unresolved"
			return a, true
		}
		sbody = body
	}
	ds, used, ok := d.parseDataspace(sbody, w)
	if !ok {
		a.Note = "dataspace-undecodable"
		return a, true
	}
	if fl&2 == 0 && used != sl && ver >= 2 {
		d.dev("dataspace-message-trailing-bytes", w, fmt.Sprintf("%d of %d bytes", used, sl))
	}
	a.TypeClass, a.TypeSize, a.Signed, a.TypeDesc = dt.Class, dt.Size, dt.Signed, dt.Desc()
	a.Dims, a.Scalar = ds.dims, ds.scalar
	n := ds.count() * uint64(dt.Size)
	if n > uint64(c.left()) {
		d.dev("attribute-data-shorter-than-dataspace", w, fmt.Sprintf("need %d bytes, message has %d", n, c.left()))
		a.Raw = append([]byte{}, c.bytes(c.left())...)
		return a, true
	}
	a.Raw = append([]byte{}, c.bytes(int(n))...)
	a.Type = dt
	if dt.Class == 9 {
		raw := a.Raw
		a.resolve = func() ([][]byte, string) { return d.vlenElements(raw, dt, w) }
	}
	if exact && c.left() != 0 {
		d.dev("attribute-message-trailing-bytes", w, fmt.Sprintf("%d bytes after the data", c.left()))
	}
	return a, true
}
