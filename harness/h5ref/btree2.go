//go:build verif

package h5ref

import (
	"fmt"
)

type bt2 struct {
	ok       bool
	typ      int
	nodeSize int
	recSize  int
	depth    int
	total    uint64
	records  [][]byte
}

type bt2level struct {
	maxNrec        int
	cumMaxNrec     uint64
	cumMaxNrecSize int
}

// readBTree2 reads a version 2 B-tree and returns its records in tree order.
func (d *dec) readBTree2(addr uint64, owner string) *bt2 {
	t := &bt2{}
	a := d.abs(addr)
	O, L := d.offSize, d.lenSize
	hs := uint64(16 + O + 2 + L + 4)
	p, ok := d.at(a, hs)
	if !ok {
		d.err("btree-v2-header-outside-file at %d (%s)", a, owner)
		return t
	}
	if string(p[:4]) != "BTHD" {
		d.err("btree-v2-header-bad-signature at %d (%s): % x", a, owner, p[:4])
		return t
	}
	d.extent(a, a+hs, "bthd", owner)
	d.checksum(p[:hs-4], uint32(le(p[hs-4:], 4)), "bthd", owner)
	c := &cur{p: p, pos: 4}
	if v := c.u8(); v != 0 {
		d.dev("bthd-version-not-0", owner, fmt.Sprintf("%d", v))
	}
	t.typ = c.u8()
	t.nodeSize = int(c.u32())
	t.recSize = c.u16()
	t.depth = c.u16()
	split, merge := c.u8(), c.u8()
	root := d.addr(c)
	rootN := c.u16()
	t.total = d.length(c)
	if split == 0 || split > 100 || merge > 100 {
		d.dev("bthd-split-merge-percent-invalid", owner, fmt.Sprintf("split %d merge %d", split, merge))
	}
	if t.nodeSize < 16 || t.recSize == 0 || t.nodeSize > 1<<24 || t.depth > 32 {
		d.err("btree-v2-header-implausible (%s): node size %d record size %d depth %d", owner, t.nodeSize, t.recSize, t.depth)
		return t
	}
	want := map[int]int{5: 11, 6: 15, 8: 17, 9: 13}
	if w, ok := want[t.typ]; ok && w != t.recSize {
		d.dev("bthd-record-size-wrong-for-type", owner, fmt.Sprintf("type %d record size %d, specification %d", t.typ, t.recSize, w))
	}
	// per-level node capacities (H5B2hdr.c)
	levels := make([]bt2level, t.depth+1)
	levels[0].maxNrec = (t.nodeSize - 10) / t.recSize
	levels[0].cumMaxNrec = uint64(levels[0].maxNrec)
	if levels[0].maxNrec < 1 {
		d.err("btree-v2-node-too-small (%s)", owner)
		return t
	}
	maxNrecSize := limitEncSize(uint64(levels[0].maxNrec))
	for u := 1; u <= t.depth; u++ {
		ptr := O + maxNrecSize + levels[u-1].cumMaxNrecSize
		levels[u].maxNrec = (t.nodeSize - (10 + ptr)) / (t.recSize + ptr)
		if levels[u].maxNrec < 1 {
			d.err("btree-v2-node-too-small (%s)", owner)
			return t
		}
		levels[u].cumMaxNrec = uint64(levels[u].maxNrec+1)*levels[u-1].cumMaxNrec + uint64(levels[u].maxNrec)
		levels[u].cumMaxNrecSize = limitEncSize(levels[u].cumMaxNrec)
	}
	t.ok = true
	if root == undef || t.total == 0 {
		if rootN != 0 && root == undef {
			d.dev("bthd-root-undefined-with-records", owner, fmt.Sprintf("%d", rootN))
		}
		return t
	}
	visited := map[uint64]bool{}
	var node func(addr uint64, nrec int, depth int) uint64
	node = func(addr uint64, nrec int, depth int) uint64 {
		na := d.abs(addr)
		if visited[na] || !d.spend(1) {
			d.err("btree-v2-node-revisited at %d (%s)", na, owner)
			return 0
		}
		visited[na] = true
		if nrec > levels[depth].maxNrec {
			d.dev("btree-v2-node-records-exceed-capacity", owner, fmt.Sprintf("%d records, capacity %d", nrec, levels[depth].maxNrec))
		}
		sig, kind := "BTLF", "btlf"
		used := 6 + nrec*t.recSize
		ptr := 0
		if depth > 0 {
			sig, kind = "BTIN", "btin"
			ptr = O + maxNrecSize
			if depth > 1 {
				ptr += levels[depth-1].cumMaxNrecSize
			}
			used += (nrec + 1) * ptr
		}
		used += 4
		p, ok := d.at(na, uint64(used))
		if !ok {
			d.err("btree-v2-node-outside-file at %d (%s)", na, owner)
			return 0
		}
		if string(p[:4]) != sig {
			d.err("btree-v2-node-bad-signature at %d (%s): % x, expected %s", na, owner, p[:4], sig)
			return 0
		}
		full := uint64(t.nodeSize)
		if uint64(used) > full {
			full = uint64(used)
		}
		if _, ok := d.at(na, full); !ok {
			d.dev("btree-v2-node-not-full-size", owner, fmt.Sprintf("node at %d: node size %d reaches beyond the end of the file", na, t.nodeSize))
			full = uint64(used)
		}
		d.extent(na, na+full, kind, owner)
		d.checksum(p[:used-4], uint32(le(p[used-4:], 4)), kind, owner)
		if p[4] != 0 {
			d.dev(kind+"-version-not-0", owner, fmt.Sprintf("%d", p[4]))
		}
		if int(p[5]) != t.typ {
			d.dev(kind+"-type-differs-from-header", owner, fmt.Sprintf("node type %d header type %d", p[5], t.typ))
		}
		recs := make([][]byte, nrec)
		for i := 0; i < nrec; i++ {
			recs[i] = p[6+i*t.recSize : 6+(i+1)*t.recSize]
		}
		if depth == 0 {
			t.records = append(t.records, recs...)
			return uint64(nrec)
		}
		c := &cur{p: p, pos: 6 + nrec*t.recSize}
		count := uint64(nrec)
		for i := 0; i <= nrec; i++ {
			child := d.addr(c)
			cn := int(c.u(maxNrecSize))
			var all uint64
			if depth > 1 {
				all = c.u(levels[depth-1].cumMaxNrecSize)
			}
			if child != undef {
				got := node(child, cn, depth-1)
				if depth > 1 && got != all && got != 0 {
					d.dev("btree-v2-child-total-records-wrong", owner, fmt.Sprintf("pointer says %d, subtree holds %d", all, got))
				}
				count += got
			}
			if i < nrec {
				t.records = append(t.records, recs[i])
			}
		}
		return count
	}
	got := node(root, rootN, t.depth)
	if got != t.total {
		d.dev("bthd-total-records-wrong", owner, fmt.Sprintf("header says %d records, tree holds %d", t.total, got))
	}
	return t
}
