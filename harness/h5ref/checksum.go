//go:build verif

package h5ref

import (
	"fmt"
	"hash/crc32"
)

func rot(x uint32, k uint) uint32 { return x<<k | x>>(32-k) }

// Lookup3 is Bob Jenkins' lookup3 hashlittle() with initial value 0, the checksum the format
// specification names for all version-2 metadata and for link/attribute name hashes.
func Lookup3(k []byte) uint32 {
	n := len(k)
	a := uint32(0xdeadbeef) + uint32(n)
	b, c := a, a
	for n > 12 {
		a += uint32(k[0]) | uint32(k[1])<<8 | uint32(k[2])<<16 | uint32(k[3])<<24
		b += uint32(k[4]) | uint32(k[5])<<8 | uint32(k[6])<<16 | uint32(k[7])<<24
		c += uint32(k[8]) | uint32(k[9])<<8 | uint32(k[10])<<16 | uint32(k[11])<<24
		a -= c
		a ^= rot(c, 4)
		c += b
		b -= a
		b ^= rot(a, 6)
		a += c
		c -= b
		c ^= rot(b, 8)
		b += a
		a -= c
		a ^= rot(c, 16)
		c += b
		b -= a
		b ^= rot(a, 19)
		a += c
		c -= b
		c ^= rot(b, 4)
		b += a
		k = k[12:]
		n -= 12
	}
	if n == 0 {
		return c
	}
	var t [12]byte
	copy(t[:], k[:n])
	a += uint32(t[0]) | uint32(t[1])<<8 | uint32(t[2])<<16 | uint32(t[3])<<24
	b += uint32(t[4]) | uint32(t[5])<<8 | uint32(t[6])<<16 | uint32(t[7])<<24
	c += uint32(t[8]) | uint32(t[9])<<8 | uint32(t[10])<<16 | uint32(t[11])<<24
	c ^= b
	c -= rot(b, 14)
	a ^= c
	a -= rot(c, 11)
	b ^= a
	b -= rot(a, 25)
	c ^= b
	c -= rot(b, 16)
	a ^= c
	a -= rot(c, 4)
	b ^= a
	b -= rot(a, 14)
	c ^= b
	c -= rot(b, 24)
	return c
}

// Fletcher32 is the HDF5 variant of the Fletcher-32 checksum (16-bit words taken big-endian,
// an odd trailing byte as the high byte of a last word).
func Fletcher32(data []byte) uint32 {
	var sum1, sum2 uint32
	n := len(data) / 2
	i := 0
	for n > 0 {
		t := n
		if t > 360 {
			t = 360
		}
		n -= t
		for ; t > 0; t-- {
			sum1 += uint32(data[i])<<8 | uint32(data[i+1])
			sum2 += sum1
			i += 2
		}
		sum1 = (sum1 & 0xffff) + (sum1 >> 16)
		sum2 = (sum2 & 0xffff) + (sum2 >> 16)
	}
	if len(data)%2 == 1 {
		sum1 += uint32(data[i]) << 8
		sum2 += sum1
		sum1 = (sum1 & 0xffff) + (sum1 >> 16)
		sum2 = (sum2 & 0xffff) + (sum2 >> 16)
	}
	sum1 = (sum1 & 0xffff) + (sum1 >> 16)
	sum2 = (sum2 & 0xffff) + (sum2 >> 16)
	return sum2<<16 | sum1
}

// checksum verifies a stored metadata checksum over body. It returns true when the stored
// value is acceptable to continue (lookup3, or CRC-32 with a deviation recorded).
func (d *dec) checksum(body []byte, stored uint32, structure, where string) bool {
	if Lookup3(body) == stored {
		return true
	}
	if crc32.ChecksumIEEE(body) == stored {
		d.dev("checksum-crc32-not-lookup3@"+structure, where, fmt.Sprintf("stored %#08x is the CRC-32 of the %d covered bytes; the specification requires Jenkins lookup3 (%#08x)", stored, len(body), Lookup3(body)))
		return true
	}
	d.dev("checksum-mismatch@"+structure, where, fmt.Sprintf("stored %#08x, lookup3 of the %d covered bytes is %#08x (CRC-32 would be %#08x)", stored, len(body), Lookup3(body), crc32.ChecksumIEEE(body)))
	return false
}

func crc32ieee(b []byte) uint32 { return crc32.ChecksumIEEE(b) }
