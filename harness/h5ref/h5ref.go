//go:build verif

// Package h5ref is an independent decoder of the HDF5 file format, written from the HDF5 File
// Format Specification (version 3) and sharing no code with github.com/scigolib/hdf5. It is
// tolerant and diagnostic: where the bytes deviate from the specification in a way it can get
// past, it records a Deviation with a stable tag and continues; every structure it visits is
// recorded in Extents with its exact byte range. It never panics and always terminates.
package h5ref

import (
	"fmt"
	"sort"
	"strings"
)

// Extent is the byte range [Start,End) of one on-disk structure (absolute file offsets).
type Extent struct {
	Start, End uint64
	Kind       string
	Owner      string
}

// Deviation is a tolerated departure from the format specification.
type Deviation struct {
	Tag    string
	Where  string
	Detail string
}

type Child struct {
	Name string
	Path string
}

type Attr struct {
	Name      string
	TypeClass int
	TypeSize  int
	Signed    bool
	TypeDesc  string
	Dims      []uint64
	Scalar    bool
	Raw       []byte
	Note      string
	Type      *Datatype
	// version and flags of the attribute message (flags bit 0: shared datatype, bit 1: shared dataspace)
	MsgVersion, MsgFlags int
	resolve              func() ([][]byte, string)
}

// VLen resolves the elements of a variable-length attribute through the global heap (on
// demand: the walk itself does not follow attribute heap references).
func (a *Attr) VLen() ([][]byte, string) {
	if a.resolve == nil {
		return nil, "not-variable-length"
	}
	return a.resolve()
}

type Object struct {
	Path       string
	Kind       string // group | dataset | datatype | link-soft | link-external | unknown
	HeaderAddr uint64
	Children   []Child
	Dims       []uint64
	MaxDims    []uint64
	Scalar     bool // dataspace is scalar (rank 0)
	Null       bool // dataspace is null
	TypeClass  int
	TypeSize   int
	TypeSigned bool
	TypeDesc   string
	Layout     string // compact | contiguous | chunked | virtual
	ChunkDims  []uint64
	Filters    []int
	Raw        []byte // element bytes, row-major, chunks assembled, filters undone
	RawNote    string // why Raw is nil
	VLen       [][]byte
	VLenNote   string
	Attrs      []Attr
	AttrNote   string
	LinkTarget string
	LinkFile   string
	Cycle      bool // group that is its own ancestor: children not expanded again
	Type       *Datatype
}

type Result struct {
	Root              *Object
	Objects           map[string]*Object
	Order             []string // paths in walk order
	Extents           []Extent
	Deviations        []Deviation
	Errors            []string
	Unsupported       []string // features of the format this decoder does not implement
	SuperblockVersion int
	SuperblockOffset  uint64
	BaseAddress       uint64
	EOFAddress        uint64 // absolute
	OffsetSize        int
	LengthSize        int
}

// DeviationTags returns the sorted set of distinct deviation tags.
func (r *Result) DeviationTags() []string {
	m := map[string]bool{}
	for _, d := range r.Deviations {
		m[d.Tag] = true
	}
	out := make([]string, 0, len(m))
	for k := range m {
		out = append(out, k)
	}
	sort.Strings(out)
	return out
}

const undef = ^uint64(0)

type capExtent struct {
	usedEnd, fullEnd uint64
	start            uint64
	tag, where       string
}

type dec struct {
	b   []byte
	res *Result

	base    uint64
	offSize int
	lenSize int
	sbVer   int

	groupLeafK     int
	groupInternalK int
	chunkK         int

	extSeen map[string]bool
	devSeen map[string]bool
	errSeen map[string]bool
	caps    []capExtent

	hdrCache   map[uint64]*header
	gcols      map[uint64]*gcol
	nobjects   int
	unsupCount int
	budget     int // structure-visit budget (termination on adversarial input)
}

// Decode decodes a complete HDF5 file image.
func Decode(file []byte) (res *Result) {
	res = &Result{Objects: map[string]*Object{}, SuperblockVersion: -1}
	d := &dec{b: file, res: res, extSeen: map[string]bool{}, devSeen: map[string]bool{}, errSeen: map[string]bool{},
		hdrCache: map[uint64]*header{}, gcols: map[uint64]*gcol{}, budget: 2000000, chunkK: 32, groupLeafK: 4, groupInternalK: 16}
	defer func() {
		if p := recover(); p != nil {
			res.Errors = append(res.Errors, fmt.Sprintf("decoder-panic: %v", p))
		}
	}()
	d.run()
	d.finish()
	return res
}

func (d *dec) dev(tag, where, detail string) {
	k := tag + "\x00" + where
	if d.devSeen[k] {
		return
	}
	d.devSeen[k] = true
	if len(d.res.Deviations) < 5000 {
		d.res.Deviations = append(d.res.Deviations, Deviation{Tag: tag, Where: where, Detail: detail})
	}
}

func (d *dec) err(format string, a ...any) {
	s := fmt.Sprintf(format, a...)
	if d.errSeen[s] {
		return
	}
	d.errSeen[s] = true
	if len(d.res.Errors) < 2000 {
		d.res.Errors = append(d.res.Errors, s)
	}
}

func (d *dec) unsupported(format string, a ...any) {
	d.unsupCount++
	s := fmt.Sprintf(format, a...)
	for _, x := range d.res.Unsupported {
		if x == s {
			return
		}
	}
	if len(d.res.Unsupported) < 500 {
		d.res.Unsupported = append(d.res.Unsupported, s)
	}
}

// rollback discards the diagnostics recorded after the given marks (failed parse attempt).
func (d *dec) rollback(errs, devs int) {
	for _, e := range d.res.Errors[errs:] {
		delete(d.errSeen, e)
	}
	for _, x := range d.res.Deviations[devs:] {
		delete(d.devSeen, x.Tag+"\x00"+x.Where)
	}
	d.res.Errors = d.res.Errors[:errs]
	d.res.Deviations = d.res.Deviations[:devs]
}

// extent records the absolute byte range of a structure once.
func (d *dec) extent(start, end uint64, kind, owner string) {
	if end <= start {
		return
	}
	k := fmt.Sprintf("%d:%d:%s", start, end, kind)
	if d.extSeen[k] {
		return
	}
	d.extSeen[k] = true
	d.res.Extents = append(d.res.Extents, Extent{Start: start, End: end, Kind: kind, Owner: owner})
}

// spend consumes visit budget; false means the decoder must stop descending.
func (d *dec) spend(n int) bool {
	d.budget -= n
	if d.budget < 0 {
		d.err("decoder-budget-exhausted")
		return false
	}
	return true
}

// abs converts a file address (relative to the base address) to an absolute offset.
func (d *dec) abs(addr uint64) uint64 {
	if addr == undef || addr > undef-d.base {
		return undef
	}
	return addr + d.base
}

// at returns n bytes at absolute offset off, or nil,false when out of the file.
func (d *dec) at(off, n uint64) ([]byte, bool) {
	if off == undef || n > uint64(len(d.b)) || off > uint64(len(d.b))-n {
		return nil, false
	}
	return d.b[off : off+n], true
}

func (d *dec) isUndef(addr uint64, size int) bool {
	if size >= 8 {
		return addr == undef
	}
	return addr == (uint64(1)<<(8*uint(size)))-1
}

// le reads an n-byte little-endian unsigned integer (n <= 8) from p.
func le(p []byte, n int) uint64 {
	var v uint64
	for i := 0; i < n && i < len(p) && i < 8; i++ {
		v |= uint64(p[i]) << (8 * uint(i))
	}
	return v
}

// cur is a bounds-checked cursor over a byte slice.
type cur struct {
	p   []byte
	pos int
	bad bool
}

func (c *cur) left() int { return len(c.p) - c.pos }

func (c *cur) bytes(n int) []byte {
	if n < 0 || c.bad || c.pos+n > len(c.p) {
		c.bad = true
		return make([]byte, max(n, 0)%(1<<20))
	}
	s := c.p[c.pos : c.pos+n]
	c.pos += n
	return s
}

func (c *cur) u(n int) uint64 { return le(c.bytes(n), n) }
func (c *cur) u8() int        { return int(c.u(1)) }
func (c *cur) u16() int       { return int(c.u(2)) }
func (c *cur) u32() uint64    { return c.u(4) }
func (c *cur) skip(n int)     { c.bytes(n) }

// addr reads an address of the file's offset size, mapping the undefined address to undef.
func (d *dec) addr(c *cur) uint64 {
	v := c.u(d.offSize)
	if d.isUndef(v, d.offSize) {
		return undef
	}
	return v
}

func (d *dec) length(c *cur) uint64 { return c.u(d.lenSize) }

// cstr reads a NUL-terminated string from p starting at off; ok=false when unterminated.
func cstr(p []byte, off int) (string, int, bool) {
	if off < 0 || off > len(p) {
		return "", 0, false
	}
	for i := off; i < len(p); i++ {
		if p[i] == 0 {
			return string(p[off:i]), i + 1 - off, true
		}
	}
	return string(p[off:]), len(p) - off, false
}

func pad8(n int) int { return (n + 7) &^ 7 }

func joinPath(parent, name string) string {
	if parent == "/" {
		return "/" + name
	}
	return parent + "/" + name
}

// finish checks the fixed-capacity structures whose full size reaches beyond what was
// written, and sorts the extents.
func (d *dec) finish() {
	res := d.res
	sort.SliceStable(res.Extents, func(i, j int) bool {
		a, b := res.Extents[i], res.Extents[j]
		if a.Start != b.Start {
			return a.Start < b.Start
		}
		if a.End != b.End {
			return a.End < b.End
		}
		return a.Kind < b.Kind
	})
	for _, c := range d.caps {
		if c.fullEnd <= c.usedEnd {
			continue
		}
		if c.fullEnd > uint64(len(d.b)) {
			d.dev(c.tag, c.where, fmt.Sprintf("node at %d: its fixed size ends at %d, beyond the end of the %d-byte file (used part ends at %d)", c.start, c.fullEnd, len(d.b), c.usedEnd))
			continue
		}
		for _, e := range res.Extents {
			if e.Start >= c.fullEnd {
				break
			}
			if e.End > c.usedEnd && e.Start < c.fullEnd && !(e.Start == c.start) {
				d.dev(c.tag, c.where, fmt.Sprintf("node at %d: the unused tail [%d,%d) of its fixed capacity is occupied by %s %s [%d,%d)", c.start, c.usedEnd, c.fullEnd, e.Kind, e.Owner, e.Start, e.End))
				break
			}
		}
	}
}

func hexs(b []byte) string {
	const digits = "0123456789abcdef"
	var sb strings.Builder
	for i, x := range b {
		if i >= 32 {
			sb.WriteString("…")
			break
		}
		sb.WriteByte(digits[x>>4])
		sb.WriteByte(digits[x&15])
	}
	return sb.String()
}
