//go:build verif

package rebalancing

import (
	"context"
	"fmt"
	"math"
	"reflect"
	"sort"
	"strings"
	"testing"
	"time"

	"github.com/scigolib/hdf5/internal/structures"
	"github.com/scigolib/hdf5/internal/verif/vkit"
)

// C19 (b) — the automatic selector obeys its constraints.
//
// Explicit-state BFS over the REAL ConfigSelector (driver "selector-bfs") and over the real
// WorkloadDetector + ConfigSelector + SmartRebalancer.Evaluate (driver "evaluate-bfs": every
// operation chooses its own clock step; and "evaluate-bfs/uniform-clock-step": one clock step
// per sequence, which reaches sample sizes >= 10 and therefore confidences >= 0.5).
//
// How time enters: all three components take a `Clock` interface (detector.go:175;
// WithClock / WithSelectorClock / WithRebalancerClock). The harness injects one fake clock
// (vfC19Clock) shared by all components and sets it before every call; nothing sleeps and
// no background goroutine is started (Start() is never called). MetricsCollector uses
// time.Now() directly (metrics.go:125,170,...) but only for lastUpdateTime/uptime, which no
// decision reads.
//
// Private state of ConfigSelector (selector.go:213-226): constraints (immutable after
// construction), strategy (*RuleBasedStrategy, its only field is the clock; Select never
// touches it), clock, and the stability memory lastDecisionTime / lastMode. The harness
// asserts this field list by reflection so that a new field cannot silently escape the
// canonical state.
//
// Canonical state (selector-bfs) = (lastDecisionTime.IsZero, lastMode,
// min(now-lastDecisionTime, P)) read from the real private fields, plus the harness
// monitor (previous gate-passing returned mode, min(now-firstReturned, P)).
// Soundness of the caps: SelectConfig uses lastDecisionTime only in
// `now.Sub(lastDecisionTime) < MinStabilityPeriod` (selector.go:373-374) and the monitor
// only in `now-first >= P`; for d >= 0, min(min(a,P)+d, P) == min(a+d, P), so two concrete
// states with the same capped ages have the same successors under every clock step and
// give the same answers. now itself is otherwise only copied into Decision.Timestamp.
//
// Successors: the state is reached by replaying its (shortest, BFS) observation path on a
// FRESH selector built with NewConfigSelector; the replayed canonical state is compared with
// the one recorded at discovery. The fan-out over the alphabet then uses Go value copies of
// that replayed selector (`c := *sel`): the struct holds no pointer to mutable state (see
// the field list above), so the copy is the same state as a second replay would produce —
// and every state discovered through a copy is itself re-validated by a replay when it is
// expanded.
//
// Oracles. (1)-(4) are the statement; (5) is a 12-line reference model of the three gates,
// stricter than the statement (it pins the boundary cases confidence == minimum and
// elapsed == P); on the pinned tree it agrees with the code everywhere.
//  (1) returned mode ∈ allowed-modes list ∪ {none} (empty list = every mode)
//  (2) confidence < MinConfidence ⇒ returned mode is none
//  (3) reported confidence ∈ [0,1], not NaN
//  (4) among decisions that pass gates (1),(2) — decided by the harness from the pure
//      strategy answer: confidence >= min and strategy mode listed — when the returned mode
//      differs from the previously returned gate-passing mode, at least P has elapsed since
//      that previous mode was FIRST returned (tracked along every path by vfC19Mon).
//  (5) returned mode, confidence and next private state equal the reference model.

type vfC19Clock struct{ t time.Time }

func (c *vfC19Clock) Now() time.Time { return c.t }

// A fake clock must not start at the zero time: the selector uses lastDecisionTime.IsZero()
// as "no decision yet" (selector.go:372); the real clock never returns the zero time.
var vfC19Epoch = time.Unix(1_700_000_000, 0).UTC()

var vfC19AllModes = []Mode{ModeNone, ModeLazy, ModeIncremental}

func vfC19ModeName(m Mode) string {
	switch m {
	case ModeNone, ModeLazy, ModeIncremental:
		return string(m)
	case "":
		return "empty"
	}
	return "other"
}

func vfC19ModeCode(m Mode) byte {
	switch m {
	case "":
		return 0
	case ModeNone:
		return 1
	case ModeLazy:
		return 2
	case ModeIncremental:
		return 3
	}
	return 4
}

// ---------------------------------------------------------------- constraints

type vfC19Cfg struct {
	mask    int // bit i set = vfC19AllModes[i] listed in AllowedModes; 0 = empty list
	minConf float64
	p       time.Duration
}

func (c vfC19Cfg) allowedList() []Mode {
	var l []Mode
	for i, m := range vfC19AllModes {
		if c.mask&(1<<i) != 0 {
			l = append(l, m)
		}
	}
	return l
}

func (c vfC19Cfg) constraints() SafetyConstraints {
	return SafetyConstraints{MaxCPUPercent: 50, MaxMemoryMB: 100, MinStabilityPeriod: c.p,
		MinConfidence: c.minConf, AllowedModes: c.allowedList()}
}

// listed: the harness's own reading of "permitted by the configured allowed-modes list".
func (c vfC19Cfg) listed(m Mode) bool {
	if c.mask == 0 {
		return m == ModeNone || m == ModeLazy || m == ModeIncremental
	}
	for i, x := range vfC19AllModes {
		if x == m && c.mask&(1<<i) != 0 {
			return true
		}
	}
	return false
}

func (c vfC19Cfg) String() string {
	names := []string{}
	for _, m := range c.allowedList() {
		names = append(names, string(m))
	}
	return fmt.Sprintf("allowed=[%s] minConfidence=%g stabilityPeriod=%s", strings.Join(names, ","), c.minConf, c.p)
}

// ---------------------------------------------------------------- oracle

type vfC19SelState struct {
	lastMode Mode
	lastTime time.Time
}

func vfC19StateOf(s *ConfigSelector) vfC19SelState {
	return vfC19SelState{s.lastMode, s.lastDecisionTime}
}

// vfC19Mon is the path monitor of invariant (4).
type vfC19Mon struct {
	has   bool
	mode  Mode
	first time.Time // when `mode` was first returned in the current run of gate-passing decisions
}

const (
	vfC19LowConf = iota
	vfC19NotAllowed
	vfC19Held
	vfC19Accepted
)

var vfC19BranchName = [4]string{"low-confidence", "not-allowed", "held", "accepted"}

type vfC19Fail struct{ key, why string }

// judge checks one transition of the real code and advances the monitor. fails == nil: replay
// mode (monitor only; the transition was checked when it was first executed).
func (c vfC19Cfg) judge(pre vfC19SelState, mon *vfC19Mon, base Decision, now time.Time, out Decision, post vfC19SelState, fails *[]vfC19Fail) int {
	// reference model of the three gates
	var branch int
	expMode := base.Mode
	expPost := pre
	switch {
	case base.Confidence < c.minConf:
		branch, expMode = vfC19LowConf, ModeNone
	case !c.listed(base.Mode):
		branch, expMode = vfC19NotAllowed, ModeNone
	case !pre.lastTime.IsZero() && now.Sub(pre.lastTime) < c.p && base.Mode != pre.lastMode:
		branch, expMode = vfC19Held, pre.lastMode
	default:
		branch = vfC19Accepted
		expPost = vfC19SelState{base.Mode, now}
	}
	gatePass := branch >= vfC19Held

	if fails != nil {
		add := func(key, why string) { *fails = append(*fails, vfC19Fail{key, why}) }
		// (1)
		if !(out.Mode == ModeNone || c.listed(out.Mode)) {
			add("selector/mode-not-allowed/returned="+vfC19ModeName(out.Mode),
				fmt.Sprintf("returned mode %q is neither none nor in the allowed list", out.Mode))
		}
		// (3)
		switch {
		case out.Confidence != out.Confidence:
			add("selector/confidence-out-of-range/nan", "reported confidence is NaN")
		case out.Confidence < 0:
			add("selector/confidence-out-of-range/negative", fmt.Sprintf("reported confidence %v < 0", out.Confidence))
		case out.Confidence > 1:
			add("selector/confidence-out-of-range/above-one", fmt.Sprintf("reported confidence %v > 1", out.Confidence))
		}
		// (2) on the reported and on the strategy's confidence
		if (out.Confidence < c.minConf || base.Confidence < c.minConf) && out.Mode != ModeNone {
			add("selector/low-confidence-not-none/returned="+vfC19ModeName(out.Mode),
				fmt.Sprintf("confidence %v (strategy %v) < minimum %v but mode %q returned", out.Confidence, base.Confidence, c.minConf, out.Mode))
		}
		// (4)
		if gatePass && mon.has && out.Mode != mon.mode && now.Sub(mon.first) < c.p {
			add("selector/stability-violated/"+vfC19ModeName(mon.mode)+"->"+vfC19ModeName(out.Mode),
				fmt.Sprintf("mode changed %q -> %q only %s after %q was first returned (period %s)", mon.mode, out.Mode, now.Sub(mon.first), mon.mode, c.p))
		}
		// (5)
		bn := vfC19BranchName[branch]
		if out.Mode != expMode {
			add("selector/model-divergence/"+bn+"/mode", fmt.Sprintf("returned mode %q, reference model %q", out.Mode, expMode))
		}
		if out.Confidence != base.Confidence {
			add("selector/model-divergence/"+bn+"/confidence", fmt.Sprintf("reported confidence %v, strategy confidence %v", out.Confidence, base.Confidence))
		}
		if post.lastMode != expPost.lastMode || !post.lastTime.Equal(expPost.lastTime) {
			add("selector/model-divergence/"+bn+"/state", fmt.Sprintf("private state after call (%q,%s), reference model (%q,%s)",
				post.lastMode, vfC19Rel(post.lastTime), expPost.lastMode, vfC19Rel(expPost.lastTime)))
		}
	}
	if gatePass {
		if !mon.has || out.Mode != mon.mode {
			mon.has, mon.mode, mon.first = true, out.Mode, now
		}
	}
	return branch
}

func vfC19Rel(t time.Time) string {
	if t.IsZero() {
		return "never"
	}
	return "t0+" + t.Sub(vfC19Epoch).String()
}

func vfC19Cap(d, p time.Duration) time.Duration {
	if d > p {
		return p
	}
	return d
}

// ---------------------------------------------------------------- statistics

type vfC19FailRec struct {
	key     string
	detail  map[string]any
	pathLen int
	cfgIdx  int
}

type vfC19Res struct {
	states, transitions, traces int64
	branch                      [4]int64
	allowedChanged              int64 // allowed-modes gate turned lazy/incremental into none
	confForcedNone              int64 // confidence gate turned lazy/incremental into none
	modeChanges                 int64 // accepted changes of the gate-passing mode (>= P elapsed)
	decisions                   map[[2]int]int64
	workloads                   map[WorkloadType]int64
	outcomes                    map[string]int64
	heldNilConfig               int64
	failCount                   int64
	fails                       map[string]*vfC19FailRec
	harnessErr                  string
	maxDepth                    int
	capped                      string
}

func vfC19NewRes() *vfC19Res {
	return &vfC19Res{decisions: map[[2]int]int64{}, workloads: map[WorkloadType]int64{}, outcomes: map[string]int64{}, fails: map[string]*vfC19FailRec{}}
}

func (a *vfC19Res) count(c vfC19Cfg, branch int, base, out Decision, monBefore vfC19Mon) {
	a.transitions++
	a.branch[branch]++
	switch branch {
	case vfC19LowConf:
		if base.Mode != ModeNone {
			a.confForcedNone++
		}
	case vfC19NotAllowed:
		if base.Mode != ModeNone {
			a.allowedChanged++
		}
	case vfC19Held:
		if out.Mode != ModeNone && out.Config == nil {
			a.heldNilConfig++
		}
	case vfC19Accepted:
		if monBefore.has && monBefore.mode != out.Mode {
			a.modeChanges++
		}
	}
	a.decisions[[2]int{int(vfC19ModeCode(out.Mode)), int(math.Round(out.Confidence * 100))}]++
	a.outcomes[vfC19BranchName[branch]+":"+vfC19ModeName(base.Mode)+"=>"+vfC19ModeName(out.Mode)]++
}

func (a *vfC19Res) merge(b *vfC19Res) {
	a.states += b.states
	a.transitions += b.transitions
	a.traces += b.traces
	for i := range a.branch {
		a.branch[i] += b.branch[i]
	}
	a.allowedChanged += b.allowedChanged
	a.confForcedNone += b.confForcedNone
	a.modeChanges += b.modeChanges
	a.heldNilConfig += b.heldNilConfig
	a.failCount += b.failCount
	for k, v := range b.decisions {
		a.decisions[k] += v
	}
	for k, v := range b.workloads {
		a.workloads[k] += v
	}
	for k, v := range b.outcomes {
		a.outcomes[k] += v
	}
	if b.maxDepth > a.maxDepth {
		a.maxDepth = b.maxDepth
	}
}

func vfC19DecisionJSON(d Decision) map[string]any {
	conf := any(d.Confidence)
	if d.Confidence != d.Confidence {
		conf = "NaN"
	}
	return map[string]any{"mode": string(d.Mode), "confidence": conf, "reason": d.Reason, "config": fmt.Sprintf("%T", d.Config)}
}

// ---------------------------------------------------------------- driver A: selector-bfs

type vfC19Obs struct {
	wt WorkloadType
	f  WorkloadFeatures
}

func (o vfC19Obs) json(step time.Duration) map[string]any {
	return map[string]any{"clock_step": step.String(), "workload": o.wt.String(), "sample_size": o.f.SampleSize,
		"delete_ratio": o.f.DeleteRatio, "burst": o.f.BurstDetected, "file_size": o.f.FileSize}
}

func vfC19Grid() []vfC19Obs {
	var g []vfC19Obs
	for wt := WorkloadUnknown; wt <= WorkloadAppendOnly; wt++ {
		for _, n := range []int{0, 5, 10, 50, 100, 1000} {
			for _, del := range []float64{0, 0.04, 0.3, 0.7} {
				for _, burst := range []bool{false, true} {
					for _, fs := range []uint64{1 << 20, 600 << 20} {
						g = append(g, vfC19Obs{wt, WorkloadFeatures{
							DeleteRatio: del, WriteRatio: (1 - del) / 2, ReadRatio: (1 - del) / 2,
							OperationRate: float64(n) / 300, BurstDetected: burst, FileSize: fs,
							WindowDuration: 5 * time.Minute, SampleSize: n, ExtractedAt: vfC19Epoch}})
					}
				}
			}
		}
	}
	return g
}

// Clock steps of the selector alphabet: {0, P/2, P, 2P} plus P-1ns (the other side of the
// boundary elapsed == P). Reachable capped ages stay finite: {0, P/2, P-1ns, P}.
// For P == 0 the four values coincide; a 1 s step is added so that time still moves.
func (c vfC19Cfg) steps() []time.Duration {
	if c.p == 0 {
		return []time.Duration{0, time.Second}
	}
	return []time.Duration{0, c.p / 2, c.p - 1, c.p, 2 * c.p}
}

type vfC19AKey struct {
	hasLast  bool
	lastMode Mode
	age      time.Duration
	monHas   bool
	monMode  Mode
	monAge   time.Duration
}

func (c vfC19Cfg) akey(s *ConfigSelector, mon *vfC19Mon, now time.Time) vfC19AKey {
	k := vfC19AKey{lastMode: s.lastMode}
	if !s.lastDecisionTime.IsZero() {
		k.hasLast = true
		k.age = vfC19Cap(now.Sub(s.lastDecisionTime), c.p)
	}
	if mon.has {
		k.monHas, k.monMode, k.monAge = true, mon.mode, vfC19Cap(now.Sub(mon.first), c.p)
	}
	return k
}

func vfC19SelectorCfg(cfgIdx int, cfg vfC19Cfg, grid []vfC19Obs) *vfC19Res {
	res := vfC19NewRes()
	if err := cfg.constraints().Validate(); err != nil {
		res.harnessErr = "constraints rejected by Validate: " + err.Error()
		return res
	}
	steps := cfg.steps()
	nst := len(steps)
	clk := &vfC19Clock{}
	strat := &RuleBasedStrategy{}
	type node struct {
		key  vfC19AKey
		path []int32
	}
	seen := map[vfC19AKey]struct{}{{}: {}}
	queue := []node{{}}
	pathJSON := func(path []int32) []any {
		var l []any
		for _, e := range path {
			l = append(l, grid[int(e)/nst].json(steps[int(e)%nst]))
		}
		return l
	}
	var fails []vfC19Fail
	for qi := 0; qi < len(queue); qi++ {
		nd := queue[qi]
		if len(nd.path) > res.maxDepth {
			res.maxDepth = len(nd.path)
		}
		// reach the state by replay on a fresh selector
		now := vfC19Epoch
		clk.t = now
		sel := NewConfigSelector(WithSafetyConstraints(cfg.constraints()), WithSelectorClock(clk))
		var mon vfC19Mon
		for _, e := range nd.path {
			o := &grid[int(e)/nst]
			now = now.Add(steps[int(e)%nst])
			clk.t = now
			pre := vfC19StateOf(sel)
			base := strat.Select(o.f, o.wt)
			out := sel.SelectConfig(o.f, o.wt)
			cfg.judge(pre, &mon, base, now, out, vfC19StateOf(sel), nil)
		}
		res.traces++
		if got := cfg.akey(sel, &mon, now); got != nd.key {
			res.harnessErr = fmt.Sprintf("%s: replay of path reached %+v, discovery (via struct copy) recorded %+v", cfg, got, nd.key)
			return res
		}
		snap := *sel
		for oi := range grid {
			o := &grid[oi]
			base := strat.Select(o.f, o.wt)
			for si, d := range steps {
				c := snap
				m := mon
				t1 := now.Add(d)
				clk.t = t1
				pre := vfC19StateOf(&c)
				out := c.SelectConfig(o.f, o.wt)
				post := vfC19StateOf(&c)
				fails = fails[:0]
				br := cfg.judge(pre, &m, base, t1, out, post, &fails)
				res.count(cfg, br, base, out, mon)
				e := int32(oi*nst + si)
				for _, f := range fails {
					res.failCount++
					if _, ok := res.fails[f.key]; !ok {
						path := append(append([]int32(nil), nd.path...), e)
						res.fails[f.key] = &vfC19FailRec{key: f.key, pathLen: len(path), cfgIdx: cfgIdx, detail: map[string]any{
							"driver": "selector-bfs", "constraints": cfg.String(), "why": f.why,
							"observations":           pathJSON(path),
							"state_before_last_call": map[string]any{"lastMode": string(pre.lastMode), "lastDecisionTime": vfC19Rel(pre.lastTime), "now": vfC19Rel(t1)},
							"strategy_answer":        vfC19DecisionJSON(base), "returned": vfC19DecisionJSON(out)}}
					}
				}
				k := cfg.akey(&c, &m, t1)
				if _, ok := seen[k]; !ok {
					seen[k] = struct{}{}
					queue = append(queue, node{k, append(append([]int32(nil), nd.path...), e)})
				}
			}
		}
	}
	res.states = int64(len(seen))
	return res
}

// ---------------------------------------------------------------- driver B: evaluate-bfs

type vfC19BTree struct{ size uint64 }

func (b *vfC19BTree) EnableLazyRebalancing(structures.LazyRebalancingConfig) error { return nil }
func (b *vfC19BTree) EnableIncrementalRebalancing(structures.IncrementalRebalancingConfig) error {
	return nil
}
func (b *vfC19BTree) DisableRebalancing() error                        { return nil }
func (b *vfC19BTree) StartBackgroundRebalancing(context.Context) error { return nil }
func (b *vfC19BTree) StopBackgroundRebalancing() error                 { return nil }
func (b *vfC19BTree) GetFileSize() uint64                              { return b.size }

const (
	vfC19Window    = 10 * time.Second
	vfC19Unit      = vfC19Window / 10
	vfC19MinSample = 3  // default 10 would classify nothing within 8 operations
	vfC19Capacity  = 16 // > max depth: the ring buffer never evicts (see Assume)
)

var vfC19BSteps = [3]time.Duration{0, vfC19Unit, vfC19Window}
var vfC19BOps = [3]OperationType{OpRead, OpWrite, OpDelete}

type vfC19BCfg struct {
	vfC19Cfg
	fileSize uint64
}

func (c vfC19BCfg) String() string {
	return fmt.Sprintf("%s fileSize=%d window=%s minSampleSize=%d", c.vfC19Cfg, c.fileSize, vfC19Window, vfC19MinSample)
}

type vfC19Sys struct {
	cfg   vfC19BCfg
	clk   *vfC19Clock
	det   *WorkloadDetector
	sel   *ConfigSelector
	sr    *SmartRebalancer
	strat *RuleBasedStrategy
	mon   vfC19Mon
}

func vfC19NewSys(cfg vfC19BCfg) *vfC19Sys {
	clk := &vfC19Clock{t: vfC19Epoch}
	s := &vfC19Sys{cfg: cfg, clk: clk, strat: &RuleBasedStrategy{}}
	s.det = NewWorkloadDetector(WithClock(clk), WithWindowSize(vfC19Window), WithMinSampleSize(vfC19MinSample), WithCapacity(vfC19Capacity))
	s.sel = NewConfigSelector(WithSafetyConstraints(cfg.constraints()), WithSelectorClock(clk))
	s.sr = NewSmartRebalancer(&vfC19BTree{size: cfg.fileSize}, WithDetector(s.det), WithSelector(s.sel), WithRebalancerClock(clk))
	return s
}

type vfC19StepOut struct {
	branch    int
	base, out Decision
	wt        WorkloadType
	pre       vfC19SelState
	err       string
}

// step = advance the clock, record one operation, evaluate. a = op*3 + clock step.
func (s *vfC19Sys) step(a byte, fails *[]vfC19Fail) vfC19StepOut {
	var so vfC19StepOut
	s.clk.t = s.clk.t.Add(vfC19BSteps[a%3])
	if err := s.sr.RecordOperation(vfC19BOps[a/3]); err != nil {
		so.err = "RecordOperation: " + err.Error()
	}
	so.pre = vfC19StateOf(s.sel)
	feats := s.det.ExtractFeatures()
	so.wt = s.det.DetectWorkloadType()
	so.base = s.strat.Select(feats, so.wt)
	out, err := s.sr.Evaluate()
	if err != nil {
		so.err = "Evaluate: " + err.Error()
	}
	so.out = out
	so.branch = s.cfg.judge(so.pre, &s.mon, so.base, s.clk.t, out, vfC19StateOf(s.sel), fails)
	if fails != nil && so.err != "" {
		*fails = append(*fails, vfC19Fail{"evaluate/error", so.err})
	}
	return so
}

// Canonical state (evaluate-bfs): sorted multiset of (operation type, age) of the events that
// are still inside the window (age <= window: ExtractFeatures skips Timestamp.Before(now-window),
// detector.go:408, and the clock never goes back, so an event that left the window is never
// looked at again while nothing is evicted) + the selector/monitor state as in driver A.
// Order inside the buffer is irrelevant: ExtractFeatures only counts, takes min/max of the
// timestamps and the file size of the last in-window event, which is constant per run here.
// Ages are multiples of window/10 by construction of the clock steps.
func (s *vfC19Sys) key() string {
	var buf [48]byte
	b := buf[:0]
	d := s.det
	now := s.clk.t
	var ev [vfC19Capacity]byte
	n := 0
	for i := 0; i < d.size; i++ {
		e := d.events[(d.head-d.size+i+d.capacity)%d.capacity]
		age := now.Sub(e.Timestamp)
		if age > d.windowSize {
			continue
		}
		if age < 0 || age%vfC19Unit != 0 || e.FileSize != s.cfg.fileSize || e.Type < 0 || e.Type > 2 {
			panic("vfC19: event outside the canonical form")
		}
		v := byte(age/vfC19Unit)<<2 | byte(e.Type)
		j := n
		for j > 0 && ev[j-1] > v {
			ev[j] = ev[j-1]
			j--
		}
		ev[j] = v
		n++
	}
	b = append(b, byte(n))
	b = append(b, ev[:n]...)
	p := s.cfg.p
	if s.sel.lastDecisionTime.IsZero() {
		b = append(b, 0xff, vfC19ModeCode(s.sel.lastMode))
	} else {
		b = append(b, byte(vfC19Cap(now.Sub(s.sel.lastDecisionTime), p)/vfC19Unit), vfC19ModeCode(s.sel.lastMode))
	}
	if !s.mon.has {
		b = append(b, 0xff, 0)
	} else {
		b = append(b, byte(vfC19Cap(now.Sub(s.mon.first), p)/vfC19Unit), vfC19ModeCode(s.mon.mode))
	}
	return string(b)
}

// snapshot/restore of everything a step mutates that a later decision can read:
// detector.events/head/size (closed, lastFlush never change), selector.lastMode/
// lastDecisionTime, the clock, the monitor. SmartRebalancer.stats and the MetricsCollector
// are written by Evaluate but read by no decision path.
type vfC19Snap struct {
	t          time.Time
	events     [vfC19Capacity]OperationEvent
	head, size int
	sel        vfC19SelState
	mon        vfC19Mon
}

func (s *vfC19Sys) snapshot(sn *vfC19Snap) {
	sn.t = s.clk.t
	copy(sn.events[:], s.det.events)
	sn.head, sn.size = s.det.head, s.det.size
	sn.sel = vfC19StateOf(s.sel)
	sn.mon = s.mon
}

func (s *vfC19Sys) restore(sn *vfC19Snap) {
	s.clk.t = sn.t
	copy(s.det.events, sn.events[:])
	s.det.head, s.det.size = sn.head, sn.size
	s.sel.lastMode, s.sel.lastDecisionTime = sn.sel.lastMode, sn.sel.lastTime
	s.mon = sn.mon
}

func vfC19ActionsJSON(path []byte) []any {
	var l []any
	for _, a := range path {
		l = append(l, map[string]any{"clock_step": vfC19BSteps[a%3].String(), "op": vfC19BOps[a/3].String()})
	}
	return l
}

type vfC19BNode struct {
	key  string
	path []byte
}

// uniform == false: every step chooses its clock step freely (9-letter alphabet).
// uniform == true: the clock step is chosen once per sequence (all operation sequences x 3
// constant inter-operation gaps); the chosen gap is then part of the canonical state, because
// it restricts the letters enabled later.
func vfC19EvaluateCfg(r *vkit.Run, cfgIdx int, cfg vfC19BCfg, maxDepth int, maxStates int, uniform bool) *vfC19Res {
	res := vfC19NewRes()
	if cfg.p%vfC19Unit != 0 {
		res.harnessErr = "stability period must be a multiple of window/10"
		return res
	}
	// the empty system: one Evaluate without any recorded operation (sample size 0 ⇒ confidence 0)
	{
		s := vfC19NewSys(cfg)
		var fails []vfC19Fail
		pre := vfC19StateOf(s.sel)
		feats := s.det.ExtractFeatures()
		wt := s.det.DetectWorkloadType()
		base := s.strat.Select(feats, wt)
		out, err := s.sr.Evaluate()
		if err != nil {
			fails = append(fails, vfC19Fail{"evaluate/error", err.Error()})
		}
		monBefore := s.mon
		br := cfg.judge(pre, &s.mon, base, s.clk.t, out, vfC19StateOf(s.sel), &fails)
		res.count(cfg.vfC19Cfg, br, base, out, monBefore)
		res.workloads[wt]++
		res.traces++
		for _, f := range fails {
			res.failCount++
			if _, ok := res.fails[f.key]; !ok {
				res.fails[f.key] = &vfC19FailRec{key: f.key, cfgIdx: cfgIdx, detail: map[string]any{"driver": "evaluate-bfs", "config": cfg.String(),
					"why": f.why, "actions": []any{}, "note": "Evaluate on the empty detector", "strategy_answer": vfC19DecisionJSON(base), "returned": vfC19DecisionJSON(out)}}
			}
		}
	}
	root := vfC19NewSys(cfg)
	frontier := []vfC19BNode{{key: root.key()}}
	keyOf := func(s *vfC19Sys, path []byte, a byte) string {
		if !uniform {
			return s.key()
		}
		if len(path) > 0 {
			a = path[0]
		}
		return string([]byte{'0' + a%3}) + s.key()
	}
	driver := "evaluate-bfs"
	if uniform {
		driver = "evaluate-bfs/uniform-clock-step"
	}
	seen := map[string]struct{}{frontier[0].key: {}}
	type nodeOut struct {
		succ [9]string
		res  *vfC19Res
	}
	for depth := 0; depth < maxDepth && len(frontier) > 0; depth++ {
		if r.Expired() {
			res.capped = fmt.Sprintf("%s: time budget used up at depth %d of %d", driver, depth, maxDepth)
			break
		}
		if len(seen) > maxStates {
			res.capped = fmt.Sprintf("%s: more than %d states at depth %d of %d", driver, maxStates, depth, maxDepth)
			break
		}
		outs := make([]nodeOut, len(frontier))
		// chunked so that per-node bookkeeping stays small
		const chunk = 256
		nchunks := (len(frontier) + chunk - 1) / chunk
		chunkRes := make([]*vfC19Res, nchunks)
		vkit.ParallelFor(nchunks, func(ci int) {
			cr := vfC19NewRes()
			chunkRes[ci] = cr
			var fails []vfC19Fail
			var sn vfC19Snap
			hi := (ci + 1) * chunk
			if hi > len(frontier) {
				hi = len(frontier)
			}
			for ni := ci * chunk; ni < hi; ni++ {
				nd := &frontier[ni]
				// reach the state by replay on a fresh detector + selector + rebalancer
				s := vfC19NewSys(cfg)
				for _, a := range nd.path {
					s.step(a, nil)
				}
				cr.traces++
				if got := keyOf(s, nd.path, 0); len(nd.path) > 0 && got != nd.key {
					cr.harnessErr = fmt.Sprintf("%s: replay of %v reached state %x, discovery recorded %x", cfg, nd.path, got, nd.key)
					return
				}
				s.snapshot(&sn)
				for a := byte(0); a < 9; a++ {
					if uniform && len(nd.path) > 0 && a%3 != nd.path[0]%3 {
						continue
					}
					s.restore(&sn)
					fails = fails[:0]
					so := s.step(a, &fails)
					cr.count(cfg.vfC19Cfg, so.branch, so.base, so.out, sn.mon)
					cr.workloads[so.wt]++
					for _, f := range fails {
						cr.failCount++
						if _, ok := cr.fails[f.key]; !ok {
							path := append(append([]byte(nil), nd.path...), a)
							cr.fails[f.key] = &vfC19FailRec{key: f.key, pathLen: len(path), cfgIdx: cfgIdx, detail: map[string]any{
								"driver": driver, "config": cfg.String(), "why": f.why, "actions": vfC19ActionsJSON(path),
								"detected_workload":      so.wt.String(),
								"state_before_last_call": map[string]any{"lastMode": string(so.pre.lastMode), "lastDecisionTime": vfC19Rel(so.pre.lastTime), "now": vfC19Rel(s.clk.t)},
								"strategy_answer":        vfC19DecisionJSON(so.base), "returned": vfC19DecisionJSON(so.out)}}
						}
					}
					outs[ni].succ[a] = keyOf(s, nd.path, a)
				}
			}
		})
		for _, cr := range chunkRes { // chunk order = frontier order: deterministic
			if cr.harnessErr != "" && res.harnessErr == "" {
				res.harnessErr = cr.harnessErr
			}
			res.merge(cr)
			for k, f := range cr.fails {
				if old, ok := res.fails[k]; !ok || f.pathLen < old.pathLen {
					res.fails[k] = f
				}
			}
		}
		if res.harnessErr != "" {
			return res
		}
		var next []vfC19BNode
		for ni := range frontier {
			for a := 0; a < 9; a++ {
				k := outs[ni].succ[a]
				if k == "" {
					continue
				}
				if _, ok := seen[k]; ok {
					continue
				}
				seen[k] = struct{}{}
				next = append(next, vfC19BNode{k, append(append(make([]byte, 0, len(frontier[ni].path)+1), frontier[ni].path...), byte(a))})
			}
		}
		frontier = next
		res.maxDepth = depth + 1
	}
	res.states = int64(len(seen))
	return res
}

// ---------------------------------------------------------------- shape guard

func vfC19Fields(v any) string {
	t := reflect.TypeOf(v)
	var n []string
	for i := 0; i < t.NumField(); i++ {
		n = append(n, t.Field(i).Name)
	}
	return strings.Join(n, ",")
}

func vfC19ShapeOK(r *vkit.Run) bool {
	ok := true
	for _, c := range []struct{ name, got, want string }{
		{"ConfigSelector", vfC19Fields(ConfigSelector{}), "constraints,strategy,mu,lastDecisionTime,lastMode,clock"},
		{"RuleBasedStrategy", vfC19Fields(RuleBasedStrategy{}), "clock"},
		{"WorkloadDetector", vfC19Fields(WorkloadDetector{}), "windowSize,minSampleSize,capacity,mu,events,head,size,closed,lastFlush,clock"},
	} {
		if c.got != c.want {
			ok = false
			r.Fail("harness/state-shape-changed/"+c.name, map[string]any{"fields": c.got, "canonical_state_written_for": c.want,
				"why": "the canonical state of the check no longer covers the complete private state"})
		}
	}
	return ok
}

// ---------------------------------------------------------------- the check

func vfC19Report(r *vkit.Run, all []*vfC19FailRec) {
	sort.SliceStable(all, func(i, j int) bool {
		if all[i].key != all[j].key {
			return all[i].key < all[j].key
		}
		if all[i].pathLen != all[j].pathLen {
			return all[i].pathLen < all[j].pathLen
		}
		return all[i].cfgIdx < all[j].cfgIdx
	})
	for _, f := range all { // shortest failing sequence of a key first: it becomes the replay artefact
		r.Fail(f.key, f.detail)
	}
}

func vfC19Publish(r *vkit.Run, prefix string, tot *vfC19Res) {
	r.States(tot.states)
	r.Transitions(tot.transitions)
	r.Traces(tot.traces)
	r.Cases(tot.transitions)
	r.Distinct(prefix, tot.transitions) // (constraints, canonical state, alphabet letter) are distinct by construction
	r.Set(prefix+"_states", tot.states)
	r.Set(prefix+"_transitions", tot.transitions)
	r.Set(prefix+"_fresh_replays", tot.traces)
	r.Set(prefix+"_bfs_depth_max", tot.maxDepth)
	r.Set(prefix+"_gate_low_confidence", tot.branch[vfC19LowConf])
	r.Set(prefix+"_gate_low_confidence_forced_none", tot.confForcedNone)
	r.Set(prefix+"_gate_not_allowed", tot.branch[vfC19NotAllowed])
	r.Set(prefix+"_gate_not_allowed_changed_answer", tot.allowedChanged)
	r.Set(prefix+"_gate_stability_suppressed_change", tot.branch[vfC19Held])
	r.Set(prefix+"_accepted", tot.branch[vfC19Accepted])
	r.Set(prefix+"_accepted_mode_changes", tot.modeChanges)
	r.Set(prefix+"_distinct_mode_confidence_decisions", len(tot.decisions))
	r.Set(prefix+"_held_decisions_with_nil_config", tot.heldNilConfig)
	r.Set(prefix+"_failing_transitions", tot.failCount)
	keys := make([]string, 0, len(tot.outcomes))
	for k := range tot.outcomes {
		keys = append(keys, k)
	}
	sort.Strings(keys)
	for _, k := range keys {
		r.Outcome(prefix + ":" + k)
	}
}

func TestVerif_C19(t *testing.T) {
	r := vkit.Start(t, "C19", "model_checking")
	defer r.Finish()
	r.Rule("selector-bfs: for every constraint setting (8 allowed-mode subsets x minConfidence {0,.5,.7,1} x P {0,30s}) BFS to fixpoint over the canonical " +
		"state (real lastMode, capped age of lastDecisionTime, monitor); one transition = one SelectConfig call on the real selector with one of 576 observations " +
		"(6 workload types x sample {0,5,10,50,100,1000} x delete ratio {0,.04,.3,.7} x burst x file size {1MB,600MB}) x clock step {0,P/2,P-1ns,P,2P}; " +
		"evaluate-bfs: level BFS over (in-window event multiset, selector, monitor); one transition = clock step {0,window/10,window} + RecordOperation{read,write,delete} + SmartRebalancer.Evaluate, " +
		"clock step free per operation to depth 8 (quick) / 10 (thorough) and fixed per sequence to depth 12; " +
		"every transition is checked against invariants (1)-(4) of the statement and a reference model of the gates; every (constraints,state,letter) is distinct by construction")
	r.Assume("RuleBasedStrategy.Select is a pure function of (features, workload type); used as the oracle's source of the ungated answer (a divergence would show as model-divergence)")
	r.Assume("clock is monotone (steps >= 0) and never returns the zero time")
	r.Assume("evaluate-bfs: detector capacity 16 > depth, ring-buffer eviction is not exercised; file size constant per run; minSampleSize 3, window 10s")
	if !vfC19ShapeOK(r) {
		return
	}
	var all []*vfC19FailRec
	harnessErr := ""

	// ---- driver A
	grid := vfC19Grid()
	classes := map[[2]int]int{}
	{
		st := &RuleBasedStrategy{}
		for _, o := range grid {
			d := st.Select(o.f, o.wt)
			classes[[2]int{int(vfC19ModeCode(d.Mode)), int(math.Round(d.Confidence * 100))}]++
		}
	}
	r.Set("selector_grid_observations", len(grid))
	r.Set("selector_grid_distinct_strategy_answers", len(classes))
	var cfgs []vfC19Cfg
	for mask := 0; mask < 8; mask++ {
		for _, mc := range []float64{0, 0.5, 0.7, 1} {
			for _, p := range []time.Duration{0, 30 * time.Second} {
				cfgs = append(cfgs, vfC19Cfg{mask, mc, p})
			}
		}
	}
	resA := make([]*vfC19Res, len(cfgs))
	vkit.ParallelFor(len(cfgs), func(i int) { resA[i] = vfC19SelectorCfg(i, cfgs[i], grid) })
	totA := vfC19NewRes()
	for _, x := range resA {
		totA.merge(x)
		if x.harnessErr != "" && harnessErr == "" {
			harnessErr = x.harnessErr
		}
		for _, f := range x.fails {
			all = append(all, f)
		}
	}
	r.Set("selector_constraint_settings", len(cfgs))
	vfC19Publish(r, "selector", totA)
	r.Sample(map[string]any{"driver": "selector-bfs", "constraints": cfgs[len(cfgs)-1].String(), "states": resA[len(cfgs)-1].states,
		"transitions": resA[len(cfgs)-1].transitions, "observation": grid[len(grid)-1].json(15 * time.Second)})

	// ---- driver B
	lazy, incr, none := 2, 4, 1
	P := 3 * vfC19Unit
	big, small := uint64(600<<20), uint64(1<<20)
	runB := func(prefix string, bcfgs []vfC19BCfg, depth, maxStates int, uniform bool) (*vfC19Res, []string) {
		tot := vfC19NewRes()
		for i, c := range bcfgs {
			x := vfC19EvaluateCfg(r, i, c, depth, maxStates, uniform)
			tot.merge(x)
			if x.harnessErr != "" && harnessErr == "" {
				harnessErr = x.harnessErr
			}
			if x.capped != "" {
				r.Cap(x.capped + " [" + c.String() + "]")
			}
			for _, f := range x.fails {
				all = append(all, f)
			}
			if i == 0 {
				r.Sample(map[string]any{"driver": prefix, "config": c.String(), "states": x.states, "transitions": x.transitions, "depth": x.maxDepth})
			}
		}
		r.Set(prefix+"_configs", len(bcfgs))
		r.Set(prefix+"_depth_bound", depth)
		vfC19Publish(r, prefix, tot)
		wl := []string{}
		for w := WorkloadUnknown; w <= WorkloadAppendOnly; w++ {
			if tot.workloads[w] > 0 {
				wl = append(wl, fmt.Sprintf("%s:%d", w, tot.workloads[w]))
			}
		}
		r.Set(prefix+"_workload_types_detected", wl)
		fmt.Printf("NOTE C19 %s: %d configs, depth<=%d, %d states, %d transitions; gates: low-confidence %d (forced none %d), not-allowed %d (changed answer %d), stability-held %d, accepted %d (mode changes %d); %d distinct (mode,confidence) decisions; workloads %v\n",
			prefix, len(bcfgs), tot.maxDepth, tot.states, tot.transitions, tot.branch[0], tot.confForcedNone, tot.branch[1], tot.allowedChanged, tot.branch[2], tot.branch[3], tot.modeChanges, len(tot.decisions), wl)
		return tot, wl
	}
	// free clock step per operation (9 letters): depth 8 quick / 10 thorough (the state count
	// grows ~4.6x per level: ~0.3M states per config at depth 8, ~6M at depth 10, ~130M at 12);
	// one clock step per sequence (all 3^k operation sequences x 3 gaps): depth 12 in both tiers.
	var free, uni []vfC19BCfg
	freeDepth, uniDepth, maxStates := 8, 12, 3_000_000
	if r.Thorough() {
		freeDepth, uniDepth, maxStates = 10, 12, 40_000_000
		for mask := 0; mask < 8; mask++ {
			for _, mc := range []float64{0, 0.4} {
				free = append(free, vfC19BCfg{vfC19Cfg{mask, mc, P}, big})
			}
		}
		free = append(free, vfC19BCfg{vfC19Cfg{0, 0, 0}, big}, vfC19BCfg{vfC19Cfg{0, 0, P}, small}, vfC19BCfg{vfC19Cfg{none, 0, P}, small})
		for mask := 0; mask < 8; mask++ {
			for _, mc := range []float64{0, 0.4, 0.5, 0.7} {
				for _, p := range []time.Duration{0, P} {
					uni = append(uni, vfC19BCfg{vfC19Cfg{mask, mc, p}, big})
				}
			}
		}
		uni = append(uni, vfC19BCfg{vfC19Cfg{0, 0, P}, small}, vfC19BCfg{vfC19Cfg{0, 0.5, P}, small})
	} else {
		free = []vfC19BCfg{
			{vfC19Cfg{0, 0, P}, big},
			{vfC19Cfg{0, 0.4, P}, big},
			{vfC19Cfg{lazy, 0, P}, big},
			{vfC19Cfg{incr, 0, P}, big},
			{vfC19Cfg{none | lazy, 0.4, P}, big},
			{vfC19Cfg{none | incr, 0, 0}, big},
			{vfC19Cfg{0, 0, P}, small},
			{vfC19Cfg{none, 0, P}, small},
		}
		uni = []vfC19BCfg{
			{vfC19Cfg{0, 0, P}, big},
			{vfC19Cfg{0, 0.5, P}, big},
			{vfC19Cfg{lazy, 0.4, P}, big},
			{vfC19Cfg{none | incr, 0.5, P}, big},
		}
	}
	runB("evaluate", free, freeDepth, maxStates, false)
	runB("evaluate_uniform", uni, uniDepth, maxStates, true)

	if harnessErr != "" {
		r.Fail("harness/replay-mismatch", map[string]any{"what": harnessErr,
			"why": "a state reached by struct copy / snapshot differs from the state reached by replay on fresh objects: the canonical state is incomplete"})
	}
	vfC19Report(r, all)
	fmt.Printf("NOTE C19 selector-bfs: %d settings, %d states, %d transitions, depth<=%d; gates: low-confidence %d (forced none %d), not-allowed %d (changed answer %d), stability-held %d, accepted %d (mode changes %d); %d distinct (mode,confidence) decisions; %d distinct strategy answers on the grid\n",
		len(cfgs), totA.states, totA.transitions, totA.maxDepth, totA.branch[0], totA.confForcedNone, totA.branch[1], totA.allowedChanged, totA.branch[2], totA.branch[3], totA.modeChanges, len(totA.decisions), len(classes))
}
