//go:build verif

package rebalancing

// C18 (c): SmartRebalancer (goroutine + ticker + context + RWMutex + WaitGroup), the
// WorkloadDetector and the MetricsCollector under the controlled scheduler. The sources of
// this package are rewritten at check time (tools/instrument).

import (
	"context"
	"encoding/json"
	"fmt"
	"strings"
	"testing"
	"time"

	"github.com/scigolib/hdf5/internal/structures"
	"github.com/scigolib/hdf5/internal/verif/vctx"
	"github.com/scigolib/hdf5/internal/verif/vkit"
	"github.com/scigolib/hdf5/internal/verif/vsched"
	"github.com/scigolib/hdf5/internal/verif/vsync"
	"github.com/scigolib/hdf5/internal/verif/vtime"
)

// counted over all executions of this process (single-threaded driver)
var vfC18ExecsWithModeChange, vfC18ExecsWithBackgroundStart int64

const (
	vfC18OpSTART = iota
	vfC18OpREC
	vfC18OpEVAL
	vfC18OpSTATS
	vfC18OpMETRICS
	vfC18OpSTOP
	vfC18OpCANCEL
	vfC18NOps
)

var vfC18OpNames = [...]string{"Start", "Record", "Evaluate", "GetStats", "GetMetrics", "Stop", "CancelParent"}

type vfC18Spec struct {
	Script []int `json:"script"`
	// Script2, if present, runs in a second foreground thread concurrently with Script (the
	// API documents every public method as safe for concurrent use); the main thread joins
	// both and then calls Stop twice.
	Script2 []int `json:"script2,omitempty"`
	Ticks   int   `json:"ticks"`
	Bound   int   `json:"bound"`
	// Workload "" = three deletes recorded beforehand (the selector then asks for lazy mode);
	// "mixed" = two writes and two reads on a 1 GiB index (the selector asks for incremental
	// mode, so an evaluation by the monitoring loop starts background rebalancing).
	Workload string `json:"workload,omitempty"`
}

func vfC18Names(script []int) string {
	n := make([]string, len(script))
	for i, o := range script {
		n[i] = vfC18OpNames[o]
	}
	return strings.Join(n, ",")
}

func (s vfC18Spec) id() string {
	w := ""
	if s.Workload != "" {
		w = "[" + s.Workload + "]"
	}
	if s.Script2 != nil {
		return "smart2" + w + "/" + vfC18Names(s.Script) + "||" + vfC18Names(s.Script2)
	}
	return "smart" + w + "/" + vfC18Names(s.Script)
}

// vfC18Clock is the injected Clock: the scheduler's virtual time (advances only with ticks).
type vfC18Clock struct{}

func (vfC18Clock) Now() time.Time { return vtime.Now() }

// vfC18BTree is a fake of the BTreeV2 interface that records whether background rebalancing
// is running. Its methods are //go:norace: the fake stands for an index with its own locking,
// so its bookkeeping must neither be reported by the detector nor add happens-before edges
// (atomics would) that could hide a race in the code under test.
type vfC18BTree struct {
	bgRunning         bool
	bgStarts, bgStops int
}

func (*vfC18BTree) EnableLazyRebalancing(structures.LazyRebalancingConfig) error { return nil }
func (*vfC18BTree) EnableIncrementalRebalancing(structures.IncrementalRebalancingConfig) error {
	return nil
}
func (*vfC18BTree) DisableRebalancing() error { return nil }

//go:norace
func (b *vfC18BTree) StartBackgroundRebalancing(context.Context) error {
	b.bgRunning = true
	b.bgStarts++
	return nil
}

//go:norace
func (b *vfC18BTree) StopBackgroundRebalancing() error {
	b.bgRunning = false
	b.bgStops++
	return nil
}

//go:norace
func (b *vfC18BTree) state() (bool, int, int) { return b.bgRunning, b.bgStarts, b.bgStops }

func (*vfC18BTree) GetFileSize() uint64 { return 1 << 30 }

type vfC18Inst struct {
	sr        *SmartRebalancer
	bt        *vfC18BTree
	ext       context.Context
	extCancel context.CancelFunc
	results   []string
	results2  []string
	notes     []string
	evals     [3]int // per foreground thread (no shared harness state between the threads)
	recs      [3]int
	final     RebalancerStats
	snap      MetricsSnapshot
}

// vfC18PreOps are the operations recorded before the script starts.
func vfC18PreOps(workload string) []OperationType {
	if workload == "mixed" || workload == "mixed-stable" {
		return []OperationType{OpWrite, OpRead, OpWrite, OpRead}
	}
	return []OperationType{OpDelete, OpDelete, OpDelete}
}

func vfC18Model(spec vfC18Spec) (expect []string) {
	started, ctxSet, ctxCancelled, extCancelled := false, false, false, false
	for _, o := range spec.Script {
		res := "ok"
		switch o {
		case vfC18OpSTART:
			if started {
				res = "err"
			} else {
				started, ctxSet, ctxCancelled = true, true, extCancelled
			}
		case vfC18OpSTOP:
			if started {
				started, ctxCancelled = false, true
			}
		case vfC18OpCANCEL:
			extCancelled = true
			if ctxSet {
				ctxCancelled = true
			}
		case vfC18OpREC:
			if ctxSet && ctxCancelled {
				res = "err"
			}
		}
		expect = append(expect, res)
	}
	return expect
}

// vfC18Model2 returns every joint result "resA|resB" that some sequential interleaving of
// the two scripts produces (call-level linearizability).
func vfC18Model2(a, b []int) map[string]bool {
	out := map[string]bool{}
	var rec func(i, j int, merged []int, who []int)
	rec = func(i, j int, merged []int, who []int) {
		if i == len(a) && j == len(b) {
			res := vfC18Model(vfC18Spec{Script: merged})
			var ra, rb []string
			for k, w := range who {
				if w == 0 {
					ra = append(ra, res[k])
				} else {
					rb = append(rb, res[k])
				}
			}
			out[strings.Join(ra, ",")+"|"+strings.Join(rb, ",")] = true
			return
		}
		if i < len(a) {
			rec(i+1, j, append(append([]int{}, merged...), a[i]), append(append([]int{}, who...), 0))
		}
		if j < len(b) {
			rec(i, j+1, append(append([]int{}, merged...), b[j]), append(append([]int{}, who...), 1))
		}
	}
	rec(0, 0, nil, nil)
	return out
}

func vfC18Case(spec vfC18Spec, cur **vfC18Inst) vsched.Case {
	expect := vfC18Model(spec)
	var expect2 map[string]bool
	group := "smart"
	if spec.Script2 != nil {
		expect2 = vfC18Model2(spec.Script, spec.Script2)
		group = "smart2"
	}
	setup := func() func() {
		in := &vfC18Inst{}
		*cur = in
		clock := vfC18Clock{}
		det := NewWorkloadDetector(WithClock(clock), WithMinSampleSize(2), WithWindowSize(time.Minute), WithCapacity(16))
		in.bt = &vfC18BTree{}
		// the selector applies decisions of any confidence at any time: with the default
		// constraints (confidence >= 0.7, i.e. >= 100 recorded operations, and a 30 s stability
		// period) no script of this size would ever make the monitoring loop change the mode
		stability := time.Duration(0)
		if spec.Workload == "mixed-stable" {
			// same workload, but decisions are held for 30 s of (virtual) time: after the first
			// accepted decision every differing one takes the selector's stability branch
			stability = 30 * time.Second
		}
		sel := NewConfigSelector(WithSelectorClock(clock), WithSafetyConstraints(SafetyConstraints{
			MaxCPUPercent: 50, MaxMemoryMB: 100, MinStabilityPeriod: stability, MinConfidence: 0.01}))
		in.sr = NewSmartRebalancer(in.bt, WithDetector(det), WithSelector(sel), WithRebalancerClock(clock), WithReevalInterval(5*time.Microsecond))
		for _, op := range vfC18PreOps(spec.Workload) {
			if err := in.sr.RecordOperation(op); err != nil {
				panic(err)
			}
		}
		return func() { vfC18Foreground(in, spec) }
	}
	after := func(o *vsched.Outcome) []vsched.Finding {
		in := *cur
		var fs []vsched.Finding
		for _, n := range in.notes {
			fs = append(fs, vsched.Finding{Key: n})
		}
		if o.Status != "done" || len(o.Panics) > 0 {
			return fs
		}
		if expect2 != nil {
			got := strings.Join(in.results, ",") + "|" + strings.Join(in.results2, ",")
			if !expect2[got] {
				fs = append(fs, vsched.Finding{Key: "result-differs-from-sequential/smart2:call-results", Detail: map[string]any{"got": got, "acceptable": fmt.Sprint(expect2)}})
			}
		} else if strings.Join(in.results, ",") != strings.Join(expect, ",") {
			fs = append(fs, vsched.Finding{Key: "result-differs-from-sequential/smart:call-results", Detail: map[string]any{"got": in.results, "want": expect}})
		}
		ticks := o.Ticks
		wantEvals := in.evals[0] + in.evals[1] + in.evals[2] + ticks
		recs := in.recs[0] + in.recs[1] + in.recs[2]
		if in.final.Started || in.final.TotalEvaluations != wantEvals || in.snap.TotalEvaluations != int64(wantEvals) ||
			in.snap.TotalOperations != int64(len(vfC18PreOps(spec.Workload))+recs) {
			fs = append(fs, vsched.Finding{Key: "result-differs-from-sequential/smart:counters", Detail: map[string]any{
				"started": in.final.Started, "stats_evaluations": in.final.TotalEvaluations, "metrics_evaluations": in.snap.TotalEvaluations,
				"want_evaluations": wantEvals, "metrics_operations": in.snap.TotalOperations, "want_operations": len(vfC18PreOps(spec.Workload)) + recs}})
		}
		// vacuity metrics: in how many executions did the monitoring loop change the mode /
		// start background rebalancing at all
		if in.final.ModeChanges > 0 {
			vfC18ExecsWithModeChange++
		}
		if _, starts, _ := in.bt.state(); starts > 0 {
			vfC18ExecsWithBackgroundStart++
		}
		// every start of background rebalancing is matched by a stop: after the final Stop
		// nothing may be left running (a surplus stop request on an index whose background work
		// is already stopped is not something the statement forbids)
		if running, starts, stops := in.bt.state(); running || stops < starts {
			fs = append(fs, vsched.Finding{Key: "background-rebalancing-outlives-stop@StartBackgroundRebalancing", Detail: map[string]any{
				"running_after_stop": running, "starts": starts, "stops": stops}})
		}
		return fs
	}
	return vsched.Case{Group: group, ID: spec.id(), Spec: spec,
		Cfg:   vsched.Config{Name: spec.id(), MaxTicks: spec.Ticks, Horizon: 400, MaxBound: spec.Bound},
		Setup: setup, After: after}
}

func vfC18Foreground(in *vfC18Inst, spec vfC18Spec) {
	// the parent context is created inside the exploration so that the scheduler knows it
	in.ext, in.extCancel = vctx.WithCancel(context.Background())
	sr := in.sr
	if spec.Script2 == nil {
		vfC18RunScript(in, 0, spec.Script, &in.results, true)
	} else {
		var wg vsync.WaitGroup
		wg.Add(2)
		vsched.Go("foregroundA", func() { defer wg.Done(); vfC18RunScript(in, 0, spec.Script, &in.results, false) })
		vsched.Go("foregroundB", func() { defer wg.Done(); vfC18RunScript(in, 1, spec.Script2, &in.results2, false) })
		wg.Wait()
		var tail []string
		vfC18RunScript(in, 2, []int{vfC18OpSTOP, vfC18OpSTOP}, &tail, true)
	}
	in.final = sr.GetStats()
	in.snap = sr.GetMetrics()
}

// vfC18RunScript executes one thread's calls. single: this thread is the only foreground
// thread (the liveness notes around Stop are only meaningful then).
func vfC18RunScript(in *vfC18Inst, who int, script []int, results *[]string, single bool) {
	sr := in.sr
	res := func(err error) {
		if err != nil {
			*results = append(*results, "err")
		} else {
			*results = append(*results, "ok")
		}
	}
	started, cancelled := false, false
	for _, o := range script {
		vsched.Yield(vfC18OpNames[o])
		switch o {
		case vfC18OpSTART:
			err := sr.Start(in.ext)
			if err == nil {
				started = true
			}
			res(err)
		case vfC18OpREC:
			in.recs[who]++
			res(sr.RecordOperation(OpDelete))
		case vfC18OpEVAL:
			in.evals[who]++
			_, err := sr.Evaluate()
			res(err)
		case vfC18OpSTATS:
			_ = sr.GetStats()
			res(nil)
		case vfC18OpMETRICS:
			_ = sr.GetMetrics()
			res(nil)
		case vfC18OpCANCEL:
			in.extCancel()
			cancelled = true
			res(nil)
		case vfC18OpSTOP:
			if single && started && !cancelled && len(vsched.Live()) == 0 {
				in.notes = append(in.notes, "background-loop-died-before-stop@monitorLoop")
			}
			res(sr.Stop())
			started = false
			if single {
				for _, l := range vsched.Live() {
					in.notes = append(in.notes, "goroutine-outlives-stop@"+l)
				}
			}
		}
	}
}

func vfC18Mode() string {
	if vsched.RaceEnabled {
		return "race"
	}
	return "plain"
}

func vfC18Scripts(maxBody int) [][]int {
	var out [][]int
	var rec func(body []int)
	rec = func(body []int) {
		s := append(append([]int{}, body...), vfC18OpSTOP, vfC18OpSTOP)
		out = append(out, s)
		if len(body) == maxBody {
			return
		}
		for o := 0; o < vfC18NOps; o++ {
			rec(append(append([]int{}, body...), o))
		}
	}
	rec(nil)
	return out
}

func TestVerif_C18(t *testing.T) {
	var cur *vfC18Inst
	if rep := vsched.ReplayRequest(); rep != nil {
		if rep.Pkg != "rebalancing" {
			return
		}
		var spec vfC18Spec
		if err := json.Unmarshal(rep.Spec, &spec); err != nil {
			t.Fatal(err)
		}
		vsched.ServeReplay(rep, vfC18Case(spec, &cur))
		return
	}
	r := vkit.Start(t, "C18", "model_checking")
	defer r.Finish()
	if !vsched.Instrumented("rebalancing") {
		t.Fatalf("C18 needs the instrumented build (VERIF_SCHED=1): package rebalancing was compiled from the unrewritten sources")
	}
	d := vsched.NewDriver(r, "rebalancing")
	defer d.Finish()
	r.Rule("smart rebalancer: every foreground script body + Stop,Stop with every body of <= N calls over {Start, Record, Evaluate, GetStats, GetMetrics, Stop, " +
		"CancelParent} (fake BTreeV2, virtual clock, 3 operations recorded beforehand), each explored under every schedule of the foreground thread and monitorLoop " +
		"with <= B preemptions and <= T environment ticks")
	if vp := vkit.ReplayPath(); vp != "" {
		var det struct {
			Replay vsched.Replay `json:"replay"`
		}
		if _, err := vkit.LoadReplay(vp, &det); err == nil && det.Replay.Pkg == "rebalancing" {
			keys, out := vsched.ReplayInFreshProcess(det.Replay)
			fmt.Printf("NOTE replay of %s in a fresh process: keys=%q\n", det.Replay.Case, keys)
			for _, k := range keys {
				r.Fail(k, map[string]any{"replay": det.Replay, "output": out})
			}
		}
		return
	}
	// two concurrent foreground threads (every public method is documented as safe for concurrent use)
	smart2 := func(all bool) {
		ops := []int{vfC18OpSTART, vfC18OpSTOP, vfC18OpREC, vfC18OpEVAL, vfC18OpSTATS}
		var scripts [][]int
		for _, a := range ops {
			scripts = append(scripts, []int{a})
			for _, b := range ops {
				scripts = append(scripts, []int{a, b})
			}
		}
		for i, a := range scripts {
			for _, b := range scripts[i:] {
				// quick set: all pairs of single calls, and the three-call pairs that contain
				// both a Start and a Stop (lifecycle transitions racing with each other)
				n, starts, stops := len(a)+len(b), 0, 0
				for _, o := range append(append([]int{}, a...), b...) {
					if o == vfC18OpSTART {
						starts++
					}
					if o == vfC18OpSTOP {
						stops++
					}
				}
				quickSet := !(n > 3 || (n == 3 && (starts == 0 || stops == 0 || starts+stops < 3)))
				if quickSet == all {
					continue // all=false: the quick set; all=true: the rest
				}
				if r.Expired() {
					r.Cap("time budget: not all two-thread cases explored")
					return
				}
				d.Run(vfC18Case(vfC18Spec{Script: a, Script2: b, Ticks: 1, Bound: 2}, &cur))
			}
		}
	}
	type pass struct{ body, ticks, bound int }
	passes := []pass{{3, 2, 2}}
	if r.Thorough() {
		passes = []pass{{3, 2, 2}, {3, 3, 3}, {4, 2, 2}}
	}
	maxBody := 0
	for pi, ps := range passes {
		for _, s := range vfC18Scripts(ps.body) {
			if r.Expired() {
				r.Cap(fmt.Sprintf("time budget: pass %d (body<=%d ticks<=%d bound<=%d) not completed", pi, ps.body, ps.ticks, ps.bound))
				goto done
			}
			if pi == 2 && len(s) < 4+2 {
				continue // shorter scripts were explored by the earlier passes
			}
			d.Run(vfC18Case(vfC18Spec{Script: s, Ticks: ps.ticks, Bound: ps.bound}, &cur))
		}
		if ps.body > maxBody {
			maxBody = ps.body
		}
		r.Set("smart_passes_completed_"+vfC18Mode(), pi+1)
		if pi == 0 {
			smart2(false)
			// mixed workload on a large index: an evaluation by the monitoring loop asks for
			// incremental mode and starts background rebalancing; every body of <= 2 calls and
			// every body of 3 calls that begins with Start
			for _, s := range vfC18Scripts(3) {
				if len(s) == 3+2 && s[0] != vfC18OpSTART {
					continue
				}
				if r.Expired() {
					r.Cap("time budget: mixed-workload scripts not completed")
					goto done
				}
				d.Run(vfC18Case(vfC18Spec{Script: s, Ticks: ps.ticks, Bound: ps.bound, Workload: "mixed"}, &cur))
				if len(s) == 3+2 && s[0] == vfC18OpSTART {
					d.Run(vfC18Case(vfC18Spec{Script: s, Ticks: ps.ticks, Bound: ps.bound, Workload: "mixed-stable"}, &cur))
				}
			}
		}
	}
	if r.Thorough() {
		smart2(true)
	}
done:
	r.Set("smart_executions_with_mode_change_"+vfC18Mode(), vfC18ExecsWithModeChange)
	r.Set("smart_executions_with_background_start_"+vfC18Mode(), vfC18ExecsWithBackgroundStart)
	if vfC18ExecsWithModeChange == 0 || vfC18ExecsWithBackgroundStart == 0 {
		r.Cap("vacuous: no explored execution changed the rebalancing mode / started background rebalancing")
	}
	r.Set("smart_script_body_max", fmt.Sprint(maxBody))
	r.Sample(map[string]any{"case": vfC18Spec{Script: []int{vfC18OpSTART, vfC18OpREC, vfC18OpCANCEL, vfC18OpSTOP, vfC18OpSTOP}}.id()})
}
