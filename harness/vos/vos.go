//go:build verif

// Package vos stands in for package os in file.go and internal/writer/writer.go when the
// harness is built with VERIF_VOS=1 (the overlay generator redirects the import path, nothing
// else in those files changes). File wraps a real *os.File and consults a per-file-name fault
// plan before every ReadAt / WriteAt / Sync, so that the public read and write API run over an
// I/O layer whose k-th call can be made to fail or to return short.
package vos

import (
	"errors"
	"io"
	iofs "io/fs"
	"os"
	"sync"
)

// Re-exports used (or plausibly used) by the redirected files.
const (
	O_RDONLY = os.O_RDONLY
	O_WRONLY = os.O_WRONLY
	O_RDWR   = os.O_RDWR
	O_APPEND = os.O_APPEND
	O_CREATE = os.O_CREATE
	O_EXCL   = os.O_EXCL
	O_SYNC   = os.O_SYNC
	O_TRUNC  = os.O_TRUNC
)

type (
	FileMode = iofs.FileMode
	FileInfo = iofs.FileInfo
)

var (
	ErrNotExist = os.ErrNotExist
	ErrExist    = os.ErrExist
	ErrInvalid  = os.ErrInvalid
	ErrClosed   = os.ErrClosed
	IsNotExist  = os.IsNotExist
	IsExist     = os.IsExist
	Remove      = os.Remove
	Rename      = os.Rename
	Stat        = os.Stat
	ReadFile    = os.ReadFile
	WriteFile   = os.WriteFile
	MkdirAll    = os.MkdirAll
)

// ErrInjected is the error returned by a faulted call.
var ErrInjected = errors.New("vos: injected I/O error")

// Plan describes the fault to inject into the calls made on files opened under one name.
// Calls are counted from 1 over ReadAt, WriteAt and Sync of all handles with that name.
type Plan struct {
	mu sync.Mutex
	// FailAt: the call (1-based) that fails; 0 = never. Kind filters which calls are counted:
	// "read", "write", "sync", or "" for all.
	FailAt int
	Kind   string
	// Short: instead of failing outright, a read returns half of the bytes plus io.EOF and a
	// write writes half of the bytes and returns ErrInjected (as io.WriterAt requires).
	Short bool
	// Sticky: every counted call from FailAt on fails (a device that stays broken).
	Sticky bool

	Calls   int    // counted calls so far
	Fired   int    // number of injected faults
	FiredIn int    // value of Tag when the first fault fired
	FiredOp string // "read" / "write" / "sync"
	Tag     int    // set by the harness (e.g. index of the API call in progress)
	Log     []string
	// Trace: record the byte range of every read (ReadAt and Read) in Reads.
	Trace bool
	Reads [][2]int64 // [offset, offset+n)
}

func (p *Plan) traceRead(off int64, n int) {
	if p == nil || !p.Trace || n <= 0 {
		return
	}
	p.mu.Lock()
	p.Reads = append(p.Reads, [2]int64{off, off + int64(n)})
	p.mu.Unlock()
}

var (
	plansMu sync.Mutex
	plans   = map[string]*Plan{}
)

// SetPlan installs (or with nil removes) the plan for a file name.
func SetPlan(name string, p *Plan) {
	plansMu.Lock()
	defer plansMu.Unlock()
	if p == nil {
		delete(plans, name)
	} else {
		plans[name] = p
	}
}

func planFor(name string) *Plan {
	plansMu.Lock()
	defer plansMu.Unlock()
	return plans[name]
}

// SetTag sets the harness tag on a plan (nil-safe).
func (p *Plan) SetTag(t int) {
	if p == nil {
		return
	}
	p.mu.Lock()
	p.Tag = t
	p.mu.Unlock()
}

// Counts returns (calls, fired, firedIn, firedOp).
func (p *Plan) Counts() (int, int, int, string) {
	p.mu.Lock()
	defer p.mu.Unlock()
	return p.Calls, p.Fired, p.FiredIn, p.FiredOp
}

// hit decides whether the current call is faulted.
func (p *Plan) hit(op string) bool {
	if p == nil {
		return false
	}
	p.mu.Lock()
	defer p.mu.Unlock()
	if p.Kind != "" && p.Kind != op {
		return false
	}
	p.Calls++
	if p.FailAt == 0 {
		return false
	}
	if p.Calls == p.FailAt || (p.Sticky && p.Calls > p.FailAt) {
		if p.Fired == 0 {
			p.FiredIn, p.FiredOp = p.Tag, op
		}
		p.Fired++
		return true
	}
	return false
}

// File wraps *os.File.
type File struct {
	f    *os.File
	plan *Plan
}

func wrap(f *os.File, err error, name string) (*File, error) {
	if err != nil {
		return nil, err
	}
	return &File{f: f, plan: planFor(name)}, nil
}

func Open(name string) (*File, error) { f, err := os.Open(name); return wrap(f, err, name) }
func Create(name string) (*File, error) {
	f, err := os.Create(name)
	return wrap(f, err, name)
}
func OpenFile(name string, flag int, perm FileMode) (*File, error) {
	f, err := os.OpenFile(name, flag, perm)
	return wrap(f, err, name)
}

func (f *File) ReadAt(b []byte, off int64) (int, error) {
	if f == nil {
		return 0, os.ErrInvalid
	}
	if f.plan.hit("read") {
		if f.plan.Short && len(b) > 1 {
			n, _ := f.f.ReadAt(b[:len(b)/2], off)
			return n, io.EOF
		}
		return 0, ErrInjected
	}
	n, err := f.f.ReadAt(b, off)
	f.plan.traceRead(off, n)
	return n, err
}

func (f *File) WriteAt(b []byte, off int64) (int, error) {
	if f == nil {
		return 0, os.ErrInvalid
	}
	if f.plan.hit("write") {
		if f.plan.Short && len(b) > 1 {
			n, _ := f.f.WriteAt(b[:len(b)/2], off)
			return n, ErrInjected
		}
		return 0, ErrInjected
	}
	return f.f.WriteAt(b, off)
}

func (f *File) Sync() error {
	if f == nil {
		return os.ErrInvalid
	}
	if f.plan.hit("sync") {
		return ErrInjected
	}
	return f.f.Sync()
}

func (f *File) Close() error {
	if f == nil {
		return os.ErrInvalid
	}
	return f.f.Close()
}

func (f *File) Stat() (FileInfo, error) {
	if f == nil {
		return nil, os.ErrInvalid
	}
	return f.f.Stat()
}

func (f *File) Seek(offset int64, whence int) (int64, error) {
	if f == nil {
		return 0, os.ErrInvalid
	}
	return f.f.Seek(offset, whence)
}

func (f *File) Name() string {
	if f == nil {
		return ""
	}
	return f.f.Name()
}

func (f *File) Truncate(size int64) error {
	if f == nil {
		return os.ErrInvalid
	}
	return f.f.Truncate(size)
}

func (f *File) Read(b []byte) (int, error) {
	if f == nil {
		return 0, os.ErrInvalid
	}
	pos, _ := f.f.Seek(0, io.SeekCurrent)
	n, err := f.f.Read(b)
	f.plan.traceRead(pos, n)
	return n, err
}

func (f *File) Write(b []byte) (int, error) {
	if f == nil {
		return 0, os.ErrInvalid
	}
	return f.f.Write(b)
}

// Real returns the wrapped file (harness use).
func (f *File) Real() *os.File { return f.f }
