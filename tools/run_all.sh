#!/usr/bin/env bash
# tools/run_all.sh [quick|thorough] [IDs...] : runs the checks one after another and prints one
# line per check (exit code, wall seconds, SUMMARY). Uses $VERIF_DIR (default: this checkout).
cd "$(dirname "$0")/.."
export VERIF_DIR="${VERIF_DIR:-$PWD}"
tier="${1:-quick}"; shift || true
ids="$*"; [ -z "$ids" ] && ids=$(python3 -c "import json;print(' '.join(c['property_id'] for c in json.load(open('MANIFEST.json'))['checks']))")
for id in $ids; do
  t0=$(date +%s)
  out=$(./check $id $tier 2>&1); rc=$?
  t1=$(date +%s)
  echo "$id rc=$rc wall=$((t1-t0))s $(echo "$out" | grep -E '^SUMMARY' | tail -1 | sed 's/^SUMMARY //')"
  echo "$out" | grep -E '^VIOLATION|^check:' | head -5
done
