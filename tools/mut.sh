#!/usr/bin/env bash
# tools/mut.sh <repo-relative-file> '<sed expression>' <check id> [tier]
# Applies a one-line mutation to a copy of the file and runs the check with the copy overlaid
# (the repository is not touched). Prints VIOLATION/SUMMARY lines.
f="$1"; expr="$2"; id="$3"; tier="${4:-quick}"
tmp=/dev/shm/mut.$$.go
cp "/repo/$f" "$tmp"; sed -i "$expr" "$tmp"
if diff -q "/repo/$f" "$tmp" >/dev/null; then echo "MUTATION DID NOT APPLY"; rm -f "$tmp"; exit 3; fi
echo "{\"Replace\":{\"/repo/$f\":\"$tmp\"}}" > /dev/shm/mut.$$.json
VERIF_EXTRA_OVERLAY=/dev/shm/mut.$$.json /verif/check "$id" "$tier" 2>&1 | grep -E 'VIOLATION|SUMMARY|BUILD|check:' | cut -c1-200 | head -${MUT_LINES:-5}
rc=${PIPESTATUS[0]}
rm -f "$tmp" /dev/shm/mut.$$.json
exit $rc
