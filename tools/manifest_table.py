# Table consumed by tools/manifest.py
NOT_APPLICABLE = {}
ENGINES = [
 {"name": "E4-grid", "path": "/verif/harness (in-package tests injected by overlay)", "serves_properties": ["C20"],
  "kind_free_text": "exhaustive enumeration of finite input/configuration grids against a reference written in Go"},
]
add("C20", "exploration", "exhaustive enumeration of the finite input domain against an exact nearest-even reference",
    "Quick: all codes of the three formats and 16 x 2^20 float32 patterns per format covering every sign/exponent/upper mantissa and both sides of every tie; thorough: all 2^32 float32 bit patterns per format. Every pattern is compared with an exact reference (nearest representable value defined by the library's own decoder, ties to even) and monotonicity is checked along the bit order. The thorough tier decides the property outright because the domain is finite.",
    "Trusted: the library's decoder defines the representable set (its code->value map is itself checked for code round trip); float64 arithmetic is exact for all values and midpoints involved.",
    "DESIGN.md §5 C20", "E4-grid")
