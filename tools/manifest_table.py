# Table consumed by tools/manifest.py
NOT_APPLICABLE = {}
ENGINES = [
 {"name": "E1-sequences", "path": "/verif/harness/root/kit_explore_test.go", "serves_properties": ["C02", "C03", "C04", "C10", "C13", "C16", "C19"],
  "kind_free_text": "stateless depth-bounded exhaustive exploration of operation sequences on the real FileWriter (successor = replay on a fresh file), reference model / differential oracle after every sequence"},
 {"name": "E4-grid", "path": "/verif/harness (in-package tests injected by overlay)", "serves_properties": ["C20"],
  "kind_free_text": "exhaustive enumeration of finite input/configuration grids against a reference written in Go"},
]
add("C20", "exploration", "exhaustive enumeration of the finite input domain against an exact nearest-even reference",
    "Quick: all codes of the three formats and 16 x 2^20 float32 patterns per format covering every sign/exponent/upper mantissa and both sides of every tie; thorough: all 2^32 float32 bit patterns per format. Every pattern is compared with an exact reference (nearest representable value defined by the library's own decoder, ties to even) and monotonicity is checked along the bit order. The thorough tier decides the property outright because the domain is finite.",
    "Trusted: the library's decoder defines the representable set (its code->value map is itself checked for code round trip); float64 arithmetic is exact for all values and midpoints involved.",
    "DESIGN.md §5 C20", "E4-grid")

add("C02", "model_checking", "exhaustive enumeration of write/delete attribute sequences up to a depth from threshold-adjacent start states, compared with a map model",
    "Every sequence of length <= 3 over write(name,value)/delete(name) with colliding-hash names and mixed value sizes is executed on the real writer from 6 start states (0,6,7,8,9 filler attributes, dense emptied to 1) on a dataset and a group, superblock 2/3/0; after each sequence the reopened attribute set (names, datatype class/size/sign, shape, raw bytes, decoded value) must equal the map model. Bounded model checking of the implementation itself: no abstract model, every trace is an execution.",
    "Trusted: the harness' expected little-endian encodings of Go values; the read API used for observation (core.Attribute fields). Bound: depth 3 (not hundreds of operations), names/values from the listed alphabet.",
    "DESIGN.md §5 C02", "E1-sequences")
add("C03", "model_checking", "exhaustive enumeration of creation/link sequences up to a depth against a tree model",
    "Every sequence of length <= 3 (thorough 4) over 22 creation operations (groups, datasets, hard links incl. to ancestors and missing targets, soft/external links, dense group) from 3 start states per superblock version; Walk of the reopened file is compared with the model tree (paths, kinds, hard links share the target's object, no name twice, must-reject calls rejected). Only problems introduced by the last operation are reported, so each finding is tied to the call that causes it.",
    "Trusted: the model's reading of the statement (trailing slash names the same object; below a cyclic hard link nothing is demanded). Bound: depth 3/4, 5 path names.",
    "DESIGN.md §5 C03", "E1-sequences")
add("C04", "model_checking", "exhaustive enumeration of enabled operation interleavings over 2-4 live objects with a before/after differential oracle",
    "Every enabled sequence up to depth 5 (thorough 7) of {create X,Y,G,G/s; write X,Y; attributes on X,Y,G; delete attribute; hard links; resize} in 4 configurations (superblock 0/2/3, contiguous or chunked X) from 3 start states (empty, X one attribute short of dense storage, X dense); after each operation the dump of every object not aimed at must equal its dump before, and the file must open. Purely differential: no expected values.",
    "Trusted: the read API as observer. Bound: depth 5/7, one size per object.",
    "DESIGN.md §5 C04", "E1-sequences")
ENGINES.append({"name": "E4-grid-files", "path": "/verif/harness/root/c01_test.go", "serves_properties": ["C01", "C09", "C12"],
  "kind_free_text": "exhaustive enumeration of explicit configuration grids; every grid point is one create/write/close/reopen/read execution of the real library"})
add("C01", "exploration", "exhaustive enumeration of a type x superblock x layout x shape x chunk-shape x data-pattern grid with the written slice as reference",
    "Grid A: 18 element types x superblock {0,2,3} x 15 layouts (contiguous, single chunk, many chunks with partial edges, filtered) x 3 data patterns (index-coded, extremes incl. NaN payloads, >2^31, 2^53+1; alternating bytes) x 2 paths; grid B: {int32,float64,uint16} x every shape of rank<=3 (thorough 4) with extents from {1,2,3,5,7} x every chunk shape from {1,2,3,full} per dimension x 3 superblock versions; grid C: two compound types. After close and reopen: path, shape, element class/size/sign, and every typed read must equal the written values bit-exactly; a typed read that exists for the type in the simplest configuration must not fail in any other.",
    "Trusted: harness-side generation of expected float64 widening (same Go conversion). 'Typed read exists' is defined differentially from the simplest configuration of the same type.",
    "DESIGN.md §5 C01", "E4-grid-files")
add("C13", "model_checking", "exhaustive enumeration of resize/write sequences up to a depth against an N-d array model",
    "Per scenario (rank 1-2, thorough also 3; chunk shapes; fixed/unlimited/mixed maximum): every sequence up to depth 4 (rank 1) / 3 (rank 2) — thorough one deeper — over {Resize(d) for every d in a box that includes shapes beyond a fixed maximum, Write(pattern 1|2)} on the real DatasetWriter; after each sequence the reopened shape and Read are compared with a dense N-d array model (resize keeps the intersection and zero-fills, write replaces), accepted/rejected resize calls are compared with the declared maximum, and a neighbour dataset must be unchanged.",
    "Trusted: the model of the statement. Bound: depth 3-5, extents <= 5, the API's only write (full extent).",
    "DESIGN.md §5 C13", "E1-sequences")
add("C09", "exploration", "exhaustive enumeration of hyperslab selections per small dataset, differential against the full read",
    "For 25 library-written datasets (rank 1-4, contiguous / chunked with partial edge chunks / shrunk by Resize, 6 element types): every (start,count,stride,block) per dimension with start in [0,d], count in [1,d+1], stride in {1,2,3,d}, block in {1,2} (reduced at rank>=3) — all valid selections and all that leave the bounds by one; plus a boundary grid of valid selections on every dataset of the bundled reference corpus that Read() supports and that has <= 256 (thorough 4096) elements (compact layout, big-endian, C-library chunk indexes, filters). ReadHyperslab/ReadSlice must equal the gather from Read() of the same open file; out-of-bounds selections must be rejected; the chunk iterator must visit each chunk once and tile the full read.",
    "Differential: if Read() itself is wrong (C01) this check fires only when the partial path disagrees with it. Bound: dataset extents <= 7 per dimension for the complete selection space.",
    "DESIGN.md §5 C09", "E4-grid-files")
add("C16", "model_checking", "exhaustive enumeration of (reachable state x failing call x follow-up) with a run-without-the-call differential oracle",
    "States: every valid prefix of length <= 2 (thorough 3) over 9 valid operations plus capacity-adjacent states (group at 32 entries, name heap nearly full, dense attributes, header nearly full, dense index at its 371-record capacity). For each state every call of a 49-kind failing-call catalogue (invalid arguments, duplicates, missing parents/targets, size mismatches, resize limits, wrong session kind) aimed at each existing object, plus capacity probes, each followed by each of 5 valid operations. Whenever the call returned an error: the closed file must dump equal to the run without the call, the follow-up must behave the same, nothing may panic, Close x3 returns nil. Calls on a closed writer must return errors.",
    "The oracle only fires when the candidate call returned an error (an accepted call is judged by C03). File addresses are normalised out of the dump (allocation leaks are not logical content).",
    "DESIGN.md §5 C16", "E1-sequences")
