// instrument: source rewriter of the C18 check (DESIGN §3.3).
//
// usage: instrument <virtual path>=<file to read>=<file to write> ...
//
// Each input file is parsed (under its virtual path, so positions in diagnostics and race
// reports name the repository file), rewritten and printed:
//
//	import "sync"    -> sync    "github.com/scigolib/hdf5/internal/verif/vsync"
//	import "time"    -> time    "github.com/scigolib/hdf5/internal/verif/vtime"
//	import "context" -> context "github.com/scigolib/hdf5/internal/verif/vctx"
//	go f(x)          -> { fn, a0 := f, x; vsched.Go("f", func() { fn(a0) }) }   (operands evaluated by the spawner)
//	close(c)         -> vsched.CloseChan(c)            (also under defer)
//	<-c              -> vsched.Recv(c)                 (statement form)
//	select { case <-a: A; case <-b: B }  -> { c0, c1 := a, b; switch vsched.Select(c0, c1) { case 0: <-c0; A; case 1: <-c1; B } }
//	select { case <-a: A; default: D }   -> { c0 := a; switch vsched.SelectNB(c0) { case 0: <-c0; A; default: D } }
//	(the channel operands are evaluated once, on entry, exactly as the select statement does)
//
// sync/atomic stays real. Anything the rewriter does not know (send statements, receives in
// expressions, range over a channel, sync.Cond, time.AfterFunc, atomic functions on plain
// words, an atomic value steering control flow, ...) makes it exit 2 with
// "instrumentation cannot handle ...": the check must never explore a half-instrumented program.
package main

import (
	"bytes"
	"fmt"
	"go/ast"
	"go/parser"
	"go/printer"
	"go/token"
	"os"
	"strconv"
	"strings"
)

const shimBase = "github.com/scigolib/hdf5/internal/verif/"

var shims = map[string]string{"sync": "vsync", "time": "vtime", "context": "vctx"}

var allowed = map[string]map[string]bool{
	"sync": set("Mutex", "RWMutex", "WaitGroup", "Once", "Pool", "Locker"),
	"time": set("Duration", "Time", "Month", "Weekday", "Location", "Nanosecond", "Microsecond", "Millisecond", "Second",
		"Minute", "Hour", "RFC3339", "RFC3339Nano", "UTC", "Local", "Now", "Since", "Until", "Unix", "UnixMilli",
		"ParseDuration", "Date", "Ticker", "NewTicker"),
	"context": set("Context", "CancelFunc", "Canceled", "DeadlineExceeded", "Background", "TODO", "WithCancel"),
}

// methods of typed atomics whose result is a value read from the atomic
var atomicReads = set("Load", "Add", "Swap", "CompareAndSwap", "And", "Or")

func set(xs ...string) map[string]bool {
	m := map[string]bool{}
	for _, x := range xs {
		m[x] = true
	}
	return m
}

type rewriter struct {
	fset      *token.FileSet
	file      *ast.File
	path      string
	pkgNames  map[string]string // local import name -> import path
	atomicPkg string
	needSched bool
	chanNames map[string]bool // identifiers / field names declared with a channel type
	atomicFld map[string]bool // field / variable names declared with an atomic.* type
	counts    map[string]int
}

func (r *rewriter) fail(pos token.Pos, format string, a ...any) {
	fmt.Fprintf(os.Stderr, "instrumentation cannot handle %s (%s)\n", fmt.Sprintf(format, a...), r.fset.Position(pos))
	os.Exit(2)
}

func main() {
	if len(os.Args) < 2 {
		fmt.Fprintln(os.Stderr, "usage: instrument virtual=src=dst ...")
		os.Exit(2)
	}
	for _, arg := range os.Args[1:] {
		parts := strings.SplitN(arg, "=", 3)
		if len(parts) != 3 {
			fmt.Fprintf(os.Stderr, "instrument: bad argument %q\n", arg)
			os.Exit(2)
		}
		src, err := os.ReadFile(parts[1])
		if err != nil {
			fmt.Fprintf(os.Stderr, "instrument: %v\n", err)
			os.Exit(2)
		}
		out, summary := rewrite(parts[0], src)
		if err := os.WriteFile(parts[2], out, 0o644); err != nil {
			fmt.Fprintf(os.Stderr, "instrument: %v\n", err)
			os.Exit(2)
		}
		fmt.Printf("instrumented %s: %s\n", parts[0], summary)
	}
}

func rewrite(path string, src []byte) ([]byte, string) {
	fset := token.NewFileSet()
	f, err := parser.ParseFile(fset, path, src, parser.ParseComments)
	if err != nil {
		fmt.Fprintf(os.Stderr, "instrumentation cannot handle %s: parse error: %v\n", path, err)
		os.Exit(2)
	}
	r := &rewriter{fset: fset, file: f, path: path, pkgNames: map[string]string{}, chanNames: map[string]bool{},
		atomicFld: map[string]bool{}, counts: map[string]int{}}
	r.imports()
	r.collectDecls()
	r.checkSelectors()
	r.checkAtomics()
	for _, d := range f.Decls {
		if fd, ok := d.(*ast.FuncDecl); ok && fd.Body != nil {
			r.block(fd.Body)
		}
		if gd, ok := d.(*ast.GenDecl); ok {
			// function literals in package-level initialisers
			ast.Inspect(gd, func(n ast.Node) bool {
				if fl, ok := n.(*ast.FuncLit); ok {
					r.block(fl.Body)
					return false
				}
				return true
			})
		}
	}
	r.checkLeftovers()
	if r.needSched {
		r.addImport("vsched", shimBase+"vsched")
	}
	// comments are dropped except the ones before the package clause (build constraints):
	// replaced statements would otherwise drag stale comment positions along.
	var keep []*ast.CommentGroup
	for _, cg := range f.Comments {
		if cg.End() < f.Package {
			keep = append(keep, cg)
			continue
		}
		for _, c := range cg.List {
			if strings.HasPrefix(c.Text, "//go:") && !strings.HasPrefix(c.Text, "//go:build") {
				r.fail(c.Pos(), "compiler directive %q inside an instrumented file", c.Text)
			}
		}
	}
	f.Comments = keep
	for _, d := range f.Decls {
		stripDocs(d)
	}
	var buf bytes.Buffer
	cfg := printer.Config{Mode: printer.SourcePos | printer.TabIndent | printer.UseSpaces, Tabwidth: 8}
	if err := cfg.Fprint(&buf, fset, f); err != nil {
		fmt.Fprintf(os.Stderr, "instrument: print %s: %v\n", path, err)
		os.Exit(2)
	}
	// the result must parse
	if _, err := parser.ParseFile(token.NewFileSet(), path, buf.Bytes(), 0); err != nil {
		fmt.Fprintf(os.Stderr, "instrument: rewritten %s does not parse: %v\n", path, err)
		os.Exit(2)
	}
	var keys []string
	for _, k := range []string{"import", "go", "close", "recv", "select", "selectnb"} {
		if r.counts[k] > 0 {
			keys = append(keys, fmt.Sprintf("%s=%d", k, r.counts[k]))
		}
	}
	if len(keys) == 0 {
		keys = []string{"unchanged"}
	}
	return buf.Bytes(), strings.Join(keys, " ")
}

func stripDocs(d ast.Decl) {
	ast.Inspect(d, func(n ast.Node) bool {
		switch x := n.(type) {
		case *ast.FuncDecl:
			x.Doc = nil
		case *ast.GenDecl:
			x.Doc = nil
		case *ast.Field:
			x.Doc, x.Comment = nil, nil
		case *ast.TypeSpec:
			x.Doc, x.Comment = nil, nil
		case *ast.ValueSpec:
			x.Doc, x.Comment = nil, nil
		case *ast.ImportSpec:
			x.Doc, x.Comment = nil, nil
		}
		return true
	})
}

func (r *rewriter) imports() {
	for _, is := range r.file.Imports {
		p, _ := strconv.Unquote(is.Path.Value)
		name := p[strings.LastIndex(p, "/")+1:]
		if is.Name != nil {
			name = is.Name.Name
		}
		if p == "sync/atomic" {
			if name == "." || name == "_" {
				r.fail(is.Pos(), "dot/blank import of sync/atomic")
			}
			r.atomicPkg = name
		}
		if shim, ok := shims[p]; ok {
			if name == "." || name == "_" {
				r.fail(is.Pos(), "dot/blank import of %s", p)
			}
			r.pkgNames[name] = p
			is.Path.Value = strconv.Quote(shimBase + shim)
			if is.Name == nil {
				is.Name = ast.NewIdent(name)
			}
			r.counts["import"]++
		}
	}
}

func (r *rewriter) addImport(name, path string) {
	spec := &ast.ImportSpec{Name: ast.NewIdent(name), Path: &ast.BasicLit{Kind: token.STRING, Value: strconv.Quote(path)}}
	for _, d := range r.file.Decls {
		if gd, ok := d.(*ast.GenDecl); ok && gd.Tok == token.IMPORT {
			gd.Specs = append(gd.Specs, spec)
			if !gd.Lparen.IsValid() {
				gd.Lparen = gd.Pos()
				gd.Rparen = gd.End()
			}
			r.file.Imports = append(r.file.Imports, spec)
			return
		}
	}
	gd := &ast.GenDecl{Tok: token.IMPORT, Specs: []ast.Spec{spec}}
	r.file.Decls = append([]ast.Decl{gd}, r.file.Decls...)
	r.file.Imports = append(r.file.Imports, spec)
}

func isChanType(e ast.Expr) bool {
	switch x := e.(type) {
	case *ast.ChanType:
		return true
	case *ast.ParenExpr:
		return isChanType(x.X)
	}
	return false
}

func (r *rewriter) isAtomicType(e ast.Expr) bool {
	if r.atomicPkg == "" {
		return false
	}
	switch x := e.(type) {
	case *ast.SelectorExpr:
		id, ok := x.X.(*ast.Ident)
		return ok && id.Name == r.atomicPkg
	case *ast.IndexExpr: // atomic.Pointer[T]
		return r.isAtomicType(x.X)
	case *ast.StarExpr:
		return r.isAtomicType(x.X)
	case *ast.ArrayType:
		return r.isAtomicType(x.Elt)
	}
	return false
}

// collectDecls records the names declared with channel or atomic types.
func (r *rewriter) collectDecls() {
	ast.Inspect(r.file, func(n ast.Node) bool {
		switch x := n.(type) {
		case *ast.Field:
			for _, nm := range x.Names {
				if isChanType(x.Type) {
					r.chanNames[nm.Name] = true
				}
				if r.isAtomicType(x.Type) {
					r.atomicFld[nm.Name] = true
				}
			}
		case *ast.ValueSpec:
			for _, nm := range x.Names {
				if x.Type != nil && isChanType(x.Type) {
					r.chanNames[nm.Name] = true
				}
				if x.Type != nil && r.isAtomicType(x.Type) {
					r.atomicFld[nm.Name] = true
				}
			}
			for i, v := range x.Values {
				if isMakeChan(v) && i < len(x.Names) {
					r.chanNames[x.Names[i].Name] = true
				}
			}
		case *ast.AssignStmt:
			for i, v := range x.Rhs {
				if isMakeChan(v) && i < len(x.Lhs) {
					r.chanNames[lastName(x.Lhs[i])] = true
				}
			}
		case *ast.KeyValueExpr:
			if isMakeChan(x.Value) {
				r.chanNames[lastName(x.Key)] = true
			}
		}
		return true
	})
}

func isMakeChan(e ast.Expr) bool {
	c, ok := e.(*ast.CallExpr)
	if !ok || len(c.Args) == 0 {
		return false
	}
	id, ok := c.Fun.(*ast.Ident)
	return ok && id.Name == "make" && isChanType(c.Args[0])
}

func lastName(e ast.Expr) string {
	switch x := e.(type) {
	case *ast.Ident:
		return x.Name
	case *ast.SelectorExpr:
		return x.Sel.Name
	case *ast.ParenExpr:
		return lastName(x.X)
	case *ast.StarExpr:
		return lastName(x.X)
	case *ast.IndexExpr:
		return lastName(x.X)
	}
	return ""
}

// checkSelectors verifies that every pkg.Name used from a redirected package exists in its shim.
func (r *rewriter) checkSelectors() {
	ast.Inspect(r.file, func(n ast.Node) bool {
		se, ok := n.(*ast.SelectorExpr)
		if !ok {
			return true
		}
		id, ok := se.X.(*ast.Ident)
		if !ok || id.Obj != nil {
			return true
		}
		if p, ok := r.pkgNames[id.Name]; ok {
			if !allowed[p][se.Sel.Name] {
				r.fail(se.Pos(), "%s.%s (not modelled by the %s shim)", p, se.Sel.Name, shims[p])
			}
		}
		if r.atomicPkg != "" && id.Name == r.atomicPkg {
			// typed atomics only (atomic.Int64, atomic.Bool, atomic.Pointer[T], atomic.Value ...)
			if strings.HasPrefix(se.Sel.Name, "Load") || strings.HasPrefix(se.Sel.Name, "Store") || strings.HasPrefix(se.Sel.Name, "Add") ||
				strings.HasPrefix(se.Sel.Name, "Swap") || strings.HasPrefix(se.Sel.Name, "CompareAndSwap") ||
				strings.HasPrefix(se.Sel.Name, "And") || strings.HasPrefix(se.Sel.Name, "Or") {
				r.fail(se.Pos(), "atomic.%s on a plain word (only typed atomic values used as write-only statistics are accepted)", se.Sel.Name)
			}
		}
		return true
	})
}

// isAtomicRead reports whether e is <something>.<atomic field>.<Load|Add|...>(...).
func (r *rewriter) isAtomicRead(e ast.Expr) bool {
	c, ok := e.(*ast.CallExpr)
	if !ok {
		return false
	}
	se, ok := c.Fun.(*ast.SelectorExpr)
	if !ok || !atomicReads[se.Sel.Name] {
		return false
	}
	return r.atomicFld[lastName(se.X)]
}

func (r *rewriter) containsAtomic(e ast.Node, tainted map[string]bool) (found bool) {
	if e == nil {
		return false
	}
	ast.Inspect(e, func(n ast.Node) bool {
		if x, ok := n.(ast.Expr); ok && r.isAtomicRead(x) {
			found = true
		}
		if id, ok := n.(*ast.Ident); ok && tainted[id.Name] {
			found = true
		}
		return !found
	})
	return found
}

// pureBody: only assignments / inc-dec whose calls are conversions (one argument, callee an
// identifier or pkg.Type): a condition on a statistics counter may select a value, never
// a synchronisation path.
func pureBody(b *ast.BlockStmt) bool {
	if b == nil {
		return true
	}
	ok := true
	for _, s := range b.List {
		switch x := s.(type) {
		case *ast.AssignStmt, *ast.IncDecStmt, *ast.EmptyStmt:
			ast.Inspect(x, func(n ast.Node) bool {
				if c, isCall := n.(*ast.CallExpr); isCall {
					switch c.Fun.(type) {
					case *ast.Ident, *ast.SelectorExpr:
						if len(c.Args) != 1 {
							ok = false
						}
						if se, isSel := c.Fun.(*ast.SelectorExpr); isSel {
							if _, isPkg := se.X.(*ast.Ident); !isPkg {
								ok = false
							}
						}
					default:
						ok = false
					}
				}
				return ok
			})
		default:
			ok = false
		}
	}
	return ok
}

// checkAtomics: an atomic value must not steer control flow (loops, or branches that do more
// than compute a value).
func (r *rewriter) checkAtomics() {
	if r.atomicPkg == "" {
		return
	}
	for _, d := range r.file.Decls {
		fd, ok := d.(*ast.FuncDecl)
		if !ok || fd.Body == nil {
			continue
		}
		tainted := map[string]bool{}
		ast.Inspect(fd.Body, func(n ast.Node) bool {
			if as, ok := n.(*ast.AssignStmt); ok {
				for i, v := range as.Rhs {
					if r.containsAtomic(v, nil) && i < len(as.Lhs) {
						if id, ok := as.Lhs[i].(*ast.Ident); ok {
							tainted[id.Name] = true
						}
					}
				}
			}
			return true
		})
		ast.Inspect(fd.Body, func(n ast.Node) bool {
			switch x := n.(type) {
			case *ast.ForStmt:
				if r.containsAtomic(x.Cond, tainted) {
					r.fail(x.Pos(), "a loop whose condition depends on an atomic value (in %s)", fd.Name.Name)
				}
			case *ast.IfStmt:
				if r.containsAtomic(x.Cond, tainted) {
					elseOK := x.Else == nil
					if eb, ok := x.Else.(*ast.BlockStmt); ok {
						elseOK = pureBody(eb)
					}
					if !pureBody(x.Body) || !elseOK {
						r.fail(x.Pos(), "an atomic value used in a condition that guards more than a computed value (in %s)", fd.Name.Name)
					}
				}
			case *ast.SwitchStmt:
				if r.containsAtomic(x.Tag, tainted) {
					r.fail(x.Pos(), "an atomic value used as a switch tag (in %s)", fd.Name.Name)
				}
			case *ast.CaseClause:
				for _, e := range x.List {
					if r.containsAtomic(e, tainted) {
						r.fail(x.Pos(), "an atomic value used in a case expression (in %s)", fd.Name.Name)
					}
				}
			}
			return true
		})
	}
}

// sched builds vsched.<fn>(args...) positioned at pos (so that the printer's //line
// directives keep the original line numbers around synthesized calls).
func (r *rewriter) sched(pos token.Pos, fn string, args ...ast.Expr) *ast.CallExpr {
	r.needSched = true
	return &ast.CallExpr{Fun: &ast.SelectorExpr{X: &ast.Ident{Name: "vsched", NamePos: pos}, Sel: &ast.Ident{Name: fn, NamePos: pos}},
		Lparen: pos, Args: args, Rparen: pos}
}

func (r *rewriter) exprString(e ast.Expr) string {
	var b bytes.Buffer
	_ = printer.Fprint(&b, r.fset, e)
	return b.String()
}

func isBuiltinCall(e ast.Expr, name string) (*ast.CallExpr, bool) {
	c, ok := e.(*ast.CallExpr)
	if !ok {
		return nil, false
	}
	id, ok := c.Fun.(*ast.Ident)
	if !ok || id.Name != name || id.Obj != nil {
		return nil, false
	}
	return c, true
}

func isRecv(e ast.Expr) (ast.Expr, bool) {
	for {
		p, ok := e.(*ast.ParenExpr)
		if !ok {
			break
		}
		e = p.X
	}
	u, ok := e.(*ast.UnaryExpr)
	if !ok || u.Op != token.ARROW {
		return nil, false
	}
	return u.X, true
}

// block rewrites the statements of a block in place (recursively).
func (r *rewriter) block(b *ast.BlockStmt) {
	if b == nil {
		return
	}
	for i, s := range b.List {
		b.List[i] = r.stmt(s)
	}
}

func (r *rewriter) stmts(list []ast.Stmt) {
	for i, s := range list {
		list[i] = r.stmt(s)
	}
}

// funcLits rewrites the bodies of function literals that occur inside an expression/statement.
func (r *rewriter) funcLits(n ast.Node) {
	if n == nil {
		return
	}
	ast.Inspect(n, func(m ast.Node) bool {
		if fl, ok := m.(*ast.FuncLit); ok {
			r.block(fl.Body)
			return false
		}
		return true
	})
}

func (r *rewriter) stmt(s ast.Stmt) ast.Stmt {
	switch x := s.(type) {
	case *ast.BlockStmt:
		r.block(x)
	case *ast.LabeledStmt:
		if _, isSel := x.Stmt.(*ast.SelectStmt); isSel {
			r.fail(x.Pos(), "a labeled select statement (label %s)", x.Label.Name)
		}
		x.Stmt = r.stmt(x.Stmt)
	case *ast.IfStmt:
		if x.Init != nil {
			x.Init = r.stmt(x.Init)
		}
		r.funcLits(x.Cond)
		r.block(x.Body)
		if x.Else != nil {
			x.Else = r.stmt(x.Else)
		}
	case *ast.ForStmt:
		if x.Init != nil {
			x.Init = r.stmt(x.Init)
		}
		r.funcLits(x.Cond)
		if x.Post != nil {
			x.Post = r.stmt(x.Post)
		}
		r.block(x.Body)
	case *ast.RangeStmt:
		if n := lastName(x.X); n != "" && r.chanNames[n] {
			r.fail(x.Pos(), "range over channel %s", r.exprString(x.X))
		}
		r.funcLits(x.X)
		r.block(x.Body)
	case *ast.SwitchStmt:
		if x.Init != nil {
			x.Init = r.stmt(x.Init)
		}
		r.funcLits(x.Tag)
		for _, c := range x.Body.List {
			cc := c.(*ast.CaseClause)
			for _, e := range cc.List {
				r.funcLits(e)
			}
			r.stmts(cc.Body)
		}
	case *ast.TypeSwitchStmt:
		if x.Init != nil {
			x.Init = r.stmt(x.Init)
		}
		for _, c := range x.Body.List {
			r.stmts(c.(*ast.CaseClause).Body)
		}
	case *ast.SelectStmt:
		return r.selectStmt(x)
	case *ast.GoStmt:
		return r.goStmt(x)
	case *ast.DeferStmt:
		if c, ok := isBuiltinCall(x.Call, "close"); ok {
			r.counts["close"]++
			x.Call = r.sched(c.Pos(), "CloseChan", c.Args...)
			return x
		}
		r.funcLits(x.Call)
	case *ast.ExprStmt:
		if c, ok := isBuiltinCall(x.X, "close"); ok {
			r.counts["close"]++
			x.X = r.sched(c.Pos(), "CloseChan", c.Args...)
			return x
		}
		if ch, ok := isRecv(x.X); ok {
			r.counts["recv"]++
			x.X = r.sched(x.X.Pos(), "Recv", ch)
			return x
		}
		r.funcLits(x.X)
	case *ast.SendStmt:
		r.fail(x.Pos(), "a send statement (%s): only close-only channels, tickers and contexts are modelled", r.exprString(x.Chan))
	case *ast.AssignStmt:
		for _, e := range x.Rhs {
			r.funcLits(e)
		}
	case *ast.ReturnStmt:
		for _, e := range x.Results {
			r.funcLits(e)
		}
	case *ast.DeclStmt:
		r.funcLits(x.Decl)
	case *ast.IncDecStmt, *ast.BranchStmt, *ast.EmptyStmt:
	default:
		r.fail(s.Pos(), "statement of type %T", s)
	}
	return s
}

func simpleArg(e ast.Expr) bool {
	switch x := e.(type) {
	case *ast.Ident, *ast.BasicLit:
		return true
	case *ast.SelectorExpr:
		return simpleArg(x.X)
	}
	return false
}

func (r *rewriter) goStmt(g *ast.GoStmt) ast.Stmt {
	r.counts["go"]++
	call := g.Call
	pos := r.fset.Position(g.Pos())
	if fl, ok := call.Fun.(*ast.FuncLit); ok {
		if len(call.Args) != 0 {
			r.fail(g.Pos(), "go func(...){...}(args) with arguments")
		}
		r.block(fl.Body)
		name := fmt.Sprintf("func@%s:%d", shortFile(pos.Filename), pos.Line)
		return &ast.ExprStmt{X: r.sched(g.Pos(), "Go", &ast.BasicLit{Kind: token.STRING, Value: strconv.Quote(name), ValuePos: g.Pos()}, fl)}
	}
	// the function value and the arguments are evaluated now, by the spawning goroutine, exactly
	// as the go statement does; only the call itself happens in the new thread
	if id, ok := call.Fun.(*ast.Ident); ok && id.Obj == nil && builtins[id.Name] {
		r.fail(g.Pos(), "go statement on the builtin %s", id.Name)
	}
	name := lastName(call.Fun)
	if name == "" {
		name = fmt.Sprintf("go@%s:%d", shortFile(pos.Filename), pos.Line)
	}
	lhs := []ast.Expr{&ast.Ident{Name: "vschedFn", NamePos: g.Pos()}}
	rhs := []ast.Expr{call.Fun}
	var args []ast.Expr
	for i, a := range call.Args {
		r.funcLits(a)
		tmp := &ast.Ident{Name: fmt.Sprintf("vschedArg%d", i), NamePos: g.Pos()}
		lhs = append(lhs, tmp)
		rhs = append(rhs, a)
		args = append(args, tmp)
	}
	inner := &ast.CallExpr{Fun: &ast.Ident{Name: "vschedFn", NamePos: g.Pos()}, Lparen: g.Pos(), Args: args, Ellipsis: call.Ellipsis, Rparen: call.End()}
	if call.Ellipsis.IsValid() {
		inner.Ellipsis = g.Pos()
	}
	lit := &ast.FuncLit{Type: &ast.FuncType{Func: g.Pos(), Params: &ast.FieldList{Opening: g.Pos(), Closing: g.Pos()}},
		Body: &ast.BlockStmt{Lbrace: g.Pos(), List: []ast.Stmt{&ast.ExprStmt{X: inner}}, Rbrace: call.End()}}
	assign := &ast.AssignStmt{Lhs: lhs, TokPos: g.Pos(), Tok: token.DEFINE, Rhs: rhs}
	spawn := &ast.ExprStmt{X: r.sched(g.Pos(), "Go", &ast.BasicLit{Kind: token.STRING, Value: strconv.Quote(name), ValuePos: g.Pos()}, lit)}
	return &ast.BlockStmt{Lbrace: g.Pos(), List: []ast.Stmt{assign, spawn}, Rbrace: call.End()}
}

var builtins = set("append", "cap", "clear", "close", "complex", "copy", "delete", "imag", "len", "make", "max", "min", "new", "panic", "print", "println", "real", "recover")

func shortFile(p string) string { return p[strings.LastIndex(p, "/")+1:] }

func (r *rewriter) selectStmt(s *ast.SelectStmt) ast.Stmt {
	if len(s.Body.List) == 0 {
		r.fail(s.Pos(), "select {} (blocks forever)")
	}
	var chans []ast.Expr
	var temps []ast.Expr
	var clauses []ast.Stmt
	hasDefault := false
	idx := 0
	for _, c := range s.Body.List {
		cc := c.(*ast.CommClause)
		r.stmts(cc.Body)
		if cc.Comm == nil {
			hasDefault = true
			clauses = append(clauses, &ast.CaseClause{Case: cc.Case, Colon: cc.Colon, List: nil, Body: cc.Body})
			continue
		}
		// the channel operand is evaluated once, when the select is entered (as in the original
		// statement), into a temporary that both the scheduler call and the receive use
		tmp := &ast.Ident{Name: fmt.Sprintf("vschedCh%d", idx), NamePos: cc.Case}
		var ch ast.Expr
		switch cm := cc.Comm.(type) {
		case *ast.ExprStmt:
			x, ok := isRecv(cm.X)
			if !ok {
				r.fail(cm.Pos(), "select case %s", r.exprString(cm.X))
			}
			ch = x
			cm.X = &ast.UnaryExpr{OpPos: cm.X.Pos(), Op: token.ARROW, X: tmp}
		case *ast.AssignStmt:
			if len(cm.Rhs) != 1 {
				r.fail(cm.Pos(), "select case with several right-hand sides")
			}
			x, ok := isRecv(cm.Rhs[0])
			if !ok {
				r.fail(cm.Pos(), "select case %s", r.exprString(cm.Rhs[0]))
			}
			ch = x
			cm.Rhs[0] = &ast.UnaryExpr{OpPos: cm.Rhs[0].Pos(), Op: token.ARROW, X: tmp}
		case *ast.SendStmt:
			r.fail(cm.Pos(), "a send case in a select (%s)", r.exprString(cm.Chan))
		default:
			r.fail(cc.Pos(), "select case of type %T", cc.Comm)
		}
		if !simpleCallFree(ch) {
			r.fail(cc.Pos(), "select on a channel expression that is not a plain name or a Done() call (%s)", r.exprString(ch))
		}
		chans = append(chans, ch)
		temps = append(temps, tmp)
		body := append([]ast.Stmt{cc.Comm}, cc.Body...)
		clauses = append(clauses, &ast.CaseClause{Case: cc.Case, Colon: cc.Case, List: []ast.Expr{&ast.BasicLit{Kind: token.INT, Value: strconv.Itoa(idx), ValuePos: cc.Case}}, Body: body})
		idx++
	}
	fn := "Select"
	if hasDefault {
		fn = "SelectNB"
		r.counts["selectnb"]++
	} else {
		r.counts["select"]++
	}
	if len(chans) == 0 {
		r.fail(s.Pos(), "select with only a default clause")
	}
	if len(chans) > 4 {
		r.fail(s.Pos(), "select with more than 4 receive cases")
	}
	assign := &ast.AssignStmt{Lhs: temps, TokPos: s.Pos(), Tok: token.DEFINE, Rhs: chans}
	sw := &ast.SwitchStmt{Switch: s.Pos(), Tag: r.sched(s.Pos(), fn, temps...), Body: &ast.BlockStmt{Lbrace: s.Body.Lbrace, List: clauses, Rbrace: s.Body.Rbrace}}
	return &ast.BlockStmt{Lbrace: s.Pos(), List: []ast.Stmt{assign, sw}, Rbrace: s.Body.Rbrace}
}

// simpleCallFree: a.b.c or a.b.Done() (evaluated twice by the rewritten code, so it must be
// free of side effects).
func simpleCallFree(e ast.Expr) bool {
	if simpleArg(e) {
		return true
	}
	if c, ok := e.(*ast.CallExpr); ok && len(c.Args) == 0 {
		if se, ok := c.Fun.(*ast.SelectorExpr); ok && se.Sel.Name == "Done" {
			return simpleArg(se.X)
		}
	}
	return false
}

// checkLeftovers: after rewriting, no channel operation may remain outside the forms above.
func (r *rewriter) checkLeftovers() {
	// receives that are the comm statement of a rewritten select live in CaseClause bodies as
	// their first statement: collect them to tell them apart from receives in expressions.
	okRecv := map[ast.Node]bool{}
	ast.Inspect(r.file, func(n ast.Node) bool {
		if sw, ok := n.(*ast.SwitchStmt); ok {
			if c, ok := sw.Tag.(*ast.CallExpr); ok {
				if se, ok := c.Fun.(*ast.SelectorExpr); ok {
					if id, ok := se.X.(*ast.Ident); ok && id.Name == "vsched" && strings.HasPrefix(se.Sel.Name, "Select") {
						for _, cl := range sw.Body.List {
							cc := cl.(*ast.CaseClause)
							if len(cc.List) == 1 && len(cc.Body) > 0 {
								switch cm := cc.Body[0].(type) {
								case *ast.ExprStmt:
									okRecv[unparen(cm.X)] = true
								case *ast.AssignStmt:
									okRecv[unparen(cm.Rhs[0])] = true
								}
							}
						}
					}
				}
			}
		}
		return true
	})
	ast.Inspect(r.file, func(n ast.Node) bool {
		switch x := n.(type) {
		case *ast.UnaryExpr:
			if x.Op == token.ARROW && !okRecv[x] {
				r.fail(x.Pos(), "a receive inside an expression (%s)", r.exprString(x))
			}
		case *ast.SendStmt:
			r.fail(x.Pos(), "a send statement")
		case *ast.SelectStmt:
			r.fail(x.Pos(), "a select statement in an unexpected position")
		case *ast.GoStmt:
			r.fail(x.Pos(), "a go statement in an unexpected position")
		case *ast.CallExpr:
			if id, ok := x.Fun.(*ast.Ident); ok && id.Name == "close" && id.Obj == nil {
				r.fail(x.Pos(), "close() in an unexpected position")
			}
		}
		return true
	})
}

func unparen(e ast.Expr) ast.Expr {
	for {
		p, ok := e.(*ast.ParenExpr)
		if !ok {
			return e
		}
		e = p.X
	}
}
