#!/usr/bin/env bash
# tools/seed_verify.sh <seed-dir> <name> [demo-subdir]
# Confirms a seeded change in a fresh scratch worktree of /repo HEAD: patch applies, builds,
# the repository's suite passes with it, the demonstration fails with it and passes without.
# Prints one JSON line; removes the worktree afterwards.
sd="$1"; name="$2"; sub="${3:-.}"
export GOFLAGS=-mod=mod GOPROXY=off
wt=/tmp/wtv-$name
git -C /repo worktree remove --force $wt >/dev/null 2>&1
git -C /repo worktree add -q --detach $wt HEAD || exit 2
cd $wt
applies=false; suite=false; demo_with=unknown; demo_without=unknown
if git apply --check "$sd/patch.diff" 2>/dev/null; then applies=true; git apply "$sd/patch.diff"; fi
if $applies; then
  out=$(go test -vet=off -count=1 ./... 2>&1); if echo "$out" | grep -q '^FAIL'; then
     # the timing-sensitive metrics test flakes under load: retry that package alone
     if [ "$(echo "$out" | grep -c '^FAIL')" -le 2 ] && echo "$out" | grep -q 'internal/rebalancing'; then
        go test -vet=off -count=1 ./internal/rebalancing >/dev/null 2>&1 && ! echo "$out" | grep '^FAIL' | grep -v rebalancing | grep -q . && suite=true
     fi
  else suite=true; fi
  cp "$sd"/demo_test.go "$sub/zz_seed_demo_test.go"
  if (cd $sub && go test -vet=off -count=1 -run "${DEMO_RUN:-Seed}" . >/tmp/seed_demo_with.$name.log 2>&1); then demo_with=pass; else demo_with=fail; fi
  git apply -R "$sd/patch.diff"
  if (cd $sub && go test -vet=off -count=1 -run "${DEMO_RUN:-Seed}" . >/tmp/seed_demo_without.$name.log 2>&1); then demo_without=pass; else demo_without=fail; fi
fi
cd /; git -C /repo worktree remove --force $wt
echo "{\"name\":\"$name\",\"applies\":$applies,\"suite_passes_with_change\":$suite,\"demo_with_change\":\"$demo_with\",\"demo_without_change\":\"$demo_without\"}"
