#!/usr/bin/env bash
# tools/seedrun.sh <patch.diff> <ID> [tier] : run a check against a patch WITHOUT touching /repo
# (the patch is applied to a temporary copy of the files it touches, which are then overlaid).
patch="$(realpath "$1")"; id="$2"; tier="${3:-quick}"
tmp=$(mktemp -d /dev/shm/seed.XXXXXX)
files=$(grep '^+++ b/' "$patch" | sed 's|^+++ b/||')
map=""
for f in $files; do mkdir -p "$tmp/$(dirname $f)"; cp "/repo/$f" "$tmp/$f"; done
(cd "$tmp" && patch -p1 -s < "$patch") || { echo "PATCH DID NOT APPLY"; rm -rf "$tmp"; exit 3; }
python3 - "$tmp" $files > "$tmp/ov.json" <<'PY'
import sys, json
tmp=sys.argv[1]
print(json.dumps({"Replace": {"/repo/"+f: tmp+"/"+f for f in sys.argv[2:]}}))
PY
VERIF_EXTRA_OVERLAY="$tmp/ov.json" /verif/check "$id" "$tier" 2>&1 | grep -E 'VIOLATION|SUMMARY|BUILD|check:' | cut -c1-220 | head -${MUT_LINES:-6}
rc=${PIPESTATUS[0]}
rm -rf "$tmp"
exit $rc
