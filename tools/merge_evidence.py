#!/usr/bin/env python3
"""merge_evidence.py <out> <part>... : one part is copied; several are merged (counts added,
samples/assumptions concatenated, exhaustive = all, wall = sum)."""
import json, sys
out, parts = sys.argv[1], sys.argv[2:]
docs = [json.load(open(p)) for p in parts]
if len(docs) == 1:
    json.dump(docs[0], open(out, "w"), indent=1)
    sys.exit(0)
m = docs[0]
for d in docs[1:]:
    c, mc = d["coverage"], m["coverage"]
    for k, v in c.items():
        if k in ("samples", "known_findings_met", "caps_hit"):
            mc[k] = (mc.get(k) or []) + v
        elif k == "exhaustive":
            mc[k] = bool(mc.get(k, True)) and bool(v)
        elif k == "rule":
            mc[k] = (mc.get(k, "") + " || " + v).strip(" |")
        elif isinstance(v, bool):
            mc[k] = v
        elif isinstance(v, (int, float)) and isinstance(mc.get(k, 0), (int, float)) and k != "gomaxprocs":
            mc[k] = mc.get(k, 0) + v
        elif isinstance(v, dict) and isinstance(mc.get(k), dict):
            for kk, vv in v.items():
                if isinstance(vv, (int, float)) and isinstance(mc[k].get(kk, 0), (int, float)):
                    mc[k][kk] = mc[k].get(kk, 0) + vv
                else:
                    mc[k][kk] = vv
        else:
            mc.setdefault(k, v)
    m["assumptions"] = (m.get("assumptions") or []) + (d.get("assumptions") or [])
    m["wall_s"] = m.get("wall_s", 0) + d.get("wall_s", 0)
    m["violations"] = m.get("violations", 0) + d.get("violations", 0)
mc = m["coverage"]
mc["samples"] = mc["samples"][:10]
if isinstance(mc.get("known_findings_met"), list):
    mc["known_findings_met"] = sorted(set(mc["known_findings_met"]))  # parts may meet the same finding
json.dump(m, open(out, "w"), indent=1)
