#!/usr/bin/env python3
"""Generate the `go build -overlay` JSON that injects the /verif harness into /repo.

usage: overlay.py <out.json> [--keep-tests]

* every harness/<pkg>/*.go file is mapped to <repo pkg dir>/zz_verif_<name>
* harness/vkit, harness/h5ref ... become virtual packages under internal/verif/<name>
* every existing *_test.go of the target packages is hidden (mapped to ""), so the
  repository's own tests are not compiled into the harness binary.
Nothing in /repo is written.
"""
import glob
import hashlib
import json
import os
import subprocess
import sys

VERIF = os.environ.get("VERIF_DIR", "/verif")
REPO = os.environ.get("VERIF_REPO", "/repo")

PKG_DIRS = {
    "root": "",
    "core": "internal/core",
    "structures": "internal/structures",
    "writer": "internal/writer",
    "rebalancing": "internal/rebalancing",
    "utils": "internal/utils",
}
VIRTUAL = ["vkit", "h5ref", "vsched", "vsync", "vtime", "vctx", "vos"]
VOS_FILES = ["file.go", "internal/writer/writer.go"]


# C18 (VERIF_SCHED=1): packages whose non-test sources are rewritten by tools/instrument
SCHED_DIRS = {"structures": "internal/structures", "rebalancing": "internal/rebalancing"}
SCHED_FILES = {"utils": ["internal/utils/bufferpool.go"]}


def sched_instrument(replace, extra_map, out):
    """Rewrite the CURRENT sources (working tree, or the file an extra overlay substitutes)
    with tools/instrument and map the results over the originals. Any construct the rewriter
    does not know ends the check with exit 2."""
    build = os.path.dirname(os.path.abspath(out))
    gen = os.path.join(build, "schedgen")
    os.makedirs(gen, exist_ok=True)
    tool = os.path.join(build, "instrument")
    src = os.path.join(VERIF, "tools", "instrument", "main.go")
    if not os.path.exists(tool) or os.path.getmtime(tool) < os.path.getmtime(src):
        env = dict(os.environ, GOFLAGS="-mod=mod", GOPROXY="off")
        r = subprocess.run(["go", "build", "-o", tool + ".%d" % os.getpid(), src], cwd=REPO, env=env,
                           stdout=subprocess.PIPE, stderr=subprocess.STDOUT, text=True)
        if r.returncode != 0:
            sys.stderr.write("overlay: cannot build tools/instrument:\n" + r.stdout)
            sys.exit(2)
        os.replace(tool + ".%d" % os.getpid(), tool)
    todo = []  # (pkg, virtual path)
    for pkg, rel in SCHED_DIRS.items():
        for f in sorted(glob.glob(os.path.join(REPO, rel, "*.go"))):
            if not f.endswith("_test.go"):
                todo.append((pkg, f))
    for pkg, rels in SCHED_FILES.items():
        for rel in rels:
            todo.append((pkg, os.path.join(REPO, rel)))
    args, tmp = [], {}
    for pkg, virt in todo:
        real = extra_map.get(virt, virt)
        if real == "":
            continue
        t = os.path.join(gen, "tmp.%d.%s" % (os.getpid(), virt.replace("/", "__")))
        tmp[virt] = t
        args.append("%s=%s=%s" % (virt, real, t))
    r = subprocess.run([tool] + args, stdout=subprocess.PIPE, stderr=subprocess.PIPE, text=True)
    if r.returncode != 0:
        sys.stderr.write(r.stderr)
        for t in tmp.values():
            if os.path.exists(t):
                os.remove(t)
        sys.exit(2)
    changed = {}
    for line in r.stdout.splitlines():
        # instrumented <virt>: <summary>
        if line.startswith("instrumented "):
            virt, summary = line[len("instrumented "):].split(": ", 1)
            changed[virt] = summary
    pkgs = set()
    for pkg, virt in todo:
        t = tmp.get(virt)
        if t is None:
            continue
        if changed.get(virt, "unchanged") == "unchanged":
            os.remove(t)
            continue
        data = open(t, "rb").read()
        dst = os.path.join(gen, hashlib.sha1(data).hexdigest()[:16] + "_" + os.path.basename(virt))
        os.replace(t, dst)
        replace[virt] = dst
        extra_map.pop(virt, None)
        pkgs.add(pkg)
    dirs = dict(SCHED_DIRS, utils="internal/utils")
    for pkg in sorted(pkgs):
        text = ('//go:build verif\n\npackage %s\n\nimport "github.com/scigolib/hdf5/internal/verif/vsched"\n\n'
                'func init() { vsched.MarkInstrumented("%s") }\n' % (pkg, pkg))
        dst = os.path.join(gen, "marker_%s.go" % pkg)
        if not os.path.exists(dst) or open(dst).read() != text:
            with open(dst, "w") as fh:
                fh.write(text)
        replace[os.path.join(REPO, dirs[pkg], "zz_verif_instrumented.go")] = dst
    sys.stderr.write("overlay: instrumented %d files (%s)\n" % (
        len([v for v in changed.values() if v != "unchanged"]),
        "; ".join("%s: %s" % (os.path.basename(k), v) for k, v in sorted(changed.items()) if v != "unchanged")))


def main():
    out = sys.argv[1]
    keep_tests = "--keep-tests" in sys.argv
    replace = {}
    for name, rel in PKG_DIRS.items():
        hdir = os.path.join(VERIF, "harness", name)
        pdir = os.path.join(REPO, rel) if rel else REPO
        files = sorted(glob.glob(os.path.join(hdir, "*.go")))
        if not files:
            continue
        if not keep_tests:
            for t in glob.glob(os.path.join(pdir, "*_test.go")):
                replace[t] = ""
        for f in files:
            replace[os.path.join(pdir, "zz_verif_" + os.path.basename(f))] = f
    for v in VIRTUAL:
        hdir = os.path.join(VERIF, "harness", v)
        for f in sorted(glob.glob(os.path.join(hdir, "*.go"))):
            replace[os.path.join(REPO, "internal", "verif", v, os.path.basename(f))] = f
    if os.environ.get("VERIF_VOS") == "1":
        # redirect the import path "os" -> vos in the two files that touch the file system;
        # applied to whatever is in the working tree now (or in an extra overlay given below)
        extra_map = {}
        if os.environ.get("VERIF_EXTRA_OVERLAY"):
            with open(os.environ["VERIF_EXTRA_OVERLAY"]) as fh:
                extra_map = json.load(fh)["Replace"]
        gen = os.environ.get("VERIF_VOS_DIR") or os.path.join(os.path.dirname(os.path.abspath(out)), "vosgen.%d" % os.getpid())
        os.makedirs(gen, exist_ok=True)
        for rel in VOS_FILES:
            src = os.path.join(REPO, rel)
            real = extra_map.get(src, src)
            text = open(real).read()
            if '\t"os"\n' not in text:
                sys.stderr.write("overlay: %s does not import os as expected; vos redirection skipped for it\n" % rel)
                continue
            text = text.replace('\t"os"\n', '\tos "github.com/scigolib/hdf5/internal/verif/vos"\n', 1)
            dst = os.path.join(gen, rel.replace("/", "__"))
            with open(dst, "w") as fh:
                fh.write(text)
            replace[src] = dst
            extra_map.pop(src, None)
        replace.update(extra_map)
    elif os.environ.get("VERIF_SCHED") == "1":
        extra_map = {}
        if os.environ.get("VERIF_EXTRA_OVERLAY"):
            with open(os.environ["VERIF_EXTRA_OVERLAY"]) as fh:
                extra_map = json.load(fh)["Replace"]
        sched_instrument(replace, extra_map, out)
        replace.update(extra_map)
    else:
        extra = os.environ.get("VERIF_EXTRA_OVERLAY")
        if extra:
            with open(extra) as fh:
                replace.update(json.load(fh)["Replace"])
    with open(out, "w") as fh:
        json.dump({"Replace": replace}, fh, indent=1)


if __name__ == "__main__":
    main()
