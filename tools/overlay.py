#!/usr/bin/env python3
"""Generate the `go build -overlay` JSON that injects the /verif harness into /repo.

usage: overlay.py <out.json> [--keep-tests]

* every harness/<pkg>/*.go file is mapped to <repo pkg dir>/zz_verif_<name>
* harness/vkit, harness/h5ref ... become virtual packages under internal/verif/<name>
* every existing *_test.go of the target packages is hidden (mapped to ""), so the
  repository's own tests are not compiled into the harness binary.
Nothing in /repo is written.
"""
import glob
import json
import os
import sys

VERIF = os.environ.get("VERIF_DIR", "/verif")
REPO = os.environ.get("VERIF_REPO", "/repo")

PKG_DIRS = {
    "root": "",
    "core": "internal/core",
    "structures": "internal/structures",
    "writer": "internal/writer",
    "rebalancing": "internal/rebalancing",
    "utils": "internal/utils",
}
VIRTUAL = ["vkit", "h5ref", "vsched", "vos"]
VOS_FILES = ["file.go", "internal/writer/writer.go"]


def main():
    out = sys.argv[1]
    keep_tests = "--keep-tests" in sys.argv
    replace = {}
    for name, rel in PKG_DIRS.items():
        hdir = os.path.join(VERIF, "harness", name)
        pdir = os.path.join(REPO, rel) if rel else REPO
        files = sorted(glob.glob(os.path.join(hdir, "*.go")))
        if not files:
            continue
        if not keep_tests:
            for t in glob.glob(os.path.join(pdir, "*_test.go")):
                replace[t] = ""
        for f in files:
            replace[os.path.join(pdir, "zz_verif_" + os.path.basename(f))] = f
    for v in VIRTUAL:
        hdir = os.path.join(VERIF, "harness", v)
        for f in sorted(glob.glob(os.path.join(hdir, "*.go"))):
            replace[os.path.join(REPO, "internal", "verif", v, os.path.basename(f))] = f
    if os.environ.get("VERIF_VOS") == "1":
        # redirect the import path "os" -> vos in the two files that touch the file system;
        # applied to whatever is in the working tree now (or in an extra overlay given below)
        extra_map = {}
        if os.environ.get("VERIF_EXTRA_OVERLAY"):
            with open(os.environ["VERIF_EXTRA_OVERLAY"]) as fh:
                extra_map = json.load(fh)["Replace"]
        gen = os.environ.get("VERIF_VOS_DIR") or os.path.join(os.path.dirname(os.path.abspath(out)), "vosgen.%d" % os.getpid())
        os.makedirs(gen, exist_ok=True)
        for rel in VOS_FILES:
            src = os.path.join(REPO, rel)
            real = extra_map.get(src, src)
            text = open(real).read()
            if '\t"os"\n' not in text:
                sys.stderr.write("overlay: %s does not import os as expected; vos redirection skipped for it\n" % rel)
                continue
            text = text.replace('\t"os"\n', '\tos "github.com/scigolib/hdf5/internal/verif/vos"\n', 1)
            dst = os.path.join(gen, rel.replace("/", "__"))
            with open(dst, "w") as fh:
                fh.write(text)
            replace[src] = dst
            extra_map.pop(src, None)
        replace.update(extra_map)
    else:
        extra = os.environ.get("VERIF_EXTRA_OVERLAY")
        if extra:
            with open(extra) as fh:
                replace.update(json.load(fh)["Replace"])
    with open(out, "w") as fh:
        json.dump({"Replace": replace}, fh, indent=1)


if __name__ == "__main__":
    main()
