#!/usr/bin/env python3
"""Generate the `go build -overlay` JSON that injects the /verif harness into /repo.

usage: overlay.py <out.json> [--keep-tests]

* every harness/<pkg>/*.go file is mapped to <repo pkg dir>/zz_verif_<name>
* harness/vkit, harness/h5ref ... become virtual packages under internal/verif/<name>
* every existing *_test.go of the target packages is hidden (mapped to ""), so the
  repository's own tests are not compiled into the harness binary.
Nothing in /repo is written.
"""
import glob
import json
import os
import sys

VERIF = os.environ.get("VERIF_DIR", "/verif")
REPO = os.environ.get("VERIF_REPO", "/repo")

PKG_DIRS = {
    "root": "",
    "core": "internal/core",
    "structures": "internal/structures",
    "writer": "internal/writer",
    "rebalancing": "internal/rebalancing",
    "utils": "internal/utils",
}
VIRTUAL = ["vkit", "h5ref", "vsched"]


def main():
    out = sys.argv[1]
    keep_tests = "--keep-tests" in sys.argv
    replace = {}
    for name, rel in PKG_DIRS.items():
        hdir = os.path.join(VERIF, "harness", name)
        pdir = os.path.join(REPO, rel) if rel else REPO
        files = sorted(glob.glob(os.path.join(hdir, "*.go")))
        if not files:
            continue
        if not keep_tests:
            for t in glob.glob(os.path.join(pdir, "*_test.go")):
                replace[t] = ""
        for f in files:
            replace[os.path.join(pdir, "zz_verif_" + os.path.basename(f))] = f
    for v in VIRTUAL:
        hdir = os.path.join(VERIF, "harness", v)
        for f in sorted(glob.glob(os.path.join(hdir, "*.go"))):
            replace[os.path.join(REPO, "internal", "verif", v, os.path.basename(f))] = f
    extra = os.environ.get("VERIF_EXTRA_OVERLAY")
    if extra:
        with open(extra) as fh:
            replace.update(json.load(fh)["Replace"])
    with open(out, "w") as fh:
        json.dump({"Replace": replace}, fh, indent=1)


if __name__ == "__main__":
    main()
